#!/bin/bash
# Runs every kept seeded change (/verif/seeded/<Cxx>_<name>/patch.diff) through the check of its
# property and prints one line per seed: DETECTED (with the first rule that fired) or MISSED.
cd /verif
for d in seeded/*/; do
  id=$(basename $d); prop=${id%%_*}
  [ -f $d/patch.diff ] || continue
  out=$(LINES_MAX=400 tools/try_seed.sh /verif/$d/patch.diff $prop 2>&1)
  if echo "$out" | grep -q "^VIOLATION rule"; then
    echo "DETECTED $id $(echo "$out" | grep "^VIOLATION rule" | sed 's/^VIOLATION rule=\([^ ]*\) .*/\1/' | sort -u | tr '\n' ' ')"
  else
    echo "MISSED   $id $(echo "$out" | grep "^== " | head -1)"
  fi
done
