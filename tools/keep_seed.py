#!/usr/bin/env python3
"""usage: keep_seed.py <Cxx> <mN> <detected|missed> <rules/notes...>
Copies a confirmed seeded change from /tmp/wt/out/<Cxx>/<mN> to /verif/seeded/<Cxx>_<mN>/ with meta.json."""
import json, os, shutil, sys, glob
pid, m, status = sys.argv[1:4]
note = " ".join(sys.argv[4:])
base = os.environ.get("OUTBASE", "/tmp/wt/out")
src = "%s/%s/%s" % (base, pid, m)
dst = "/verif/seeded/%s_%s%s" % (pid, os.environ.get("SEEDPREFIX", ""), m)
os.makedirs(dst, exist_ok=True)
for f in [x for x in glob.glob(src + "/*") if os.path.isfile(x)]:
    if os.path.basename(f).startswith("confirm_"):
        continue
    shutil.copy(f, dst)
logs = {}
for k in ("base", "suite", "mut"):
    p = "%s/confirm_%s.log" % (src, k)
    if os.path.exists(p):
        logs[k] = open(p).read()[-1500:]
notes = open(src + "/notes.md").read() if os.path.exists(src + "/notes.md") else ""
meta = {
    "property": pid,
    "seed": m,
    "origin": "independent sub-agent given only the property text and a scratch worktree of the pinned commit",
    "needs_to_manifest": notes[:1500],
    "confirmed_by_me": {
        "ran": "tools/confirm_seed.sh %s %s (scratch worktree /tmp/wt/%s): demo on pinned tree passes; patch applies; build with and without adapter tags; existing suite (server, db/common, drafty, ringhash) still ok; demo fails with the change" % (pid, m, pid),
        "demo_on_pinned_tail": logs.get("base", "")[-400:],
        "suite_with_change_tail": logs.get("suite", "")[-400:],
        "demo_with_change_tail": logs.get("mut", "")[-1200:],
    },
    "checker_result": status,
    "checker_detail": note,
}
json.dump(meta, open(dst + "/meta.json", "w"), indent=1)
print("kept", dst)
