#!/bin/bash
# usage: try_seed.sh <patch.diff> <Cxx> [Cyy...]  — applies a seeded change to /repo, runs the checks, reverts.
export GOFLAGS=-mod=mod GOPROXY=off GOSUMDB=off GOTOOLCHAIN=local
patch=$1; shift
cd /repo || exit 2
if [ -n "$(git status --porcelain)" ]; then echo "/repo not clean"; exit 2; fi
if ! git apply "$patch" 2>/dev/null; then
  if ! git apply -3 "$patch" >/dev/null 2>&1; then echo "PATCH DOES NOT APPLY: $patch"; git checkout -- . ; exit 3; fi
  git reset -q
fi
for p in "$@"; do
  out=$(/verif/bin/verifchk check $p --verif ${VERIF_SCRATCH:-/tmp/verif_scratch} 2>&1)
  rc=$?
  echo "== $p rc=$rc"
  echo "$out" | grep -v "^KNOWN-FINDING" | head -${LINES_MAX:-8}
done
git checkout -- . ; git clean -fdq server >/dev/null 2>&1
