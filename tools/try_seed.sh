#!/bin/bash
# usage: try_seed.sh <patch.diff> <Cxx> [Cyy...]  — applies a seeded change to /repo, runs the checks, reverts.
# If the patch no longer applies to /repo's HEAD (a fix: commit touched the same lines), the check is run
# with --repo on a scratch worktree of the pinned commit, with and without the patch, and the
# violations that appear only with the patch are printed.
export GOFLAGS=-mod=mod GOPROXY=off GOSUMDB=off GOTOOLCHAIN=local
patch=$1; shift
scratch=${VERIF_SCRATCH:-/tmp/verif_scratch}
mkdir -p $scratch; cp /verif/known_findings.json $scratch/
cd /repo || exit 2
if [ -n "$(git status --porcelain)" ]; then echo "/repo not clean"; exit 2; fi
applied=0
if git apply "$patch" 2>/dev/null; then applied=1
elif git apply -3 "$patch" >/dev/null 2>&1 && [ -z "$(git diff --name-only --diff-filter=U)" ]; then git reset -q; applied=1
else git checkout -q -- . 2>/dev/null; git reset -q --hard HEAD >/dev/null 2>&1; fi
if [ $applied = 1 ]; then
  for p in "$@"; do
    out=$(/verif/bin/verifchk check $p --verif $scratch 2>&1); rc=$?
    echo "== $p rc=$rc (on HEAD + seed)"
    echo "$out" | grep -v "^KNOWN-FINDING" | head -${LINES_MAX:-8}
  done
  git checkout -- . ; git clean -fdq server >/dev/null 2>&1
  exit 0
fi
echo "(patch does not apply to HEAD; evaluating on the pinned commit in a scratch worktree)"
wt=/tmp/wt/eval_$$
git worktree add -q --detach $wt 406bd03 || exit 3
for p in "$@"; do
  /verif/bin/verifchk check $p --repo $wt --verif $scratch 2>&1 | grep "^VIOLATION rule" | sed 's/ at [^ ]*:/ :/' | sort > $scratch/base_$p.txt
done
(cd $wt && git apply "$patch") || { echo "PATCH DOES NOT APPLY to pinned commit"; git worktree remove --force $wt; exit 3; }
for p in "$@"; do
  /verif/bin/verifchk check $p --repo $wt --verif $scratch 2>&1 | grep "^VIOLATION rule" | sed 's/ at [^ ]*:/ :/' | sort > $scratch/seed_$p.txt
  new=$(comm -13 $scratch/base_$p.txt $scratch/seed_$p.txt)
  if [ -n "$new" ]; then echo "== $p rc=1 (pinned + seed; violations not present on the pinned tree:)"; echo "$new" | head -${LINES_MAX:-8}; else echo "== $p rc=0 (pinned + seed: no new violation)"; fi
done
git worktree remove --force $wt
