#!/bin/sh
# Thorough tier: same rules plus the extra passes described in DESIGN.md section 3.3.
export GOFLAGS=-mod=mod GOPROXY=off GOSUMDB=off GOTOOLCHAIN=local GOWORK=off
exec /verif/bin/verifchk check "$1" --tier thorough
