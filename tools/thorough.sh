#!/bin/bash
# Thorough tier for one property: (1) the property's rules on /repo's current working tree - this
# alone decides the exit status; (2) self-test of the check on scratch copies of the *current* tree:
# every kept seeded change of the property must add a violation, every kept behaviour-preserving
# refactoring of the property must add none. The self-test is reported (stdout, evidence/selftest)
# but never changes the exit status: it speaks about the checker, not about /repo.
export GOFLAGS=-mod=mod GOPROXY=off GOSUMDB=off GOTOOLCHAIN=local GOWORK=off
id=$1
[ -x /verif/bin/verifchk ] || /verif/tools/setup.sh >/dev/null 2>&1
/verif/bin/verifchk check "$id" --tier thorough
rc=$?
[ -n "$VERIF_NO_SELFTEST" ] && exit $rc

tmp=$(mktemp -d "${TMPDIR:-/tmp}/verif_thorough_${id}_XXXXXX") || exit $rc
trap 'rm -rf "$tmp"' EXIT
mkdir -p "$tmp/tree" "$tmp/v"
# the current working tree without git metadata and without anything ignored by the build
(cd /repo && tar --exclude=.git -cf - go.mod go.sum server pbx 2>/dev/null) | tar -xf - -C "$tmp/tree"
cp /verif/known_findings.json "$tmp/v/"
viol() { /verif/bin/verifchk check "$id" --repo "$tmp/tree" --verif "$tmp/v" 2>&1 | grep -a "^VIOLATION rule" | sed 's/ at [^ ]*:[0-9]*:/ :/' | sort -u; }
viol > "$tmp/base.txt"
applied=0; skipped=0; sd=0; sm=0; rs=0; ra=0; lines=""
try() { # $1 patch  -> 0 applied, 1 not
  (cd "$tmp/tree" && git apply --whitespace=nowarn "$1" 2>/dev/null) || return 1
  if ! (cd "$tmp/tree/server" && go build ./... >/dev/null 2>&1); then (cd "$tmp/tree" && git apply -R "$1" 2>/dev/null); return 1; fi
  return 0
}
for d in /verif/seeded/${id}_*/; do
  [ -f "$d/patch.diff" ] || continue
  name=$(basename "$d")
  expect=$(python3 -c "import json,sys; print(json.load(open('$d/meta.json')).get('checker_result','detected'))" 2>/dev/null)
  if try "$d/patch.diff"; then
    applied=$((applied+1)); viol > "$tmp/cur.txt"
    new=$(comm -13 "$tmp/base.txt" "$tmp/cur.txt" | wc -l)
    if [ "$new" -gt 0 ]; then sd=$((sd+1)); lines="$lines\nSELFTEST seed $name: detected ($new new violation(s))";
    elif [ "$expect" = "missed" ] || [ "$expect" = "skipped" ]; then lines="$lines\nSELFTEST seed $name: not detected (recorded as outside what the check decides, or no longer a violation on the current tree)";
    else sm=$((sm+1)); lines="$lines\nSELFTEST seed $name: NOT DETECTED"; fi
    (cd "$tmp/tree" && git apply -R "$d/patch.diff" 2>/dev/null)
  else skipped=$((skipped+1)); lines="$lines\nSELFTEST seed $name: skipped (does not apply to / build on the current tree)"; fi
done
for d in /verif/refactors/r${id}_*/ /verif/refactors/h${id}_*/ /verif/refactors/g${id}_*/ /verif/refactors/k${id}_*/ /verif/refactors/m${id}_*/ /verif/refactors/n${id}_*/ /verif/refactors/p${id}_*/ /verif/refactors/q${id}_*/ /verif/refactors/t${id}_*/ /verif/refactors/u${id}_*/; do
  [ -f "$d/patch.diff" ] || continue
  name=$(basename "$d")
  if try "$d/patch.diff"; then
    applied=$((applied+1)); viol > "$tmp/cur.txt"
    new=$(comm -13 "$tmp/base.txt" "$tmp/cur.txt" | wc -l)
    if [ "$new" -eq 0 ]; then rs=$((rs+1)); lines="$lines\nSELFTEST refactoring $name: silent";
    else ra=$((ra+1)); lines="$lines\nSELFTEST refactoring $name: ALARM ($new new violation(s))"; fi
    (cd "$tmp/tree" && git apply -R "$d/patch.diff" 2>/dev/null)
  else skipped=$((skipped+1)); lines="$lines\nSELFTEST refactoring $name: skipped (does not apply to / build on the current tree)"; fi
done
printf "$lines\n" | sed '/^$/d'
echo "SELFTEST $id variants_applied=$applied seeds_detected=$sd seeds_missed=$sm refactorings_silent=$rs refactorings_alarmed=$ra skipped=$skipped"
python3 - "$id" "$applied" "$sd" "$sm" "$rs" "$ra" "$skipped" <<'PY'
import json,sys
id,applied,sd,sm,rs,ra,sk=sys.argv[1:8]
p='/verif/evidence/%s.json'%id
try:
    e=json.load(open(p))
    e.setdefault('coverage',{})['selftest']={'variants_applied':int(applied),'seeded_changes_detected':int(sd),'seeded_changes_missed':int(sm),'refactorings_silent':int(rs),'refactorings_alarmed':int(ra),'skipped':int(sk),'note':'scratch copies of the current tree; does not affect the verdict'}
    json.dump(e,open(p,'w'),indent=1)
except Exception as ex:
    print('selftest: evidence not updated:',ex)
PY
exit $rc
