#!/bin/bash
# usage: par_corpus.sh refactors|seeds [workers]
# Runs the kept refactorings (every check must stay silent) or the kept seeded changes (the
# property's check must fire) on private worktrees of /repo's HEAD, several at a time.
# /repo itself is not touched. Worktrees live under /tmp/wt/par<i> and are removed at the end.
export GOFLAGS=-mod=mod GOPROXY=off GOSUMDB=off GOTOOLCHAIN=local
mode=$1; N=${2:-6}
ids=$(python3 -c "import json; print(' '.join(c['property_id'] for c in json.load(open('/verif/MANIFEST.json'))['checks']))")
[ -n "$CHECKS" ] && ids="$CHECKS"   # CHECKS="C08 C12": run only these checks (refactors / cross modes)
# mode "cross": every check on every seeded change (which other properties' checks fire, and why)
if [ "$mode" = refactors ]; then list=$(ls -d ${REFDIR:-/verif/refactors}/${ONLY:-}*/); else list=$(ls -d ${SEEDDIR:-/verif/seeded}/${ONLY:-}*/); fi
out=/tmp/par_corpus_$mode; rm -rf $out; mkdir -p $out
worker() {
  i=$1; wt=/tmp/wt/par$i; sc=/tmp/verif_scratch_par$i; mkdir -p $sc; cp /verif/known_findings.json $sc/
  # several workers start at once and git serialises worktree creation with a lock file: retry
  okwt=""
  for try in 1 2 3 4 5 6; do
    if (cd /repo && git worktree remove --force $wt >/dev/null 2>&1; rm -rf $wt; git worktree prune; git worktree add -q --detach $wt HEAD) 2>/dev/null; then okwt=1; break; fi
    sleep $((try + i % 3))
  done
  [ -n "$okwt" ] || { echo "WORKER $i: no worktree" > $out/_worker_$i.txt; return; }
  # baseline violations per property (normally none)
  n=0
  for d in $list; do
    n=$((n+1)); [ $((n % N)) -eq $((i % N)) ] || continue
    name=$(basename $d); p=$d/patch.diff; [ -f $p ] || continue
    cd $wt; git checkout -q -- . ; git clean -fdq .
    if ! git apply $p 2>/dev/null; then
      if git apply -3 $p >/dev/null 2>&1 && [ -z "$(git diff --name-only --diff-filter=U)" ]; then git reset -q; else git checkout -q -- . ; git reset -q --hard HEAD >/dev/null 2>&1; echo "SKIP $name (does not apply to HEAD)" > $out/$name.txt; continue; fi
    fi
    if ! (cd server && go build ./... >/dev/null 2>&1); then echo "SKIP $name (does not build)" > $out/$name.txt; continue; fi
    if [ "$mode" = refactors ] || [ "$mode" = cross ]; then
      res=""
      for pid in $ids; do
        v=$(${BIN:-/verif/bin/verifchk} check $pid --repo $wt --verif $sc 2>&1 | grep -a "^VIOLATION rule" | cut -c1-${W:-260})
        [ -n "$v" ] && res="$res\n[$pid]\n$v"
      done
      if [ -z "$res" ]; then echo "SILENT $name" > $out/$name.txt; else printf "ALARM $name$res\n" > $out/$name.txt; fi
    else
      pid=${name%%_*}
      v=$(${BIN:-/verif/bin/verifchk} check $pid --repo $wt --verif $sc 2>&1 | grep -a "^VIOLATION rule" | sed 's/^VIOLATION rule=\([^ ]*\) .*/\1/' | sort -u | tr '\n' ' ')
      if [ -n "$v" ]; then echo "DETECTED $name $v" > $out/$name.txt; else echo "MISSED $name" > $out/$name.txt; fi
    fi
  done
  cd /repo && git worktree remove --force $wt >/dev/null 2>&1
}
for i in $(seq 1 $N); do worker $i & done
wait
cat $out/*.txt
