#!/usr/bin/env python3
"""Regenerates /verif/MANIFEST.json from tools/claims.json (one entry per claimed property)
and tools/not_applicable.json. Keeps the manifest valid at all times."""
import json, os, sys
here = os.path.dirname(os.path.abspath(__file__))
verif = os.path.dirname(here)
claims = json.load(open(os.path.join(here, "claims.json")))
na = json.load(open(os.path.join(here, "not_applicable.json")))
props = [json.loads(l)["id"] for l in open(os.path.join(verif, "properties.jsonl"))]
claimed = {c["property_id"] for c in claims}
for p in props:
    if p not in claimed and p not in {n["property_id"] for n in na}:
        sys.exit("property %s neither claimed nor not_applicable" % p)
checks = []
for c in claims:
    pid = c["property_id"]
    checks.append({
        "property_id": pid,
        "quick_cmd": "/verif/bin/verifchk check %s --tier quick" % pid,
        "thorough_cmd": "/verif/tools/thorough.sh %s" % pid,
        "evidence_file": "/verif/evidence/%s.json" % pid,
        "replay_cmd_template": "cat {path}",
        "engine": "verifchk",
        "level_claimed": {"category": "other", "text": c["text"], "design_ref": c.get("design_ref", "DESIGN.md section 5 " + pid)},
        "level_note": c["note"],
        "technique": c["technique"],
    })
m = {
    "version": 1,
    "setup_cmd": "/verif/tools/setup.sh",
    "hooks": {
        "guard": "verif",
        "enable": "no hooks: the checker only reads /repo's sources (go/packages with -tags 'mysql postgres mongodb rethinkdb')",
        "baseline_off_cmd": "cd /repo/server && GOFLAGS=-mod=mod GOPROXY=off GOSUMDB=off go test -vet=off -count=1 -timeout 25m ./...",
        "source_commits": [],
        "add_only": True,
    },
    "engines": [{
        "name": "verifchk",
        "path": "/verif/checker",
        "serves_properties": sorted(claimed),
        "kind_free_text": "repository-specific static analyser over go/packages + go/ssa + VTA call graph: guard-cut reachability, must-pass-through, field/callee census with roles, goroutine confinement, lock sets, transaction bracketing, provenance slices, constant folding, sibling-table agreement",
    }],
    "checks": checks,
    "not_applicable": [n for n in na if n["property_id"] not in claimed],
    "notes": "All claims are level 'other': structural necessary conditions decided on every path of the type-checked program; the behavioural clauses that quantify over runtime values/schedules are named as not decided in each level_note and in DESIGN.md section 5/7.",
}
json.dump(m, open(os.path.join(verif, "MANIFEST.json"), "w"), indent=1)
print("MANIFEST.json: %d checks, %d not_applicable" % (len(checks), len(m["not_applicable"])))
