#!/usr/bin/env python3
"""usage: claim.py <id> <technique> <text> <note>  — adds/replaces a claim and regenerates MANIFEST.json"""
import json, os, sys, subprocess
here = os.path.dirname(os.path.abspath(__file__))
pid, tech, text, note = sys.argv[1:5]
p = os.path.join(here, "claims.json")
cl = [c for c in json.load(open(p)) if c["property_id"] != pid]
cl.append({"property_id": pid, "text": text, "note": note, "technique": tech})
cl.sort(key=lambda c: c["property_id"])
json.dump(cl, open(p, "w"), indent=1)
subprocess.check_call([sys.executable, os.path.join(here, "gen_manifest.py")])
