#!/bin/bash
# Runs every registered quick check in parallel (8 at a time) and prints one line per property.
cd /verif
ids=$(python3 -c "import json; print(' '.join(c['property_id'] for c in json.load(open('MANIFEST.json'))['checks']))")
fail=0
printf '%s\n' $ids | xargs -P 8 -I{} sh -c '/verif/bin/verifchk check {} --tier ${VERIF_TIER:-quick} > /tmp/verif_run_{}.log 2>&1; echo "{} rc=$? $(tail -2 /tmp/verif_run_{}.log | grep tier= | cut -c1-140)"' | sort
