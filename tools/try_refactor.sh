#!/bin/bash
# usage: try_refactor.sh <patch.diff>  — applies a behaviour-preserving refactoring to /repo (3-way),
# runs ALL checks, reverts. Every check must stay silent (rc=0).
export GOFLAGS=-mod=mod GOPROXY=off GOSUMDB=off GOTOOLCHAIN=local
patch=$1
scratch=/tmp/verif_scratch_r; mkdir -p $scratch; cp /verif/known_findings.json $scratch/
cd /repo || exit 2
[ -n "$(git status --porcelain)" ] && { echo "/repo not clean"; exit 2; }
if ! git apply "$patch" 2>/dev/null; then
  if git apply -3 "$patch" >/dev/null 2>&1 && [ -z "$(git diff --name-only --diff-filter=U)" ]; then git reset -q; else git checkout -q -- . ; git reset -q --hard HEAD; echo "SKIP (does not apply to HEAD): $patch"; exit 3; fi
fi
(cd server && go build ./... ) || { echo "BUILD FAILS with $patch"; git checkout -- .; exit 4; }
ids=$(python3 -c "import json; print(' '.join(c['property_id'] for c in json.load(open('/verif/MANIFEST.json'))['checks']))")
printf '%s\n' $ids | xargs -P 8 -I{} sh -c "/verif/bin/verifchk check {} --verif $scratch > $scratch/{}.log 2>&1 || echo ALARM {}"
for p in $ids; do grep "^VIOLATION rule" $scratch/$p.log | cut -c1-${W:-330}; done
git checkout -- . ; git clean -fdq server >/dev/null 2>&1
