#!/bin/sh
# Builds the checker offline from files on disk only.
set -e
export GOFLAGS=-mod=mod GOPROXY=off GOSUMDB=off GOTOOLCHAIN=local GOWORK=off
cd /verif/checker
mkdir -p /verif/bin /verif/evidence
go build -o /verif/bin/verifchk ./cmd/verifchk
echo "built /verif/bin/verifchk"
