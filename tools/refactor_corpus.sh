#!/bin/bash
# Runs every behaviour-preserving refactoring under /tmp/wt/outr (and /verif/refactors) through all checks.
for p in $(ls -d /verif/refactors/*/ 2>/dev/null); do
  [ -f $p/patch.diff ] || continue
  echo "#### $p"
  W=${W:-230} /verif/tools/try_refactor.sh $p/patch.diff
done
