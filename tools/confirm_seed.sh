#!/bin/bash
# usage: confirm_seed.sh <Cxx> <mN> [wt-base]
# Confirms a seeded change in the scratch worktree /tmp/wt/<Cxx>: demo passes on the pinned tree,
# change compiles (with adapter tags), existing suite still passes, demo fails with the change.
export GOFLAGS=-mod=mod GOPROXY=off GOSUMDB=off GOTOOLCHAIN=local
id=$1; m=$2; wt=${WT:-/tmp/wt/$id}; ob=${OUTBASE:-/tmp/wt/out}; out=$ob/$id/$m
cd $wt || exit 2
git checkout -q -- . ; git clean -fdq .
demos=$(ls $out/*_test.go 2>/dev/null)
[ -z "$demos" ] && { echo "NO DEMO in $out"; exit 2; }
declare -A pkgdir=( [main]=server [store]=server/store [types]=server/store/types [mysql]=server/db/mysql [postgres]=server/db/postgres [ringhash]=server/ringhash [token]=server/auth/token [code]=server/auth/code [basic]=server/auth/basic [media]=server/media [fs]=server/media/fs [drafty]=server/drafty [common]=server/db/common [auth]=server/auth)
dirs=""; tests=""; tags=""
for d in $demos; do
  p=$(grep -m1 '^package ' $d | awk '{print $2}'); p=${p%_test}
  dir=${pkgdir[$p]}
  hint=$(grep -ho "server/[a-z_/]*/$(basename $d)" $out/notes.md 2>/dev/null | head -1)
  [ -n "$hint" ] && dir=$(dirname $hint)
  [ -z "$dir" ] && { echo "unknown package $p for $d"; exit 2; }
  cp $d $wt/$dir/
  dirs="$dirs ./$dir"
  t=$(grep -ho '^func Test[A-Za-z0-9_]*' $d | sed 's/func //' | paste -sd'|')
  tests="$tests|$t"
  tg=$(grep -m1 '^//go:build' $d | sed 's#//go:build ##')
  [ -n "$tg" ] && tags="$tg"
done
tests=${tests#|}
dirs=$(echo $dirs | tr ' ' '\n' | sort -u | tr '\n' ' ')
run_demo() { go test -vet=off -count=1 -tags "$tags" -run "^($tests)\$" $dirs 2>&1 | tail -40; return ${PIPESTATUS[0]}; }
echo "--- demo on pinned tree ($dirs tests=$tests tags=$tags)"
run_demo > $out/confirm_base.log; rc1=$?
git apply $out/patch.diff || { echo "PATCH FAILS TO APPLY"; exit 3; }
echo "--- build with change"
(cd server && go build ./... && go build -tags "mysql postgres mongodb rethinkdb" ./...) || { echo "BUILD FAILS"; rcb=1; }
echo "--- existing suite with change (demo moved aside)"
mkdir -p /tmp/wt/aside_$id; for d in $demos; do find $wt/server -name $(basename $d) -exec mv {} /tmp/wt/aside_$id/ \; ; done
(cd server && go test -vet=off -count=1 . ./db/common ./drafty ./ringhash 2>&1 | tail -5) > $out/confirm_suite.log; rc2=${PIPESTATUS[0]}
grep -q "^FAIL\|FAIL	" $out/confirm_suite.log && rc2=1 || rc2=0
for d in $demos; do p=$(grep -m1 '^package ' $d | awk '{print $2}'); p=${p%_test}; dir=${pkgdir[$p]}; hint=$(grep -ho "server/[a-z_/]*/$(basename $d)" $out/notes.md 2>/dev/null | head -1); [ -n "$hint" ] && dir=$(dirname $hint); cp $d $wt/$dir/; done
echo "--- demo with change"
run_demo > $out/confirm_mut.log; rc3=$?
git checkout -q -- . ; git clean -fdq . ; rm -rf /tmp/wt/aside_$id
echo "RESULT $id/$m: demo_on_pinned_rc=$rc1 (want 0) build_fail=${rcb:-0} suite_fail=$rc2 (want 0) demo_with_change_rc=$rc3 (want !=0)"
if [ $rc1 -eq 0 ] && [ -z "$rcb" ] && [ $rc2 -eq 0 ] && [ $rc3 -ne 0 ]; then echo "CONFIRMED $id/$m"; else echo "NOT CONFIRMED $id/$m"; fi
