#!/bin/bash
# usage: try_seed_wt.sh <patch.diff> <Cxx> [Cyy...] — like try_seed.sh but on a private worktree of
# /repo's HEAD (/tmp/wt/evalhead), so that it can run while /repo is in use. Prints the violations
# that appear only with the patch.
export GOFLAGS=-mod=mod GOPROXY=off GOSUMDB=off GOTOOLCHAIN=local
patch=$1; shift
wt=${EVAL_WT:-/tmp/wt/evalhead}; scratch=${VERIF_SCRATCH:-/tmp/verif_scratch_wt}; bin=${VERIFCHK:-/verif/bin/verifchk}
mkdir -p $scratch; cp /verif/known_findings.json $scratch/
cd $wt || exit 2
git checkout -q -- . ; git clean -fdq .
if ! git apply "$patch" 2>/dev/null; then
  if git apply -3 "$patch" >/dev/null 2>&1 && [ -z "$(git diff --name-only --diff-filter=U)" ]; then git reset -q; else git checkout -q -- . ; git reset -q --hard HEAD >/dev/null 2>&1; echo "PATCH DOES NOT APPLY to HEAD: $patch"; exit 3; fi
fi
for p in "$@"; do
  out=$($bin check $p --repo $wt --verif $scratch 2>&1); rc=$?
  echo "== $p rc=$rc"
  echo "$out" | grep "^VIOLATION rule" | cut -c1-${W:-300} | head -${LINES_MAX:-6}
done
git checkout -q -- . ; git clean -fdq .
