package main

import (
	"testing"

	"github.com/tinode/chat/server/store/types"
)

// D25 probe (goes in server/, package main): the hub forwards {del what=topic} to the live topic
// when - by its own, unsynchronised reading of Topic.owner - the requester is not the owner. If
// ownership moved to the requester while the request was in transit (the requester accepted a
// transfer with a {set} just before), the topic finds it IS the owner: the code logged
// "SHOULD NOT HAPPEN" and returned without answering the request.
func TestProbeD25DelTopicByNewOwnerIsAnswered(t *testing.T) {
	topicName := "grpTest"
	helper := TopicTestHelper{}
	helper.setUp(t, 2, types.TopicCatGrp, topicName, true)
	defer helper.tearDown()
	uid := helper.uids[1]
	helper.topic.owner = uid // ownership arrived while the {del} was queued

	helper.topic.handleMeta(&ClientComMessage{
		Del:      &MsgClientDel{Id: "d1", Topic: topicName, What: "topic"},
		Id:       "d1",
		Original: topicName,
		AsUser:   uid.UserId(),
		MetaWhat: constMsgDelTopic,
		sess:     helper.sessions[1],
		init:     true,
	})
	helper.finish()
	if n := len(helper.results[1].messages); n != 1 {
		t.Fatalf("{del topic} id=d1: %d replies, want exactly one", n)
	}
}
