package main

import (
	"testing"

	"github.com/tinode/chat/server/store/types"
)

// D16 probe: in a p2p topic a {pub} arrives on behalf of a user who is not a participant
// (possible for a root session: extra.asUser). The denial path renders the topic name with
// Topic.original(asUid), which panics for a non-participant.
func TestProbeD16P2POriginalPanics(t *testing.T) {
	helper := TopicTestHelper{}
	helper.setUp(t, 2, types.TopicCatP2P, "p2pTest", true)
	defer helper.tearDown()
	stranger := types.Uid(777)
	defer func() {
		if r := recover(); r != nil {
			t.Errorf("topic goroutine would die: panic %v", r)
		}
	}()
	helper.topic.handleClientMsg(&ClientComMessage{
		AsUser:   stranger.UserId(),
		Original: "p2pTest",
		Pub:      &MsgClientPub{Topic: "p2pTest", Content: "x"},
		sess:     helper.sessions[0],
	})
	helper.finish()
}
