package main

import (
	"testing"
	"time"

	"github.com/tinode/chat/pbx"
)

// D24 probe (goes in server/, package main): a timestamp sent in milliseconds over gRPC must be
// read as the same instant as in JSON. int64ToTime passed the millisecond remainder to time.Unix
// as nanoseconds.
func TestProbeD24GrpcTimestampMilliseconds(t *testing.T) {
	when := time.Date(2024, 5, 6, 7, 8, 9, 123*int(time.Millisecond), time.UTC)
	if got := int64ToTime(timeToInt64(&when)); got == nil || !got.Equal(when) {
		t.Errorf("int64ToTime(timeToInt64(%v)) = %v", when, got)
	}
	// as part of a request: {get desc ims=...}
	q := pbGetQueryDeserialize(&pbx.GetQuery{What: "desc", Desc: &pbx.GetOpts{IfModifiedSince: when.UnixNano() / int64(time.Millisecond)}})
	if q == nil || q.Desc == nil || q.Desc.IfModifiedSince == nil || !q.Desc.IfModifiedSince.Equal(when) {
		t.Errorf("get.desc.ims over gRPC = %+v, want %v", q, when)
	}
}
