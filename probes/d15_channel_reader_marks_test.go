package main

import (
	"testing"

	"github.com/golang/mock/gomock"
	"github.com/tinode/chat/server/store/types"
)

// D15 probe: a channel reader sends {note read 8} and then a stale {note read 5}.
// The second note must be dropped; the real code stores ReadSeqId=5 (mark moves backwards).
func TestProbeD15ChannelReaderMarksRegress(t *testing.T) {
	topicName := "grpTest"
	chanName := "chnTest"
	numUsers := 3
	helper := TopicTestHelper{}
	helper.setUp(t, numUsers, types.TopicCatGrp, topicName, true)
	helper.topic.isChan = true
	defer helper.tearDown()
	helper.topic.lastID = 10
	from := helper.uids[0]
	for i := 1; i < numUsers; i++ {
		uid := helper.uids[i]
		pud := helper.topic.perUser[uid]
		pud.modeGiven = types.ModeCChnReader
		pud.isChan = true
		helper.topic.perUser[uid] = pud
	}
	var stored []int
	helper.ss.EXPECT().Update(chanName, from, gomock.Any()).DoAndReturn(func(topic string, uid types.Uid, upd map[string]any) error {
		stored = append(stored, upd["ReadSeqId"].(int))
		return nil
	}).AnyTimes()
	for _, seq := range []int{8, 5} {
		helper.topic.handleClientMsg(&ClientComMessage{
			AsUser:   from.UserId(),
			Original: chanName,
			Note:     &MsgClientNote{Topic: chanName, What: "read", SeqId: seq},
			sess:     helper.sessions[0],
		})
	}
	helper.finish()
	if len(stored) != 1 || stored[0] != 8 {
		t.Errorf("stored ReadSeqId sequence = %v, want [8] (the stale note 5 must be dropped)", stored)
	}
}
