package main

import (
	"testing"

	"github.com/golang/mock/gomock"
	"github.com/tinode/chat/server/store/types"
)

// D26 probe (goes in server/, package main): a {note read 8} from a user whose received mark is 3
// moves the cached received mark to 8 as well (read <= recv) but stores only ReadSeqId (the
// existing tests pin that update), so the store holds read=8, recv=3. {get sub} reports the stored
// marks: the client must still be told read <= recv.
func TestProbeD26StoredMarksReportedClamped(t *testing.T) {
	topicName := "grpTest"
	helper := TopicTestHelper{}
	helper.setUp(t, 2, types.TopicCatGrp, topicName, true)
	defer helper.tearDown()
	helper.topic.lastID = 10
	uid := helper.uids[0]

	// what the store holds after {note read 8} on marks read=2 recv=3
	subs := []types.Subscription{{
		User: uid.String(), Topic: topicName,
		ModeWant: types.ModeCFull, ModeGiven: types.ModeCFull,
		ReadSeqId: 8, RecvSeqId: 3,
	}}
	helper.tt.EXPECT().GetUsers(topicName, gomock.Any()).Return(subs, nil).AnyTimes()

	helper.topic.handleMeta(&ClientComMessage{
		Get:      &MsgClientGet{Id: "g1", Topic: topicName, MsgGetQuery: MsgGetQuery{What: "sub"}},
		Id:       "g1",
		Original: topicName,
		AsUser:   uid.UserId(),
		MetaWhat: constMsgMetaSub,
		sess:     helper.sessions[0],
	})
	helper.finish()

	for _, m := range helper.results[0].messages {
		sm, ok := m.(*ServerComMessage)
		if !ok || sm.Meta == nil {
			continue
		}
		for _, s := range sm.Meta.Sub {
			if s.ReadSeqId > s.RecvSeqId {
				t.Errorf("{meta sub} reports read=%d > recv=%d", s.ReadSeqId, s.RecvSeqId)
			}
			return
		}
	}
	t.Fatalf("no {meta sub} in %+v", helper.results[0].messages)
}
