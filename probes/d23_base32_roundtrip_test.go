package types

import "testing"

// D23 probe (goes in server/store/types/, package types): the base32 spelling of an id must decode
// back to the same id. String32 lower-cases the standard encoding; ParseUid32 used the standard
// (upper-case) alphabet on the lower-case text and returned the zero id.
func TestProbeD23Base32RoundTrip(t *testing.T) {
	for _, uid := range []Uid{1, 2, 255, 256, 123456789, 0x7fffffffffffffff, 0xfedcba9876543210} {
		if got := ParseUid32(uid.String32()); got != uid {
			t.Errorf("ParseUid32(%q) = %d, want %d", uid.String32(), uint64(got), uint64(uid))
		}
	}
}
