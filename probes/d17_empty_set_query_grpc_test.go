package main

import (
	"testing"

	"github.com/tinode/chat/pbx"
)

// D17: a gRPC {set} whose query is present but carries nothing makes pbSetQueryDeserialize return
// nil, which pbCliDeserialize dereferences at once.
func TestProbeD17EmptySetQueryOverGrpc(t *testing.T) {
	defer func() {
		if r := recover(); r != nil {
			t.Fatalf("pbCliDeserialize panicked on a {set} with an empty query: %v", r)
		}
	}()
	pkt := &pbx.ClientMsg{Message: &pbx.ClientMsg_Set{Set: &pbx.ClientSet{Id: "1", Topic: "me", Query: &pbx.SetQuery{}}}}
	msg := pbCliDeserialize(pkt)
	if msg == nil || msg.Set == nil {
		t.Fatalf("unexpected result %+v", msg)
	}
}
