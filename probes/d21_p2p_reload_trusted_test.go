package main

import (
	"testing"

	"github.com/golang/mock/gomock"
	"github.com/tinode/chat/server/store"
	"github.com/tinode/chat/server/store/mock_store"
	"github.com/tinode/chat/server/store/types"
)

// D21 probe (goes in server/, package main): a p2p topic whose two subscriptions exist is loaded
// from the store (initTopicP2P, "case 4"). The store hands out each subscription with the other
// user's public and trusted already swapped in. The per-user records built when the topic was
// first created carry both; the records built on reload must too, or {get desc} loses `trusted`
// (e.g. the "verified" mark) merely because the topic was unloaded in between.
func TestProbeD21ReloadedP2PKeepsTrusted(t *testing.T) {
	ctrl := gomock.NewController(t)
	defer ctrl.Finish()
	tt := mock_store.NewMockTopicsPersistenceInterface(ctrl)
	store.Topics = tt
	defer func() { store.Topics = nil }()

	u1, u2 := types.Uid(10), types.Uid(20)
	name := u1.P2PName(u2)
	subs := []types.Subscription{
		{User: u1.String(), Topic: name, ModeWant: types.ModeCP2P, ModeGiven: types.ModeCP2P, Private: "p1"},
		{User: u2.String(), Topic: name, ModeWant: types.ModeCP2P, ModeGiven: types.ModeCP2P, Private: "p2"},
	}
	subs[0].SetPublic(map[string]any{"fn": "User Two"})
	subs[0].SetTrusted(map[string]any{"verified": true})
	subs[1].SetPublic(map[string]any{"fn": "User One"})
	subs[1].SetTrusted(map[string]any{"staff": true})
	tt.EXPECT().Get(name).Return(&types.Topic{ObjHeader: types.ObjHeader{Id: name}, SeqId: 5}, nil)
	tt.EXPECT().GetUsers(name, gomock.Any()).Return(subs, nil)

	topic := &Topic{name: name, xoriginal: u2.UserId(), perUser: map[types.Uid]perUserData{}}
	sreg := &ClientComMessage{AsUser: u1.UserId(), Sub: &MsgClientSub{Topic: u2.UserId()}}
	if err := initTopicP2P(topic, sreg); err != nil {
		t.Fatal(err)
	}
	for i, uid := range []types.Uid{u1, u2} {
		pud := topic.perUser[uid]
		if pud.public == nil || pud.private == nil {
			t.Fatalf("user %d: public/private not loaded: %+v", i, pud)
		}
		if pud.trusted == nil {
			t.Errorf("user %d: the stored 'trusted' %v is not in the reloaded topic (a topic created in memory has it)", i, subs[i].GetTrusted())
		}
	}
}
