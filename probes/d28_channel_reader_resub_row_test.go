package main

import (
	"testing"

	"github.com/golang/mock/gomock"
	"github.com/tinode/chat/server/auth"
	"github.com/tinode/chat/server/store/types"
)

// D28 probe (goes in server/, package main): a channel reader who is already cached in the live
// topic (perUser record with isChan true) sends {sub chnTest set.sub.mode:"JR"} to drop the P bit.
// The reader's row lives under "chnTest"; which row does the acknowledged change go to?
func TestProbeD28ChannelReaderResubUpdatesOwnRow(t *testing.T) {
	topicName := "grpTest"
	chanName := "chnTest"
	helper := TopicTestHelper{}
	helper.setUp(t, 2, types.TopicCatGrp, topicName, false)
	helper.topic.isChan = true
	defer helper.tearDown()

	s := helper.sessions[1]
	uid := helper.uids[1]
	pud := helper.topic.perUser[uid]
	pud.isChan = true
	pud.modeWant = types.ModeCChnReader
	pud.modeGiven = types.ModeCChnReader
	helper.topic.perUser[uid] = pud

	var rows []string
	helper.ss.EXPECT().Update(gomock.Any(), uid, gomock.Any()).DoAndReturn(
		func(topic string, _ types.Uid, _ map[string]any) error {
			rows = append(rows, topic)
			return nil
		}).AnyTimes()

	join := &ClientComMessage{
		Original: chanName,
		Sub: &MsgClientSub{
			Id:    "id456",
			Topic: chanName,
			Set:   &MsgSetQuery{Sub: &MsgSetSub{Mode: "JR"}},
		},
		AsUser:  uid.UserId(),
		AuthLvl: int(auth.LevelAuth),
		sess:    s,
		init:    true,
	}
	helper.topic.registerSession(join)
	helper.finish()

	if got := helper.topic.perUser[uid].modeWant; got == types.ModeCChnReader {
		t.Skipf("the request did not change the cached mode (still %v): nothing to check", got)
	}
	if len(rows) == 0 {
		t.Fatalf("cached modeWant changed to %v but no Subs.Update was issued", helper.topic.perUser[uid].modeWant)
	}
	for _, row := range rows {
		if row != chanName {
			t.Errorf("Subs.Update addressed row %q; the channel reader's row is %q", row, chanName)
		}
	}
}
