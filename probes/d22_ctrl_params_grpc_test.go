package main

import (
	"testing"
	"time"

	"github.com/golang/mock/gomock"
	"github.com/tinode/chat/server/store/types"
)

// D22 probe (goes in server/, package main): replies whose ctrl.params are built as
// map[string]string / map[string]int. The JSON rendering carries them; the protobuf rendering
// (pbServSerialize, what a gRPC client receives) must carry the same values.
func TestProbeD22CtrlParamsSurviveGrpc(t *testing.T) {
	now := time.Now()
	// 303 "use other": the client is told which topic to use instead.
	if p := pbServSerialize(InfoUseOther("1", "usrABC", "p2pXYZ", now, now)).GetCtrl().GetParams(); string(p["topic"]) != `"p2pXYZ"` {
		t.Errorf("303 use other over gRPC: params = %v, JSON clients get {\"topic\":\"p2pXYZ\"}", p)
	}

	// {del what=msg}: the reply carries the id of the delete transaction.
	topicName := "grpTest"
	helper := TopicTestHelper{}
	helper.setUp(t, 2, types.TopicCatGrp, topicName, true)
	defer helper.tearDown()
	helper.topic.lastID = 10
	uid := helper.uids[0]
	helper.mm.EXPECT().DeleteList(topicName, 1, gomock.Any(), gomock.Any()).Return(nil)
	helper.topic.handleMeta(&ClientComMessage{
		Del: &MsgClientDel{
			Id:     "d1",
			Topic:  topicName,
			What:   "msg",
			DelSeq: []MsgDelRange{{LowId: 3, HiId: 5}},
		},
		AsUser:   uid.UserId(),
		MetaWhat: constMsgDelMsg,
		sess:     helper.sessions[0],
	})
	helper.finish()
	var reply *ServerComMessage
	for _, m := range helper.results[0].messages {
		if sm, ok := m.(*ServerComMessage); ok && sm.Ctrl != nil {
			reply = sm
		}
	}
	if reply == nil || reply.Ctrl.Code != 200 {
		t.Fatalf("no 200 reply to {del}: %+v", helper.results[0].messages)
	}
	if p := pbServSerialize(reply).GetCtrl().GetParams(); string(p["del"]) != "1" {
		t.Errorf("{del} reply over gRPC: params = %v, JSON clients get %v", p, reply.Ctrl.Params)
	}
}
