package types

import "testing"

// D31 probe (goes in server/store/types/, package types): ParseAcs stopped reading at the first
// 'N'; whatever followed - other mode letters, unknown characters - was ignored and the text was
// accepted as "no access". {set sub mode:"NRW"} bans the sender instead of being refused.
func TestProbeD31JunkAfterNIsRejected(t *testing.T) {
	for _, s := range []string{"N1", "N?", "NJ", "nRW", "N "} {
		m := ModeCFull
		if err := m.UnmarshalText([]byte(s)); err == nil {
			t.Errorf("%q accepted (target now %v)", s, m)
		} else if m != ModeCFull {
			t.Errorf("%q rejected but the target changed to %v", s, m)
		}
	}
	for _, s := range []string{"N", "n"} {
		m := ModeCFull
		if err := m.UnmarshalText([]byte(s)); err != nil || m != ModeNone {
			t.Errorf("%q: err=%v mode=%v, expected N", s, err, m)
		}
	}
}
