package main

import (
	"sync"
	"testing"

	"github.com/golang/mock/gomock"
	"github.com/tinode/chat/server/auth"
	"github.com/tinode/chat/server/auth/mock_auth"
	"github.com/tinode/chat/server/store"
	"github.com/tinode/chat/server/store/mock_store"
	"github.com/tinode/chat/server/store/types"
)

// D30 probe (goes in server/, package main): {acc user:"new"} whose authentication record cannot
// be added (the login was taken between IsUnique and AddRecord, or the secret violates the policy):
// the user row is deleted again - and what is the client told?
func TestProbeD30AccAddRecordFailedIsNotAnswered200(t *testing.T) {
	ctrl := gomock.NewController(t)
	ss := mock_store.NewMockPersistentStorageInterface(ctrl)
	uu := mock_store.NewMockUsersPersistenceInterface(ctrl)
	aa := mock_auth.NewMockAuthHandler(ctrl)

	uid := types.Uid(1)
	store.Store = ss
	store.Users = uu
	defer func() {
		store.Store = nil
		store.Users = nil
		ctrl.Finish()
	}()

	remoteAddr := "192.168.0.1"
	secret := "<==auth-secret==>"
	ss.EXPECT().GetLogicalAuthHandler("basic").Return(aa)
	aa.EXPECT().IsUnique([]byte(secret), remoteAddr).Return(true, nil)
	uu.EXPECT().Create(gomock.Any(), gomock.Any()).DoAndReturn(
		func(user *types.User, private any) (*types.User, error) {
			user.SetUid(uid)
			return user, nil
		})
	// The login was taken in the meantime.
	aa.EXPECT().AddRecord(gomock.Any(), []byte(secret), remoteAddr).Return(nil, types.ErrDuplicate)
	// The clean-up of the incomplete account succeeds.
	uu.EXPECT().Delete(uid, true).Return(nil)

	s := &Session{
		send:       make(chan any, 10),
		authLvl:    auth.LevelAuth,
		ver:        16,
		remoteAddr: remoteAddr,
	}
	wg := sync.WaitGroup{}
	r := responses{}
	wg.Add(1)
	go s.testWriteLoop(&r, &wg)

	s.dispatch(&ClientComMessage{
		Acc: &MsgClientAcc{
			Id:     "123",
			User:   "newXYZ",
			Scheme: "basic",
			Secret: []byte(secret),
			Desc:   &MsgSetDesc{Public: "public name"},
		},
	})
	close(s.send)
	wg.Wait()

	if len(r.messages) != 1 {
		t.Fatalf("responses: expected 1, received %d", len(r.messages))
	}
	resp := r.messages[0].(*ServerComMessage)
	if resp.Ctrl == nil {
		t.Fatalf("expected a {ctrl}, got %+v", resp)
	}
	if resp.Ctrl.Code < 400 {
		t.Errorf("the account could not be created (login taken, user row removed again) and the client was answered %d %q", resp.Ctrl.Code, resp.Ctrl.Text)
	}
}
