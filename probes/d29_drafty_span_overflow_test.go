package drafty

import (
	"encoding/json"
	"testing"
)

// D29 probe (goes in server/drafty/, package drafty): message content is rendered into push
// previews by PlainText / Preview (push/fcm/payload.go, in the push adapter's goroutine, which has
// no recover). A style whose at+len overflows wraps the span's end negative, passes the range
// check of toTree and indexes the text out of range.
func TestProbeD29SpanEndOverflow(t *testing.T) {
	for _, src := range []string{
		`{"txt":"hi","fmt":[{"at":2000,"len":9223372036854774784,"tp":"ST"}]}`,
		`{"txt":"hi","fmt":[{"at":1,"len":9223372036854775807,"tp":"EM"}]}`,
	} {
		var content any
		if err := json.Unmarshal([]byte(src), &content); err != nil {
			t.Fatal(err)
		}
		for name, f := range map[string]func() error{
			"PlainText": func() error { _, err := PlainText(content); return err },
			"Preview":   func() error { _, err := Preview(content, 10); return err },
		} {
			func() {
				defer func() {
					if r := recover(); r != nil {
						t.Errorf("%s panics on %s: %v", name, src, r)
					}
				}()
				if err := f(); err == nil {
					t.Errorf("%s accepted %s", name, src)
				}
			}()
		}
	}
}
