package main

import (
	"errors"
	"testing"

	"github.com/golang/mock/gomock"
	"github.com/tinode/chat/server/store/types"
)

// D20 probe (goes in server/, package main): {set desc public:{fn:"new"}} on a 'me' topic whose
// cached public is the map {fn:"old"}; the store write fails. The request is answered with an
// error, the database keeps "old" - the live topic must keep "old" too. The real code merged the
// new value into the cached map in place before the write.
func TestProbeD20FailedSetDescLeavesCachedPublic(t *testing.T) {
	topicName := "usrMe"
	helper := TopicTestHelper{}
	helper.setUp(t, 1, types.TopicCatMe, topicName, true)
	defer helper.tearDown()
	uid := helper.uids[0]
	helper.topic.public = map[string]any{"fn": "old", "note": map[string]any{"a": "1"}}
	helper.uu.EXPECT().Update(uid, gomock.Any()).Return(errors.New("db is down")).AnyTimes()

	helper.topic.handleMeta(&ClientComMessage{
		Set: &MsgClientSet{
			Id:    "id1",
			Topic: topicName,
			MsgSetQuery: MsgSetQuery{
				Desc: &MsgSetDesc{Public: map[string]any{"fn": "new", "note": map[string]any{"a": "2"}}},
			},
		},
		AsUser:   uid.UserId(),
		MetaWhat: constMsgMetaDesc,
		sess:     helper.sessions[0],
	})
	helper.finish()

	r := helper.results[0]
	if len(r.messages) != 1 {
		t.Fatalf("responses: expected 1, got %d", len(r.messages))
	}
	if msg := r.messages[0].(*ServerComMessage); msg.Ctrl == nil || msg.Ctrl.Code < 500 {
		t.Fatalf("expected a 5xx reply to the failed update, got %+v", msg.Ctrl)
	}
	pub := helper.topic.public.(map[string]any)
	if pub["fn"] != "old" {
		t.Errorf("cached public.fn after a FAILED store write: %v (the store still holds \"old\")", pub["fn"])
	}
	if nested, _ := pub["note"].(map[string]any); nested["a"] != "1" {
		t.Errorf("cached public.note.a after a FAILED store write: %v (the store still holds \"1\")", nested["a"])
	}
}
