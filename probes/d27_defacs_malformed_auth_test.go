package main

import (
	"testing"

	"github.com/golang/mock/gomock"
	"github.com/tinode/chat/server/store/types"
)

// D27 probe (goes in server/, package main): the owner of a group sends
// {set desc defacs:{auth:"JRWZ?", anon:"N"}}. "JRWZ?" is not an access mode; the same request
// without the anon part is answered 400 (malformed). With a well-formed anon part the error of
// the auth part was overwritten by the nil of the anon part: the request was answered 200 and the
// malformed part silently dropped.
func TestProbeD27MalformedAuthDefacsIsRefused(t *testing.T) {
	if _, _, err := parseTopicAccess(&MsgDefaultAcsMode{Auth: "JRWZ?"}, types.ModeUnset, types.ModeUnset); err == nil {
		t.Fatalf("precondition: a malformed auth mode alone must be an error")
	}
	if _, _, err := parseTopicAccess(&MsgDefaultAcsMode{Auth: "JRWZ?", Anon: "N"}, types.ModeUnset, types.ModeUnset); err == nil {
		t.Errorf("parseTopicAccess(auth malformed, anon well-formed): no error")
	}

	topicName := "grpTest"
	helper := TopicTestHelper{}
	helper.setUp(t, 1, types.TopicCatGrp, topicName, true)
	defer helper.tearDown()
	uid := helper.uids[0]
	helper.topic.owner = uid
	helper.tt.EXPECT().Update(topicName, gomock.Any()).Return(nil).AnyTimes()

	helper.topic.handleMeta(&ClientComMessage{
		Set: &MsgClientSet{
			Id:    "id1",
			Topic: topicName,
			MsgSetQuery: MsgSetQuery{
				Desc: &MsgSetDesc{DefaultAcs: &MsgDefaultAcsMode{Auth: "JRWZ?", Anon: "N"}},
			},
		},
		AsUser:   uid.UserId(),
		MetaWhat: constMsgMetaDesc,
		sess:     helper.sessions[0],
		init:     true,
	})
	helper.finish()

	r := helper.results[0]
	if len(r.messages) != 1 {
		t.Fatalf("responses: expected 1, got %d", len(r.messages))
	}
	if msg := r.messages[0].(*ServerComMessage); msg.Ctrl == nil || msg.Ctrl.Code != 400 {
		t.Errorf("expected 400 (malformed) for defacs.auth=\"JRWZ?\", got %+v", msg.Ctrl)
	}
}
