// Goes into server/store/types (package types). Probe for D18: RangeSorter.Normalize on sorted
// half-open ranges [Low, Hi) (Hi == 0: the single id Low).
package types

import (
	"sort"
	"testing"
)

func idsOf(rs []Range) map[int]bool {
	out := map[int]bool{}
	for _, r := range rs {
		if r.Hi == 0 {
			out[r.Low] = true
			continue
		}
		for i := r.Low; i < r.Hi; i++ {
			out[i] = true
		}
	}
	return out
}

func TestD18NormalizeKeepsExactlyTheUnion(t *testing.T) {
	cases := [][]Range{
		{{Low: 1, Hi: 5}, {Low: 2, Hi: 4}, {Low: 10, Hi: 12}}, // (a) range after a merged one is dropped
		{{Low: 1, Hi: 4}, {Low: 5, Hi: 7}},                    // (b) id 4 is not requested
		{{Low: 1, Hi: 5}, {Low: 5}},                           // (c) single id right after a range is lost
	}
	for ci, in := range cases {
		want := idsOf(in)
		cp := append([]Range{}, in...)
		sort.Sort(RangeSorter(cp))
		got := idsOf(RangeSorter(cp).Normalize())
		for id := range want {
			if !got[id] {
				t.Errorf("case %d: id %d requested but not in the normalised ranges", ci, id)
			}
		}
		for id := range got {
			if !want[id] {
				t.Errorf("case %d: id %d in the normalised ranges but never requested", ci, id)
			}
		}
	}
}
