// verifchk decides structural clauses of the tinode/chat properties by static analysis of
// /repo's current working tree. Usage: verifchk check <Cxx> [--tier quick|thorough]
package main

import (
	"fmt"
	"os"
	"path/filepath"
	"runtime/pprof"
	"sort"
	"strconv"
	"strings"

	"verifchk/core"
	"verifchk/rules"
)

func main() {
	if pf := os.Getenv("VERIF_CPUPROFILE"); pf != "" {
		if f, err := os.Create(pf); err == nil {
			pprof.StartCPUProfile(f)
		}
	}
	rc := realMain()
	pprof.StopCPUProfile()
	os.Exit(rc)
}

func realMain() int {
	if len(os.Args) >= 3 && os.Args[1] == "callers" {
		prog, err := core.Load("/repo")
		if err != nil {
			fmt.Println(err)
			return 2
		}
		cg := prog.CallGraph()
		for _, fn := range prog.ModFuncs {
			if !strings.Contains(core.FuncKey(fn), os.Args[2]) {
				continue
			}
			fmt.Println("==", core.FuncKey(fn))
			if n := cg.Nodes[fn]; n != nil {
				for _, e := range n.In {
					fmt.Println("   <-", core.FuncKey(e.Caller.Func), prog.Pos(e.Site.Pos()), fmt.Sprintf("%T", e.Site))
				}
			}
		}
		return 0
	}
	if len(os.Args) >= 2 && os.Args[1] == "slices" {
		prog, err := core.Load("/repo")
		if err != nil {
			fmt.Println(err)
			return 2
		}
		rules.DebugSlices(prog)
		rules.DebugPanics(prog)
		return 0
	}
	if len(os.Args) >= 2 && os.Args[1] == "modes" {
		prog, err := core.Load("/repo")
		if err != nil {
			fmt.Println(err)
			return 2
		}
		rules.DebugModes(prog)
		rules.DebugClamp(prog)
		return 0
	}
	if len(os.Args) < 3 || os.Args[1] != "check" {
		var ids []string
		for id := range rules.Registry {
			ids = append(ids, id)
		}
		sort.Strings(ids)
		fmt.Fprintf(os.Stderr, "usage: verifchk check <property> [--tier quick|thorough] [--repo dir] [--verif dir]\nproperties: %v\n", ids)
		return 2
	}
	prop := os.Args[2]
	tier := os.Getenv("VERIF_TIER")
	if tier == "" {
		tier = "quick"
	}
	repo := "/repo"
	verif := "/verif"
	if exe, err := os.Executable(); err == nil {
		if d := filepath.Dir(filepath.Dir(exe)); fileExists(filepath.Join(d, "known_findings.json")) {
			verif = d
		}
	}
	for i := 3; i < len(os.Args); i++ {
		switch os.Args[i] {
		case "--tier":
			i++
			tier = os.Args[i]
		case "--repo":
			i++
			repo = os.Args[i]
		case "--verif":
			i++
			verif = os.Args[i]
		}
	}
	if tier != "quick" && tier != "thorough" {
		tier = "quick"
	}
	seed, _ := strconv.Atoi(os.Getenv("VERIF_SEED"))
	run, ok := rules.Registry[prop]
	if !ok {
		fmt.Fprintf(os.Stderr, "unknown property %s\n", prop)
		return 2
	}
	rep, err := core.NewReport(prop, tier, seed, filepath.Join(verif, "known_findings.json"))
	if err != nil {
		fmt.Println("cannot read known findings:", err)
		fmt.Printf("VIOLATION property=%s replay=%s\n", prop, filepath.Join(verif, "known_findings.json"))
		return 1
	}
	prog, err := core.Load(repo)
	if err != nil {
		// a tree that does not load/type-check cannot be decided: fail, never pass vacuously
		rep.Fail("load", "packages.Load "+repo, "-", err.Error())
		return rep.Finish(verif)
	}
	rep.Extra["packages_loaded"] = len(prog.Pkgs)
	rep.Extra["module_functions"] = len(prog.ModFuncs)
	rep.Extra["load_s"] = prog.LoadSecs
	ctx := &rules.Ctx{P: prog, R: rep, Tier: tier}
	ctx.RunSafely(run)
	return rep.Finish(verif)
}

func fileExists(p string) bool {
	_, err := os.Stat(p)
	return err == nil
}
