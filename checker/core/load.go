// Package core holds the generic static-analysis engines used by the property rules.
// Nothing in this package executes code of the analysed repository: it only loads,
// type-checks and builds the SSA form of /repo's current working tree.
package core

import (
	"fmt"
	"go/ast"
	"go/token"
	"go/types"
	"os"
	"sort"
	"strings"
	"time"

	"golang.org/x/tools/go/callgraph"
	"golang.org/x/tools/go/callgraph/cha"
	"golang.org/x/tools/go/callgraph/vta"
	"golang.org/x/tools/go/packages"
	"golang.org/x/tools/go/ssa"
	"golang.org/x/tools/go/ssa/ssautil"
)

const ModPath = "github.com/tinode/chat"

// Prog is the loaded, type-checked program in SSA form.
type Prog struct {
	RepoDir  string
	Fset     *token.FileSet
	Pkgs     []*packages.Package // initial (module) packages
	ByPath   map[string]*packages.Package
	SSA      *ssa.Program
	SSAPkgs  map[string]*ssa.Package
	ModFuncs []*ssa.Function // every function (incl. closures, methods) of module packages
	cg       *callgraph.Graph
	LoadSecs float64
}

// Load loads ./server/... and ./pbx of the repository at dir with the adapter build tags on.
func Load(dir string) (*Prog, error) {
	t0 := time.Now()
	os.Unsetenv("GOWORK")
	env := append(os.Environ(), "GOFLAGS=-mod=mod", "GOPROXY=off", "GOSUMDB=off", "GOTOOLCHAIN=local", "GOWORK=off")
	cfg := &packages.Config{
		Mode:       packages.LoadSyntax | packages.NeedModule,
		Dir:        dir,
		Env:        env,
		BuildFlags: []string{"-tags=mysql postgres mongodb rethinkdb"},
		Tests:      false,
	}
	pkgs, err := packages.Load(cfg, "./server/...", "./pbx")
	if err != nil {
		return nil, fmt.Errorf("packages.Load: %w", err)
	}
	if len(pkgs) < 25 {
		return nil, fmt.Errorf("only %d packages loaded from %s, expected >= 25", len(pkgs), dir)
	}
	p := &Prog{RepoDir: dir, ByPath: map[string]*packages.Package{}, SSAPkgs: map[string]*ssa.Package{}}
	var errs []string
	for _, pk := range pkgs {
		for _, e := range pk.Errors {
			errs = append(errs, pk.PkgPath+": "+e.Error())
		}
		if pk.IllTyped {
			errs = append(errs, pk.PkgPath+": ill-typed")
		}
		p.ByPath[pk.PkgPath] = pk
	}
	if len(errs) > 0 {
		sort.Strings(errs)
		if len(errs) > 20 {
			errs = errs[:20]
		}
		return nil, fmt.Errorf("type-check errors:\n  %s", strings.Join(errs, "\n  "))
	}
	p.Pkgs = pkgs
	p.Fset = pkgs[0].Fset
	prog, spkgs := ssautil.Packages(pkgs, ssa.InstantiateGenerics)
	for i, sp := range spkgs {
		if sp == nil {
			return nil, fmt.Errorf("no SSA package for %s", pkgs[i].PkgPath)
		}
		p.SSAPkgs[pkgs[i].PkgPath] = sp
	}
	prog.Build()
	p.SSA = prog
	for fn := range ssautil.AllFunctions(prog) {
		if fn.Pkg != nil && strings.HasPrefix(fn.Pkg.Pkg.Path(), ModPath) && fn.Blocks != nil {
			p.ModFuncs = append(p.ModFuncs, fn)
		} else if fn.Pkg == nil && fn.Blocks != nil {
			// wrappers / bound method thunks / instantiations: keep if origin is in module
			if o := fn.Origin(); o != nil && o.Pkg != nil && strings.HasPrefix(o.Pkg.Pkg.Path(), ModPath) {
				p.ModFuncs = append(p.ModFuncs, fn)
			} else if obj := fn.Object(); obj != nil && obj.Pkg() != nil && strings.HasPrefix(obj.Pkg().Path(), ModPath) {
				p.ModFuncs = append(p.ModFuncs, fn)
			}
		}
	}
	sort.Slice(p.ModFuncs, func(i, j int) bool { return FuncKey(p.ModFuncs[i]) < FuncKey(p.ModFuncs[j]) })
	AllModFuncs = p.ModFuncs
	fieldStoresMemo = nil
	allocsMemo = nil
	p.LoadSecs = time.Since(t0).Seconds()
	return p, nil
}

// FuncKey is a stable, position-free name of a function: pkg-relative path plus receiver and
// name; closures are numbered by go/ssa ("f$1").
func FuncKey(fn *ssa.Function) string {
	s := fn.String()
	s = strings.ReplaceAll(s, ModPath+"/", "")
	return s
}

// CallGraph returns the VTA call graph restricted to module functions (built lazily).
func (p *Prog) CallGraph() *callgraph.Graph {
	if p.cg == nil {
		fns := map[*ssa.Function]bool{}
		for _, f := range p.ModFuncs {
			fns[f] = true
		}
		p.cg = vta.CallGraph(fns, cha.CallGraph(p.SSA))
	}
	return p.cg
}

// Pkg returns the ssa package with module-relative path rel ("server", "server/store", ...).
func (p *Prog) Pkg(rel string) *ssa.Package {
	return p.SSAPkgs[ModPath+"/"+rel]
}

// TPkg returns the types.Package with module-relative path.
func (p *Prog) TPkg(rel string) *types.Package {
	if pk := p.ByPath[ModPath+"/"+rel]; pk != nil {
		return pk.Types
	}
	return nil
}

// Pos renders a position relative to the repository root.
func (p *Prog) Pos(pos token.Pos) string {
	if !pos.IsValid() {
		return "-"
	}
	ps := p.Fset.Position(pos)
	f := strings.TrimPrefix(ps.Filename, p.RepoDir+"/")
	return fmt.Sprintf("%s:%d", f, ps.Line)
}

// NamedType finds a named type by module-relative package path and name.
func (p *Prog) NamedType(rel, name string) *types.Named {
	tp := p.TPkg(rel)
	if tp == nil {
		return nil
	}
	o := tp.Scope().Lookup(name)
	if o == nil {
		return nil
	}
	n, _ := o.Type().(*types.Named)
	return n
}

// Field finds the field object of struct type rel.name.
func (p *Prog) Field(rel, typ, field string) *types.Var {
	n := p.NamedType(rel, typ)
	if n == nil {
		return nil
	}
	st, ok := n.Underlying().(*types.Struct)
	if !ok {
		return nil
	}
	for i := 0; i < st.NumFields(); i++ {
		if st.Field(i).Name() == field {
			return st.Field(i)
		}
	}
	return nil
}

// Method finds a method (concrete or interface) of named type rel.typ.
func (p *Prog) Method(rel, typ, name string) *types.Func {
	n := p.NamedType(rel, typ)
	if n == nil {
		return nil
	}
	var recv types.Type = types.NewPointer(n)
	if types.IsInterface(n) {
		recv = n
	}
	obj, _, _ := types.LookupFieldOrMethod(recv, true, n.Obj().Pkg(), name)
	f, _ := obj.(*types.Func)
	return f
}

// Func finds a package-level function.
func (p *Prog) Func(rel, name string) *types.Func {
	tp := p.TPkg(rel)
	if tp == nil {
		return nil
	}
	f, _ := tp.Scope().Lookup(name).(*types.Func)
	return f
}

// Global finds a package-level variable.
func (p *Prog) Global(rel, name string) *types.Var {
	tp := p.TPkg(rel)
	if tp == nil {
		return nil
	}
	v, _ := tp.Scope().Lookup(name).(*types.Var)
	return v
}

// Const finds a package-level constant.
func (p *Prog) Const(rel, name string) *types.Const {
	tp := p.TPkg(rel)
	if tp == nil {
		return nil
	}
	c, _ := tp.Scope().Lookup(name).(*types.Const)
	return c
}

// SSAFunc returns the ssa.Function of a types.Func.
func (p *Prog) SSAFunc(f *types.Func) *ssa.Function {
	if f == nil {
		return nil
	}
	return p.SSA.FuncValue(f)
}

// FileOf returns the syntax file containing pos.
func (p *Prog) FileOf(pos token.Pos) *ast.File {
	for _, pk := range p.Pkgs {
		for _, f := range pk.Syntax {
			if f.Pos() <= pos && pos <= f.End() {
				return f
			}
		}
	}
	return nil
}

// TopFunc returns the outermost enclosing function of a closure.
func TopFunc(fn *ssa.Function) *ssa.Function {
	for fn.Parent() != nil {
		fn = fn.Parent()
	}
	return fn
}
