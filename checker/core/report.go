package core

import (
	"encoding/json"
	"fmt"
	"os"
	"path/filepath"
	"sort"
	"strings"
	"time"
)

// Obligation is one statically decided proof obligation of a rule.
type Obligation struct {
	Rule      string `json:"rule"`
	Construct string `json:"construct"` // stable key: roles and typed entities, never a line number
	Pos       string `json:"pos"`       // file:line for the reader; not part of the key
	Status    string `json:"status"`    // OK | VIOLATION | KNOWN-FINDING | INFO
	Detail    string `json:"detail,omitempty"`
}

// Finding is an entry of /verif/known_findings.json.
type Finding struct {
	Property  string `json:"property"`
	Rule      string `json:"rule"`
	Construct string `json:"construct"`
	What      string `json:"what"`
}

// FixedEntry records a repaired defect; it suppresses nothing.
type FixedEntry struct {
	Property string `json:"property"`
	Commit   string `json:"commit"`
	What     string `json:"what"`
}

type KnownFile struct {
	Findings []Finding    `json:"findings"`
	Fixed    []FixedEntry `json:"fixed"`
}

// Report collects obligations for one property.
type Report struct {
	Property    string
	Tier        string
	Seed        int
	Start       time.Time
	Obls        []Obligation
	RuleCount   map[string]int // instances per rule
	Floors      map[string]int
	Funcs       map[string]bool // functions analysed
	CallSites   int
	Explanation string
	Assumptions []string
	Trusted     []string
	NotDecided  []string
	Extra       map[string]any
	known       []Finding
	usedKnown   map[int]bool
	scope       func(rule, construct string) bool
}

func NewReport(prop, tier string, seed int, knownPath string) (*Report, error) {
	r := &Report{Property: prop, Tier: tier, Seed: seed, Start: time.Now(),
		RuleCount: map[string]int{}, Floors: map[string]int{}, Funcs: map[string]bool{},
		Extra: map[string]any{}, usedKnown: map[int]bool{}}
	b, err := os.ReadFile(knownPath)
	if err != nil {
		return nil, err
	}
	var kf KnownFile
	if err := json.Unmarshal(b, &kf); err != nil {
		return nil, fmt.Errorf("%s: %w", knownPath, err)
	}
	for _, f := range kf.Findings {
		if f.Property == prop {
			r.known = append(r.known, f)
		}
	}
	return r, nil
}

// Scoped runs f with only the obligations for which keep returns true being recorded: a rule family
// shared with another property contributes to this property only the constructs that are a
// necessary condition of *this* property. Inside the scope instance floors are reduced to "at least
// one kept instance".
func (r *Report) Scoped(keep func(rule, construct string) bool, f func()) {
	saved := r.scope
	r.scope = keep
	defer func() { r.scope = saved }()
	f()
}

func (r *Report) dropped(rule, construct string) bool {
	return r.scope != nil && !r.scope(rule, construct)
}

// OK records a discharged obligation.
func (r *Report) OK(rule, construct, pos, detail string) {
	if r.dropped(rule, construct) {
		return
	}
	r.RuleCount[rule]++
	r.Obls = append(r.Obls, Obligation{rule, construct, pos, "OK", detail})
}

// Info records an information-only line (never affects the verdict).
func (r *Report) Info(rule, construct, pos, detail string) {
	if r.dropped(rule, construct) {
		return
	}
	r.Obls = append(r.Obls, Obligation{rule, construct, pos, "INFO", detail})
}

// Fail records a violated obligation; if it is listed in known_findings it is downgraded.
func (r *Report) Fail(rule, construct, pos, detail string) {
	if r.dropped(rule, construct) {
		return
	}
	r.RuleCount[rule]++
	st := "VIOLATION"
	for i, k := range r.known {
		if k.Rule == rule && k.Construct == construct {
			st = "KNOWN-FINDING"
			r.usedKnown[i] = true
			if detail == "" {
				detail = k.What
			}
		}
	}
	r.Obls = append(r.Obls, Obligation{rule, construct, pos, st, detail})
}

// Check is OK when cond holds, Fail otherwise.
func (r *Report) Check(cond bool, rule, construct, pos, okDetail, failDetail string) bool {
	if cond {
		r.OK(rule, construct, pos, okDetail)
	} else {
		r.Fail(rule, construct, pos, failDetail)
	}
	return cond
}

// Floor demands at least n instances (OK or failed) of a rule.
func (r *Report) Floor(rule string, n int) {
	if r.scope != nil && n > 1 {
		n = 1
	}
	r.Floors[rule] = n
}

func (r *Report) Func(name string) { r.Funcs[name] = true }

// Finish prints, writes evidence and replay and returns the exit code.
func (r *Report) Finish(verifDir string) int {
	// floors: a rule that matched fewer instances than confirmed by hand must not pass vacuously
	var frules []string
	for rule := range r.Floors {
		frules = append(frules, rule)
	}
	sort.Strings(frules)
	for _, rule := range frules {
		if r.RuleCount[rule] < r.Floors[rule] {
			r.Obls = append(r.Obls, Obligation{rule, "instance-floor", "-", "VIOLATION",
				fmt.Sprintf("rule matched %d instances, floor is %d: anchor lost or rule vacuous", r.RuleCount[rule], r.Floors[rule])})
		}
	}
	nOK, nViol, nKnown := 0, 0, 0
	sort.SliceStable(r.Obls, func(i, j int) bool {
		if r.Obls[i].Rule != r.Obls[j].Rule {
			return r.Obls[i].Rule < r.Obls[j].Rule
		}
		return r.Obls[i].Construct < r.Obls[j].Construct
	})
	var sb strings.Builder
	for _, o := range r.Obls {
		line := fmt.Sprintf("%s rule=%s construct=%q at %s", o.Status, o.Rule, o.Construct, o.Pos)
		if o.Detail != "" {
			line += ": " + o.Detail
		}
		sb.WriteString(line + "\n")
		switch o.Status {
		case "OK":
			nOK++
		case "VIOLATION":
			nViol++
			fmt.Println(line)
		case "KNOWN-FINDING":
			nKnown++
			fmt.Printf("KNOWN-FINDING: property=%s %s [%s] at %s: %s\n", r.Property, o.Construct, o.Rule, o.Pos, o.Detail)
		}
	}
	for i, k := range r.known {
		if !r.usedKnown[i] {
			// a listed finding that no longer fires is reported as information, never as an alarm
			sb.WriteString(fmt.Sprintf("INFO known finding no longer fires: rule=%s construct=%q\n", k.Rule, k.Construct))
		}
	}
	replayDir := filepath.Join(verifDir, "evidence", "replay")
	os.MkdirAll(replayDir, 0o755)
	replay := filepath.Join(replayDir, r.Property+".txt")
	os.WriteFile(replay, []byte(sb.String()), 0o644)

	total := nOK + nViol + nKnown
	var rules []string
	for k := range r.RuleCount {
		rules = append(rules, k)
	}
	sort.Strings(rules)
	ri := []map[string]any{}
	for _, k := range rules {
		ri = append(ri, map[string]any{"rule": k, "instances": r.RuleCount[k], "floor": r.Floors[k]})
	}
	samples := []Obligation{}
	seen := map[string]int{}
	for _, o := range r.Obls {
		if o.Status == "INFO" {
			continue
		}
		if seen[o.Rule] < 2 || o.Status != "OK" {
			samples = append(samples, o)
			seen[o.Rule]++
		}
	}
	if r.Assumptions == nil {
		r.Assumptions = append([]string{}, r.Trusted...)
	}
	if r.Trusted == nil {
		r.Trusted = []string{}
	}
	if r.NotDecided == nil {
		r.NotDecided = []string{}
	}
	fl := []string{}
	for f := range r.Funcs {
		fl = append(fl, f)
	}
	sort.Strings(fl)
	cov := map[string]any{
		"explanation":        r.Explanation,
		"obligations":        total,
		"discharged":         nOK,
		"known_findings":     nKnown,
		"violations":         nViol,
		"rule_instances":     ri,
		"functions_analysed": len(fl),
		"functions":          fl,
		"call_sites":         r.CallSites,
		"samples":            samples,
		"trusted_base":       r.Trusted,
		"not_decided":        r.NotDecided,
		"checker_cmd":        fmt.Sprintf("/verif/bin/verifchk check %s --tier %s", r.Property, r.Tier),
		"replay":             replay,
	}
	for k, v := range r.Extra {
		cov[k] = v
	}
	ev := map[string]any{
		"property_id": r.Property,
		"tier":        r.Tier,
		"seed":        r.Seed,
		"level":       "other",
		"coverage":    cov,
		"assumptions": r.Assumptions,
		"wall_s":      time.Since(r.Start).Seconds(),
		"violations":  nViol,
	}
	b, _ := json.MarshalIndent(ev, "", " ")
	os.MkdirAll(filepath.Join(verifDir, "evidence"), 0o755)
	if err := os.WriteFile(filepath.Join(verifDir, "evidence", r.Property+".json"), append(b, '\n'), 0o644); err != nil {
		fmt.Println("cannot write evidence:", err)
		return 2
	}
	fmt.Printf("%s tier=%s obligations=%d discharged=%d known=%d violations=%d functions=%d wall=%.1fs\n",
		r.Property, r.Tier, total, nOK, nKnown, nViol, len(fl), time.Since(r.Start).Seconds())
	if nViol > 0 {
		fmt.Printf("VIOLATION property=%s replay=%s\n", r.Property, replay)
		return 1
	}
	return 0
}
