package core

import (
	"fmt"
	"go/constant"
	"go/token"
	"go/types"
	"os"

	"golang.org/x/tools/go/ssa"
)

// Relational result summaries.
//
// A decision that is split from the action travels as data: a function returns several results
// (`reject, isCall := t.pubAdmission(msg)`) or a small verdict struct (`v := t.checkDelSub(..)`,
// `v.err`, `v.noAction`), and the caller branches on the components. The single-result summaries
// (CalleeImplies) relate one result to the guards passed inside the callee; the relational summary
// relates a *conjunction of constraints on components of the same call* - the branch under
// consideration plus the branches on other components of that call that dominate it - to the guards:
//
//	on every path through the callee that avoids the pass edges of the guards, at the return
//	reached at least one of the constraints is definitely false.
//
// The callee is walked path-sensitively (nil facts, the outcome of branches on named conditions,
// the value last stored into each field of a local struct variable, the incoming value selected at
// the phis that feed the results). A component whose value at the return is itself a guard atom
// with the passing polarity (`verdict.newTerm = health.Term > fo.term`) discharges that return.

// resComp is a component of the result of a static call of a module function, seen in the caller.
type resComp struct {
	call *ssa.Call
	idx  int
	path []int // field indices inside a returned struct (by value, or behind a returned pointer)
}

// compCons: component has class cls; kind "nil" (-1 nil, +1 non-nil), "bool" (+1 true, -1 false),
// "empty" (-1 the string is empty, +1 it is not).
type compCons struct {
	comp resComp
	kind string
	cls  int
	glob *ssa.Global // kind "sentinel": cls +1: errors.Is(component, glob) holds, -1: it does not
}

func compOf(v ssa.Value, depth int) (resComp, bool) {
	if depth > 6 {
		return resComp{}, false
	}
	if w, ok := ParamSubst[v]; ok && w != v {
		return compOf(w, depth+1)
	}
	switch x := v.(type) {
	case *ssa.Call:
		if inModule(x.Call.StaticCallee()) {
			return resComp{call: x}, true
		}
	case *ssa.Extract:
		if c, ok := x.Tuple.(*ssa.Call); ok && inModule(c.Call.StaticCallee()) {
			return resComp{call: c, idx: x.Index}, true
		}
	case *ssa.Field:
		if c, ok := compOf(x.X, depth+1); ok {
			c.path = append(append([]int{}, c.path...), x.Field)
			return c, true
		}
	case *ssa.UnOp:
		if x.Op != token.MUL {
			return resComp{}, false
		}
		if a, ok := x.X.(*ssa.Alloc); ok {
			// the whole local variable that holds a call's result
			if sv := soleStoredResult(a, x); sv != nil {
				return compOf(sv, depth+1)
			}
			return resComp{}, false
		}
		if fa, ok := x.X.(*ssa.FieldAddr); ok {
			if a, ok := fa.X.(*ssa.Alloc); ok {
				// `v := f(..)` kept in memory because its fields are addressed: v.fld
				sv := soleStoredResult(a, x)
				if sv == nil {
					return resComp{}, false
				}
				c, ok := compOf(sv, depth+1)
				if !ok {
					return resComp{}, false
				}
				c.path = append(append([]int{}, c.path...), fa.Field)
				return c, true
			}
			c, ok := compOf(fa.X, depth+1)
			if !ok {
				return resComp{}, false
			}
			// a field behind a returned pointer: the caller must not write that field
			fld, _ := FieldOfAddr(fa)
			if fld == nil || storesToFieldNamed(x.Parent(), fld.Name()) {
				return resComp{}, false
			}
			c.path = append(append([]int{}, c.path...), fa.Field)
			return c, true
		}
	case *ssa.ChangeType:
		return compOf(x.X, depth+1)
	}
	return resComp{}, false
}

// soleStoredResult: the local struct variable a is written exactly once, as a whole, and that store
// dominates the read at `use`; its fields are never written. Returns the stored value.
func soleStoredResult(a *ssa.Alloc, use ssa.Instruction) ssa.Value {
	if !trackableStruct(a) {
		return nil
	}
	var st *ssa.Store
	for _, r := range *a.Referrers() {
		switch x := r.(type) {
		case *ssa.Store:
			if st != nil {
				return nil
			}
			st = x
		case *ssa.FieldAddr:
			if x.Referrers() != nil {
				for _, fr := range *x.Referrers() {
					if _, ok := fr.(*ssa.Store); ok {
						return nil
					}
				}
			}
		}
	}
	if st == nil {
		return nil
	}
	if st.Block() == use.Block() {
		for _, in := range st.Block().Instrs {
			if in == ssa.Instruction(st) {
				return st.Val
			}
			if in == use {
				return nil
			}
		}
		return nil
	}
	if !st.Block().Dominates(use.Block()) {
		return nil
	}
	return st.Val
}

// sentinelOf: v is a load of a package-level variable of type error (a sentinel error).
func sentinelOf(v ssa.Value) *ssa.Global {
	for i := 0; i < 3; i++ {
		switch x := v.(type) {
		case *ssa.MakeInterface:
			v = x.X
			continue
		case *ssa.ChangeInterface:
			v = x.X
			continue
		case *ssa.UnOp:
			if x.Op == token.MUL {
				if g, ok := x.X.(*ssa.Global); ok {
					return g
				}
			}
		}
		break
	}
	return nil
}

func isEmptyStringConst(v ssa.Value) bool {
	k, ok := v.(*ssa.Const)
	return ok && k.Value != nil && k.Value.Kind() == constant.String && constant.StringVal(k.Value) == ""
}

// decodeCompAtom: the atom tests a component of a call result; clsTrue is the component's class
// when the atom is true.
func decodeCompAtom(a CondAtom) (compCons, bool) {
	switch a.Op {
	case token.ILLEGAL:
		if a.Val == nil {
			return compCons{}, false
		}
		// errors.Is(component, sentinel) / component == sentinel is handled below
		if call, ok := a.Val.(*ssa.Call); ok {
			if cal := call.Call.StaticCallee(); cal != nil && cal.Pkg != nil && cal.Pkg.Pkg.Path() == "errors" && cal.Name() == "Is" && len(call.Call.Args) == 2 {
				if g := sentinelOf(call.Call.Args[1]); g != nil {
					if c, ok := compOf(call.Call.Args[0], 0); ok {
						return compCons{comp: c, kind: "sentinel", cls: 1, glob: g}, true
					}
				}
			}
		}
		if bt, ok := a.Val.Type().Underlying().(*types.Basic); !ok || bt.Kind() != types.Bool {
			return compCons{}, false
		}
		if c, ok := compOf(a.Val, 0); ok {
			return compCons{comp: c, kind: "bool", cls: 1}, true
		}
	case token.EQL:
		x, y := a.X, a.Y
		if IsNil(x) || isEmptyStringConst(x) {
			x, y = y, x
		}
		if IsNil(y) {
			if c, ok := compOf(x, 0); ok {
				return compCons{comp: c, kind: "nil", cls: -1}, true
			}
		}
		if isEmptyStringConst(y) {
			if c, ok := compOf(x, 0); ok {
				return compCons{comp: c, kind: "empty", cls: -1}, true
			}
		}
		// err == sentinel
		if g := sentinelOf(y); g != nil {
			if c, ok := compOf(x, 0); ok {
				return compCons{comp: c, kind: "sentinel", cls: 1, glob: g}, true
			}
		}
		if g := sentinelOf(x); g != nil {
			if c, ok := compOf(y, 0); ok {
				return compCons{comp: c, kind: "sentinel", cls: 1, glob: g}, true
			}
		}
	}
	return compCons{}, false
}

// dominatingCompCons: the constraints on components of the same call fixed by the branches that
// dominate block b (an SSA value is immutable and the call dominates its uses, so the component
// tested there is the component tested at b).
func dominatingCompCons(b *ssa.BasicBlock, call *ssa.Call) []compCons {
	var out []compCons
	for _, d := range b.Parent().Blocks {
		if d == b || len(d.Instrs) == 0 {
			continue
		}
		ifi, ok := d.Instrs[len(d.Instrs)-1].(*ssa.If)
		if !ok {
			continue
		}
		a := NormCond(ifi.Cond)
		cc, ok := decodeCompAtom(a)
		if !ok || cc.comp.call != call {
			continue
		}
		for idx := 0; idx < 2; idx++ {
			su := d.Succs[idx]
			if len(su.Preds) != 1 || !su.Dominates(b) {
				continue
			}
			atomTrue := (idx == 0) != a.Negated
			c2 := cc
			if !atomTrue {
				c2.cls = -c2.cls
			}
			out = append(out, c2)
		}
	}
	return out
}

// summariseRelational adds the edges of `if <component of a call result>` on which the guards are
// implied, given the dominating constraints on the same call.
func summariseRelational(b *ssa.BasicBlock, a CondAtom, depth int, guards []Guard, edges map[Edge]bool, counts []int) {
	cc, ok := decodeCompAtom(a)
	if !ok {
		return
	}
	callee := cc.comp.call.Call.StaticCallee()
	if !inModule(callee) || callee == b.Parent() {
		return
	}
	dom := dominatingCompCons(b, cc.comp.call)
	if len(cc.comp.path) == 0 && len(dom) == 0 && cc.kind != "sentinel" {
		return // the single-result summaries cover it
	}
	if len(dom) > 0 {
		// the dominating branches alone decide it: this branch is not where the guard is tested (its
		// edges are neither pass nor fail edges)
		if ok, _ := relImplies(cc.comp.call, dom, depth, guards); ok {
			return
		}
	}
	for _, atomVal := range []bool{true, false} {
		condVal := atomVal != a.Negated
		e := Edge{b, 1}
		if condVal {
			e = Edge{b, 0}
		}
		if edges[e] {
			continue
		}
		c2 := cc
		if !atomVal {
			c2.cls = -c2.cls
		}
		cons := append(append([]compCons{}, dom...), c2)
		ok, innerCnt := relImplies(cc.comp.call, cons, depth, guards)
		if relDebug {
			names := ""
			for _, g := range guards {
				names += g.Name + ","
			}
			fmt.Fprintf(os.Stderr, "REL %s -> %s cons=%s guards=%s ok=%v cnt=%v\n", b.Parent().Name(), callee.Name(), consKey(cons), names, ok, innerCnt)
		}
		if !ok {
			continue
		}
		for gi := range guards {
			if innerCnt[gi] > 0 {
				counts[gi]++
			}
		}
		edges[e] = true
	}
}

var relDebug = os.Getenv("VERIF_RELDEBUG") != ""

type relKey struct {
	call  *ssa.Call
	cons  string
	names string
}

var relMemo = map[relKey]implyVal{}

func consKey(cons []compCons) string {
	s := ""
	for _, c := range cons {
		s += c.kind + string(rune('0'+c.comp.idx))
		for _, p := range c.comp.path {
			s += "." + string(rune('a'+p))
		}
		if c.glob != nil {
			s += "@" + c.glob.Name()
		}
		if c.cls > 0 {
			s += "+;"
		} else {
			s += "-;"
		}
	}
	return s
}

// relImplies: whenever all constraints hold for the results of this call, the callee passed a pass
// edge of one of the guards.
func relImplies(call *ssa.Call, cons []compCons, depth int, guards []Guard) (bool, []int) {
	memo := len(ParamSubst) == 0 && len(Assumed) == 0 && AssumeFn == nil && ExtraNilness == nil
	var key relKey
	if memo {
		names := ""
		for _, g := range guards {
			if g.Name == "" {
				memo = false
			}
			names += g.Name + "\x00"
		}
		key = relKey{call, consKey(cons), names}
		if v, ok := relMemo[key]; memo && ok {
			return v.ok, append([]int{}, v.cnt...)
		}
	}
	ok, cnt := relImplies1(call, cons, depth, guards)
	if memo {
		relMemo[key] = implyVal{ok, append([]int{}, cnt...)}
	}
	return ok, cnt
}

func relImplies1(call *ssa.Call, cons []compCons, depth int, guards []Guard) (bool, []int) {
	zero := make([]int, len(guards))
	callee := call.Call.StaticCallee()
	if depth > 3 || !inModule(callee) || implyActive[callee] {
		return false, zero
	}
	nres := callee.Signature.Results().Len()
	for _, c := range cons {
		if c.comp.idx >= nres {
			return false, zero
		}
	}
	implyActive[callee] = true
	defer delete(implyActive, callee)
	saved := ParamSubst
	ns := map[ssa.Value]ssa.Value{}
	for k, v := range saved {
		ns[k] = v
	}
	for i, p := range callee.Params {
		if i < len(call.Call.Args) {
			ns[p] = call.Call.Args[i]
		}
	}
	ParamSubst = ns
	defer func() { ParamSubst = saved }()

	cut, innerCnt := passEdgesDepth(callee, depth+1, guards...)
	for e := range assumedCuts(callee) {
		cut[e] = true
	}
	// cheap necessary condition: a guard matches a branch inside, or some boolean computed inside is
	// a guard atom (it may be what a component holds)
	any := false
	for _, n := range innerCnt {
		if n > 0 {
			any = true
		}
	}
	if !any {
		AllInstrs(callee, func(in ssa.Instruction) {
			if any {
				return
			}
			bo, ok := in.(*ssa.BinOp)
			if !ok {
				return
			}
			a := substTop(NormCond(bo))
			for _, g := range guards {
				if m, _ := g.Match(a); m {
					any = true
				}
			}
		})
	}
	if !any {
		return false, innerCnt
	}
	// the phis that feed the constrained results
	track := map[*ssa.Phi]bool{}
	{
		seen := map[ssa.Value]bool{}
		var visit func(v ssa.Value, d int)
		visit = func(v ssa.Value, d int) {
			if v == nil || seen[v] || d > 12 {
				return
			}
			seen[v] = true
			switch x := v.(type) {
			case *ssa.Phi:
				track[x] = true
				for _, e := range x.Edges {
					visit(e, d+1)
				}
			case *ssa.Field:
				visit(x.X, d+1)
			case *ssa.ChangeType:
				visit(x.X, d+1)
			case *ssa.UnOp:
				if x.Op == token.NOT {
					visit(x.X, d+1)
				}
				if x.Op == token.MUL {
					if a, ok := x.X.(*ssa.Alloc); ok && a.Referrers() != nil {
						for _, r := range *a.Referrers() {
							switch y := r.(type) {
							case *ssa.Store:
								visit(y.Val, d+1)
							case *ssa.FieldAddr:
								if y.Referrers() != nil {
									for _, fr := range *y.Referrers() {
										if st, ok := fr.(*ssa.Store); ok {
											visit(st.Val, d+1)
										}
									}
								}
							}
						}
					}
				}
			}
		}
		AllInstrs(callee, func(in ssa.Instruction) {
			if ret, ok := in.(*ssa.Return); ok {
				for _, c := range cons {
					if c.comp.idx < len(ret.Results) {
						visit(ret.Results[c.comp.idx], 0)
					}
				}
			}
		})
	}
	savedMax := MaxWalkStates
	MaxWalkStates = 6000
	savedRel := walkRelMode
	walkRelMode = &walkRel{trackPhi: track}
	defer func() { MaxWalkStates = savedMax; walkRelMode = savedRel }()

	violated := false // a return reached, off the pass edges, at which every constraint may hold
	anyRet := false
	wres := NilWalk(callee, nil, cut, nil, func(in ssa.Instruction, f NilFacts) {
		ret, ok := in.(*ssa.Return)
		if !ok || violated {
			return
		}
		anyRet = true
		last := CurLast
		for _, c := range cons {
			if c.comp.idx >= len(ret.Results) {
				violated = true
				return
			}
			may, discharged := consMayHold(ret, c, f, last, depth, guards, innerCnt)
			if !may || discharged {
				return // this return is fine
			}
		}
		violated = true
	})
	if wres.Overflow {
		return false, innerCnt
	}
	if !anyRet {
		hasRet := false
		AllInstrs(callee, func(in ssa.Instruction) {
			if _, ok := in.(*ssa.Return); ok {
				hasRet = true
			}
		})
		return hasRet, innerCnt
	}
	return !violated, innerCnt
}

// resolveComp follows a component of a returned value to the SSA value it holds on the current
// path: (value, isZeroValue, known).
func resolveComp(ret *ssa.Return, v ssa.Value, path []int, last map[ssa.Value]ssa.Value, f NilFacts) (ssa.Value, bool, bool) {
	for i := 0; i < 16; i++ {
		switch x := v.(type) {
		case *ssa.ChangeType:
			v = x.X
			continue
		case *ssa.Phi:
			if len(path) == 0 {
				// a fact about the merged value itself is more precise than its constituents
				if _, ok := f[x]; ok {
					return v, false, true
				}
				if _, ok := f[boolOf{x}]; ok {
					return v, false, true
				}
			}
			if sel, ok := last[x]; ok {
				v = sel
				continue
			}
			if len(path) == 0 {
				return v, false, true
			}
			return nil, false, false
		}
		if len(path) == 0 {
			return v, false, true
		}
		switch x := v.(type) {
		case *ssa.Field:
			v = x.X
			path = append([]int{x.Field}, path...)
			continue
		case *ssa.Const:
			if x.Value == nil {
				return nil, true, true // zero value of a struct
			}
			return nil, false, false
		case *ssa.UnOp:
			if x.Op != token.MUL {
				return nil, false, false
			}
			a, ok := x.X.(*ssa.Alloc)
			if !ok || !trackableStruct(a) || !loadIsCurrent(ret, x, a) {
				return nil, false, false
			}
			if sv, ok := last[fieldCell{a, path[0]}]; ok {
				v, path = sv, path[1:]
				continue
			}
			if whole, ok := last[a]; ok {
				v = whole
				continue
			}
			return nil, true, true // never written on this path: zero value
		case *ssa.Alloc:
			// a pointer to a fresh local struct is returned
			if !trackableStructEscapingOnlyByReturn(x) {
				return nil, false, false
			}
			if sv, ok := last[fieldCell{x, path[0]}]; ok {
				v, path = sv, path[1:]
				continue
			}
			return nil, true, true
		}
		return nil, false, false
	}
	return nil, false, false
}

// loadIsCurrent: the load of the struct variable happens in the block of the return and nothing is
// stored into the variable between the load and the return.
func loadIsCurrent(ret *ssa.Return, ld *ssa.UnOp, a *ssa.Alloc) bool {
	if ld.Block() != ret.Block() {
		return false
	}
	after := false
	for _, in := range ret.Block().Instrs {
		if in == ssa.Instruction(ld) {
			after = true
			continue
		}
		if !after {
			continue
		}
		if st, ok := in.(*ssa.Store); ok {
			if st.Addr == ssa.Value(a) {
				return false
			}
			if fa, ok := st.Addr.(*ssa.FieldAddr); ok && fa.X == ssa.Value(a) {
				return false
			}
		}
	}
	return true
}

// trackableStructEscapingOnlyByReturn: like trackableStruct, the address may also be returned.
func trackableStructEscapingOnlyByReturn(a *ssa.Alloc) bool {
	if a.Referrers() == nil {
		return false
	}
	if _, ok := a.Type().(*types.Pointer).Elem().Underlying().(*types.Struct); !ok {
		return false
	}
	for _, r := range *a.Referrers() {
		switch x := r.(type) {
		case *ssa.Return, *ssa.DebugRef:
		case *ssa.Phi:
			// merged into the returned value
			if x.Referrers() != nil {
				for _, pr := range *x.Referrers() {
					if _, ok := pr.(*ssa.Return); !ok {
						return false
					}
				}
			}
		case *ssa.UnOp:
			if x.Op != token.MUL {
				return false
			}
		case *ssa.Store:
			if x.Addr != ssa.Value(a) {
				return false
			}
		case *ssa.FieldAddr:
			if x.Referrers() == nil {
				continue
			}
			for _, fr := range *x.Referrers() {
				switch y := fr.(type) {
				case *ssa.Store:
					if y.Addr != ssa.Value(x) {
						return false
					}
				case *ssa.UnOp:
					if y.Op != token.MUL {
						return false
					}
				case *ssa.DebugRef:
				default:
					return false
				}
			}
		default:
			return false
		}
	}
	return true
}

// nonEmptyString: the string value certainly is not "".
func nonEmptyString(v ssa.Value, depth int) bool {
	if depth > 6 {
		return false
	}
	switch x := v.(type) {
	case *ssa.Const:
		return x.Value != nil && x.Value.Kind() == constant.String && constant.StringVal(x.Value) != ""
	case *ssa.BinOp:
		if x.Op == token.ADD {
			return nonEmptyString(x.X, depth+1) || nonEmptyString(x.Y, depth+1)
		}
	}
	return false
}

// consMayHold: can the constraint hold at this return on the current path? discharged: it can, but
// only together with a guard (the component is a guard atom with the passing polarity, or the result
// of a further function whose summary implies the guards).
func consMayHold(ret *ssa.Return, c compCons, f NilFacts, last map[ssa.Value]ssa.Value, depth int, guards []Guard, innerCnt []int) (may, discharged bool) {
	val, isZero, known := resolveComp(ret, ret.Results[c.comp.idx], c.comp.path, last, f)
	if !known {
		return true, false
	}
	if isZero {
		// nil / false / ""
		return c.cls == -1, false
	}
	if c.kind == "sentinel" && isZero {
		return c.cls == -1, false
	}
	switch c.kind {
	case "sentinel":
		// the component is (a load of) a package-level error variable, nil, or something else
		if g := sentinelOf(val); g != nil {
			return (g == c.glob) == (c.cls == 1), false
		}
		if k, n := Nilness(val, f); k && n {
			return c.cls == -1, false
		}
		return true, false
	case "nil":
		// a package-level error variable is not nil (trusted)
		if sentinelOf(val) != nil {
			return c.cls == 1, false
		}
		if k, n := Nilness(val, f); k {
			return n == (c.cls == -1), false
		}
		if rc, ri := resultCall(val); rc != nil {
			if ok, cnt := CalleeImplies(rc, ri, "nil", c.cls, depth+1, guards, nil); ok {
				for i := range cnt {
					innerCnt[i] += cnt[i]
				}
				return true, true
			}
		}
		return true, false
	case "empty":
		if isEmptyStringConst(val) {
			return c.cls == -1, false
		}
		if nonEmptyString(val, 0) {
			return c.cls == 1, false
		}
		return true, false
	case "bool":
		v, neg := val, false
		for i := 0; i < 8; i++ {
			if bv, ok := f[boolOf{v}]; ok {
				return (bv != neg) == (c.cls == 1), false
			}
			if k, ok := v.(*ssa.Const); ok && k.Value != nil && k.Value.Kind() == constant.Bool {
				return (constant.BoolVal(k.Value) != neg) == (c.cls == 1), false
			}
			if u, ok := v.(*ssa.UnOp); ok && u.Op == token.NOT {
				v, neg = u.X, !neg
				continue
			}
			if phi, ok := v.(*ssa.Phi); ok {
				if sel, ok := last[phi]; ok {
					v = sel
					continue
				}
			}
			break
		}
		// the component is itself a guard atom
		a2 := substTop(NormCond(v))
		for gi, g := range guards {
			if m, passVal := g.Match(a2); m {
				// component = (atom XOR a2.Negated) XOR neg; class +1 means component true
				atomVal := ((c.cls == 1) != a2.Negated) != neg
				if atomVal == passVal {
					innerCnt[gi]++
					return true, true
				}
			}
		}
		if rc, ri := resultCall(v); rc != nil {
			want := c.cls
			if neg {
				want = -want
			}
			if ok, cnt := CalleeImplies(rc, ri, "bool", want, depth+1, guards, nil); ok {
				for i := range cnt {
					innerCnt[i] += cnt[i]
				}
				return true, true
			}
		}
		return true, false
	}
	return true, false
}

// ResultComponent decodes a caller-side value as a component of the result of a static call of a
// module function: result #idx, then the struct field path (also when the result is kept in a
// local variable that is written once).
func ResultComponent(v ssa.Value) (call *ssa.Call, idx int, path []int, ok bool) {
	c, ok := compOf(v, 0)
	if !ok {
		return nil, 0, nil, false
	}
	return c.call, c.idx, c.path, true
}

// ReturnedFieldValues: the values that field #field of result #idx of fn can hold at its returns,
// when every return yields a struct built in a local variable (flow-insensitively: all stores to
// that field of the returned variable; zero: some return leaves the field unset).
func ReturnedFieldValues(fn *ssa.Function, idx, field int) (vals []ssa.Value, zero, ok bool) {
	ok = true
	n := 0
	AllInstrs(fn, func(in ssa.Instruction) {
		ret, isRet := in.(*ssa.Return)
		if !isRet || idx >= len(ret.Results) {
			return
		}
		n++
		ld, isLd := ret.Results[idx].(*ssa.UnOp)
		if !isLd || ld.Op != token.MUL {
			if k, isK := ret.Results[idx].(*ssa.Const); isK && k.Value == nil {
				zero = true
				return
			}
			ok = false
			return
		}
		a, isA := ld.X.(*ssa.Alloc)
		if !isA || !trackableStruct(a) {
			ok = false
			return
		}
		stored := false
		for _, r := range *a.Referrers() {
			switch x := r.(type) {
			case *ssa.Store:
				ok = false // written as a whole
			case *ssa.FieldAddr:
				if x.Field != field || x.Referrers() == nil {
					continue
				}
				for _, fr := range *x.Referrers() {
					if st, isSt := fr.(*ssa.Store); isSt {
						vals = append(vals, st.Val)
						stored = true
					}
				}
			}
		}
		if !stored {
			zero = true
		}
	})
	if n == 0 {
		ok = false
	}
	return
}

// EachReturnedFieldValue calls visit for every return of fn with the values field #field of result
// #idx can hold there (the stores into that field of the struct variable the return loads; zero when
// there is none). ok=false when a return does not yield a struct built in a local variable.
func EachReturnedFieldValue(fn *ssa.Function, idx, field int, visit func(ret *ssa.Return, vals []ssa.Value, zero bool)) (ok bool) {
	ok = true
	n := 0
	AllInstrs(fn, func(in ssa.Instruction) {
		ret, isRet := in.(*ssa.Return)
		if !isRet || idx >= len(ret.Results) {
			return
		}
		n++
		rv := ret.Results[idx]
		if k, isK := rv.(*ssa.Const); isK && k.Value == nil {
			visit(ret, nil, true)
			return
		}
		ld, isLd := rv.(*ssa.UnOp)
		if !isLd || ld.Op != token.MUL {
			ok = false
			return
		}
		a, isA := ld.X.(*ssa.Alloc)
		if !isA || !trackableStruct(a) {
			ok = false
			return
		}
		var vals []ssa.Value
		for _, r := range *a.Referrers() {
			switch x := r.(type) {
			case *ssa.Store:
				ok = false
			case *ssa.FieldAddr:
				if x.Field != field || x.Referrers() == nil {
					continue
				}
				for _, fr := range *x.Referrers() {
					if st, isSt := fr.(*ssa.Store); isSt {
						vals = append(vals, st.Val)
					}
				}
			}
		}
		visit(ret, vals, len(vals) == 0)
	})
	return ok && n > 0
}
