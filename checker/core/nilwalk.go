package core

import (
	"go/constant"
	"go/token"
	"go/types"
	"sort"
	"strings"

	"golang.org/x/tools/go/ssa"
)

// ExtraNilness lets a rule add trusted nilness knowledge about specific values (set before a
// walk, reset after it).
var ExtraNilness func(v ssa.Value) (known, isNil bool)

// NilFacts maps SSA values (and local Alloc cells) to a known nilness: true = nil.
type NilFacts map[ssa.Value]bool

// contentOf is the fact key for "the value currently held in cell/global X" (as opposed to
// the address X itself).
type contentOf struct{ ssa.Value }

func (c contentOf) Name() string { return "*" + c.Value.Name() }

// boolOf is the fact key for "this boolean SSA value (a phi of constants: a named condition) is
// true/false on this path"; the map value is the truth value.
type boolOf struct{ ssa.Value }

func (b boolOf) Name() string { return "?" + b.Value.Name() }

// CellFact returns the known nilness of the content of a local cell or global.
func (f NilFacts) CellFact(cell ssa.Value) (isNil, known bool) {
	n, ok := f[contentOf{cell}]
	return n, ok
}

func (f NilFacts) clone() NilFacts {
	g := make(NilFacts, len(f)+2)
	for k, v := range f {
		g[k] = v
	}
	return g
}

func (f NilFacts) key() string {
	ks := make([]string, 0, len(f))
	for k, v := range f {
		s := k.Name()
		if v {
			s += "=0"
		} else {
			s += "=1"
		}
		ks = append(ks, s)
	}
	sort.Strings(ks)
	return strings.Join(ks, ",")
}

// Nilness evaluates the nilness of v under facts f: (known, isNil).
// Trusted assumption: package-level variables of type error (sentinel errors) are non-nil.
func Nilness(v ssa.Value, f NilFacts) (bool, bool) {
	for i := 0; i < 6; i++ {
		if n, ok := f[v]; ok {
			return true, n
		}
		if ExtraNilness != nil {
			if k, n := ExtraNilness(v); k {
				return true, n
			}
		}
		switch x := v.(type) {
		case *ssa.Const:
			return true, x.Value == nil && isNillable(x.Type())
		case *ssa.MakeInterface, *ssa.Alloc, *ssa.MakeMap, *ssa.MakeSlice, *ssa.MakeChan, *ssa.MakeClosure,
			*ssa.FieldAddr, *ssa.IndexAddr, *ssa.Function, *ssa.Global:
			return true, false
		case *ssa.ChangeInterface:
			v = x.X
			continue
		case *ssa.ChangeType:
			v = x.X
			continue
		case *ssa.Call:
			// a module constructor all of whose returns are fresh objects (reply builders)
			if cal := x.Call.StaticCallee(); cal != nil && x.Call.Signature().Results().Len() == 1 && inModule(cal) && allocatingCtor(cal, 0) {
				return true, false
			}
			// standard library contract: errors.New and fmt.Errorf never return nil
			if cal := x.Call.StaticCallee(); cal != nil && cal.Pkg != nil {
				if pp := cal.Pkg.Pkg.Path(); (pp == "errors" && cal.Name() == "New") || (pp == "fmt" && cal.Name() == "Errorf") {
					return true, false
				}
			}
			return false, false
		case *ssa.UnOp:
			if x.Op == token.MUL {
				if g, ok := x.X.(*ssa.Global); ok {
					if types.Identical(g.Type().(*types.Pointer).Elem(), types.Universe.Lookup("error").Type()) {
						return true, false
					}
				}
			}
			return false, false
		default:
			return false, false
		}
	}
	return false, false
}

func isNillable(t types.Type) bool {
	switch t.Underlying().(type) {
	case *types.Pointer, *types.Interface, *types.Map, *types.Slice, *types.Chan, *types.Signature:
		return true
	}
	if b, ok := t.Underlying().(*types.Basic); ok && b.Kind() == types.UntypedNil {
		return true
	}
	return false
}

// trackableCell: a local Alloc all of whose referrers are loads, stores to it, or captures by
// closures (which we assume only run deferred / do not write it synchronously; writes by
// closures are accounted for by cellWrittenByClosure).
func trackableCell(a *ssa.Alloc) bool { return trackableCellMode(a, false) }

// trackableCellMode: with calledClosuresMayWrite, a function literal that is only ever called
// directly (never stored, passed on, deferred or started) may write the cell: the interprocedural
// walk enters it at every call.
func trackableCellMode(a *ssa.Alloc, calledClosuresMayWrite bool) bool {
	if a.Referrers() == nil {
		return false
	}
	for _, r := range *a.Referrers() {
		switch x := r.(type) {
		case *ssa.Store:
			if x.Addr != ssa.Value(a) {
				return false
			}
		case *ssa.UnOp:
		case *ssa.MakeClosure:
			// closure captures the cell: it must not write it
			fn := x.Fn.(*ssa.Function)
			for i, b := range x.Bindings {
				if b == ssa.Value(a) {
					fv := fn.FreeVars[i]
					if fv.Referrers() != nil {
						for _, fr := range *fv.Referrers() {
							if st, ok := fr.(*ssa.Store); ok && st.Addr == ssa.Value(fv) {
								if calledClosuresMayWrite && onlyCalledDirectly(x) {
									continue
								}
								return false
							}
						}
					}
				}
			}
		case *ssa.DebugRef:
		default:
			return false
		}
	}
	return true
}

// onlyCalledDirectly: every use of the function literal is a plain call of it.
func onlyCalledDirectly(mc *ssa.MakeClosure) bool {
	if mc.Referrers() == nil {
		return false
	}
	for _, r := range *mc.Referrers() {
		switch x := r.(type) {
		case *ssa.Call:
			if x.Call.Value != ssa.Value(mc) {
				return false
			}
		case *ssa.Defer:
			if x.Call.Value != ssa.Value(mc) {
				return false
			}
		case *ssa.DebugRef:
		default:
			return false
		}
	}
	return true
}

// NilWalkResult is the outcome of a nil-fact-sensitive walk.
type NilWalkResult struct {
	Blocks   map[*ssa.BasicBlock]bool
	Overflow bool
	States   int
}

// NilWalk explores fn path-sensitively with respect to nil tests (`v == nil` / `v != nil`),
// starting at the entry (from == nil) or at the targets of the given edges, never crossing cut
// edges, ending a path at any instruction for which stopAt returns true. onInstr is called for
// every instruction visited with the facts holding before it.
func NilWalk(fn *ssa.Function, from map[Edge]bool, cut map[Edge]bool, stopAt func(ssa.Instruction) bool, onInstr func(ssa.Instruction, NilFacts)) NilWalkResult {
	return nilWalk(fn, from, nil, cut, stopAt, onInstr)
}

// NilWalkAfter starts right after instruction `after`.
func NilWalkAfter(fn *ssa.Function, after ssa.Instruction, cut map[Edge]bool, stopAt func(ssa.Instruction) bool, onInstr func(ssa.Instruction, NilFacts)) NilWalkResult {
	return nilWalk(fn, nil, after, cut, stopAt, onInstr)
}

// NilWalkAfterWith is NilWalkAfter with facts assumed at the start (for instance "this call's error
// result is nil": the success paths of the call, however its result is tested later).
func NilWalkAfterWith(fn *ssa.Function, after ssa.Instruction, facts NilFacts, cut map[Edge]bool, stopAt func(ssa.Instruction) bool, onInstr func(ssa.Instruction, NilFacts)) NilWalkResult {
	walkInitFacts = facts
	defer func() { walkInitFacts = nil }()
	return nilWalk(fn, nil, after, cut, stopAt, onInstr)
}

var walkInitFacts NilFacts

// fieldCell is the fact / last-stored key for "field #idx of the local struct variable X".
type fieldCell struct {
	ssa.Value
	idx int
}

func (c fieldCell) Name() string { return c.Value.Name() + "." + string(rune('a'+c.idx)) }

// walkRel switches on what relational summaries need (off for all other walks, whose cost it would
// raise): stores into fields of local struct variables are tracked per path, the incoming value
// selected at the phis in trackPhi is remembered per path, and the outcome of a branch on a
// boolean phi is remembered as a fact. CurLast exposes the per-path "last stored" map to onInstr.
type walkRel struct {
	trackPhi map[*ssa.Phi]bool
}

var walkRelMode *walkRel

// walkDescend switches on interprocedural walking: a static call of a module function with a body
// is entered (at most MaxDepth frames, no recursion), its returns continue after the call with the
// nilness / truth of the returned values transferred to the call's results. Callbacks see the
// instructions of the entered functions too (except their returns, which are not exits), with
// ParamSubst mapping parameters and captured variables to the caller's values.
type walkDescendMode struct {
	MaxDepth int
	Skip     func(callee *ssa.Function) bool
	// Up: when a walk that started inside a helper reaches the helper's return with no frame left, it
	// continues after each of these call sites of the helper (nil: the return is an exit).
	Up func(callee *ssa.Function) []*ssa.Call
}

var walkDescend *walkDescendMode

type walkFrame struct {
	call  *ssa.Call // nil for a deferred call run at RunDefers
	dfr   *ssa.Defer
	blk   *ssa.BasicBlock
	next  int
	subst map[ssa.Value]ssa.Value
	more  []*ssa.Defer // deferred calls still to run when this one returns
}

func (fr walkFrame) callee() *ssa.Function {
	if fr.call != nil {
		return fr.call.Call.StaticCallee()
	}
	return fr.dfr.Call.StaticCallee()
}

func (fr walkFrame) owner() *ssa.Function {
	if fr.call != nil {
		return fr.call.Parent()
	}
	return fr.dfr.Parent()
}

func (fr walkFrame) id() string {
	if fr.call != nil {
		return fr.call.Name() + "@" + fr.call.Parent().Name()
	}
	return "defer" + string(rune('0'+len(fr.more))) + "@" + fr.dfr.Parent().Name()
}

// deferredToRun: the deferred static calls of module functions / function literals that run at
// this RunDefers (those whose defer statement dominates it), last deferred first.
func deferredToRun(rd *ssa.RunDefers) []*ssa.Defer {
	var out []*ssa.Defer
	fn := rd.Parent()
	for _, b := range fn.Blocks {
		for _, in := range b.Instrs {
			d, ok := in.(*ssa.Defer)
			if !ok {
				continue
			}
			g := d.Call.StaticCallee()
			if g == nil || len(g.Blocks) == 0 || !inModule(g) {
				continue
			}
			if b == rd.Block() || b.Dominates(rd.Block()) {
				out = append(out, d)
			}
		}
	}
	// reverse (LIFO)
	for i, j := 0, len(out)-1; i < j; i, j = i+1, j-1 {
		out[i], out[j] = out[j], out[i]
	}
	return out
}

func deferSubst(parent map[ssa.Value]ssa.Value, d *ssa.Defer) map[ssa.Value]ssa.Value {
	sub := map[ssa.Value]ssa.Value{}
	for k, v := range parent {
		sub[k] = v
	}
	g := d.Call.StaticCallee()
	for i, p := range g.Params {
		if i < len(d.Call.Args) {
			sub[p] = d.Call.Args[i]
		}
	}
	if mc, ok := d.Call.Value.(*ssa.MakeClosure); ok {
		for i, fv := range g.FreeVars {
			if i < len(mc.Bindings) {
				sub[fv] = mc.Bindings[i]
			}
		}
	}
	return sub
}

// retOf is the fact key for "result #idx of this call, as returned on the current path".
type retOf struct {
	ssa.Value
	idx int
}

func (r retOf) Name() string { return r.Value.Name() + "#" + string(rune('0'+r.idx)) }

// ResultFact is the fact key under which an interprocedural walk (WalkDeep) takes the nilness of
// result #idx of a multi-result call from its initial facts.
func ResultFact(call ssa.Value, idx int) ssa.Value { return retOf{call, idx} }

// WalkDepth: number of frames entered at the instruction currently shown to a callback.
var WalkDepth int

func factOwner(k ssa.Value) *ssa.Function {
	for i := 0; i < 4; i++ {
		switch x := k.(type) {
		case contentOf:
			k = x.Value
		case boolOf:
			k = x.Value
		case fieldCell:
			k = x.Value
		case retOf:
			k = x.Value
		default:
			if in, ok := k.(ssa.Instruction); ok {
				return in.Parent()
			}
			if p, ok := k.(*ssa.Parameter); ok {
				return p.Parent()
			}
			if fv, ok := k.(*ssa.FreeVar); ok {
				return fv.Parent()
			}
			return nil
		}
	}
	return nil
}

// CurLast: during onInstr, the value most recently stored into each tracked cell / selected at each
// tracked phi on the current path.
var CurLast map[ssa.Value]ssa.Value

// trackableStruct: a local struct Alloc used only through loads of the whole, stores of the whole,
// and field addresses that are themselves only loaded or stored to.
func trackableStruct(a *ssa.Alloc) bool {
	if a.Referrers() == nil {
		return false
	}
	if _, ok := a.Type().(*types.Pointer).Elem().Underlying().(*types.Struct); !ok {
		return false
	}
	for _, r := range *a.Referrers() {
		switch x := r.(type) {
		case *ssa.Store:
			if x.Addr != ssa.Value(a) {
				return false
			}
		case *ssa.UnOp:
			if x.Op != token.MUL {
				return false
			}
		case *ssa.DebugRef:
		case *ssa.FieldAddr:
			if x.Referrers() == nil {
				continue
			}
			for _, fr := range *x.Referrers() {
				switch y := fr.(type) {
				case *ssa.Store:
					if y.Addr != ssa.Value(x) {
						return false
					}
				case *ssa.UnOp:
					if y.Op != token.MUL {
						return false
					}
				case *ssa.DebugRef:
				default:
					return false
				}
			}
		default:
			return false
		}
	}
	return true
}

// NilWalkEntryWith walks from the entry with the given facts assumed (for instance about parameters).
func NilWalkEntryWith(fn *ssa.Function, facts NilFacts, cut map[Edge]bool, stopAt func(ssa.Instruction) bool, onInstr func(ssa.Instruction, NilFacts)) NilWalkResult {
	walkInitFacts = facts
	defer func() { walkInitFacts = nil }()
	return nilWalk(fn, nil, nil, cut, stopAt, onInstr)
}

// MaxWalkStates bounds one path-sensitive walk; exceeding it is reported as Overflow (undecided).
var MaxWalkStates = 200000

func nilWalk(fn *ssa.Function, from map[Edge]bool, after ssa.Instruction, cut map[Edge]bool, stopAt func(ssa.Instruction) bool, onInstr func(ssa.Instruction, NilFacts)) NilWalkResult {
	res := NilWalkResult{Blocks: map[*ssa.BasicBlock]bool{}}
	type item struct {
		b     *ssa.BasicBlock
		pred  *ssa.BasicBlock
		f     NilFacts
		start int
		last  map[ssa.Value]ssa.Value // per path: value most recently stored into each tracked cell
		stack []walkFrame
		ups   int // how many times the walk continued in a caller
	}
	cloneLast := func(m map[ssa.Value]ssa.Value) map[ssa.Value]ssa.Value {
		n := make(map[ssa.Value]ssa.Value, len(m))
		for k, v := range m {
			n[k] = v
		}
		return n
	}
	cellOK := map[*ssa.Alloc]bool{}
	var curSubst map[ssa.Value]ssa.Value
	isCell := func(v ssa.Value) (ssa.Value, bool) {
		if fv, ok := v.(*ssa.FreeVar); ok && curSubst != nil {
			// a captured variable inside an entered function literal: the enclosing function's cell
			for i := 0; i < 3; i++ {
				w, ok := curSubst[v]
				if !ok {
					break
				}
				v = w
			}
			_ = fv
		}
		if g, ok := v.(*ssa.Global); ok {
			// package-level variable: tracked between two reads inside one function (assumed
			// not to be reassigned concurrently: configuration set once at start-up)
			return g, true
		}
		a, ok := v.(*ssa.Alloc)
		if !ok {
			return nil, false
		}
		t, seen := cellOK[a]
		if !seen {
			t = trackableCellMode(a, walkDescend != nil)
			cellOK[a] = t
		}
		return a, t
	}
	structOK := map[*ssa.Alloc]bool{}
	isStructCell := func(a *ssa.Alloc) bool {
		t, seen := structOK[a]
		if !seen {
			t = trackableStruct(a)
			structOK[a] = t
		}
		return t
	}
	seen := map[string]bool{}
	ids := map[ssa.Value]uint32{}
	var work []item
	if after != nil {
		b := after.Block()
		for i, in := range b.Instrs {
			if in == after {
				f0 := NilFacts{}
				for k, v := range walkInitFacts {
					f0[k] = v
				}
				work = append(work, item{b, nil, f0, i + 1, map[ssa.Value]ssa.Value{}, nil, 0})
			}
		}
	} else if from == nil {
		if len(fn.Blocks) == 0 {
			return res
		}
		f0 := NilFacts{}
		for k, v := range walkInitFacts {
			f0[k] = v
		}
		work = append(work, item{fn.Blocks[0], nil, f0, 0, map[ssa.Value]ssa.Value{}, nil, 0})
	} else {
		for e := range from {
			if cut[e] {
				continue
			}
			f := NilFacts{}
			// facts implied by the start edge itself
			applyEdgeFact(e, f, isCell, nil)
			work = append(work, item{e.From.Succs[e.Idx], e.From, f, 0, map[ssa.Value]ssa.Value{}, nil, 0})
		}
	}
	maxStates := MaxWalkStates
	for len(work) > 0 {
		it := work[len(work)-1]
		work = work[:len(work)-1]
		f := it.f
		lastStored := it.last
		curSubst = nil
		if len(it.stack) > 0 {
			curSubst = it.stack[len(it.stack)-1].subst
		}
		// phis
		if it.pred != nil {
			idx := -1
			for i, p := range it.b.Preds {
				if p == it.pred {
					idx = i
					break
				}
			}
			var phiFacts []struct {
				p     *ssa.Phi
				known bool
				n     bool
			}
			for _, in := range it.b.Instrs {
				phi, ok := in.(*ssa.Phi)
				if !ok {
					break
				}
				if idx >= 0 {
					k, n := Nilness(phi.Edges[idx], f)
					phiFacts = append(phiFacts, struct {
						p     *ssa.Phi
						known bool
						n     bool
					}{phi, k, n})
				}
			}
			for _, pf := range phiFacts {
				if pf.known {
					f[pf.p] = pf.n
				} else {
					delete(f, pf.p)
				}
			}
			// boolean phis: the value selected by the edge just taken, when it is a constant (or an
			// already known boolean)
			if idx >= 0 {
				type bf struct {
					p     *ssa.Phi
					known bool
					v     bool
				}
				var bfs []bf
				for _, in := range it.b.Instrs {
					phi, ok := in.(*ssa.Phi)
					if !ok {
						break
					}
					if bt, ok := phi.Type().Underlying().(*types.Basic); !ok || bt.Kind() != types.Bool {
						continue
					}
					e := phi.Edges[idx]
					if k, ok := e.(*ssa.Const); ok && k.Value != nil && k.Value.Kind() == constant.Bool {
						bfs = append(bfs, bf{phi, true, constant.BoolVal(k.Value)})
					} else if v, ok := f[boolOf{e}]; ok {
						bfs = append(bfs, bf{phi, true, v})
					} else {
						bfs = append(bfs, bf{phi, false, false})
					}
				}
				for _, x := range bfs {
					if x.known {
						f[boolOf{x.p}] = x.v
					} else {
						delete(f, boolOf{x.p})
					}
				}
				if walkRelMode != nil {
					for _, in := range it.b.Instrs {
						phi, ok := in.(*ssa.Phi)
						if !ok {
							break
						}
						if walkRelMode.trackPhi[phi] {
							lastStored[phi] = phi.Edges[idx]
						}
					}
				}
			}
		}
		key := stateKey(ids, it.b.Index, f, lastStored, it.start > 0)
		if walkDescend != nil {
			key += string(rune(it.start)) + string(rune('0'+it.ups)) + "|" + it.b.Parent().Name()
			for _, fr := range it.stack {
				key += "/" + fr.id()
			}
		}
		if seen[key] {
			continue
		}
		seen[key] = true
		res.States++
		if res.States > maxStates {
			res.Overflow = true
			return res
		}
		res.Blocks[it.b] = true
		stopped := false
		for ii, in := range it.b.Instrs {
			if ii < it.start {
				continue
			}
			if _, isPhi := in.(*ssa.Phi); isPhi {
				if onInstr != nil {
					onInstr(in, f)
				}
				continue
			}
			if v, ok := in.(ssa.Value); ok {
				keep := false
				if ex, isEx := in.(*ssa.Extract); isEx && after != nil && it.start > 0 && len(it.stack) == 0 {
					// the assumed fact about a result of the very call the walk starts after
					if av, isV := after.(ssa.Value); isV && ex.Tuple == av {
						_, keep = walkInitFacts[ex]
					}
				}
				if !keep {
					delete(f, v) // re-definition invalidates a stale fact (loops)
				}
			}
			if ex, ok := in.(*ssa.Extract); ok {
				// results of a call that was entered: what the path taken inside returned
				if n, ok := f[retOf{ex.Tuple, ex.Index}]; ok {
					f[ex] = n
				}
				if bv, ok := f[boolOf{retOf{ex.Tuple, ex.Index}}]; ok {
					f[boolOf{ex}] = bv
				}
			}
			nested := len(it.stack) > 0
			upSites := false
			if _, isRet := in.(*ssa.Return); isRet && !nested && walkDescend != nil && walkDescend.Up != nil && it.ups < 2 {
				upSites = len(walkDescend.Up(it.b.Parent())) > 0
			}
			if _, isRet := in.(*ssa.Return); isRet && (nested || upSites) {
				// not an exit of the function under analysis
			} else {
				var savedSubst map[ssa.Value]ssa.Value
				if nested {
					savedSubst = ParamSubst
					ParamSubst = it.stack[len(it.stack)-1].subst
					WalkDepth = len(it.stack)
				}
				if onInstr != nil {
					CurLast = lastStored
					onInstr(in, f)
					CurLast = nil
				}
				st := stopAt != nil && stopAt(in)
				if nested {
					ParamSubst = savedSubst
					WalkDepth = 0
				}
				if st {
					stopped = true
					break
				}
			}
			if walkDescend != nil {
				if rd, ok := in.(*ssa.RunDefers); ok && len(it.stack) < walkDescend.MaxDepth {
					if ds := deferredToRun(rd); len(ds) > 0 {
						var psub map[ssa.Value]ssa.Value
						if nested {
							psub = it.stack[len(it.stack)-1].subst
						}
						d := ds[0]
						ns := append(append([]walkFrame{}, it.stack...), walkFrame{dfr: d, blk: it.b, next: ii + 1, subst: deferSubst(psub, d), more: ds[1:]})
						work = append(work, item{d.Call.StaticCallee().Blocks[0], nil, f.clone(), 0, cloneLast(lastStored), ns, it.ups})
						stopped = true
						break
					}
				}
				if call, ok := in.(*ssa.Call); ok {
					if g := descendInto(call, it.stack); g != nil {
						nf := f.clone()
						sub := map[ssa.Value]ssa.Value{}
						if nested {
							for k, v := range it.stack[len(it.stack)-1].subst {
								sub[k] = v
							}
						}
						for i, p := range g.Params {
							if i < len(call.Call.Args) {
								a := call.Call.Args[i]
								sub[p] = a
								if kn, n := Nilness(a, f); kn {
									nf[p] = n
								}
								if k, ok := a.(*ssa.Const); ok && k.Value != nil && k.Value.Kind() == constant.Bool {
									nf[boolOf{p}] = constant.BoolVal(k.Value)
								} else if bv, ok := f[boolOf{a}]; ok {
									nf[boolOf{p}] = bv
								}
							}
						}
						if mc, ok := call.Call.Value.(*ssa.MakeClosure); ok {
							for i, fv := range g.FreeVars {
								if i < len(mc.Bindings) {
									sub[fv] = mc.Bindings[i]
								}
							}
						}
						ns := append(append([]walkFrame{}, it.stack...), walkFrame{call: call, blk: it.b, next: ii + 1, subst: sub})
						work = append(work, item{g.Blocks[0], nil, nf, 0, cloneLast(lastStored), ns, it.ups})
						stopped = true // the rest of this block continues when the callee returns
						break
					}
				}
			}
			if walkRelMode != nil {
				switch x := in.(type) {
				case *ssa.Alloc:
					// (re-)executed allocation: a fresh zero value
					for k := range lastStored {
						if fc, ok := k.(fieldCell); ok && fc.Value == ssa.Value(x) {
							delete(lastStored, k)
							delete(f, contentOf{k})
						}
					}
					delete(lastStored, x)
				case *ssa.Store:
					if fa, ok := x.Addr.(*ssa.FieldAddr); ok {
						if a, ok := fa.X.(*ssa.Alloc); ok && isStructCell(a) {
							k := fieldCell{a, fa.Field}
							lastStored[k] = x.Val
							if kn, n := Nilness(x.Val, f); kn {
								f[contentOf{k}] = n
							} else {
								delete(f, contentOf{k})
							}
						}
					} else if a, ok := x.Addr.(*ssa.Alloc); ok && isStructCell(a) {
						for k := range lastStored {
							if fc, ok := k.(fieldCell); ok && fc.Value == ssa.Value(a) {
								delete(lastStored, k)
								delete(f, contentOf{k})
							}
						}
						lastStored[a] = x.Val
					}
				}
			}
			switch x := in.(type) {
			case *ssa.Store:
				if a, ok := isCell(x.Addr); ok {
					if k, n := Nilness(x.Val, f); k {
						f[contentOf{a}] = n
					} else {
						delete(f, contentOf{a})
					}
					lastStored[a] = x.Val
				}
			case *ssa.UnOp:
				if x.Op == token.MUL {
					if a, ok := isCell(x.X); ok {
						if n, k := f[contentOf{a}]; k {
							f[x] = n
						}
					}
				}
			}
		}
		if stopped {
			continue
		}
		last := it.b.Instrs[len(it.b.Instrs)-1]
		if ret, ok := last.(*ssa.Return); ok && len(it.stack) == 0 && walkDescend != nil && walkDescend.Up != nil && it.ups < 2 {
			callee := it.b.Parent()
			for _, site := range walkDescend.Up(callee) {
				g := f.clone()
				nl := cloneLast(lastStored)
				for i, rv := range ret.Results {
					var key ssa.Value = site
					if len(ret.Results) > 1 {
						key = retOf{site, i}
					}
					if kn, n := Nilness(rv, f); kn {
						g[key] = n
					}
					if k, ok := rv.(*ssa.Const); ok && k.Value != nil && k.Value.Kind() == constant.Bool {
						g[boolOf{key}] = constant.BoolVal(k.Value)
					} else if bv, ok := f[boolOf{rv}]; ok {
						g[boolOf{key}] = bv
					}
				}
				for k := range g {
					if factOwner(k) == callee {
						delete(g, k)
					}
				}
				for k := range nl {
					if factOwner(k) == callee {
						delete(nl, k)
					}
				}
				idx := -1
				for i, in := range site.Block().Instrs {
					if in == ssa.Instruction(site) {
						idx = i
					}
				}
				if idx >= 0 {
					work = append(work, item{site.Block(), nil, g, idx + 1, nl, nil, it.ups + 1})
				}
			}
			continue
		}
		if ret, ok := last.(*ssa.Return); ok && len(it.stack) > 0 {
			fr := it.stack[len(it.stack)-1]
			g := f.clone()
			nl := cloneLast(lastStored)
			callee := it.b.Parent()
			if fr.call == nil {
				// a deferred call returned: run the next one, or continue after RunDefers
				for k := range g {
					if factOwner(k) == callee {
						delete(g, k)
					}
				}
				for k := range nl {
					if factOwner(k) == callee {
						delete(nl, k)
					}
				}
				rest := it.stack[:len(it.stack)-1]
				if len(fr.more) > 0 {
					var psub map[ssa.Value]ssa.Value
					if len(rest) > 0 {
						psub = rest[len(rest)-1].subst
					}
					d := fr.more[0]
					ns := append(append([]walkFrame{}, rest...), walkFrame{dfr: d, blk: fr.blk, next: fr.next, subst: deferSubst(psub, d), more: fr.more[1:]})
					work = append(work, item{d.Call.StaticCallee().Blocks[0], nil, g, 0, nl, ns, it.ups})
				} else {
					work = append(work, item{fr.blk, nil, g, fr.next, nl, rest, it.ups})
				}
				continue
			}
			type rf struct {
				known, n   bool
				bknown, bv bool
			}
			rfs := make([]rf, len(ret.Results))
			for i, rv := range ret.Results {
				kn, n := Nilness(rv, f)
				rfs[i].known, rfs[i].n = kn, n
				if k, ok := rv.(*ssa.Const); ok && k.Value != nil && k.Value.Kind() == constant.Bool {
					rfs[i].bknown, rfs[i].bv = true, constant.BoolVal(k.Value)
				} else if bv, ok := f[boolOf{rv}]; ok {
					rfs[i].bknown, rfs[i].bv = true, bv
				}
			}
			// facts about the callee's own values are of no use after it returned
			for k := range g {
				if factOwner(k) == callee {
					delete(g, k)
				}
			}
			for k := range nl {
				if factOwner(k) == callee {
					delete(nl, k)
				}
			}
			// a boolean result that is a nil test of a value of unknown nilness (`return err == nil`):
			// the walk forks, each continuation knowing both the result and the nilness
			type forkT struct {
				idx    int
				v      ssa.Value
				eqTrue bool // the result is true when v is nil
			}
			var fork *forkT
			for i, rv := range ret.Results {
				if rfs[i].bknown {
					continue
				}
				if bt, ok := rv.Type().Underlying().(*types.Basic); !ok || bt.Kind() != types.Bool {
					continue
				}
				a := NormCond(rv)
				if a.Op != token.EQL || !(IsNil(a.X) || IsNil(a.Y)) {
					continue
				}
				v := a.X
				if IsNil(a.X) {
					v = a.Y
				}
				if kn, n := Nilness(v, f); kn {
					rfs[i].bknown, rfs[i].bv = true, n != a.Negated
					continue
				}
				if fork == nil {
					fork = &forkT{i, v, !a.Negated}
				}
			}
			emit := func(g NilFacts, nl map[ssa.Value]ssa.Value) {
				for k := range g {
					if factOwner(k) == callee {
						delete(g, k)
					}
				}
				for i, x := range rfs {
					var key ssa.Value = fr.call
					if len(ret.Results) > 1 {
						key = retOf{fr.call, i}
					}
					if x.known {
						g[key] = x.n
					} else {
						delete(g, key)
					}
					if x.bknown {
						g[boolOf{key}] = x.bv
					} else {
						delete(g, boolOf{key})
					}
				}
				work = append(work, item{fr.blk, nil, g, fr.next, nl, it.stack[:len(it.stack)-1], it.ups})
			}
			if fork != nil {
				for _, isNil := range []bool{true, false} {
					g2 := f.clone()
					g2[fork.v] = isNil
					if u, ok := fork.v.(*ssa.UnOp); ok && u.Op == token.MUL {
						if cl, ok := isCell(u.X); ok {
							g2[contentOf{cl}] = isNil
							if sv, ok := lastStored[cl]; ok {
								g2[sv] = isNil
							}
						}
					}
					rfs[fork.idx].bknown, rfs[fork.idx].bv = true, isNil == fork.eqTrue
					nl2 := cloneLast(lastStored)
					for k := range nl2 {
						if factOwner(k) == callee {
							delete(nl2, k)
						}
					}
					emit(g2, nl2)
				}
				continue
			}
			emit(g, nl)
			continue
		}
		if ifi, ok := last.(*ssa.If); ok {
			a := NormCond(ifi.Cond)
			if a.Op == token.ILLEGAL {
				if bv, known := f[boolOf{a.Val}]; known {
					// cond == value XOR Negated
					idx := 1
					if bv != a.Negated {
						idx = 0
					}
					if !cut[Edge{it.b, idx}] {
						work = append(work, item{it.b.Succs[idx], it.b, f.clone(), 0, cloneLast(lastStored), it.stack, it.ups})
					}
					continue
				}
				if _, isPhi := a.Val.(*ssa.Phi); isPhi && walkRelMode != nil {
					for idx := 0; idx < 2; idx++ {
						if cut[Edge{it.b, idx}] {
							continue
						}
						g := f.clone()
						// cond true on edge 0: value == !Negated
						g[boolOf{a.Val}] = (idx == 0) != a.Negated
						work = append(work, item{it.b.Succs[idx], it.b, g, 0, cloneLast(lastStored), it.stack, it.ups})
					}
					continue
				}
			}
			if a.Op == token.EQL && (IsNil(a.X) || IsNil(a.Y)) {
				v := a.X
				if IsNil(a.X) {
					v = a.Y
				}
				eqIdx := 0
				if a.Negated {
					eqIdx = 1
				}
				if k, n := Nilness(v, f); k {
					idx := eqIdx
					if !n {
						idx = 1 - eqIdx
					}
					if !cut[Edge{it.b, idx}] {
						work = append(work, item{it.b.Succs[idx], it.b, f.clone(), 0, cloneLast(lastStored), it.stack, it.ups})
					}
					continue
				}
				for idx := 0; idx < 2; idx++ {
					if cut[Edge{it.b, idx}] {
						continue
					}
					g := f.clone()
					applyEdgeFact(Edge{it.b, idx}, g, isCell, lastStored)
					work = append(work, item{it.b.Succs[idx], it.b, g, 0, cloneLast(lastStored), it.stack, it.ups})
				}
				continue
			}
		}
		for idx, s := range it.b.Succs {
			if cut[Edge{it.b, idx}] {
				continue
			}
			work = append(work, item{s, it.b, f.clone(), 0, cloneLast(lastStored), it.stack, it.ups})
		}
	}
	return res
}

// descendInto: the function entered at this call in interprocedural mode, or nil.
func descendInto(call *ssa.Call, stack []walkFrame) *ssa.Function {
	g := call.Call.StaticCallee()
	if g == nil || len(g.Blocks) == 0 || !inModule(g) || len(stack) >= walkDescend.MaxDepth {
		return nil
	}
	if g == call.Parent() {
		return nil
	}
	for _, fr := range stack {
		if fr.owner() == g || fr.callee() == g {
			return nil
		}
	}
	if walkDescend.Skip != nil && walkDescend.Skip(g) {
		return nil
	}
	return g
}

// applyEdgeFact records what taking edge e (of an If on a nil test) implies.
func applyEdgeFact(e Edge, f NilFacts, isCell func(ssa.Value) (ssa.Value, bool), last map[ssa.Value]ssa.Value) {
	if len(e.From.Instrs) == 0 {
		return
	}
	ifi, ok := e.From.Instrs[len(e.From.Instrs)-1].(*ssa.If)
	if !ok {
		return
	}
	a := NormCond(ifi.Cond)
	if a.Op != token.EQL || !(IsNil(a.X) || IsNil(a.Y)) {
		return
	}
	v := a.X
	if IsNil(a.X) {
		v = a.Y
	}
	eqIdx := 0
	if a.Negated {
		eqIdx = 1
	}
	isNil := e.Idx == eqIdx
	f[v] = isNil
	if u, ok := v.(*ssa.UnOp); ok && u.Op == token.MUL {
		if c, ok := isCell(u.X); ok {
			f[contentOf{c}] = isNil
			if sv, ok := last[c]; ok {
				f[sv] = isNil
			}
		}
	}
}

// GuardedByNil is GuardedBy with nil-test path sensitivity: sink must be unreachable once the
// pass edges of the guards are cut, where infeasible combinations of nil tests are pruned.
func GuardedByNil(fn *ssa.Function, sink ssa.Instruction, guards ...Guard) (bool, []int) {
	return liftGuarded(fn, sink, 0, func(f *ssa.Function, at ssa.Instruction) (bool, []int) {
		return guardedByNil1(f, at, guards...)
	})
}

func guardedByNil1(fn *ssa.Function, sink ssa.Instruction, guards ...Guard) (bool, []int) {
	cut, counts := PassEdges(fn, guards...)
	res := NilWalk(fn, nil, cut, nil, nil)
	if res.Overflow {
		return false, counts
	}
	return !res.Blocks[sink.Block()], counts
}

// GuardedByNilCorr combines the nil-fact walk with the correlation pruning of GuardedByCorr.
func GuardedByNilCorr(fn *ssa.Function, sink ssa.Instruction, guards ...Guard) (bool, []int) {
	return liftGuarded(fn, sink, 0, func(f *ssa.Function, at ssa.Instruction) (bool, []int) {
		return guardedByNilCorr1(f, at, guards...)
	})
}

func guardedByNilCorr1(fn *ssa.Function, sink ssa.Instruction, guards ...Guard) (bool, []int) {
	saved, savedP := Assumed, AssumedPaths
	Assumed = DominatingConds(fn, sink)
	AssumedPaths = DominatingPaths(fn, sink)
	cut, counts := PassEdges(fn, guards...)
	for e := range assumedCuts(fn) {
		cut[e] = true
	}
	Assumed, AssumedPaths = saved, savedP
	for e := range CorrelatedCuts(fn, sink) {
		cut[e] = true
	}
	res := NilWalk(fn, nil, cut, nil, nil)
	if res.Overflow {
		return false, counts
	}
	return !res.Blocks[sink.Block()], counts
}

// stateKey encodes (block, facts, last-stored cells) compactly; values are numbered per walk.
func stateKey(ids map[ssa.Value]uint32, block int, f NilFacts, last map[ssa.Value]ssa.Value, mid bool) string {
	id := func(v ssa.Value) uint32 {
		n, ok := ids[v]
		if !ok {
			n = uint32(len(ids) + 1)
			ids[v] = n
		}
		return n
	}
	nums := make([]uint64, 0, len(f)+len(last))
	for k, v := range f {
		x := uint64(id(k)) << 1
		if v {
			x |= 1
		}
		nums = append(nums, x)
	}
	for a, v := range last {
		nums = append(nums, 1<<63|uint64(id(a))<<31|uint64(id(v)))
	}
	sort.Slice(nums, func(i, j int) bool { return nums[i] < nums[j] })
	buf := make([]byte, 0, 8+8*len(nums))
	buf = append(buf, byte(block), byte(block>>8), byte(block>>16))
	if mid {
		buf = append(buf, 1)
	} else {
		buf = append(buf, 0)
	}
	for _, x := range nums {
		buf = append(buf, byte(x), byte(x>>8), byte(x>>16), byte(x>>24), byte(x>>32), byte(x>>40), byte(x>>48), byte(x>>56))
	}
	return string(buf)
}

// WalkDeep runs f with the interprocedural mode of the walker switched on.
func WalkDeep(maxDepth int, skip func(*ssa.Function) bool, f func()) {
	saved := walkDescend
	walkDescend = &walkDescendMode{MaxDepth: maxDepth, Skip: skip}
	defer func() { walkDescend = saved }()
	f()
}

// WalkDeepUp is WalkDeep with the continuation in callers (DeepUp) switched on.
func WalkDeepUp(maxDepth int, f func()) {
	WalkDeep(maxDepth, nil, func() {
		walkDescend.Up = DeepUp
		f()
	})
}

// DeepUp, when set, lets the deep path searches continue in the callers of the function they
// started in (see walkDescendMode.Up).
var DeepUp func(callee *ssa.Function) []*ssa.Call

// PathAvoidingDeep is PathAvoiding / PathFromEdgeAvoiding on the interprocedural, nil-test
// sensitive walker: static calls of module functions and directly called function literals are
// entered (two levels); the returns of entered functions are not targets. overflow: the state
// budget was exhausted (no answer).
func PathAvoidingDeep(fn *ssa.Function, from ssa.Instruction, edges map[Edge]bool, target, avoid func(ssa.Instruction) bool, cut map[Edge]bool) (found bool, where ssa.Instruction, overflow bool) {
	savedMax := MaxWalkStates
	if MaxWalkStates > 30000 {
		MaxWalkStates = 30000
	}
	defer func() { MaxWalkStates = savedMax }()
	// only functions in which the target or the avoided instruction can occur (directly or one call
	// further down) are entered: the others cannot change the answer
	relevant := map[*ssa.Function]int{}
	var isRelevant func(g *ssa.Function, d int) bool
	isRelevant = func(g *ssa.Function, d int) bool {
		if v, ok := relevant[g]; ok {
			return v == 1
		}
		relevant[g] = 2
		hit := false
		saved := ParamSubst
		ParamSubst = nil
		AllInstrs(g, func(in ssa.Instruction) {
			if hit {
				return
			}
			if _, isRet := in.(*ssa.Return); isRet {
				return
			}
			if target(in) || (avoid != nil && avoid(in)) {
				hit = true
			}
		})
		ParamSubst = saved
		if !hit {
			for _, lit := range g.AnonFuncs {
				if isRelevant(lit, d) {
					hit = true
				}
			}
		}
		if !hit && d < 2 {
			AllInstrs(g, func(in ssa.Instruction) {
				if hit {
					return
				}
				if call, ok := in.(*ssa.Call); ok {
					if cal := call.Call.StaticCallee(); cal != nil && len(cal.Blocks) > 0 && inModule(cal) && isRelevant(cal, d+1) {
						hit = true
					}
				}
			})
		}
		if hit {
			relevant[g] = 1
		}
		return hit
	}
	skip := func(g *ssa.Function) bool { return !isRelevant(g, 0) }
	WalkDeep(2, skip, func() {
		walkDescend.Up = DeepUp
		on := func(in ssa.Instruction, f NilFacts) {
			if !found && target(in) {
				found, where = true, in
			}
		}
		stop := func(in ssa.Instruction) bool {
			if found {
				return true
			}
			if target(in) {
				return true
			}
			return avoid != nil && avoid(in)
		}
		var res NilWalkResult
		switch {
		case from != nil:
			res = nilWalk(fn, nil, from, cut, stop, on)
		case edges != nil:
			res = nilWalk(fn, edges, nil, cut, stop, on)
		default:
			res = nilWalk(fn, nil, nil, cut, stop, on)
		}
		overflow = res.Overflow
	})
	return
}

// PathAvoidingX: the interprocedural, nil-sensitive search; the plain CFG search only when the
// state budget is exhausted.
func PathAvoidingX(fn *ssa.Function, from ssa.Instruction, target, avoid func(ssa.Instruction) bool, cut map[Edge]bool) (bool, ssa.Instruction) {
	f2, w2, over := PathAvoidingDeep(fn, from, nil, target, avoid, cut)
	if over {
		return PathAvoiding(fn, from, target, avoid, cut)
	}
	return f2, w2
}

// PathFromEdgeAvoidingX is the edge-started variant of PathAvoidingX.
func PathFromEdgeAvoidingX(fn *ssa.Function, edges map[Edge]bool, target, avoid func(ssa.Instruction) bool, cut map[Edge]bool) (bool, ssa.Instruction) {
	if len(edges) == 0 {
		return PathFromEdgeAvoiding(fn, edges, target, avoid, cut)
	}
	f2, w2, over := PathAvoidingDeep(fn, nil, edges, target, avoid, cut)
	if over {
		return PathFromEdgeAvoiding(fn, edges, target, avoid, cut)
	}
	return f2, w2
}
