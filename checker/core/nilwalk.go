package core

import (
	"go/constant"
	"go/token"
	"go/types"
	"sort"
	"strings"

	"golang.org/x/tools/go/ssa"
)

// ExtraNilness lets a rule add trusted nilness knowledge about specific values (set before a
// walk, reset after it).
var ExtraNilness func(v ssa.Value) (known, isNil bool)

// NilFacts maps SSA values (and local Alloc cells) to a known nilness: true = nil.
type NilFacts map[ssa.Value]bool

// contentOf is the fact key for "the value currently held in cell/global X" (as opposed to
// the address X itself).
type contentOf struct{ ssa.Value }

func (c contentOf) Name() string { return "*" + c.Value.Name() }

// boolOf is the fact key for "this boolean SSA value (a phi of constants: a named condition) is
// true/false on this path"; the map value is the truth value.
type boolOf struct{ ssa.Value }

func (b boolOf) Name() string { return "?" + b.Value.Name() }

// CellFact returns the known nilness of the content of a local cell or global.
func (f NilFacts) CellFact(cell ssa.Value) (isNil, known bool) {
	n, ok := f[contentOf{cell}]
	return n, ok
}

func (f NilFacts) clone() NilFacts {
	g := make(NilFacts, len(f)+2)
	for k, v := range f {
		g[k] = v
	}
	return g
}

func (f NilFacts) key() string {
	ks := make([]string, 0, len(f))
	for k, v := range f {
		s := k.Name()
		if v {
			s += "=0"
		} else {
			s += "=1"
		}
		ks = append(ks, s)
	}
	sort.Strings(ks)
	return strings.Join(ks, ",")
}

// Nilness evaluates the nilness of v under facts f: (known, isNil).
// Trusted assumption: package-level variables of type error (sentinel errors) are non-nil.
func Nilness(v ssa.Value, f NilFacts) (bool, bool) {
	for i := 0; i < 6; i++ {
		if n, ok := f[v]; ok {
			return true, n
		}
		if ExtraNilness != nil {
			if k, n := ExtraNilness(v); k {
				return true, n
			}
		}
		switch x := v.(type) {
		case *ssa.Const:
			return true, x.Value == nil && isNillable(x.Type())
		case *ssa.MakeInterface, *ssa.Alloc, *ssa.MakeMap, *ssa.MakeSlice, *ssa.MakeChan, *ssa.MakeClosure,
			*ssa.FieldAddr, *ssa.IndexAddr, *ssa.Function, *ssa.Global:
			return true, false
		case *ssa.ChangeInterface:
			v = x.X
			continue
		case *ssa.ChangeType:
			v = x.X
			continue
		case *ssa.Call:
			// a module constructor all of whose returns are fresh objects (reply builders)
			if cal := x.Call.StaticCallee(); cal != nil && x.Call.Signature().Results().Len() == 1 && inModule(cal) && allocatingCtor(cal, 0) {
				return true, false
			}
			return false, false
		case *ssa.UnOp:
			if x.Op == token.MUL {
				if g, ok := x.X.(*ssa.Global); ok {
					if types.Identical(g.Type().(*types.Pointer).Elem(), types.Universe.Lookup("error").Type()) {
						return true, false
					}
				}
			}
			return false, false
		default:
			return false, false
		}
	}
	return false, false
}

func isNillable(t types.Type) bool {
	switch t.Underlying().(type) {
	case *types.Pointer, *types.Interface, *types.Map, *types.Slice, *types.Chan, *types.Signature:
		return true
	}
	if b, ok := t.Underlying().(*types.Basic); ok && b.Kind() == types.UntypedNil {
		return true
	}
	return false
}

// trackableCell: a local Alloc all of whose referrers are loads, stores to it, or captures by
// closures (which we assume only run deferred / do not write it synchronously; writes by
// closures are accounted for by cellWrittenByClosure).
func trackableCell(a *ssa.Alloc) bool {
	if a.Referrers() == nil {
		return false
	}
	for _, r := range *a.Referrers() {
		switch x := r.(type) {
		case *ssa.Store:
			if x.Addr != ssa.Value(a) {
				return false
			}
		case *ssa.UnOp:
		case *ssa.MakeClosure:
			// closure captures the cell: it must not write it
			fn := x.Fn.(*ssa.Function)
			for i, b := range x.Bindings {
				if b == ssa.Value(a) {
					fv := fn.FreeVars[i]
					if fv.Referrers() != nil {
						for _, fr := range *fv.Referrers() {
							if st, ok := fr.(*ssa.Store); ok && st.Addr == ssa.Value(fv) {
								return false
							}
						}
					}
				}
			}
		case *ssa.DebugRef:
		default:
			return false
		}
	}
	return true
}

// NilWalkResult is the outcome of a nil-fact-sensitive walk.
type NilWalkResult struct {
	Blocks   map[*ssa.BasicBlock]bool
	Overflow bool
	States   int
}

// NilWalk explores fn path-sensitively with respect to nil tests (`v == nil` / `v != nil`),
// starting at the entry (from == nil) or at the targets of the given edges, never crossing cut
// edges, ending a path at any instruction for which stopAt returns true. onInstr is called for
// every instruction visited with the facts holding before it.
func NilWalk(fn *ssa.Function, from map[Edge]bool, cut map[Edge]bool, stopAt func(ssa.Instruction) bool, onInstr func(ssa.Instruction, NilFacts)) NilWalkResult {
	return nilWalk(fn, from, nil, cut, stopAt, onInstr)
}

// NilWalkAfter starts right after instruction `after`.
func NilWalkAfter(fn *ssa.Function, after ssa.Instruction, cut map[Edge]bool, stopAt func(ssa.Instruction) bool, onInstr func(ssa.Instruction, NilFacts)) NilWalkResult {
	return nilWalk(fn, nil, after, cut, stopAt, onInstr)
}

// NilWalkAfterWith is NilWalkAfter with facts assumed at the start (for instance "this call's error
// result is nil": the success paths of the call, however its result is tested later).
func NilWalkAfterWith(fn *ssa.Function, after ssa.Instruction, facts NilFacts, cut map[Edge]bool, stopAt func(ssa.Instruction) bool, onInstr func(ssa.Instruction, NilFacts)) NilWalkResult {
	walkInitFacts = facts
	defer func() { walkInitFacts = nil }()
	return nilWalk(fn, nil, after, cut, stopAt, onInstr)
}

var walkInitFacts NilFacts

// NilWalkEntryWith walks from the entry with the given facts assumed (for instance about parameters).
func NilWalkEntryWith(fn *ssa.Function, facts NilFacts, cut map[Edge]bool, stopAt func(ssa.Instruction) bool, onInstr func(ssa.Instruction, NilFacts)) NilWalkResult {
	walkInitFacts = facts
	defer func() { walkInitFacts = nil }()
	return nilWalk(fn, nil, nil, cut, stopAt, onInstr)
}

// MaxWalkStates bounds one path-sensitive walk; exceeding it is reported as Overflow (undecided).
var MaxWalkStates = 200000

func nilWalk(fn *ssa.Function, from map[Edge]bool, after ssa.Instruction, cut map[Edge]bool, stopAt func(ssa.Instruction) bool, onInstr func(ssa.Instruction, NilFacts)) NilWalkResult {
	res := NilWalkResult{Blocks: map[*ssa.BasicBlock]bool{}}
	type item struct {
		b     *ssa.BasicBlock
		pred  *ssa.BasicBlock
		f     NilFacts
		start int
		last  map[ssa.Value]ssa.Value // per path: value most recently stored into each tracked cell
	}
	cloneLast := func(m map[ssa.Value]ssa.Value) map[ssa.Value]ssa.Value {
		n := make(map[ssa.Value]ssa.Value, len(m))
		for k, v := range m {
			n[k] = v
		}
		return n
	}
	cellOK := map[*ssa.Alloc]bool{}
	isCell := func(v ssa.Value) (ssa.Value, bool) {
		if g, ok := v.(*ssa.Global); ok {
			// package-level variable: tracked between two reads inside one function (assumed
			// not to be reassigned concurrently: configuration set once at start-up)
			return g, true
		}
		a, ok := v.(*ssa.Alloc)
		if !ok {
			return nil, false
		}
		t, seen := cellOK[a]
		if !seen {
			t = trackableCell(a)
			cellOK[a] = t
		}
		return a, t
	}
	seen := map[string]bool{}
	ids := map[ssa.Value]uint32{}
	var work []item
	if after != nil {
		b := after.Block()
		for i, in := range b.Instrs {
			if in == after {
				f0 := NilFacts{}
				for k, v := range walkInitFacts {
					f0[k] = v
				}
				work = append(work, item{b, nil, f0, i + 1, map[ssa.Value]ssa.Value{}})
			}
		}
	} else if from == nil {
		if len(fn.Blocks) == 0 {
			return res
		}
		f0 := NilFacts{}
		for k, v := range walkInitFacts {
			f0[k] = v
		}
		work = append(work, item{fn.Blocks[0], nil, f0, 0, map[ssa.Value]ssa.Value{}})
	} else {
		for e := range from {
			if cut[e] {
				continue
			}
			f := NilFacts{}
			// facts implied by the start edge itself
			applyEdgeFact(e, f, isCell, nil)
			work = append(work, item{e.From.Succs[e.Idx], e.From, f, 0, map[ssa.Value]ssa.Value{}})
		}
	}
	maxStates := MaxWalkStates
	for len(work) > 0 {
		it := work[len(work)-1]
		work = work[:len(work)-1]
		f := it.f
		lastStored := it.last
		// phis
		if it.pred != nil {
			idx := -1
			for i, p := range it.b.Preds {
				if p == it.pred {
					idx = i
					break
				}
			}
			var phiFacts []struct {
				p     *ssa.Phi
				known bool
				n     bool
			}
			for _, in := range it.b.Instrs {
				phi, ok := in.(*ssa.Phi)
				if !ok {
					break
				}
				if idx >= 0 {
					k, n := Nilness(phi.Edges[idx], f)
					phiFacts = append(phiFacts, struct {
						p     *ssa.Phi
						known bool
						n     bool
					}{phi, k, n})
				}
			}
			for _, pf := range phiFacts {
				if pf.known {
					f[pf.p] = pf.n
				} else {
					delete(f, pf.p)
				}
			}
			// boolean phis: the value selected by the edge just taken, when it is a constant (or an
			// already known boolean)
			if idx >= 0 {
				type bf struct {
					p     *ssa.Phi
					known bool
					v     bool
				}
				var bfs []bf
				for _, in := range it.b.Instrs {
					phi, ok := in.(*ssa.Phi)
					if !ok {
						break
					}
					if bt, ok := phi.Type().Underlying().(*types.Basic); !ok || bt.Kind() != types.Bool {
						continue
					}
					e := phi.Edges[idx]
					if k, ok := e.(*ssa.Const); ok && k.Value != nil && k.Value.Kind() == constant.Bool {
						bfs = append(bfs, bf{phi, true, constant.BoolVal(k.Value)})
					} else if v, ok := f[boolOf{e}]; ok {
						bfs = append(bfs, bf{phi, true, v})
					} else {
						bfs = append(bfs, bf{phi, false, false})
					}
				}
				for _, x := range bfs {
					if x.known {
						f[boolOf{x.p}] = x.v
					} else {
						delete(f, boolOf{x.p})
					}
				}
			}
		}
		key := stateKey(ids, it.b.Index, f, lastStored, it.start > 0)
		if seen[key] {
			continue
		}
		seen[key] = true
		res.States++
		if res.States > maxStates {
			res.Overflow = true
			return res
		}
		res.Blocks[it.b] = true
		stopped := false
		for ii, in := range it.b.Instrs {
			if ii < it.start {
				continue
			}
			if _, isPhi := in.(*ssa.Phi); isPhi {
				if onInstr != nil {
					onInstr(in, f)
				}
				continue
			}
			if v, ok := in.(ssa.Value); ok {
				delete(f, v) // re-definition invalidates a stale fact (loops)
			}
			if onInstr != nil {
				onInstr(in, f)
			}
			if stopAt != nil && stopAt(in) {
				stopped = true
				break
			}
			switch x := in.(type) {
			case *ssa.Store:
				if a, ok := isCell(x.Addr); ok {
					if k, n := Nilness(x.Val, f); k {
						f[contentOf{a}] = n
					} else {
						delete(f, contentOf{a})
					}
					lastStored[a] = x.Val
				}
			case *ssa.UnOp:
				if x.Op == token.MUL {
					if a, ok := isCell(x.X); ok {
						if n, k := f[contentOf{a}]; k {
							f[x] = n
						}
					}
				}
			}
		}
		if stopped {
			continue
		}
		last := it.b.Instrs[len(it.b.Instrs)-1]
		if ifi, ok := last.(*ssa.If); ok {
			a := NormCond(ifi.Cond)
			if a.Op == token.ILLEGAL {
				if bv, known := f[boolOf{a.Val}]; known {
					// cond == value XOR Negated
					idx := 1
					if bv != a.Negated {
						idx = 0
					}
					if !cut[Edge{it.b, idx}] {
						work = append(work, item{it.b.Succs[idx], it.b, f.clone(), 0, cloneLast(lastStored)})
					}
					continue
				}
			}
			if a.Op == token.EQL && (IsNil(a.X) || IsNil(a.Y)) {
				v := a.X
				if IsNil(a.X) {
					v = a.Y
				}
				eqIdx := 0
				if a.Negated {
					eqIdx = 1
				}
				if k, n := Nilness(v, f); k {
					idx := eqIdx
					if !n {
						idx = 1 - eqIdx
					}
					if !cut[Edge{it.b, idx}] {
						work = append(work, item{it.b.Succs[idx], it.b, f.clone(), 0, cloneLast(lastStored)})
					}
					continue
				}
				for idx := 0; idx < 2; idx++ {
					if cut[Edge{it.b, idx}] {
						continue
					}
					g := f.clone()
					applyEdgeFact(Edge{it.b, idx}, g, isCell, lastStored)
					work = append(work, item{it.b.Succs[idx], it.b, g, 0, cloneLast(lastStored)})
				}
				continue
			}
		}
		for idx, s := range it.b.Succs {
			if cut[Edge{it.b, idx}] {
				continue
			}
			work = append(work, item{s, it.b, f.clone(), 0, cloneLast(lastStored)})
		}
	}
	return res
}

// applyEdgeFact records what taking edge e (of an If on a nil test) implies.
func applyEdgeFact(e Edge, f NilFacts, isCell func(ssa.Value) (ssa.Value, bool), last map[ssa.Value]ssa.Value) {
	if len(e.From.Instrs) == 0 {
		return
	}
	ifi, ok := e.From.Instrs[len(e.From.Instrs)-1].(*ssa.If)
	if !ok {
		return
	}
	a := NormCond(ifi.Cond)
	if a.Op != token.EQL || !(IsNil(a.X) || IsNil(a.Y)) {
		return
	}
	v := a.X
	if IsNil(a.X) {
		v = a.Y
	}
	eqIdx := 0
	if a.Negated {
		eqIdx = 1
	}
	isNil := e.Idx == eqIdx
	f[v] = isNil
	if u, ok := v.(*ssa.UnOp); ok && u.Op == token.MUL {
		if c, ok := isCell(u.X); ok {
			f[contentOf{c}] = isNil
			if sv, ok := last[c]; ok {
				f[sv] = isNil
			}
		}
	}
}

// GuardedByNil is GuardedBy with nil-test path sensitivity: sink must be unreachable once the
// pass edges of the guards are cut, where infeasible combinations of nil tests are pruned.
func GuardedByNil(fn *ssa.Function, sink ssa.Instruction, guards ...Guard) (bool, []int) {
	cut, counts := PassEdges(fn, guards...)
	res := NilWalk(fn, nil, cut, nil, nil)
	if res.Overflow {
		return false, counts
	}
	return !res.Blocks[sink.Block()], counts
}

// GuardedByNilCorr combines the nil-fact walk with the correlation pruning of GuardedByCorr.
func GuardedByNilCorr(fn *ssa.Function, sink ssa.Instruction, guards ...Guard) (bool, []int) {
	saved, savedP := Assumed, AssumedPaths
	Assumed = DominatingConds(fn, sink)
	AssumedPaths = DominatingPaths(fn, sink)
	cut, counts := PassEdges(fn, guards...)
	for e := range assumedCuts(fn) {
		cut[e] = true
	}
	Assumed, AssumedPaths = saved, savedP
	for e := range CorrelatedCuts(fn, sink) {
		cut[e] = true
	}
	res := NilWalk(fn, nil, cut, nil, nil)
	if res.Overflow {
		return false, counts
	}
	return !res.Blocks[sink.Block()], counts
}

// stateKey encodes (block, facts, last-stored cells) compactly; values are numbered per walk.
func stateKey(ids map[ssa.Value]uint32, block int, f NilFacts, last map[ssa.Value]ssa.Value, mid bool) string {
	id := func(v ssa.Value) uint32 {
		n, ok := ids[v]
		if !ok {
			n = uint32(len(ids) + 1)
			ids[v] = n
		}
		return n
	}
	nums := make([]uint64, 0, len(f)+len(last))
	for k, v := range f {
		x := uint64(id(k)) << 1
		if v {
			x |= 1
		}
		nums = append(nums, x)
	}
	for a, v := range last {
		nums = append(nums, 1<<63|uint64(id(a))<<31|uint64(id(v)))
	}
	sort.Slice(nums, func(i, j int) bool { return nums[i] < nums[j] })
	buf := make([]byte, 0, 8+8*len(nums))
	buf = append(buf, byte(block), byte(block>>8), byte(block>>16))
	if mid {
		buf = append(buf, 1)
	} else {
		buf = append(buf, 0)
	}
	for _, x := range nums {
		buf = append(buf, byte(x), byte(x>>8), byte(x>>16), byte(x>>24), byte(x>>32), byte(x>>40), byte(x>>48), byte(x>>56))
	}
	return string(buf)
}
