package core

import (
	"fmt"
	"go/constant"
	"go/token"
	"go/types"
	"os"
	"sort"
	"strings"

	"golang.org/x/tools/go/ssa"
)

// VPred is a predicate over SSA values (a pattern).
type VPred func(v ssa.Value) bool

// Strip removes value-preserving wrappers (ChangeType, Convert between same-size integer-ish
// types, MakeInterface, ChangeInterface).
// ParamSubst maps parameters of a callee under analysis to the argument values of the call site
// being summarised (set only while a guard-wrapper summary is computed).
var ParamSubst map[ssa.Value]ssa.Value

func Strip(v ssa.Value) ssa.Value {
	for {
		if ParamSubst != nil {
			if w, ok := ParamSubst[v]; ok && w != v {
				v = w
				continue
			}
		}
		switch x := v.(type) {
		case *ssa.ChangeType:
			v = x.X
		case *ssa.Convert:
			v = x.X
		case *ssa.MakeInterface:
			v = x.X
		case *ssa.ChangeInterface:
			v = x.X
		case *ssa.UnOp:
			// a local variable assigned once and kept in memory only because a function literal
			// captures it (or its address is taken for reading): the load is the assigned value
			if x.Op == token.MUL {
				if a, ok := x.X.(*ssa.Alloc); ok {
					if sv := singleAssigned(a, x); sv != nil {
						v = sv
						continue
					}
					// a result kept in memory across `rundefers` (a function with defer statements
					// stores each result, runs the deferred calls and loads it back): the value stored
					// just before in the same block
					if sv := sameBlockStore(a, x); sv != nil {
						v = sv
						continue
					}
				}
				if fa, ok := x.X.(*ssa.FieldAddr); ok {
					// a field of a request-scoped carrier struct (the locals of a long function turned
					// into fields of a small unexported struct with methods) that is written exactly once
					// in the whole module: the load is that value
					if sv := carrierFieldValue(fa); sv != nil {
						v = sv
						continue
					}
				}
				if fv, ok := x.X.(*ssa.FreeVar); ok {
					// read inside a function literal of a variable of the enclosing function that is
					// assigned once, before the literal is created
					if a, ok := FreeVarBinding(fv).(*ssa.Alloc); ok {
						if sv := singleAssignedBeforeClosure(a, fv.Parent()); sv != nil {
							v = sv
							continue
						}
					}
				}
			}
			return v
		default:
			return v
		}
	}
}

var singleStoreMemo = map[*ssa.Alloc]*ssa.Store{}
var singleStoreSeen = map[*ssa.Alloc]bool{}

// singleAssigned: the scalar local a (not a struct or array, whose parts may be written
// separately) is stored to exactly once, no function literal writes it, its address does not
// escape, and that store dominates the load: the stored value.
func singleAssigned(a *ssa.Alloc, ld *ssa.UnOp) ssa.Value {
	st := singleStoreOf(a)
	if st == nil {
		return nil
	}
	if st.Block() == ld.Block() {
		for _, in := range st.Block().Instrs {
			if in == ssa.Instruction(st) {
				return st.Val
			}
			if in == ssa.Instruction(ld) {
				return nil
			}
		}
		return nil
	}
	if st.Block().Dominates(ld.Block()) {
		return st.Val
	}
	return nil
}

// singleStoreOf: the only store to the scalar local a, when no function literal writes it and its
// address does not escape; nil otherwise.
func singleStoreOf(a *ssa.Alloc) *ssa.Store {
	st, seen := singleStoreMemo[a], singleStoreSeen[a]
	if !seen {
		singleStoreSeen[a] = true
		st = nil
		ok := a.Referrers() != nil
		switch a.Type().(*types.Pointer).Elem().Underlying().(type) {
		case *types.Struct, *types.Array:
			ok = false
		}
		n := 0
		if ok {
			for _, r := range *a.Referrers() {
				switch x := r.(type) {
				case *ssa.Store:
					if x.Addr != ssa.Value(a) {
						ok = false
					}
					st = x
					n++
				case *ssa.UnOp, *ssa.DebugRef:
				case *ssa.MakeClosure:
					fn, _ := x.Fn.(*ssa.Function)
					for i, b := range x.Bindings {
						if b != ssa.Value(a) || fn == nil || i >= len(fn.FreeVars) {
							continue
						}
						if refs := fn.FreeVars[i].Referrers(); refs != nil {
							for _, fr := range *refs {
								switch y := fr.(type) {
								case *ssa.UnOp, *ssa.DebugRef:
								case *ssa.Store:
									if y.Addr == ssa.Value(fn.FreeVars[i]) {
										ok = false
									}
								default:
									ok = false
								}
							}
						}
					}
				default:
					ok = false
				}
			}
		}
		if !ok || n != 1 {
			st = nil
		}
		singleStoreMemo[a] = st
	}
	return st
}

// FieldOfAddr returns the struct field addressed by v if v is a FieldAddr.
func FieldOfAddr(v ssa.Value) (*types.Var, ssa.Value) {
	fa, ok := v.(*ssa.FieldAddr)
	if !ok {
		return nil, nil
	}
	st := derefStruct(fa.X.Type())
	if st == nil {
		return nil, nil
	}
	return st.Field(fa.Field), fa.X
}

func derefStruct(t types.Type) *types.Struct {
	if p, ok := t.Underlying().(*types.Pointer); ok {
		t = p.Elem()
	}
	st, _ := t.Underlying().(*types.Struct)
	return st
}

// LoadedField: if v is a load of a struct field (through *FieldAddr or Field on a struct
// value), returns the field and the base value.
func LoadedField(v ssa.Value) (*types.Var, ssa.Value) {
	switch x := v.(type) {
	case *ssa.UnOp:
		if x.Op == token.MUL {
			return FieldOfAddr(x.X)
		}
	case *ssa.Field:
		st := derefStruct(x.X.Type())
		if st != nil {
			return st.Field(x.Field), x.X
		}
	}
	return nil, nil
}

// IsFieldLoad matches loads of the given field (any base).
func IsFieldLoad(f *types.Var) VPred {
	return func(v ssa.Value) bool {
		g, _ := LoadedField(Strip(v))
		return g != nil && g == f
	}
}

// IsFieldLoadOf matches loads of field f whose base satisfies base.
func IsFieldLoadOf(f *types.Var, base VPred) VPred {
	return func(v ssa.Value) bool {
		g, b := LoadedField(Strip(v))
		return g != nil && g == f && base(b)
	}
}

func Any(v ssa.Value) bool { return true }

func Or(ps ...VPred) VPred {
	return func(v ssa.Value) bool {
		for _, p := range ps {
			if p(v) {
				return true
			}
		}
		return false
	}
}

// IsConstInt matches an integer constant equal to n.
func IsConstInt(n int64) VPred {
	return func(v ssa.Value) bool {
		c, ok := Strip(v).(*ssa.Const)
		if !ok || c.Value == nil || c.Value.Kind() != constant.Int {
			return false
		}
		x, ok := constant.Int64Val(c.Value)
		return ok && x == n
	}
}

// IsConstOf matches a constant with the value of the named constant c.
func IsConstOf(c *types.Const) VPred {
	return func(v ssa.Value) bool {
		k, ok := Strip(v).(*ssa.Const)
		if !ok || k.Value == nil || c == nil {
			return false
		}
		// a constant of a named type is not matched by a plain integer (or a constant of another named
		// type) that happens to have the same value: `reason == 2` is not `cat == TopicCatP2P`
		if nc, isNamed := c.Type().(*types.Named); isNamed {
			if nk, ok := k.Type().(*types.Named); ok {
				if !types.Identical(nk, nc) {
					return false
				}
			} else if v.Type() != nil {
				if _, vNamed := v.Type().(*types.Named); !vNamed && !types.Identical(v.Type().Underlying(), nc.Underlying()) {
					return false
				}
			}
		}
		return constant.Compare(k.Value, token.EQL, c.Val())
	}
}

func IsConstString(s string) VPred {
	return func(v ssa.Value) bool {
		k, ok := Strip(v).(*ssa.Const)
		if !ok || k.Value == nil || k.Value.Kind() != constant.String {
			return false
		}
		return constant.StringVal(k.Value) == s
	}
}

func IsNil(v ssa.Value) bool {
	k, ok := v.(*ssa.Const)
	return ok && k.Value == nil
}

// IsBinOp matches x op y (either order when commutative is true).
func IsBinOp(op token.Token, a, b VPred, commutative bool) VPred {
	return func(v ssa.Value) bool {
		x, ok := Strip(v).(*ssa.BinOp)
		if !ok || x.Op != op {
			return false
		}
		if a(x.X) && b(x.Y) {
			return true
		}
		return commutative && a(x.Y) && b(x.X)
	}
}

// CalleeOf returns the statically known callee object: a static function/method, or the
// interface method for invoke-mode calls.
func CalleeOf(c *ssa.CallCommon) *types.Func {
	if c.IsInvoke() {
		return c.Method
	}
	if f := c.StaticCallee(); f != nil {
		if o, ok := f.Object().(*types.Func); ok {
			return o
		}
		if f.Origin() != nil {
			if o, ok := f.Origin().Object().(*types.Func); ok {
				return o
			}
		}
	}
	return nil
}

// CallArgs returns receiver (if any) followed by arguments, uniformly for call and invoke mode.
func CallArgs(c *ssa.CallCommon) []ssa.Value {
	if c.IsInvoke() {
		return append([]ssa.Value{c.Value}, c.Args...)
	}
	return c.Args
}

// IsCallTo matches a call value (the result) of callee f whose args (receiver first) satisfy
// the given predicates (nil = any; fewer predicates than args allowed).
func IsCallTo(f *types.Func, args ...VPred) VPred {
	return func(v ssa.Value) bool {
		c, ok := Strip(v).(*ssa.Call)
		if !ok || f == nil {
			return false
		}
		if CalleeOf(&c.Call) != f {
			return false
		}
		as := CallArgs(&c.Call)
		for i, p := range args {
			if p == nil {
				continue
			}
			if i >= len(as) || !(p(as[i]) || p(Strip(as[i]))) {
				return false
			}
		}
		return true
	}
}

// AllInstrs calls f for every instruction of fn (not descending into closures).
func AllInstrs(fn *ssa.Function, f func(ssa.Instruction)) {
	for _, b := range fn.Blocks {
		for _, in := range b.Instrs {
			f(in)
		}
	}
}

// WithClosures returns fn and all functions nested in it.
func WithClosures(fn *ssa.Function) []*ssa.Function {
	out := []*ssa.Function{fn}
	for _, a := range fn.AnonFuncs {
		out = append(out, WithClosures(a)...)
	}
	return out
}

// CallsTo lists call instructions (call, go, defer) in fn whose callee is f.
func CallsTo(fn *ssa.Function, f *types.Func) []ssa.CallInstruction {
	var out []ssa.CallInstruction
	if fn == nil || f == nil {
		return nil
	}
	AllInstrs(fn, func(in ssa.Instruction) {
		if ci, ok := in.(ssa.CallInstruction); ok {
			if CalleeOf(ci.Common()) == f {
				out = append(out, ci)
			}
		}
	})
	return out
}

// StoresToField lists Store instructions in fn whose address is field f.
func StoresToField(fn *ssa.Function, f *types.Var) []*ssa.Store {
	var out []*ssa.Store
	AllInstrs(fn, func(in ssa.Instruction) {
		if st, ok := in.(*ssa.Store); ok {
			if g, _ := FieldOfAddr(st.Addr); g != nil && g == f {
				out = append(out, st)
			}
		}
	})
	return out
}

// FuncsWhere returns module functions for which pred holds.
func (p *Prog) FuncsWhere(pred func(fn *ssa.Function) bool) []*ssa.Function {
	var out []*ssa.Function
	for _, fn := range p.ModFuncs {
		if pred(fn) {
			out = append(out, fn)
		}
	}
	return out
}

// InPkg tells whether fn belongs (possibly as closure) to the module-relative package rel.
func InPkg(fn *ssa.Function, rel string) bool {
	t := TopFunc(fn)
	if t.Pkg == nil {
		if o := t.Object(); o != nil && o.Pkg() != nil {
			return o.Pkg().Path() == ModPath+"/"+rel
		}
		return false
	}
	return t.Pkg.Pkg.Path() == ModPath+"/"+rel
}

// ---------------------------------------------------------------------------
// Control-flow: edges, guards, reachability

// Edge is the i-th successor edge of a block.
type Edge struct {
	From *ssa.BasicBlock
	Idx  int
}

// CondAtom normalises the condition of an If: strips logical NOT and maps NEQ/GEQ/GTR/LEQ to
// (EQL|LSS, operands, negated).
type CondAtom struct {
	Val     ssa.Value   // boolean atom when Op == ILLEGAL
	Op      token.Token // EQL or LSS for comparisons, ILLEGAL for plain boolean values
	X, Y    ssa.Value
	Negated bool // the If's true edge corresponds to atom == !Negated
}

func NormCond(c ssa.Value) CondAtom {
	neg := false
	for {
		if u, ok := c.(*ssa.UnOp); ok && u.Op == token.NOT {
			neg = !neg
			c = u.X
			continue
		}
		break
	}
	if b, ok := c.(*ssa.BinOp); ok {
		switch b.Op {
		case token.EQL:
			return CondAtom{Op: token.EQL, X: b.X, Y: b.Y, Negated: neg}
		case token.NEQ:
			return CondAtom{Op: token.EQL, X: b.X, Y: b.Y, Negated: !neg}
		case token.LSS:
			return CondAtom{Op: token.LSS, X: b.X, Y: b.Y, Negated: neg}
		case token.GEQ:
			return CondAtom{Op: token.LSS, X: b.X, Y: b.Y, Negated: !neg}
		case token.GTR:
			return CondAtom{Op: token.LSS, X: b.Y, Y: b.X, Negated: neg}
		case token.LEQ:
			return CondAtom{Op: token.LSS, X: b.Y, Y: b.X, Negated: !neg}
		}
	}
	return CondAtom{Val: c, Op: token.ILLEGAL, Negated: neg}
}

// Guard describes a condition and which outcome lets execution "pass".
type Guard struct {
	Name string
	// Match inspects a normalised atom; returns (matched, atomValueThatPasses).
	Match func(a CondAtom) (bool, bool)
}

// BoolGuard: atom is a boolean value matching p; execution passes when it equals want.
func BoolGuard(name string, p VPred, want bool) Guard {
	return Guard{name, func(a CondAtom) (bool, bool) {
		if a.Op != token.ILLEGAL || !p(a.Val) {
			return false, false
		}
		return true, want
	}}
}

// EqGuard: atom is x == y (either order); passes when equality == want.
func EqGuard(name string, x, y VPred, want bool) Guard {
	return Guard{name, func(a CondAtom) (bool, bool) {
		if a.Op != token.EQL {
			return false, false
		}
		if (x(a.X) && y(a.Y)) || (x(a.Y) && y(a.X)) {
			return true, want
		}
		return false, false
	}}
}

// LessGuard: atom is x < y; passes when (x<y) == want. (x>=y is normalised to !(x<y), x>y to y<x.)
func LessGuard(name string, x, y VPred, want bool) Guard {
	return Guard{name, func(a CondAtom) (bool, bool) {
		if a.Op != token.LSS {
			return false, false
		}
		if x(a.X) && y(a.Y) {
			return true, want
		}
		return false, false
	}}
}

// NilGuard: x == nil; passes when (x==nil) == wantNil.
func NilGuard(name string, x VPred, wantNil bool) Guard {
	return EqGuard(name, x, IsNil, wantNil)
}

// PassEdges returns, for every If in fn whose condition matches one of the guards, the edge on
// which the guard passes, and the number of matching Ifs per guard.
func PassEdges(fn *ssa.Function, guards ...Guard) (map[Edge]bool, []int) {
	return passEdgesDepth(fn, 0, guards...)
}

// substTop applies ParamSubst to the top-level operands of a condition atom.
func substTop(a CondAtom) CondAtom {
	if ParamSubst == nil {
		return a
	}
	sub := func(v ssa.Value) ssa.Value {
		for i := 0; v != nil && i < 4; i++ {
			w, ok := ParamSubst[v]
			if !ok || w == v {
				break
			}
			v = w
		}
		return v
	}
	a.Val, a.X, a.Y = sub(a.Val), sub(a.X), sub(a.Y)
	return a
}

func passEdgesDepth(fn *ssa.Function, depth int, guards ...Guard) (map[Edge]bool, []int) {
	edges := map[Edge]bool{}
	counts := make([]int, len(guards))
	for _, b := range fn.Blocks {
		if len(b.Instrs) == 0 {
			continue
		}
		ifi, ok := b.Instrs[len(b.Instrs)-1].(*ssa.If)
		if !ok {
			continue
		}
		a := substTop(NormCond(ifi.Cond))
		// guard wrappers: `if pred(args)` / `if x := check(args); x != nil`
		if depth < 2 {
			summariseWrapper(b, a, depth, guards, edges, counts)
		}
		for gi, g := range guards {
			m, passVal := g.Match(a)
			if !m {
				continue
			}
			counts[gi]++
			// If true-edge taken when cond true. cond == atom XOR Negated.
			// atom == passVal  <=>  cond == (passVal XOR Negated)
			condPass := passVal != a.Negated
			if condPass {
				edges[Edge{b, 0}] = true
			} else {
				edges[Edge{b, 1}] = true
			}
		}
	}
	// materialised booleans: `ok := a || b; if ok {...}` - the condition is a phi of constants and
	// atom values; its T-edge is a pass edge when every way of the phi being T passed a guard
	for _, b := range fn.Blocks {
		if len(b.Instrs) == 0 {
			continue
		}
		ifi, ok := b.Instrs[len(b.Instrs)-1].(*ssa.If)
		if !ok {
			continue
		}
		v, neg := ifi.Cond, false
		for {
			if u, ok := v.(*ssa.UnOp); ok && u.Op == token.NOT {
				v, neg = u.X, !neg
				continue
			}
			break
		}
		phi, ok := v.(*ssa.Phi)
		if !ok {
			continue
		}
		// blocks entered only through a pass edge found so far
		var passTargets []*ssa.BasicBlock
		for e := range edges {
			tgt := e.From.Succs[e.Idx]
			if len(tgt.Preds) == 1 {
				passTargets = append(passTargets, tgt)
			}
		}
		behindPass := func(x *ssa.BasicBlock) bool {
			for _, t := range passTargets {
				if t.Dominates(x) {
					return true
				}
			}
			return false
		}
		if behindPass(phi.Block()) {
			continue // the whole condition lies behind a pass edge already
		}
		// incoming ways that cannot happen: the edge into the merge block is dead (DeadEdges, set by
		// a rule that resolved constant flags), or it leaves a branch on a constant
		deadWay := func(pred *ssa.BasicBlock) bool {
			for si, su := range pred.Succs {
				if su != phi.Block() {
					continue
				}
				if DeadEdges[Edge{pred, si}] {
					return true
				}
				if len(pred.Instrs) > 0 {
					if pif, ok := pred.Instrs[len(pred.Instrs)-1].(*ssa.If); ok {
						cv, cneg := pif.Cond, false
						for {
							if u, ok := cv.(*ssa.UnOp); ok && u.Op == token.NOT {
								cv, cneg = u.X, !cneg
								continue
							}
							break
						}
						if k, ok := Strip(cv).(*ssa.Const); ok && k.Value != nil && k.Value.Kind() == constant.Bool {
							taken := 1
							if constant.BoolVal(k.Value) != cneg {
								taken = 0
							}
							if si != taken {
								return true
							}
						}
					}
				}
			}
			return false
		}
		for _, T := range []bool{true, false} {
			all, some := true, false
			matched := make([]int, len(guards))
			for i, e := range phi.Edges {
				pred := phi.Block().Preds[i]
				if deadWay(pred) {
					continue
				}
				if behindPass(pred) {
					// this way of computing the phi has passed a guard (start-independent: dominance)
					some = true
					continue
				}
				if k, isK := e.(*ssa.Const); isK && k.Value != nil && k.Value.Kind() == constant.Bool {
					if constant.BoolVal(k.Value) != T {
						continue
					}
					viaCut := false
					for si, su := range pred.Succs {
						if su == phi.Block() && edges[Edge{pred, si}] {
							viaCut = true
						}
					}
					if !viaCut {
						all = false
					}
					some = true
					continue
				}
				a := substTop(NormCond(e))
				okAtom := false
				for gi, g := range guards {
					if m, passVal := g.Match(a); m && (T != a.Negated) == passVal {
						okAtom = true
						matched[gi]++
					}
				}
				if !okAtom {
					all = false
				}
				some = true
			}
			if !all || !some {
				continue
			}
			for gi := range guards {
				if matched[gi] > 0 {
					counts[gi]++
				}
			}
			// cond == phi XOR neg; phi == T  <=>  cond == (T != neg)
			if T != neg {
				edges[Edge{b, 0}] = true
			} else {
				edges[Edge{b, 1}] = true
			}
		}
	}
	return edges, counts
}

// GuardEdges: the pass edges of the guards themselves (direct matches, summarised predicates and
// materialised booleans with a real contribution), without the branches that are merely dead under
// the cut. Use it when the edges serve as starting points of a path search.
func GuardEdges(fn *ssa.Function, guards ...Guard) (map[Edge]bool, []int) {
	saved := noDeadEdges
	noDeadEdges = true
	pe, cnt := PassEdges(fn, guards...)
	noDeadEdges = saved
	return pe, cnt
}

// DeadEdges: edges a rule has established as infeasible for the query at hand (constant flags
// resolved per case); the ways of a merged condition that arrive over them are ignored.
var DeadEdges map[Edge]bool

// noDeadEdges: set while FailEdges computes the pass edges it complements (branches that are merely
// dead under the cut are not guards and have no fail edge).
var noDeadEdges bool

// FailEdges is the complement of PassEdges at the matching Ifs.
func FailEdges(fn *ssa.Function, guards ...Guard) map[Edge]bool {
	noDeadEdges = true
	pe, _ := PassEdges(fn, guards...)
	noDeadEdges = false
	out := map[Edge]bool{}
	for e := range pe {
		out[Edge{e.From, 1 - e.Idx}] = true
	}
	return out
}

// ReachBlocks computes the blocks reachable from the entry of fn (or from the given start
// blocks) without traversing cut edges.
func ReachBlocks(fn *ssa.Function, starts []*ssa.BasicBlock, cut map[Edge]bool) map[*ssa.BasicBlock]bool {
	seen := map[*ssa.BasicBlock]bool{}
	var work []*ssa.BasicBlock
	if starts == nil {
		if len(fn.Blocks) == 0 {
			return seen
		}
		starts = []*ssa.BasicBlock{fn.Blocks[0]}
	}
	for _, s := range starts {
		if !seen[s] {
			seen[s] = true
			work = append(work, s)
		}
	}
	for len(work) > 0 {
		b := work[len(work)-1]
		work = work[:len(work)-1]
		for i, s := range b.Succs {
			if cut[Edge{b, i}] {
				continue
			}
			if !seen[s] {
				seen[s] = true
				work = append(work, s)
			}
		}
	}
	return seen
}

// ReachFromEdges: blocks reachable starting from the targets of the given edges.
func ReachFromEdges(fn *ssa.Function, edges map[Edge]bool, cut map[Edge]bool) map[*ssa.BasicBlock]bool {
	var starts []*ssa.BasicBlock
	for e := range edges {
		if cut[e] {
			continue
		}
		starts = append(starts, e.From.Succs[e.Idx])
	}
	if len(starts) == 0 {
		return map[*ssa.BasicBlock]bool{}
	}
	return ReachBlocks(fn, starts, cut)
}

// GuardedBy reports whether instruction sink is unreachable from fn's entry once the pass edges
// of the guards are cut (i.e. every path to the sink goes through a pass edge of some guard).
// It also returns how many Ifs matched each guard.
func GuardedBy(fn *ssa.Function, sink ssa.Instruction, guards ...Guard) (bool, []int) {
	return liftGuarded(fn, sink, 0, func(f *ssa.Function, at ssa.Instruction) (bool, []int) {
		cut, counts := PassEdges(f, guards...)
		r := ReachBlocks(f, nil, cut)
		if liftDebug {
			var es []string
			for e := range cut {
				es = append(es, fmt.Sprintf("%d->%d", e.From.Index, e.From.Succs[e.Idx].Index))
			}
			sort.Strings(es)
			fmt.Fprintf(os.Stderr, "GUARDEDBY %s sinkblock=%d reach=%v counts=%v cut=%v\n", f.Name(), at.Block().Index, r[at.Block()], counts, es)
		}
		return !r[at.Block()], counts
	})
}

// LiftSite is a static call site of a function.
type LiftSite struct {
	Caller *ssa.Function
	Site   ssa.CallInstruction
}

// LiftCallers (set by the rule context from the call graph) lists all call sites of a module
// function. Guard checks that fail inside a function are repeated at every call site of that
// function when it is a plain helper: only called statically, by ordinary calls (a sequential phase
// `validate(); apply(); notify()` or an extracted block): the sink is guarded when every way of
// reaching its function is.
var LiftCallers func(fn *ssa.Function) []LiftSite

// NoLift switches the caller lifting off (for rules that need the intraprocedural answer).
var NoLift bool

func liftGuarded(fn *ssa.Function, sink ssa.Instruction, depth int, check func(f *ssa.Function, at ssa.Instruction) (bool, []int)) (bool, []int) {
	ok, counts := check(fn, sink)
	if ok || NoLift || LiftCallers == nil || depth >= 2 || len(ParamSubst) > 0 {
		return ok, counts
	}
	if fn.Parent() != nil {
		// a function literal: lifted to the places where the enclosing function calls it directly
		var calls []*ssa.Call
		good := true
		AllInstrs(fn.Parent(), func(in ssa.Instruction) {
			mc, isMC := in.(*ssa.MakeClosure)
			if !isMC || mc.Fn != ssa.Value(fn) {
				return
			}
			if mc.Referrers() == nil {
				good = false
				return
			}
			for _, r := range *mc.Referrers() {
				switch x := r.(type) {
				case *ssa.Call:
					if x.Call.Value != ssa.Value(mc) {
						good = false
					}
					calls = append(calls, x)
				case *ssa.DebugRef:
				default:
					good = false
				}
			}
		})
		if !good || len(calls) == 0 {
			return ok, counts
		}
		total := append([]int{}, counts...)
		for _, call := range calls {
			ok2, c2 := liftGuarded(fn.Parent(), call, depth+1, check)
			if !ok2 {
				return false, counts
			}
			for i := range c2 {
				if i < len(total) {
					total[i] += c2[i]
				}
			}
		}
		return true, total
	}
	sites := LiftCallers(fn)
	if len(sites) == 0 {
		return ok, counts
	}
	total := append([]int{}, counts...)
	for _, cs := range sites {
		call, isCall := cs.Site.(*ssa.Call)
		if !isCall || call.Call.StaticCallee() != fn || !inModule(cs.Caller) {
			return false, counts
		}
		ok2, c2 := liftGuarded(cs.Caller, call, depth+1, check)
		if !ok2 {
			return false, counts
		}
		if liftDebug {
			fmt.Fprintf(os.Stderr, "LIFT %s -> %s ok counts=%v\n", fn.Name(), cs.Caller.Name(), c2)
		}
		for i := range c2 {
			if i < len(total) {
				total[i] += c2[i]
			}
		}
	}
	return true, total
}

var liftDebug = os.Getenv("VERIF_LIFTDEBUG") != ""

// Pos of an instruction, falling back to neighbours when the instruction has none.
func InstrPos(in ssa.Instruction) token.Pos {
	if in.Pos().IsValid() {
		return in.Pos()
	}
	b := in.Block()
	for _, x := range b.Instrs {
		if x.Pos().IsValid() {
			return x.Pos()
		}
	}
	return in.Parent().Pos()
}

// PathAvoiding reports whether some path exists from `from` (exclusive; nil = function entry) to
// an instruction satisfying target, that does not execute an instruction satisfying avoid and
// does not traverse a cut edge. Instruction-level.
func PathAvoiding(fn *ssa.Function, from ssa.Instruction, target, avoid func(ssa.Instruction) bool, cut map[Edge]bool) (bool, ssa.Instruction) {
	type pos struct {
		b *ssa.BasicBlock
		i int
	}
	var start pos
	if from == nil {
		if len(fn.Blocks) == 0 {
			return false, nil
		}
		start = pos{fn.Blocks[0], 0}
	} else {
		b := from.Block()
		idx := -1
		for i, in := range b.Instrs {
			if in == from {
				idx = i
				break
			}
		}
		start = pos{b, idx + 1}
	}
	seenBlock := map[*ssa.BasicBlock]bool{}
	work := []pos{start}
	for len(work) > 0 {
		p := work[len(work)-1]
		work = work[:len(work)-1]
		blocked := false
		for i := p.i; i < len(p.b.Instrs); i++ {
			in := p.b.Instrs[i]
			if target(in) {
				return true, in
			}
			if avoid != nil && avoid(in) {
				blocked = true
				break
			}
		}
		if blocked {
			continue
		}
		for i, s := range p.b.Succs {
			if cut[Edge{p.b, i}] {
				continue
			}
			if !seenBlock[s] {
				seenBlock[s] = true
				work = append(work, pos{s, 0})
			}
		}
	}
	return false, nil
}

// PathFromEdgeAvoiding is PathAvoiding started at the target blocks of the given edges.
func PathFromEdgeAvoiding(fn *ssa.Function, edges map[Edge]bool, target, avoid func(ssa.Instruction) bool, cut map[Edge]bool) (bool, ssa.Instruction) {
	seenBlock := map[*ssa.BasicBlock]bool{}
	var work []*ssa.BasicBlock
	for e := range edges {
		s := e.From.Succs[e.Idx]
		if !seenBlock[s] {
			seenBlock[s] = true
			work = append(work, s)
		}
	}
	for len(work) > 0 {
		b := work[len(work)-1]
		work = work[:len(work)-1]
		blocked := false
		for _, in := range b.Instrs {
			if target(in) {
				return true, in
			}
			if avoid != nil && avoid(in) {
				blocked = true
				break
			}
		}
		if blocked {
			continue
		}
		for i, s := range b.Succs {
			if cut[Edge{b, i}] {
				continue
			}
			if !seenBlock[s] {
				seenBlock[s] = true
				work = append(work, s)
			}
		}
	}
	return false, nil
}

func IsReturn(in ssa.Instruction) bool {
	_, ok := in.(*ssa.Return)
	return ok
}

// IsCallInstrTo builds an instruction predicate: call/go/defer of any of the callees.
func IsCallInstrTo(fs ...*types.Func) func(ssa.Instruction) bool {
	return func(in ssa.Instruction) bool {
		ci, ok := in.(ssa.CallInstruction)
		if !ok {
			return false
		}
		c := CalleeOf(ci.Common())
		if c == nil {
			return false
		}
		for _, f := range fs {
			if f == c {
				return true
			}
		}
		return false
	}
}

// ---------------------------------------------------------------------------
// Provenance

var derivesActive = map[*ssa.Function]bool{}

// derivesThroughReturn: result #idx of the call derives from src when the values returned by the
// callee do (parameters substituted by the arguments). Zero-value constants among the returned
// values are neutral as long as some returned value derives. decided=false when the callee cannot
// be inspected.
func derivesThroughReturn(call *ssa.Call, idx int, src VPred, all bool, seen map[ssa.Value]bool, depth int) (bool, bool) {
	callee := call.Call.StaticCallee()
	if !inModule(callee) || derivesActive[callee] || len(derivesActive) >= 2 {
		return false, false
	}
	derivesActive[callee] = true
	defer delete(derivesActive, callee)
	saved := ParamSubst
	ns := map[ssa.Value]ssa.Value{}
	for k, v := range saved {
		ns[k] = v
	}
	for i, p := range callee.Params {
		if i < len(call.Call.Args) {
			ns[p] = call.Call.Args[i]
		}
	}
	ParamSubst = ns
	defer func() { ParamSubst = saved }()
	nOK, nBad, nRet := 0, 0, 0
	AllInstrs(callee, func(in ssa.Instruction) {
		ret, ok := in.(*ssa.Return)
		if !ok || idx >= len(ret.Results) {
			return
		}
		nRet++
		v := ret.Results[idx]
		if k, isK := v.(*ssa.Const); isK && (k.Value == nil || isZeroConst(k)) {
			return
		}
		if derives(v, src, all, seen, depth+1) {
			nOK++
		} else {
			nBad++
		}
	})
	if nRet == 0 {
		return false, false
	}
	if all {
		return nOK > 0 && nBad == 0, true
	}
	return nOK > 0, true
}

func isZeroConst(k *ssa.Const) bool {
	if k.Value == nil {
		return true
	}
	switch k.Value.Kind() {
	case constant.String:
		return constant.StringVal(k.Value) == ""
	case constant.Int:
		return constant.Sign(k.Value) == 0
	case constant.Bool:
		return !constant.BoolVal(k.Value)
	}
	return false
}

// Derives reports whether v derives from a value satisfying src, walking backwards through
// value-preserving instructions. mode "all": every incoming phi edge must derive; "any": some.
func Derives(v ssa.Value, src VPred, all bool) bool {
	return derives(v, src, all, map[ssa.Value]bool{}, 0)
}

func derives(v ssa.Value, src VPred, all bool, seen map[ssa.Value]bool, depth int) bool {
	if v == nil || depth > 40 {
		return false
	}
	if src(v) {
		return true
	}
	if seen[v] {
		return all // a cycle contributes nothing new
	}
	seen[v] = true
	if w, ok := ParamSubst[v]; ok && w != v {
		return derives(w, src, all, seen, depth+1)
	}
	// the result of an extracted helper: every returned value derives (zero constants are neutral)
	if rc, ri := resultCall(v); rc != nil && depth < 30 {
		if ok, decided := derivesThroughReturn(rc, ri, src, all, seen, depth); decided {
			return ok
		}
	}
	switch x := v.(type) {
	case *ssa.Parameter:
		// a parameter of a helper / phase with a single call site, a plain static call: the argument
		if LiftCallers != nil && x.Parent().Parent() == nil && (x.Parent().Object() == nil || !x.Parent().Object().Exported()) {
			sites := LiftCallers(x.Parent())
			if len(sites) == 1 {
				if call, ok := sites[0].Site.(*ssa.Call); ok && call.Call.StaticCallee() == x.Parent() {
					for i, q := range x.Parent().Params {
						if q == x && i < len(call.Call.Args) {
							return derives(call.Call.Args[i], src, all, seen, depth+1)
						}
					}
				}
			}
		}
		return false
	case *ssa.ChangeType:
		return derives(x.X, src, all, seen, depth+1)
	case *ssa.Convert:
		return derives(x.X, src, all, seen, depth+1)
	case *ssa.MakeInterface:
		return derives(x.X, src, all, seen, depth+1)
	case *ssa.ChangeInterface:
		return derives(x.X, src, all, seen, depth+1)
	case *ssa.TypeAssert:
		return derives(x.X, src, all, seen, depth+1)
	case *ssa.Slice:
		return derives(x.X, src, all, seen, depth+1)
	case *ssa.Extract:
		return derives(x.Tuple, src, all, seen, depth+1)
	case *ssa.Phi:
		if all {
			for _, e := range x.Edges {
				if !derives(e, src, all, seen, depth+1) {
					return false
				}
			}
			return len(x.Edges) > 0
		}
		for _, e := range x.Edges {
			if derives(e, src, all, seen, depth+1) {
				return true
			}
		}
		return false
	case *ssa.UnOp:
		if x.Op == token.MUL {
			// load of a local cell: look at the stores into it
			if al, ok := x.X.(*ssa.Alloc); ok {
				stores := 0
				okAll := true
				okAny := false
				for _, r := range *al.Referrers() {
					if st, ok := r.(*ssa.Store); ok && st.Addr == al {
						stores++
						d := derives(st.Val, src, all, seen, depth+1)
						okAll = okAll && d
						okAny = okAny || d
					}
				}
				if stores == 0 {
					return false
				}
				if all {
					return okAll
				}
				return okAny
			}
		}
	}
	return false
}

// ConstIntValue returns the int64 of a constant value.
func ConstIntValue(v ssa.Value) (int64, bool) {
	c, ok := Strip(v).(*ssa.Const)
	if !ok || c.Value == nil || c.Value.Kind() != constant.Int {
		return 0, false
	}
	return constant.Int64Val(c.Value)
}

// CorrelatedCuts: when the sink is dominated by one outcome of `if V`, every other `if V` on the
// same SSA value V must take the same outcome on any path to the sink (an SSA value is immutable):
// returns the edges that contradict it. NOT/negation of V is normalised.
func CorrelatedCuts(fn *ssa.Function, sink ssa.Instruction) map[Edge]bool {
	out := map[Edge]bool{}
	type iff struct {
		b *ssa.BasicBlock
		a CondAtom
	}
	var ifs []iff
	for _, b := range fn.Blocks {
		if len(b.Instrs) == 0 {
			continue
		}
		ifi, ok := b.Instrs[len(b.Instrs)-1].(*ssa.If)
		if !ok {
			continue
		}
		ifs = append(ifs, iff{b, NormCond(ifi.Cond)})
	}
	sb := sink.Block()
	for _, a := range ifs {
		// which outcome of a dominates the sink?
		for idx := 0; idx < 2; idx++ {
			s := a.b.Succs[idx]
			if len(s.Preds) != 1 || !s.Dominates(sb) {
				continue
			}
			// truth of the atom on this edge: true-edge (idx 0) means cond true => atom == !Negated
			val := (idx == 0) != a.a.Negated
			for _, o := range ifs {
				if o.b == a.b || !SameAtom(o.a, a.a) {
					continue
				}
				// edge of o on which the atom == val is allowed; the other is cut
				allowedIdx := 0
				if val == o.a.Negated {
					allowedIdx = 1
				}
				out[Edge{o.b, 1 - allowedIdx}] = true
			}
		}
	}
	return out
}

// SameAtom: two normalised conditions compute the same boolean on every execution: the same SSA
// value, or the same comparison of identical SSA values / equal constants (go/ssa does no CSE, an
// SSA value is immutable).
func SameAtom(a, b CondAtom) bool {
	if a.Op != b.Op {
		return false
	}
	if a.Op == token.ILLEGAL {
		return a.Val == b.Val
	}
	if sameOperand(a.X, b.X) && sameOperand(a.Y, b.Y) {
		return true
	}
	return a.Op == token.EQL && sameOperand(a.X, b.Y) && sameOperand(a.Y, b.X)
}

func sameOperand(x, y ssa.Value) bool {
	if x == y {
		return true
	}
	kx, ok1 := x.(*ssa.Const)
	ky, ok2 := y.(*ssa.Const)
	if !ok1 || !ok2 || !types.Identical(kx.Type(), ky.Type()) {
		return false
	}
	if kx.Value == nil || ky.Value == nil {
		return kx.Value == nil && ky.Value == nil
	}
	return constant.Compare(kx.Value, token.EQL, ky.Value)
}

// Assumed: boolean SSA values with a known truth value for the duration of a correlated query;
// guard-wrapper summaries prune the callee's branches that contradict them (after parameter
// substitution).
var Assumed map[ssa.Value]bool

// AssumedPaths: like Assumed, keyed by the access path of a boolean field load rooted at a
// parameter ("p1.Acc.Login"): a request flag read twice is the same flag, provided the function
// never stores to that field (the request message is not mutated concurrently: trusted).
var AssumedPaths map[string]bool

// AccessPath renders a load chain rooted at a parameter as "p<i>.F.G"; "" otherwise.
func AccessPath(v ssa.Value) string {
	var fields []string
	for i := 0; i < 8 && v != nil; i++ {
		switch x := v.(type) {
		case *ssa.UnOp:
			if x.Op != token.MUL {
				return ""
			}
			v = x.X
		case *ssa.FieldAddr:
			f, base := FieldOfAddr(x)
			if f == nil {
				return ""
			}
			fields = append(fields, f.Name())
			v = base
		case *ssa.Field:
			f, base := LoadedField(x)
			if f == nil {
				return ""
			}
			fields = append(fields, f.Name())
			v = base
		case *ssa.Parameter:
			idx := -1
			for j, p := range x.Parent().Params {
				if p == x {
					idx = j
				}
			}
			if idx < 0 || len(fields) == 0 {
				return ""
			}
			out := fmt.Sprintf("p%d", idx)
			for j := len(fields) - 1; j >= 0; j-- {
				out += "." + fields[j]
			}
			return out
		default:
			return ""
		}
	}
	return ""
}

// storesToFieldNamed: fn contains a store to a field with this name (any base).
func storesToFieldNamed(fn *ssa.Function, name string) bool {
	found := false
	AllInstrs(fn, func(in ssa.Instruction) {
		if st, ok := in.(*ssa.Store); ok {
			if f, _ := FieldOfAddr(st.Addr); f != nil && f.Name() == name {
				found = true
			}
		}
	})
	return found
}

// DominatingPaths: access paths of boolean field loads whose outcome is fixed by the branches
// dominating the sink (only fields the function never stores to).
func DominatingPaths(fn *ssa.Function, sink ssa.Instruction) map[string]bool {
	out := map[string]bool{}
	for v, val := range DominatingConds(fn, sink) {
		p := AccessPath(v)
		if p == "" {
			continue
		}
		last := p[strings.LastIndex(p, ".")+1:]
		if storesToFieldNamed(fn, last) {
			continue
		}
		out[p] = val
	}
	return out
}

// DominatingConds: the boolean SSA values (NOT stripped) whose outcome is fixed by the branches
// dominating the sink.
func DominatingConds(fn *ssa.Function, sink ssa.Instruction) map[ssa.Value]bool {
	out := map[ssa.Value]bool{}
	sb := sink.Block()
	for _, b := range fn.Blocks {
		if len(b.Instrs) == 0 {
			continue
		}
		ifi, ok := b.Instrs[len(b.Instrs)-1].(*ssa.If)
		if !ok {
			continue
		}
		v, neg := ifi.Cond, false
		for {
			if u, ok := v.(*ssa.UnOp); ok && u.Op == token.NOT {
				v, neg = u.X, !neg
				continue
			}
			break
		}
		for idx := 0; idx < 2; idx++ {
			su := b.Succs[idx]
			if len(su.Preds) != 1 || !su.Dominates(sb) {
				continue
			}
			out[v] = (idx == 0) != neg
		}
	}
	return out
}

// assumedCuts: edges of fn contradicting Assumed (conditions resolved through ParamSubst).
// AssumeFn, when set, gives the truth value of normalised condition atoms that are fixed for the
// duration of a query (for instance "the request kind equals K"): branches contradicting it are
// pruned, also inside guard-wrapper summaries.
var AssumeFn func(a CondAtom) (known bool, val bool)

// AssumedCuts: the edges of fn that contradict the current assumptions.
func AssumedCuts(fn *ssa.Function) map[Edge]bool { return assumedCuts(fn) }

func assumedCuts(fn *ssa.Function) map[Edge]bool {
	out := map[Edge]bool{}
	if AssumeFn != nil {
		for _, b := range fn.Blocks {
			if len(b.Instrs) == 0 {
				continue
			}
			ifi, ok := b.Instrs[len(b.Instrs)-1].(*ssa.If)
			if !ok {
				continue
			}
			a := substTop(NormCond(ifi.Cond))
			known, val := AssumeFn(a)
			if !known {
				continue
			}
			// cond is true iff atom == !Negated
			if val != a.Negated {
				out[Edge{b, 1}] = true
			} else {
				out[Edge{b, 0}] = true
			}
		}
	}
	if len(AssumedPaths) > 0 {
		for _, b := range fn.Blocks {
			if len(b.Instrs) == 0 {
				continue
			}
			ifi, ok := b.Instrs[len(b.Instrs)-1].(*ssa.If)
			if !ok {
				continue
			}
			v, neg := ifi.Cond, false
			for {
				if u, ok := v.(*ssa.UnOp); ok && u.Op == token.NOT {
					v, neg = u.X, !neg
					continue
				}
				break
			}
			// only in the function the paths were taken from (parameter indices are per function)
			if p := AccessPath(v); p != "" && len(ParamSubst) == 0 {
				if val, known := AssumedPaths[p]; known {
					if val != neg {
						out[Edge{b, 1}] = true
					} else {
						out[Edge{b, 0}] = true
					}
				}
			}
		}
	}
	if len(Assumed) == 0 {
		return out
	}
	for _, b := range fn.Blocks {
		if len(b.Instrs) == 0 {
			continue
		}
		ifi, ok := b.Instrs[len(b.Instrs)-1].(*ssa.If)
		if !ok {
			continue
		}
		v, neg := ifi.Cond, false
		for {
			if u, ok := v.(*ssa.UnOp); ok && u.Op == token.NOT {
				v, neg = u.X, !neg
				continue
			}
			break
		}
		if s, ok := ParamSubst[v]; ok {
			v = s
			for {
				if u, ok := v.(*ssa.UnOp); ok && u.Op == token.NOT {
					v, neg = u.X, !neg
					continue
				}
				break
			}
		}
		val, known := Assumed[v]
		if !known {
			continue
		}
		// cond is true iff V == !neg; the edge on which cond contradicts val is cut
		condVal := val != neg
		if condVal {
			out[Edge{b, 1}] = true
		} else {
			out[Edge{b, 0}] = true
		}
	}
	return out
}

// GuardedByCorr is GuardedBy that also prunes paths contradicting the boolean values implied by
// the branches dominating the sink.
func GuardedByCorr(fn *ssa.Function, sink ssa.Instruction, guards ...Guard) (bool, []int) {
	return liftGuarded(fn, sink, 0, func(f *ssa.Function, at ssa.Instruction) (bool, []int) {
		return guardedByCorr1(f, at, guards...)
	})
}

func guardedByCorr1(fn *ssa.Function, sink ssa.Instruction, guards ...Guard) (bool, []int) {
	saved, savedP := Assumed, AssumedPaths
	Assumed = DominatingConds(fn, sink)
	AssumedPaths = DominatingPaths(fn, sink)
	cut, counts := PassEdges(fn, guards...)
	for e := range assumedCuts(fn) {
		cut[e] = true
	}
	Assumed, AssumedPaths = saved, savedP
	for e := range CorrelatedCuts(fn, sink) {
		cut[e] = true
	}
	r := ReachBlocks(fn, nil, cut)
	return !r[sink.Block()], counts
}

// ---------------------------------------------------------------------------
// Guard-wrapper summaries (interprocedural, depth 2)

// wrapperCall decodes a condition that tests the result of a module function:
//
//	kind "bool": atom is the boolean result of call (#idx of a tuple)
//	kind "nil":  atom is result == nil
func wrapperCall(a CondAtom) (call *ssa.Call, idx int, kind string) {
	get := func(v ssa.Value) (*ssa.Call, int) {
		switch x := v.(type) {
		case *ssa.Call:
			return x, 0
		case *ssa.Extract:
			if c, ok := x.Tuple.(*ssa.Call); ok {
				return c, x.Index
			}
		}
		return nil, 0
	}
	switch a.Op {
	case token.ILLEGAL:
		if c, i := get(a.Val); c != nil {
			return c, i, "bool"
		}
	case token.EQL:
		if IsNil(a.Y) {
			if c, i := get(a.X); c != nil {
				return c, i, "nil"
			}
		}
		if IsNil(a.X) {
			if c, i := get(a.Y); c != nil {
				return c, i, "nil"
			}
		}
	}
	return nil, 0, ""
}

func InModule(fn *ssa.Function) bool { return inModule(fn) }

func inModule(fn *ssa.Function) bool {
	if fn == nil || fn.Blocks == nil {
		return false
	}
	t := TopFunc(fn)
	if t.Pkg != nil {
		return strings.HasPrefix(t.Pkg.Pkg.Path(), ModPath)
	}
	return false
}

// retClass classifies a returned value: +1 (true / non-nil), -1 (false / nil), 0 unknown.
func retClass(v ssa.Value, kind string) int {
	switch kind {
	case "bool":
		if k, ok := v.(*ssa.Const); ok && k.Value != nil && k.Value.Kind() == constant.Bool {
			if constant.BoolVal(k.Value) {
				return 1
			}
			return -1
		}
	case "nil":
		if k, n := Nilness(v, NilFacts{}); k {
			if n {
				return -1
			}
			return 1
		}
		if c, ok := v.(*ssa.Call); ok {
			if cal := c.Call.StaticCallee(); cal != nil && allocatingCtor(cal, 0) {
				return 1
			}
		}
	}
	return 0
}

// allocatingCtor: every return of fn yields a non-nil first result: a fresh object, the result of
// another such function, or a merge of those (memoised; three levels).
var allocCtorMemo = map[*ssa.Function]int{}

func allocatingCtor(fn *ssa.Function, depth int) bool {
	if fn.Blocks == nil || depth > 12 {
		return false
	}
	switch allocCtorMemo[fn] {
	case 1:
		return true
	case 2:
		return false
	case 3:
		return false // in progress
	}
	allocCtorMemo[fn] = 3
	ok := true
	n := 0
	var nonNil func(v ssa.Value, d int) bool
	nonNil = func(v ssa.Value, d int) bool {
		if d > 6 {
			return false
		}
		switch x := v.(type) {
		case *ssa.Alloc, *ssa.MakeInterface:
			return true
		case *ssa.Call:
			cal := x.Call.StaticCallee()
			return cal != nil && inModule(cal) && allocatingCtor(cal, depth+1)
		case *ssa.Phi:
			for _, e := range x.Edges {
				if !nonNil(e, d+1) {
					return false
				}
			}
			return len(x.Edges) > 0
		case *ssa.ChangeType:
			return nonNil(x.X, d+1)
		}
		return false
	}
	AllInstrs(fn, func(in ssa.Instruction) {
		ret, isRet := in.(*ssa.Return)
		if !isRet || len(ret.Results) == 0 {
			return
		}
		n++
		if !nonNil(ret.Results[0], 0) {
			ok = false
		}
	})
	res := ok && n > 0
	if res {
		allocCtorMemo[fn] = 1
	} else if depth == 0 {
		allocCtorMemo[fn] = 2
	} else {
		delete(allocCtorMemo, fn) // a negative found below the top may be due to a cycle cut: not final
	}
	return res
}

// summariseWrapper: for `if callee(args)` adds the edge(s) on which each guard is implied.
func summariseWrapper(b *ssa.BasicBlock, a CondAtom, depth int, guards []Guard, edges map[Edge]bool, counts []int) {
	defer summariseRelational(b, a, depth, guards, edges, counts)
	call, idx, kind := wrapperCall(a)
	if call == nil {
		return
	}
	callee := call.Call.StaticCallee()
	if !inModule(callee) || callee == b.Parent() {
		return
	}
	classForAtomTrue := 1
	if kind == "nil" {
		classForAtomTrue = -1
	}
	for _, atomVal := range []bool{true, false} {
		cls := classForAtomTrue
		if !atomVal {
			cls = -classForAtomTrue
		}
		ok, innerCnt := CalleeImplies(call, idx, kind, cls, depth, guards, nil)
		if !ok {
			continue
		}
		for gi := range guards {
			if innerCnt[gi] > 0 {
				counts[gi]++
			}
		}
		condVal := atomVal != a.Negated
		if condVal {
			edges[Edge{b, 0}] = true
		} else {
			edges[Edge{b, 1}] = true
		}
	}
}

var implyActive = map[*ssa.Function]bool{}

// CalleeImplies: whenever result #idx of the call has class cls (kind "bool": +1 true / -1 false;
// kind "nil": -1 nil / +1 non-nil), the callee's execution passed a pass edge of one of the guards
// (a disjunction), also through returned results of further predicate calls (depth-bounded).
// Callee parameters are substituted by the call's arguments while its body is inspected. When
// startsOf yields edges for the callee, only paths from those edges are considered (bool kind).
// The second result counts, per guard, the matches found inside.
type implyKey struct {
	call  *ssa.Call
	idx   int
	kind  string
	cls   int
	names string
}

type implyVal struct {
	ok  bool
	cnt []int
}

var implyMemo = map[implyKey]implyVal{}

// CalleeImplies is memoised for top-level queries (no substitution, no assumptions, no start
// edges): the same call site is summarised for the same guards by several rules.
func CalleeImplies(call *ssa.Call, idx int, kind string, cls int, depth int, guards []Guard, startsOf func(*ssa.Function) map[Edge]bool) (bool, []int) {
	memo := len(ParamSubst) == 0 && len(Assumed) == 0 && AssumeFn == nil && startsOf == nil
	var key implyKey
	if memo {
		names := ""
		for _, g := range guards {
			if g.Name == "" {
				memo = false
			}
			names += g.Name + "\x00"
		}
		if ExtraNilness != nil {
			names += "+extra"
		}
		key = implyKey{call, idx, kind, cls, names}
		if v, ok := implyMemo[key]; memo && ok {
			return v.ok, append([]int{}, v.cnt...)
		}
	}
	ok, cnt := calleeImplies(call, idx, kind, cls, depth, guards, startsOf)
	if relDebug {
		names := ""
		for _, g := range guards {
			names += g.Name + ","
		}
		fmt.Fprintf(os.Stderr, "SUM %s -> %s #%d %s cls=%d guards=%s ok=%v cnt=%v\n", call.Parent().Name(), call.Call.StaticCallee().Name(), idx, kind, cls, names, ok, cnt)
	}
	if memo {
		implyMemo[key] = implyVal{ok, append([]int{}, cnt...)}
	}
	return ok, cnt
}

func calleeImplies(call *ssa.Call, idx int, kind string, cls int, depth int, guards []Guard, startsOf func(*ssa.Function) map[Edge]bool) (bool, []int) {
	zero := make([]int, len(guards))
	callee := call.Call.StaticCallee()
	if depth > 3 || !inModule(callee) || implyActive[callee] || idx >= callee.Signature.Results().Len() {
		return false, zero
	}
	implyActive[callee] = true
	defer delete(implyActive, callee)
	// parameter substitution for the duration of the summary
	saved := ParamSubst
	ns := map[ssa.Value]ssa.Value{}
	for k, v := range saved {
		ns[k] = v
	}
	for i, p := range callee.Params {
		if i < len(call.Call.Args) {
			ns[p] = call.Call.Args[i]
		}
	}
	ParamSubst = ns
	defer func() { ParamSubst = saved }()

	type point struct {
		at  ssa.Instruction
		cls int
		via *Edge // the edge into a phi block, when the class comes from a phi edge
		val ssa.Value
		neg bool // the returned value is !val
	}
	var pts []point
	var expand func(v ssa.Value, neg bool, at ssa.Instruction, via *Edge, d int)
	expand = func(v ssa.Value, neg bool, at ssa.Instruction, via *Edge, d int) {
		if kind == "bool" && d < 4 {
			switch x := v.(type) {
			case *ssa.UnOp:
				if x.Op == token.NOT {
					expand(x.X, !neg, at, via, d+1)
					return
				}
			case *ssa.Phi:
				for i, e := range x.Edges {
					if via != nil {
						// a phi computed earlier and merely flowing through this edge (a named
						// sub-condition): its constituents matter for the class, the place where the
						// value is returned stays the outer edge
						expand(e, neg, at, via, d+1)
						continue
					}
					pred := x.Block().Preds[i]
					var v2 *Edge
					for si, su := range pred.Succs {
						if su == x.Block() {
							v2 = &Edge{pred, si}
						}
					}
					expand(e, neg, pred.Instrs[len(pred.Instrs)-1], v2, d+1)
				}
				return
			}
		} else if phi, isPhi := v.(*ssa.Phi); isPhi && d == 0 && phi.Block() == at.Block() {
			for i, e := range phi.Edges {
				pred := phi.Block().Preds[i]
				var v2 *Edge
				for si, su := range pred.Succs {
					if su == phi.Block() {
						v2 = &Edge{pred, si}
					}
				}
				pts = append(pts, point{pred.Instrs[len(pred.Instrs)-1], retClass(e, kind), v2, e, false})
			}
			return
		}
		c := retClass(v, kind)
		if neg {
			c = -c
		}
		pts = append(pts, point{at, c, via, v, neg})
	}
	AllInstrs(callee, func(in ssa.Instruction) {
		ret, ok := in.(*ssa.Return)
		if !ok || idx >= len(ret.Results) {
			return
		}
		expand(ret.Results[idx], false, ret, nil, 0)
	})
	if len(pts) == 0 {
		return false, zero
	}
	// joint evaluation: the guards form a disjunction (any pass edge discharges)
	cut, innerCnt := passEdgesDepth(callee, depth+1, guards...)
	for e := range assumedCuts(callee) {
		cut[e] = true
	}
	if kind == "nil" {
		// without any guard match inside the callee (or in a helper whose error it returns) the
		// implication cannot hold: skip the path-sensitive walk
		anyInner := false
		for _, n := range innerCnt {
			if n > 0 {
				anyInner = true
			}
		}
		if !anyInner {
			for _, p := range pts {
				if rc, _ := resultCall(p.val); rc != nil && mayMatchInside(rc.Call.StaticCallee(), guards, depth+1) {
					anyInner = true
				}
			}
		}
		if !anyInner {
			return false, innerCnt
		}
		// evaluated path-sensitively inside the callee (bounded: a summary that cannot be computed
		// within the budget is "not implied", never "implied")
		reachCls := false
		anyRet := false
		savedMax := MaxWalkStates
		MaxWalkStates = 4000
		defer func() { MaxWalkStates = savedMax }()
		wres := NilWalk(callee, nil, cut, nil, func(in ssa.Instruction, f NilFacts) {
			ret, ok := in.(*ssa.Return)
			if !ok || idx >= len(ret.Results) {
				return
			}
			anyRet = true
			v := ret.Results[idx]
			if k, n := Nilness(v, f); k {
				if (n && cls == -1) || (!n && cls == 1) {
					reachCls = true
				}
				return
			}
			if c := retClass(v, kind); c != 0 {
				if c == cls {
					reachCls = true
				}
				return
			}
			// the result of a further error-returning helper
			if rc, ri := resultCall(v); rc != nil {
				if ok, cnt := CalleeImplies(rc, ri, kind, cls, depth+1, guards, nil); ok {
					for i := range cnt {
						innerCnt[i] += cnt[i]
					}
					return
				}
			}
			reachCls = true
		})
		MaxWalkStates = savedMax
		if wres.Overflow {
			return false, innerCnt
		}
		if !anyRet {
			// every path panics or the walk found no return on uncut paths: the class cannot occur
			hasRet := false
			AllInstrs(callee, func(in ssa.Instruction) {
				if _, ok := in.(*ssa.Return); ok {
					hasRet = true
				}
			})
			return hasRet, innerCnt
		}
		return !reachCls, innerCnt
	}
	var starts []*ssa.BasicBlock
	if startsOf != nil {
		for e := range startsOf(callee) {
			starts = append(starts, e.From.Succs[e.Idx])
		}
	}
	reach := ReachBlocks(callee, starts, cut)
	// a returned boolean that is itself a guard atom: returning it with the passing value discharges
	atomPass := func(v ssa.Value, neg bool) bool {
		a2 := substTop(NormCond(v))
		for gi, g := range guards {
			if m, passVal := g.Match(a2); m {
				// returned r = (atom XOR a2.Negated) XOR neg; class +1 means r true
				atomVal := ((cls == 1) != a2.Negated) != neg
				if atomVal == passVal {
					innerCnt[gi]++
					return true
				}
			}
		}
		return false
	}
	any := false
	for _, p := range pts {
		if p.cls != cls && p.cls != 0 {
			continue
		}
		any = true
		if p.via != nil && cut[*p.via] {
			continue
		}
		if !reach[p.at.Block()] {
			continue
		}
		if p.cls == 0 && p.val != nil {
			if atomPass(p.val, p.neg) {
				continue
			}
			// the result of a further predicate
			if rc, ri := resultCall(p.val); rc != nil {
				want := cls
				if p.neg {
					want = -cls
				}
				if ok, cnt := CalleeImplies(rc, ri, kind, want, depth+1, guards, startsOf); ok {
					for i := range cnt {
						innerCnt[i] += cnt[i]
					}
					continue
				}
			}
		}
		return false, innerCnt
	}
	return any, innerCnt
}

// resultCall: v is result #i of a static call of a module function.
func resultCall(v ssa.Value) (*ssa.Call, int) {
	switch x := v.(type) {
	case *ssa.Call:
		if inModule(x.Call.StaticCallee()) {
			return x, 0
		}
	case *ssa.Extract:
		if c, ok := x.Tuple.(*ssa.Call); ok && inModule(c.Call.StaticCallee()) {
			return c, x.Index
		}
	}
	return nil, 0
}

// MustPass: every path from the entry of fn to a return executes an instruction satisfying pred
// (edges of cutOf(fn), when given, are not traversed).
func MustPass(fn *ssa.Function, pred func(ssa.Instruction) bool, cutOf func(*ssa.Function) map[Edge]bool) bool {
	if fn == nil || len(fn.Blocks) == 0 {
		return false
	}
	var cut map[Edge]bool
	if cutOf != nil {
		cut = cutOf(fn)
	}
	isRet := func(in ssa.Instruction) bool { _, ok := in.(*ssa.Return); return ok }
	found, _ := PathAvoiding(fn, nil, isRet, pred, cut)
	return !found
}

// Deep lifts an instruction predicate through extracted helpers: the result also holds for a static
// call of a module function all of whose paths execute an instruction satisfying the predicate
// (recursively, at most depth levels; callee parameters are substituted by the call's arguments).
func Deep(pred func(ssa.Instruction) bool, depth int, cutOf func(*ssa.Function) map[Edge]bool) func(ssa.Instruction) bool {
	var deep func(d int) func(ssa.Instruction) bool
	active := map[*ssa.Function]bool{}
	deep = func(d int) func(ssa.Instruction) bool {
		return func(in ssa.Instruction) bool {
			if pred(in) {
				return true
			}
			if d >= depth {
				return false
			}
			ci, ok := in.(ssa.CallInstruction)
			if !ok {
				return false
			}
			if _, isGo := in.(*ssa.Go); isGo {
				return false
			}
			if _, isDefer := in.(*ssa.Defer); isDefer {
				return false
			}
			callee := ci.Common().StaticCallee()
			if !inModule(callee) || active[callee] {
				return false
			}
			active[callee] = true
			defer delete(active, callee)
			saved := ParamSubst
			ns := map[ssa.Value]ssa.Value{}
			for k, v := range saved {
				ns[k] = v
			}
			for i, p := range callee.Params {
				if i < len(ci.Common().Args) {
					ns[p] = ci.Common().Args[i]
				}
			}
			ParamSubst = ns
			defer func() { ParamSubst = saved }()
			return MustPass(callee, deep(d+1), cutOf)
		}
	}
	return deep(0)
}

// mayMatchInside: some condition in fn (or in a module function whose result fn returns) matches
// one of the guards. A cheap necessary condition for a summary to succeed.
func mayMatchInside(fn *ssa.Function, guards []Guard, depth int) bool {
	if !inModule(fn) || depth > 3 || implyActive[fn] {
		return false
	}
	for _, b := range fn.Blocks {
		if len(b.Instrs) == 0 {
			continue
		}
		if ifi, ok := b.Instrs[len(b.Instrs)-1].(*ssa.If); ok {
			a := substTop(NormCond(ifi.Cond))
			for _, g := range guards {
				if m, _ := g.Match(a); m {
					return true
				}
			}
		}
	}
	found := false
	AllInstrs(fn, func(in ssa.Instruction) {
		ret, ok := in.(*ssa.Return)
		if !ok || found {
			return
		}
		for _, v := range ret.Results {
			if rc, _ := resultCall(v); rc != nil && rc.Call.StaticCallee() != fn {
				implyActive[fn] = true
				if mayMatchInside(rc.Call.StaticCallee(), guards, depth+1) {
					found = true
				}
				delete(implyActive, fn)
			}
		}
	})
	return found
}

// PhiCutsFrom: starting from the given blocks and not traversing cut edges, a branch on a phi of
// booleans all of whose *reachable* incoming values are the same constant has a known outcome; the
// contradicting edges are returned (to a fixpoint).
func PhiCutsFrom(fn *ssa.Function, starts []*ssa.BasicBlock, cut map[Edge]bool) map[Edge]bool {
	out := map[Edge]bool{}
	all := map[Edge]bool{}
	for e := range cut {
		all[e] = true
	}
	for changed := true; changed; {
		changed = false
		reach := ReachBlocks(fn, starts, all)
		for b := range reach {
			if len(b.Instrs) == 0 {
				continue
			}
			ifi, ok := b.Instrs[len(b.Instrs)-1].(*ssa.If)
			if !ok {
				continue
			}
			v, neg := ifi.Cond, false
			for {
				if u, ok := v.(*ssa.UnOp); ok && u.Op == token.NOT {
					v, neg = u.X, !neg
					continue
				}
				break
			}
			phi, ok := v.(*ssa.Phi)
			if !ok {
				continue
			}
			known, val, any := true, false, false
			for i, e := range phi.Edges {
				pred := phi.Block().Preds[i]
				edgeCut := false
				for si, su := range pred.Succs {
					if su == phi.Block() && all[Edge{pred, si}] {
						edgeCut = true
					}
				}
				if !reach[pred] || edgeCut {
					continue
				}
				kn, bv := evalBoolUnder(e, reach, all, 0)
				if !kn {
					kn, bv = valueFixedByBranch(e, pred, phi.Block())
				}
				if !kn {
					known = false
					break
				}
				if any && bv != val {
					known = false
					break
				}
				val, any = bv, true
			}
			if !known || !any {
				continue
			}
			// cond == phi XOR neg
			dead := Edge{b, 0}
			if val != neg {
				dead = Edge{b, 1}
			}
			if !all[dead] {
				all[dead] = true
				out[dead] = true
				changed = true
			}
		}
	}
	return out
}

// evalBoolUnder: the truth value of a boolean SSA value when only the blocks in reach are live and
// the edges in cut are dead: constants, values fixed by AssumeFn, negations, and phis all of whose
// live incoming values agree (named sub-conditions: `isMarkup := a || b`).
func evalBoolUnder(v ssa.Value, reach map[*ssa.BasicBlock]bool, cut map[Edge]bool, depth int) (bool, bool) {
	if depth > 6 {
		return false, false
	}
	switch x := v.(type) {
	case *ssa.Const:
		if x.Value != nil && x.Value.Kind() == constant.Bool {
			return true, constant.BoolVal(x.Value)
		}
		return false, false
	case *ssa.UnOp:
		if x.Op == token.NOT {
			k, b := evalBoolUnder(x.X, reach, cut, depth+1)
			return k, !b
		}
	case *ssa.Phi:
		known, val, any := true, false, false
		for i, e := range x.Edges {
			pred := x.Block().Preds[i]
			edgeCut := false
			for si, su := range pred.Succs {
				if su == x.Block() && cut[Edge{pred, si}] {
					edgeCut = true
				}
			}
			if !reach[pred] || edgeCut {
				continue
			}
			k, b := evalBoolUnder(e, reach, cut, depth+1)
			if !k {
				// the incoming value is what a branch that dominates this way of reaching the merge
				// tested (`if !asAtt { ... } ; if asAtt`): its outcome on that way is known
				k, b = valueFixedByBranch(e, pred, x.Block())
			}
			if !k || (any && b != val) {
				known = false
				break
			}
			val, any = b, true
		}
		if known && any {
			return true, val
		}
		return false, false
	}
	if AssumeFn != nil {
		a := NormCond(v)
		if kn, av := AssumeFn(a); kn {
			return true, av != a.Negated
		}
	}
	return false, false
}

// FreeVarBinding: the value bound to a captured variable where its function literal is created (the
// address of the enclosing function's variable); nil when not found.
func FreeVarBinding(fv *ssa.FreeVar) ssa.Value {
	fn := fv.Parent()
	parent := fn.Parent()
	if parent == nil {
		return nil
	}
	idx := -1
	for i, v := range fn.FreeVars {
		if v == fv {
			idx = i
		}
	}
	var out ssa.Value
	AllInstrs(parent, func(in ssa.Instruction) {
		if mc, ok := in.(*ssa.MakeClosure); ok && mc.Fn == ssa.Value(fn) && idx >= 0 && idx < len(mc.Bindings) {
			out = mc.Bindings[idx]
		}
	})
	if f2, ok := out.(*ssa.FreeVar); ok {
		return FreeVarBinding(f2)
	}
	return out
}

// singleAssignedBeforeClosure: the captured variable a is assigned exactly once and that store
// dominates the creation of the function literal lit: the assigned value.
func singleAssignedBeforeClosure(a *ssa.Alloc, lit *ssa.Function) ssa.Value {
	// reuse the single-store analysis (the load argument only matters for dominance)
	var mk *ssa.MakeClosure
	if a.Referrers() == nil {
		return nil
	}
	for _, r := range *a.Referrers() {
		if mc, ok := r.(*ssa.MakeClosure); ok && mc.Fn == ssa.Value(lit) {
			mk = mc
		}
	}
	if mk == nil {
		// captured by an enclosing literal first
		return nil
	}
	st := singleStoreOf(a)
	if st == nil {
		return nil
	}
	if st.Block() == mk.Block() {
		for _, in := range st.Block().Instrs {
			if in == ssa.Instruction(st) {
				return st.Val
			}
			if in == ssa.Instruction(mk) {
				return nil
			}
		}
		return nil
	}
	if st.Block().Dominates(mk.Block()) {
		return st.Val
	}
	return nil
}

// sameBlockStore: the load ld of the scalar local a follows, in its block, a store to a with only
// instructions in between that cannot write a (a is never captured by a writing function literal and
// its address is not passed on): the stored value.
func sameBlockStore(a *ssa.Alloc, ld *ssa.UnOp) ssa.Value {
	switch a.Type().(*types.Pointer).Elem().Underlying().(type) {
	case *types.Struct, *types.Array:
		return nil
	}
	if a.Referrers() == nil {
		return nil
	}
	for _, r := range *a.Referrers() {
		switch x := r.(type) {
		case *ssa.Store:
			if x.Addr != ssa.Value(a) {
				return nil
			}
		case *ssa.UnOp, *ssa.DebugRef:
		case *ssa.MakeClosure:
			fn, _ := x.Fn.(*ssa.Function)
			for i, b := range x.Bindings {
				if b != ssa.Value(a) || fn == nil || i >= len(fn.FreeVars) {
					continue
				}
				if refs := fn.FreeVars[i].Referrers(); refs != nil {
					for _, fr := range *refs {
						if st, ok := fr.(*ssa.Store); ok && st.Addr == ssa.Value(fn.FreeVars[i]) {
							return nil
						}
					}
				}
			}
		default:
			return nil
		}
	}
	var last *ssa.Store
	for _, in := range ld.Block().Instrs {
		if in == ssa.Instruction(ld) {
			break
		}
		if st, ok := in.(*ssa.Store); ok && st.Addr == ssa.Value(a) {
			last = st
		}
	}
	if last == nil {
		return nil
	}
	return last.Val
}

// valueFixedByBranch: on the way pred -> merge, the boolean v has a value fixed by a branch on v:
// the branch ends pred itself and one of its edges leads to merge, or one of its outcomes dominates
// pred.
func valueFixedByBranch(v ssa.Value, pred, merge *ssa.BasicBlock) (bool, bool) {
	strip := func(c ssa.Value) (ssa.Value, bool) {
		neg := false
		for {
			if u, ok := c.(*ssa.UnOp); ok && u.Op == token.NOT {
				c, neg = u.X, !neg
				continue
			}
			return c, neg
		}
	}
	v0, vneg := strip(v)
	for _, d := range pred.Parent().Blocks {
		if len(d.Instrs) == 0 {
			continue
		}
		ifi, ok := d.Instrs[len(d.Instrs)-1].(*ssa.If)
		if !ok {
			continue
		}
		c0, cneg := strip(ifi.Cond)
		if c0 != v0 {
			continue
		}
		for idx := 0; idx < 2; idx++ {
			su := d.Succs[idx]
			onWay := false
			if d == pred && su == merge && d.Succs[1-idx] != merge {
				onWay = true
			} else if len(su.Preds) == 1 && (su == pred || su.Dominates(pred)) {
				onWay = true
			}
			if !onWay {
				continue
			}
			// cond true on edge 0; cond == c0 XOR cneg; v == v0 XOR vneg
			c0val := (idx == 0) != cneg
			return true, c0val != vneg
		}
	}
	return false, false
}

// AllModFuncs: the module's functions (set by Load).
var AllModFuncs []*ssa.Function

var fieldStoresMemo map[*types.Var][]*ssa.Store

// fieldStores: every store into the field in the module.
func fieldStores(f *types.Var) []*ssa.Store {
	if fieldStoresMemo == nil {
		fieldStoresMemo = map[*types.Var][]*ssa.Store{}
		for _, fn := range AllModFuncs {
			AllInstrs(fn, func(in ssa.Instruction) {
				if st, ok := in.(*ssa.Store); ok {
					if g, _ := FieldOfAddr(st.Addr); g != nil {
						fieldStoresMemo[g] = append(fieldStoresMemo[g], st)
					}
				}
			})
		}
	}
	return fieldStoresMemo[f]
}

// carrierFieldValue: fa addresses a field of an unexported struct type declared in the module,
// other than the long-lived records, that is stored to exactly once module-wide (outside any
// loop): the stored value (nil when that does not hold).
func carrierFieldValue(fa *ssa.FieldAddr) ssa.Value {
	f, base := FieldOfAddr(fa)
	if f == nil || base == nil {
		return nil
	}
	bt := base.Type()
	if p, ok := bt.Underlying().(*types.Pointer); ok {
		bt = p.Elem()
	}
	named, ok := bt.(*types.Named)
	if !ok || named.Obj().Exported() || named.Obj().Pkg() == nil || !strings.HasPrefix(named.Obj().Pkg().Path(), ModPath) {
		return nil
	}
	if LongLivedRecords[named.Obj().Name()] {
		return nil
	}
	sts := fieldStores(f)
	if len(sts) != 1 || inLoop(sts[0].Block()) {
		return nil
	}
	// the type is instantiated at one place only (an object filled by other means - decoding,
	// reflection - next to one built by a literal would not hold the stored value)
	al := allocsOfType(named)
	if len(al) != 1 {
		return nil
	}
	return sts[0].Val
}

var allocsMemo map[*types.Named][]*ssa.Alloc

func allocsOfType(t *types.Named) []*ssa.Alloc {
	if allocsMemo == nil {
		allocsMemo = map[*types.Named][]*ssa.Alloc{}
		for _, fn := range AllModFuncs {
			AllInstrs(fn, func(in ssa.Instruction) {
				if a, ok := in.(*ssa.Alloc); ok {
					if n, ok := a.Type().(*types.Pointer).Elem().(*types.Named); ok {
						allocsMemo[n] = append(allocsMemo[n], a)
					}
				}
			})
		}
	}
	return allocsMemo[t]
}

// CarrierFieldValue exposes carrierFieldValue to the rules (nil when the field is not a
// write-once field of a request-scoped struct).
func CarrierFieldValue(fa *ssa.FieldAddr) ssa.Value { return carrierFieldValue(fa) }

// LongLivedRecords: unexported struct types whose fields are state, not request-scoped carriers.
var LongLivedRecords = map[string]bool{
	"perUserData": true, "perSessionData": true, "perSubsData": true, "videoCall": true, "callPartyData": true,
	"clusterFailover": true, "sessionStoreElement": true, "concurrentSessionMap": true, "configType": true,
	"authenticator": true, "adapter": true, "fshandler": true, "shutDown": true, "presParams": true, "presFilters": true,
}

func inLoop(b *ssa.BasicBlock) bool {
	seen := map[*ssa.BasicBlock]bool{}
	work := append([]*ssa.BasicBlock{}, b.Succs...)
	for len(work) > 0 {
		x := work[len(work)-1]
		work = work[:len(work)-1]
		if x == b {
			return true
		}
		if seen[x] {
			continue
		}
		seen[x] = true
		work = append(work, x.Succs...)
	}
	return false
}
