package rules

import (
	"fmt"
	"go/token"
	"go/types"

	"golang.org/x/tools/go/ssa"

	"verifchk/core"
)

// Rules added after the third round of seeded changes (DESIGN.md section 9.7).

// checkAtomicRMW (C14): a field that is accessed through sync/atomic is updated from its own
// previous value only through CompareAndSwap / Add: a Load followed by a Store of a value derived
// from it loses concurrent updates although every access is atomic.
func (c *Ctx) checkAtomicRMW() {
	r := c.R
	n := 0
	for _, fn := range c.P.ModFuncs {
		if !core.InPkg(fn, "server") {
			continue
		}
		core.AllInstrs(fn, func(in ssa.Instruction) {
			call, ok := in.(*ssa.Call)
			if !ok {
				return
			}
			name := calleeFullName(call)
			if len(name) < 18 || name[:17] != "sync/atomic.Store" {
				return
			}
			n++
			addr, val := call.Call.Args[0], call.Call.Args[1]
			f, _ := core.FieldOfAddr(addr)
			fromLoad := derivesAny(val, func(v ssa.Value) bool {
				lc, ok := v.(*ssa.Call)
				if !ok {
					return false
				}
				ln := calleeFullName(lc)
				if len(ln) < 17 || ln[:16] != "sync/atomic.Load" {
					return false
				}
				g, _ := core.FieldOfAddr(lc.Call.Args[0])
				return f != nil && g == f
			})
			what := "?"
			if f != nil {
				what = f.Name()
			}
			r.Check(!fromLoad, "C14.2c-atomic-read-modify-write", fmt.Sprintf("%s: atomic store to %s is not computed from an atomic load of it", fk(fn), what), c.pos(call), "",
				"a shared flag word is updated by load / modify / store: two concurrent updates (hub, topic goroutine, topic loader) can lose one of them although every access is atomic; compare-and-swap is required")
		})
	}
	r.Extra["atomic_stores"] = n
}

// checkRehashRebuilds (C17): the function that installs the cluster ring builds a new ring on every
// path: no return before the store of Cluster.ring.
func (c *Ctx) checkRehashRebuilds() {
	r := c.R
	ringF := c.field("server", "Cluster", "ring")
	n := 0
	for _, fn := range c.P.ModFuncs {
		if !core.InPkg(fn, "server") || !isPtrToNamedRecv(fn, "Cluster") || fn.Name() == "failoverInit" {
			continue
		}
		stores := core.StoresToField(fn, ringF)
		if len(stores) == 0 {
			continue
		}
		n++
		r.Func(fk(fn))
		isStore := func(in ssa.Instruction) bool {
			st, ok := in.(*ssa.Store)
			if !ok {
				return false
			}
			f, _ := core.FieldOfAddr(st.Addr)
			return f == ringF
		}
		miss, w := core.PathAvoiding(fn, nil, core.IsReturn, isStore, nil)
		r.Check(!miss, "C17.1b-rehash-rebuilds", fk(fn)+": every path installs a freshly built ring", c.P.Pos(fn.Pos()), "",
			"the ring is kept on some path"+posOf(c, w)+": a membership change that leaves the node count unchanged is not applied and the nodes disagree on placement")
	}
	r.Check(n >= 1, "C17.1b-rehash-rebuilds", "function installing Cluster.ring found", "-", fmt.Sprintf("%d", n), "anchor lost")
}

// checkIceBehindEnabled (C15): "calling is configured" is decided by len(globals.iceServers): the
// configured servers are stored only when the configuration is enabled.
func (c *Ctx) checkIceBehindEnabled() {
	r := c.R
	ice := c.globalStructField("server", "globals", "iceServers")
	n := 0
	for _, fn := range c.P.ModFuncs {
		if !core.InPkg(fn, "server") {
			continue
		}
		for _, st := range core.StoresToField(fn, ice) {
			n++
			r.Func(fk(fn))
			g := core.BoolGuard("config.Enabled", func(v ssa.Value) bool {
				f, _ := core.LoadedField(core.Strip(v))
				return f != nil && f.Name() == "Enabled"
			}, true)
			ok, cnt := core.GuardedBy(fn, st, g)
			r.Check(ok && cnt[0] > 0, "C15.1c-servers-only-when-enabled", fk(fn)+": globals.iceServers set only for an enabled configuration", c.pos(st), "",
				"the ICE servers are loaded although video calls are disabled: the invitation gate treats calling as configured")
		}
	}
	r.Check(n >= 1, "C15.1c-servers-only-when-enabled", "store of globals.iceServers found", "-", fmt.Sprintf("%d", n), "anchor lost")
}

// checkRewriteOnlyIndexed (C19): a search term is rewritten with a validator's namespace only when
// that validator is configured to index its values as tags.
func (c *Ctx) checkRewriteOnlyIndexed() {
	r := c.R
	fn := c.ssaFn("server", "rewriteTag")
	r.Func(fk(fn))
	addToTags := c.field("server", "credValidator", "addToTags")
	n := 0
	core.AllInstrs(fn, func(in ssa.Instruction) {
		call, ok := in.(*ssa.Call)
		if !ok || !call.Call.IsInvoke() || call.Call.Method.Name() != "PreCheck" {
			return
		}
		n++
		g := core.BoolGuard("conf.addToTags", core.IsFieldLoad(addToTags), true)
		ok2, cnt := core.GuardedBy(fn, call, g)
		r.Check(ok2 && cnt[0] > 0, "C19.2b-rewrite-only-indexed", fk(fn)+": validator consulted only when it adds its values to tags", c.pos(call), "",
			"a term is rewritten into a validator's namespace although the validator does not index tags: the namespace is not reserved in that configuration and anybody can claim the rewritten tag")
	})
	r.Check(n >= 1, "C19.2b-rewrite-only-indexed", fk(fn)+": validator pre-check found", "-", fmt.Sprintf("%d", n), "anchor lost")
}

// checkIdSpellings (C20): ParseUserId accepts only the "usr" spelling; the protobuf timestamp 0
// stands for "absent".
func (c *Ctx) checkIdSpellings() {
	r := c.R
	pu := c.ssaFn("server/store/types", "ParseUserId")
	r.Func(fk(pu))
	parseUid := c.fn("server/store/types", "ParseUid")
	n := 0
	c.withCallees(pu, 1, func(_ *ssa.Function, in ssa.Instruction, outer ssa.Instruction) {
		call, ok := in.(*ssa.Call)
		if !ok {
			return
		}
		f := core.CalleeOf(&call.Call)
		if f == nil || (f != parseUid && f.Name() != "UnmarshalText") {
			return
		}
		n++
		g := core.Guard{Name: "HasPrefix(s, \"usr\")", Match: func(a core.CondAtom) (bool, bool) {
			if a.Op == token.ILLEGAL && calleeFullName(a.Val) == "strings.HasPrefix" {
				return true, true
			}
			// rest, found := strings.CutPrefix(s, "usr")
			if ex, ok := a.Val.(*ssa.Extract); ok && a.Op == token.ILLEGAL && ex.Index == 1 && calleeFullName(ex.Tuple) == "strings.CutPrefix" {
				return true, true
			}
			return false, false
		}}
		ok2, cnt := core.GuardedBy(pu, outer, g)
		r.Check(ok2 && cnt[0] > 0, "C20.4c-user-id-prefix", fk(pu)+": decodes only behind the \"usr\" prefix test", c.pos(call), "",
			"a bare base64 id is accepted as a user id: ParseUserId(s) != 0 no longer implies ParseUserId(s).UserId() == s")
	})
	r.Check(n >= 1, "C20.4c-user-id-prefix", fk(pu)+": decoding call found", "-", fmt.Sprintf("%d", n), "anchor lost")
	// int64ToTime: nil for 0
	it := c.ssaFn("server", "int64ToTime")
	r.Func(fk(it))
	okZero := true
	nRet := 0
	core.AllInstrs(it, func(in ssa.Instruction) {
		ret, ok := in.(*ssa.Return)
		if !ok || core.IsNil(ret.Results[0]) {
			return
		}
		nRet++
		p := it.Params[0]
		g := core.LessGuard("0<ts", core.IsConstInt(0), func(v ssa.Value) bool { return core.Strip(v) == ssa.Value(p) }, true)
		if ok2, cnt := core.GuardedBy(it, ret, g); !ok2 || cnt[0] == 0 {
			okZero = false
		}
	})
	r.Check(okZero && nRet >= 1, "C20.2b-absent-timestamp", fk(it)+": a non-nil time only for ts > 0", c.P.Pos(it.Pos()), "",
		"the timestamp 0, which is how protobuf spells an absent time, is decoded as the epoch: the gRPC and JSON forms of the same request differ")
}

// checkOwnerBitSources (C06): constants that contain the owner bit are combined into access modes
// only at the reviewed sites (a budget keyed by function).
var ownerBitReviewed = map[string]int{
	"server.initTopicNewGrp|modeWant": 1, // the creator of a group: `userData.modeWant |= ModeJoin | ModeOwner` (the creator is the owner)
}

func (c *Ctx) checkOwnerBitSources() {
	r := c.R
	modeOwner := c.konst("server/store/types", "ModeOwner")
	ownerVal, _ := constantInt64(modeOwner)
	seen := map[string]int{}
	where := map[string][]string{}
	for _, fn := range c.P.ModFuncs {
		if !core.InPkg(fn, "server") {
			continue
		}
		core.AllInstrs(fn, func(in ssa.Instruction) {
			b, ok := in.(*ssa.BinOp)
			if !ok || b.Op != token.OR || !isModeType(b.Type()) {
				return
			}
			for _, side := range []ssa.Value{b.X, b.Y} {
				k, ok := core.Strip(side).(*ssa.Const)
				if !ok || k.Value == nil {
					continue
				}
				v, ok := constantInt64Val(k)
				if !ok || v < 0 || v&ownerVal == 0 {
					continue
				}
				// where the result goes: the field it is stored into
				dst := "value"
				if b.Referrers() != nil {
					for _, ref := range *b.Referrers() {
						if st, ok := ref.(*ssa.Store); ok && st.Val == ssa.Value(b) {
							if f, _ := core.FieldOfAddr(st.Addr); f != nil {
								dst = f.Name()
							}
						}
					}
				}
				key := fk(fn) + "|" + dst
				seen[key]++
				where[key] = append(where[key], c.pos(b))
			}
		})
	}
	for f, n := range seen {
		want, ok := ownerBitReviewed[f]
		r.Check(ok && n <= want, "C06.6b-owner-bit-sources", f+": constants with the owner bit OR-ed into a mode", fmt.Sprint(where[f]), "",
			fmt.Sprintf("%d site(s), %d reviewed: a mode is given the owner bit by a constant outside the reviewed places (topic creation, reload of the stored owner, ownership transfer): a second effective owner can appear", n, want))
	}
	r.Extra["owner_bit_or_sites"] = seen
}

func constantInt64Val(k *ssa.Const) (int64, bool) {
	if k.Value == nil {
		return 0, false
	}
	if b, ok := k.Type().Underlying().(*types.Basic); !ok || b.Info()&types.IsInteger == 0 {
		return 0, false
	}
	return k.Int64(), true
}

// checkOfflineInfoReaders (C09): the {info} copies routed to subscribers' `me` topics go only to
// subscribers whose effective mode has both R and P.
func (c *Ctx) checkOfflineInfoReaders() {
	r := c.R
	fn := c.ssaMethod("server", "Topic", "infoSubsOffline")
	r.Func(fk(fn))
	routeSrv := c.field("server", "Hub", "routeSrv")
	n := 0
	for _, s := range chanSendsDepth(fn, core.IsFieldLoad(routeSrv), 1) {
		n++
		for _, g := range []struct{ m, bad string }{
			{"IsReader", "a subscriber without read permission receives other members' read / received / typing notifications on `me`"},
			{"IsPresencer", "a subscriber who muted the topic receives other members' read / received / typing notifications on `me`"},
		} {
			ok, cnt := core.GuardedBy(fn, s.At, c.effGuard(g.m, true))
			r.Check(ok && cnt[0] > 0, "C09.4c-offline-info-to-readers", fmt.Sprintf("%s: relay to `me` only behind %s(want&given)", fk(fn), g.m), c.pos(s.Instr), "", g.bad)
		}
	}
	r.Check(n >= 1, "C09.4c-offline-info-to-readers", fk(fn)+": relay to the hub found", "-", fmt.Sprintf("%d", n), "anchor lost")
}

// checkPublisherMarksAfterSave (C09): the publisher's own read/received marks are set only after
// the message was stored.
func (c *Ctx) checkPublisherMarksAfterSave() {
	r := c.R
	save := c.E().storeIface("MessagesPersistenceInterface", "Save")
	readID, recvID := c.E().pudField("readID"), c.E().pudField("recvID")
	n := 0
	for _, sfn := range c.funcsCalling(save, "server") {
		root := c.phaseRoot(sfn)
		sites := core.CallsTo(sfn, save)
		if len(sites) != 1 {
			continue
		}
		c.regionInstrs(root, func(f *ssa.Function, in ssa.Instruction) {
			st, ok := in.(*ssa.Store)
			if !ok {
				return
			}
			fld, _ := core.FieldOfAddr(st.Addr)
			if fld != readID && fld != recvID {
				return
			}
			n++
			r.Func(fk(f))
			ok2, cnt := core.GuardedBy(f, st, successGuard(sites[0]))
			r.Check(ok2 && cnt[0] > 0, "C09.2b-publisher-marks-after-save", fmt.Sprintf("%s: %s of the publisher set only after Messages.Save succeeded #%s", fk(root), fld.Name(), retOrdinalOfStore(f, st)), c.pos(st), "",
				"the publisher's marks are advanced before / regardless of the save: after a failed save they point beyond the last message and the next genuine read note is dropped as stale")
		})
	}
	r.Check(n >= 2, "C09.2b-publisher-marks-after-save", "publisher's marks in the saving function", "-", fmt.Sprintf("%d", n), "fewer than two: anchor lost")
}

// checkActingUserNotSession (C08, C20): in a request handled on behalf of a user (a Topic method
// with the acting user's Uid as a parameter; the session's topic-name expansion) the identity that
// keys a store write or names a p2p topic is the acting user, never the session's own uid (they
// differ for a root session acting on behalf of somebody and for cluster proxy sessions).
func (c *Ctx) checkActingUserNotSession(rule string, scope string) {
	r := c.R
	sessUid := c.E().sessionField("uid")
	p2pName := c.method("server/store/types", "Uid", "P2PName")
	fromSess := func(v ssa.Value) bool { return derivesAny(v, core.IsFieldLoad(sessUid)) }
	n := 0
	for _, fn := range c.P.ModFuncs {
		if !core.InPkg(fn, "server") {
			continue
		}
		switch scope {
		case "store-writes":
			if !isPtrToNamedRecv(fn, "Topic") || len(uidParams(fn)) == 0 {
				continue
			}
			for _, sink := range c.storeWriteSinks(fn) {
				call, ok := sink.(*ssa.Call)
				if !ok {
					continue
				}
				for _, a := range core.CallArgs(&call.Call) {
					if nm, ok := a.Type().(*types.Named); !ok || nm.Obj().Name() != "Uid" {
						continue
					}
					n++
					r.Check(!fromSess(a), rule, fmt.Sprintf("%s: %s keyed by the acting user", fk(fn), describeCall(sink)), c.pos(sink), "",
						"a store write of a request handled on behalf of a user is keyed by the session's own uid: for a root session acting for somebody (or a cluster proxy session) the acknowledged change lands in another user's row")
				}
			}
		case "p2p-name":
			// the session's topic-name expansion and the helpers it calls
			if fn != c.ssaMethod("server", "Session", "expandTopicName") {
				continue
			}
			c.withCallees(fn, 2, func(owner *ssa.Function, in ssa.Instruction, _ ssa.Instruction) {
				call, ok := in.(*ssa.Call)
				if !ok || core.CalleeOf(&call.Call) != p2pName {
					return
				}
				n++
				bad := false
				for _, a := range core.CallArgs(&call.Call) {
					if fromSess(a) {
						bad = true
					}
				}
				r.Check(!bad, rule, fmt.Sprintf("%s: P2PName of the acting user and the addressee", fk(owner)), c.pos(call), "",
					"the p2p topic name is built from the session's own uid instead of the acting user: a request sent on behalf of A to usrB is routed to p2p(root,B)")
			})
		}
	}
	r.Check(n >= 1, rule, "sites in scope ("+scope+")", "-", fmt.Sprintf("%d", n), "anchor lost")
}

// checkLongPollSerialised (C11): the long-polling handler dispatches a request while holding the
// session's lock (requests of one session are handled one at a time on every transport).
func (c *Ctx) checkLongPollSerialised() {
	r := c.R
	dispatchRaw := c.method("server", "Session", "dispatchRaw")
	lockF := c.E().sessionField("lock")
	n := 0
	for _, fn := range c.funcsCalling(dispatchRaw, "server") {
		var locks, unlocks []ssa.Instruction
		core.AllInstrs(fn, func(in ssa.Instruction) {
			call, ok := in.(*ssa.Call)
			if !ok || len(call.Call.Args) == 0 {
				return
			}
			f, _ := core.FieldOfAddr(call.Call.Args[0])
			if f != lockF {
				return
			}
			switch calleeFullName(call) {
			case "(*sync.Mutex).Lock":
				locks = append(locks, in)
			case "(*sync.Mutex).Unlock":
				unlocks = append(unlocks, in)
			}
		})
		if len(locks) == 0 {
			continue // transports that own the session's read loop need no lock
		}
		r.Func(fk(fn))
		for _, d := range core.CallsTo(fn, dispatchRaw) {
			n++
			isD := func(in ssa.Instruction) bool { return in == d.(ssa.Instruction) }
			isUnlock := func(in ssa.Instruction) bool {
				for _, u := range unlocks {
					if in == u {
						return true
					}
				}
				return false
			}
			held := true
			for _, l := range locks {
				// from the Lock the dispatch must be reachable without passing Unlock, and never after one
				if found, _ := core.PathAvoiding(fn, l, isD, isUnlock, nil); !found {
					held = false
				}
			}
			for _, u := range unlocks {
				if found, _ := core.PathAvoiding(fn, u, isD, func(in ssa.Instruction) bool {
					for _, l := range locks {
						if in == l {
							return true
						}
					}
					return false
				}, nil); found {
					held = false
				}
			}
			r.Check(held, "C11.3d-one-request-at-a-time", fk(fn)+": dispatchRaw under Session.lock", c.pos(d), "",
				"requests of one long-polling session are dispatched concurrently: two {login} requests can both pass the already-authenticated test")
		}
	}
	r.Check(n >= 1, "C11.3d-one-request-at-a-time", "locked dispatch in the long-polling handler", "-", fmt.Sprintf("%d", n), "anchor lost")
}

// checkSerialNotNarrowed (C12): the configured serial number is kept and compared at full width.
func (c *Ctx) checkSerialNotNarrowed() {
	r := c.R
	serialCfg := c.field("server/auth/token", "authenticator", "serialNumber")
	n := 0
	narrow := func(v ssa.Value) bool {
		cv, ok := v.(*ssa.Convert)
		if !ok {
			return false
		}
		from, ok1 := cv.X.Type().Underlying().(*types.Basic)
		to, ok2 := cv.Type().Underlying().(*types.Basic)
		if !ok1 || !ok2 {
			return false
		}
		size := func(b *types.Basic) int {
			switch b.Kind() {
			case types.Int8, types.Uint8:
				return 1
			case types.Int16, types.Uint16:
				return 2
			case types.Int32, types.Uint32:
				return 4
			}
			return 8
		}
		return size(to) < size(from)
	}
	for _, a := range c.censusField(serialCfg) {
		if a.Kind != "store" {
			continue
		}
		n++
		st := a.Instr.(*ssa.Store)
		r.Func(fk(a.Fn))
		r.Check(!narrow(st.Val), "C12.1f-serial-full-width", fk(a.Fn)+": configured serial number stored without narrowing", c.pos(st), "",
			"the configured serial number is truncated when stored: tokens issued under a serial that agrees modulo 65536 are accepted")
	}
	if b, ok := serialCfg.Type().Underlying().(*types.Basic); ok {
		r.Check(b.Kind() == types.Int || b.Kind() == types.Int64 || b.Kind() == types.Int32 || b.Kind() == types.Uint32 || b.Kind() == types.Uint64 || b.Kind() == types.Uint,
			"C12.1f-serial-full-width", "authenticator.serialNumber is at least 32 bits wide", "-", "", "the authenticator keeps the serial number in a type narrower than the configuration value")
	}
	r.Check(n >= 1, "C12.1f-serial-full-width", "store of the configured serial found", "-", fmt.Sprintf("%d", n), "anchor lost")
}

// checkAdapterBoundsAgree (C04): the MySQL and PostgreSQL adapters apply the same tests to the
// fields of a history / deletion-log query (`opts.Since > 0`, `opts.Before > 0`, ...): the set of
// (field, comparison, constant) atoms of same-named adapter methods must be equal.
func (c *Ctx) checkAdapterBoundsAgree() {
	r := c.R
	optT := c.P.NamedType("server/store/types", "QueryOpt")
	atomsOf := func(fn *ssa.Function) map[string]bool {
		out := map[string]bool{}
		core.AllInstrs(fn, func(in ssa.Instruction) {
			ifi, ok := in.(*ssa.If)
			if !ok {
				return
			}
			a := core.NormCond(ifi.Cond)
			if a.Op == token.ILLEGAL {
				return
			}
			for _, pr := range [][2]ssa.Value{{a.X, a.Y}, {a.Y, a.X}} {
				f, base := core.LoadedField(core.Strip(pr[0]))
				k, isK := core.Strip(pr[1]).(*ssa.Const)
				if f == nil || !isK || k.Value == nil || base == nil {
					continue
				}
				bt := base.Type()
				if p, ok := bt.(*types.Pointer); ok {
					bt = p.Elem()
				}
				if optT == nil || !types.Identical(bt, optT) {
					continue
				}
				side := "L"
				if pr[0] == a.Y {
					side = "R"
				}
				out[fmt.Sprintf("%s %s%s %s", f.Name(), a.Op, side, k.Value.String())] = true
			}
		})
		return out
	}
	byName := map[string]map[string]map[string]bool{}
	for _, rel := range []string{"server/db/mysql", "server/db/postgres"} {
		for _, fn := range c.P.ModFuncs {
			if !core.InPkg(fn, rel) || fn.Signature.Recv() == nil || fn.Parent() != nil {
				continue
			}
			at := atomsOf(fn)
			if len(at) == 0 {
				continue
			}
			if byName[fn.Name()] == nil {
				byName[fn.Name()] = map[string]map[string]bool{}
			}
			byName[fn.Name()][rel] = at
		}
	}
	n := 0
	var names []string
	for nme := range byName {
		names = append(names, nme)
	}
	sortStrings(names)
	for _, nme := range names {
		m, p := byName[nme]["server/db/mysql"], byName[nme]["server/db/postgres"]
		if m == nil || p == nil {
			continue
		}
		n++
		var diff []string
		for a := range m {
			if !p[a] {
				diff = append(diff, "mysql only: "+a)
			}
		}
		for a := range p {
			if !m[a] {
				diff = append(diff, "postgres only: "+a)
			}
		}
		sortStrings(diff)
		r.Check(len(diff) == 0, "C04.5b-adapters-agree-on-bounds", "adapter."+nme+": both SQL adapters test the query options alike", "-", "",
			fmt.Sprintf("the adapters disagree on how a query bound is applied (%v): the same request returns different pages depending on the database", diff))
	}
	r.Check(n >= 2, "C04.5b-adapters-agree-on-bounds", "adapter methods testing query options in both adapters", "-", fmt.Sprintf("%d", n), "fewer than two: anchor lost")
}

func sortStrings(s []string) {
	for i := 1; i < len(s); i++ {
		for j := i; j > 0 && s[j] < s[j-1]; j-- {
			s[j], s[j-1] = s[j-1], s[j]
		}
	}
}

// checkHeadersBehindGates (C16): the media handler's Headers method (which for a redirecting
// back-end returns a pre-signed URL) is consulted only for a CORS preflight or after the API key,
// the credentials and the user were accepted.
func (c *Ctx) checkHeadersBehindGates() {
	r := c.R
	headers := c.method("server/media", "Handler", "Headers")
	checkKey := c.fn("server", "checkAPIKey")
	authReq := c.fn("server", "authHttpRequest")
	isZero := c.method("server/store/types", "Uid", "IsZero")
	gOptions := core.Guard{Name: "Method==OPTIONS", Match: func(a core.CondAtom) (bool, bool) {
		if a.Op == token.EQL && (core.IsConstString("OPTIONS")(a.X) || core.IsConstString("OPTIONS")(a.Y)) {
			return true, true
		}
		return false, false
	}}
	n := 0
	for _, sfn := range c.funcsCalling(headers, "server") {
		// the HTTP handlers on whose behalf the call is made: the function itself, or the handlers
		// that (directly or through one more helper) call the helper it sits in
		var handlers []*ssa.Function
		seenH := map[*ssa.Function]bool{}
		var up func(f *ssa.Function, d int)
		up = func(f *ssa.Function, d int) {
			if isHTTPHandler(f) {
				if !seenH[f] {
					seenH[f] = true
					handlers = append(handlers, f)
				}
				return
			}
			if d >= 2 {
				return
			}
			for _, cs := range c.callersOf(f) {
				up(cs.Caller, d+1)
			}
		}
		up(sfn, 0)
		if len(handlers) == 0 {
			continue
		}
		fn := handlers[0]
		r.Func(fk(fn))
		var gErr []core.Guard
		for _, h := range handlers {
			for _, a := range c.regionCallsTo(h, authReq) {
				gErr = append(gErr, core.NilGuard("auth err==nil", errResultOf(a, 2), true))
			}
		}
		gKey := core.BoolGuard("checkAPIKey valid", func(v ssa.Value) bool {
			ex, ok := v.(*ssa.Extract)
			return ok && ex.Index == 0 && core.IsCallTo(checkKey)(ex.Tuple)
		}, true)
		gUid := core.BoolGuard("!uid.IsZero()", core.IsCallTo(isZero), false)
		gNew := core.Guard{Name: "topic==newacc", Match: func(a core.CondAtom) (bool, bool) {
			if a.Op == token.EQL && (core.IsConstString("newacc")(a.X) || core.IsConstString("newacc")(a.Y)) {
				return true, true
			}
			return false, false
		}}
		for _, s := range core.CallsTo(sfn, headers) {
			n++
			sink := s.(ssa.Instruction)
			ok1, _ := core.GuardedBy(sfn, sink, gOptions, gKey)
			ok2, _ := core.GuardedBy(sfn, sink, append([]core.Guard{gOptions}, gErr...)...)
			ok3, _ := core.GuardedBy(sfn, sink, gOptions, gUid, gNew)
			r.Check(ok1 && ok2 && ok3 && len(gErr) > 0, "C16.1c-headers-behind-gates", fmt.Sprintf("%s: Handler.Headers #%s only for a preflight or an accepted request", fk(fn), retOrdinalOfCall(sfn, sink)), c.pos(sink), "",
				fmt.Sprintf("the media handler's headers (for a redirecting back-end: a pre-signed link to the file) are produced before the request was accepted (api key=%v credentials=%v user=%v)", ok1, ok2, ok3))
		}
	}
	r.Check(n >= 1, "C16.1c-headers-behind-gates", "calls of Handler.Headers in the HTTP handlers", "-", fmt.Sprintf("%d", n), "none: anchor lost")
}

// retOrdinalOfCall numbers the calls of one callee inside a function in source order.
func retOrdinalOfCall(fn *ssa.Function, at ssa.Instruction) string {
	n, out := 0, "?"
	callee := core.CalleeOf(at.(ssa.CallInstruction).Common())
	var calls []ssa.Instruction
	core.AllInstrs(fn, func(in ssa.Instruction) {
		if ci, ok := in.(ssa.CallInstruction); ok && core.CalleeOf(ci.Common()) == callee {
			calls = append(calls, in)
		}
	})
	for i := 1; i < len(calls); i++ {
		for j := i; j > 0 && calls[j].Pos() < calls[j-1].Pos(); j-- {
			calls[j], calls[j-1] = calls[j-1], calls[j]
		}
	}
	for _, in := range calls {
		n++
		if in == at {
			out = fmt.Sprint(n)
		}
	}
	return out
}

// checkPublishNeedsLogin (C03): the session dispatcher hands a {pub} to its handler only for a
// session that completed the handshake and is logged in (the sys topic accepts any *logged-in*
// author without attachment: nothing else stands between an anonymous connection and sys).
func (c *Ctx) checkPublishNeedsLogin() {
	r := c.R
	_, entries, n := c.dispatchTable()
	if n != 1 {
		r.Fail("C03.4b-publish-needs-login", "session dispatcher", "-", "dispatcher shape not recognised: undecided")
		return
	}
	found := false
	for _, e := range entries {
		if e.Kind != "Pub" {
			continue
		}
		found = true
		ok := e.OK && e.Guards["ver"] && e.Guards["user"]
		if !ok && e.OK {
			// flags style: decided by C11.1 for all kinds; here only the wrapper style is read
			ok = c.dispatchCaseGuardedByFlags("Pub", []string{"ver", "user"})
		}
		r.Check(ok, "C03.4b-publish-needs-login", "dispatcher case msg.Pub: handshake and login required", e.Pos, "",
			"a {pub} is dispatched for a session that is not logged in: an anonymous connection can publish to the sys topic")
	}
	r.Check(found, "C03.4b-publish-needs-login", "dispatcher case msg.Pub found", "-", "", "no dispatch case for {pub}: anchor lost")
}

// dispatchCaseGuardedByFlags: the flags-style evaluation of C11.1 for one message kind.
func (c *Ctx) dispatchCaseGuardedByFlags(kind string, need []string) bool {
	ccmT := c.P.NamedType("server", "ClientComMessage")
	guards := c.sessionStateGuards()
	okAll := false
	for _, fn := range c.P.ModFuncs {
		if !core.InPkg(fn, "server") || !isPtrToNamedRecv(fn, "Session") {
			continue
		}
		core.AllInstrs(fn, func(in ssa.Instruction) {
			call, ok := in.(*ssa.Call)
			if !ok || call.Call.IsInvoke() {
				return
			}
			phi, ok := call.Call.Value.(*ssa.Phi)
			if !ok {
				return
			}
			for i := range phi.Edges {
				pred := phi.Block().Preds[i]
				if caseKind(pred, ccmT) != kind {
					continue
				}
				all := true
				for _, nd := range need {
					core.DeadEdges = core.PhiCutsFrom(fn, []*ssa.BasicBlock{pred}, map[core.Edge]bool{})
					cutG, cntG := core.PassEdges(fn, guards[nd])
					for e := range core.DeadEdges {
						cutG[e] = true
					}
					core.DeadEdges = nil
					for e := range core.PhiCutsFrom(fn, []*ssa.BasicBlock{pred}, cutG) {
						cutG[e] = true
					}
					if cntG[0] == 0 || core.ReachBlocks(fn, []*ssa.BasicBlock{pred}, cutG)[call.Block()] {
						all = false
					}
				}
				if all {
					okAll = true
				}
			}
		})
	}
	return okAll
}

// canPublish: the functions from which a message save (and with it an increment of Topic.lastID and
// a nested fan-out) is reachable through the call graph (no goroutine starts).
func (c *Ctx) canPublish() map[*ssa.Function]bool {
	save := c.E().storeIface("MessagesPersistenceInterface", "Save")
	savers := c.funcsCalling(save, "server")
	out := map[*ssa.Function]bool{}
	for _, fn := range c.P.ModFuncs {
		if !core.InPkg(fn, "server") {
			continue
		}
		reach := c.reachMemo(fn)
		for _, s := range savers {
			if reach[s] {
				out[fn] = true
			}
		}
	}
	return out
}

func (c *Ctx) reachMemo(fn *ssa.Function) map[*ssa.Function]bool {
	if c.reachM == nil {
		c.reachM = map[*ssa.Function]map[*ssa.Function]bool{}
	}
	if m, ok := c.reachM[fn]; ok {
		return m
	}
	m := c.reaches([]*ssa.Function{fn}, true)
	c.reachM[fn] = m
	return m
}

// callsThatCanPublish: the call instructions of fn whose (static or resolved) callee can publish.
func (c *Ctx) callCanPublish(in ssa.Instruction, pub map[*ssa.Function]bool) bool {
	ci, ok := in.(ssa.CallInstruction)
	if !ok {
		return false
	}
	if _, isGo := in.(*ssa.Go); isGo {
		return false
	}
	for _, g := range c.calleesOf(in.Parent(), ci) {
		if pub[g] {
			return true
		}
	}
	return false
}

// checkNoPublishInsideFanout (C02): while the fan-out loop hands a message to the sessions nothing
// that can publish another message is called (a nested publish would be delivered to the sessions
// not yet visited before the message being fanned out).
func (c *Ctx) checkNoPublishInsideFanout(prefix string, fo fanout) {
	r := c.R
	pub := c.canPublish()
	// the loop: blocks on a cycle through the sink's block
	sb := fo.sink.Block()
	fwd := core.ReachBlocks(fo.fn, []*ssa.BasicBlock{sb}, nil)
	inLoop := map[*ssa.BasicBlock]bool{}
	for b := range fwd {
		if core.ReachBlocks(fo.fn, []*ssa.BasicBlock{b}, nil)[sb] && loopContains(fo.fn, b, sb) {
			inLoop[b] = true
		}
	}
	var bad ssa.Instruction
	for b := range inLoop {
		for _, in := range b.Instrs {
			if bad == nil && c.callCanPublish(in, pub) {
				bad = in
			}
		}
	}
	r.Check(bad == nil && len(inLoop) > 0, prefix+"-no-publish-inside-fanout", fk(fo.fn)+": nothing that can publish is called inside the fan-out loop", c.pos(fo.sink), "",
		"a call inside the fan-out loop can publish another message"+posOf(c, bad)+": sessions visited later receive the newer message first (ids out of order)")
}

// loopContains: a and b lie on a common cycle (b reachable from a and a from b).
func loopContains(fn *ssa.Function, a, b *ssa.BasicBlock) bool {
	if a == b {
		// the sink's own block is in the loop when it can reach itself
		for _, s := range a.Succs {
			if core.ReachBlocks(fn, []*ssa.BasicBlock{s}, nil)[a] {
				return true
			}
		}
		return false
	}
	return core.ReachBlocks(fn, []*ssa.BasicBlock{a}, nil)[b] && core.ReachBlocks(fn, []*ssa.BasicBlock{b}, nil)[a]
}

// checkSeqReportedBeforeReentry (C01): between the increment of Topic.lastID and every read of it
// that is reported to clients no call is made that can publish another message (which would
// advance lastID: the publisher would be told the id of the nested message).
func (c *Ctx) checkSeqReportedBeforeReentry() {
	r := c.R
	save := c.E().storeIface("MessagesPersistenceInterface", "Save")
	lastID := c.E().topicField("lastID")
	pub := c.canPublish()
	n := 0
	for _, sfn := range c.funcsCalling(save, "server") {
		root := c.phaseRoot(sfn)
		var incr []ssa.Instruction
		var loads []ssa.Instruction
		c.regionInstrs(root, func(_ *ssa.Function, in ssa.Instruction) {
			if st, ok := in.(*ssa.Store); ok {
				if f, _ := core.FieldOfAddr(st.Addr); f == lastID {
					incr = append(incr, in)
				}
			}
			if u, ok := in.(*ssa.UnOp); ok && u.Op == token.MUL {
				if f, _ := core.FieldOfAddr(u.X); f == lastID {
					loads = append(loads, in)
				}
			}
		})
		for _, inc := range incr {
			for _, ld := range loads {
				if ld.Parent() != inc.Parent() {
					continue
				}
				fn := inc.Parent()
				// only reads after the increment
				if after, _ := core.PathAvoiding(fn, inc, func(x ssa.Instruction) bool { return x == ld }, nil, nil); !after {
					continue
				}
				n++
				var via ssa.Instruction
				core.AllInstrs(fn, func(k ssa.Instruction) {
					if via != nil || !c.callCanPublish(k, pub) {
						return
					}
					a, _ := core.PathAvoiding(fn, inc, func(x ssa.Instruction) bool { return x == k }, func(x ssa.Instruction) bool { return x == ld }, nil)
					b, _ := core.PathAvoiding(fn, k, func(x ssa.Instruction) bool { return x == ld }, func(x ssa.Instruction) bool { return x == inc }, nil)
					if a && b {
						via = k
					}
				})
				r.Check(via == nil, "C01.2g-reported-before-reentry", fmt.Sprintf("%s: lastID read #%s after the increment precedes every call that can publish", fk(fn), retOrdinalOfLoad(fn, ld)), c.pos(ld), "",
					"Topic.lastID is read for reporting after a call that can publish another message"+posOf(c, via)+": the publisher is told the id of the nested message")
			}
		}
	}
	if n == 0 {
		// the id is threaded as a value (`seq := lastID+1 ... lastID = seq; reply(seq)`): nothing is re-read
		r.Info("C01.2g-reported-before-reentry", "reads of lastID after the increment", "-", "none: the reported id is not re-read from Topic.lastID (C01.2e decides that it is the incremented value)")
	} else {
		r.OK("C01.2g-reported-before-reentry", "reads of lastID after the increment", "-", fmt.Sprintf("%d", n))
	}
}

func retOrdinalOfLoad(fn *ssa.Function, at ssa.Instruction) string {
	var lds []ssa.Instruction
	core.AllInstrs(fn, func(in ssa.Instruction) {
		if u, ok := in.(*ssa.UnOp); ok && u.Op == token.MUL {
			if a, ok2 := at.(*ssa.UnOp); ok2 {
				f1, _ := core.FieldOfAddr(u.X)
				f2, _ := core.FieldOfAddr(a.X)
				if f1 != nil && f1 == f2 {
					lds = append(lds, in)
				}
			}
		}
	})
	for i := 1; i < len(lds); i++ {
		for j := i; j > 0 && lds[j].Pos() < lds[j-1].Pos(); j-- {
			lds[j], lds[j-1] = lds[j-1], lds[j]
		}
	}
	for i, in := range lds {
		if in == at {
			return fmt.Sprint(i + 1)
		}
	}
	return "?"
}

// checkDelIdRecorded (C08): the store wrapper records the id of every numbered delete transaction
// at the topic row: with delID > 0 no success return is reached without TopicUpdate{DelId}.
func (c *Ctx) checkDelIdRecorded() {
	r := c.R
	fn := c.ssaMethod("server/store", "messagesMapper", "DeleteList")
	r.Func(fk(fn))
	topicUpdate := c.method("server/db", "Adapter", "TopicUpdate")
	var delIDp *ssa.Parameter
	for _, p := range fn.Params {
		if b, ok := p.Type().Underlying().(*types.Basic); ok && b.Kind() == types.Int {
			delIDp = p
		}
	}
	var upd ssa.Instruction
	c.withCallees(fn, 1, func(_ *ssa.Function, in ssa.Instruction, outer ssa.Instruction) {
		if call, ok := in.(*ssa.Call); ok && core.CalleeOf(&call.Call) == topicUpdate {
			args := core.CallArgs(&call.Call)
			if _, has := mapLiteralKeys(args[len(args)-1])["DelId"]; has {
				upd = outer
			}
		}
	})
	if upd == nil || delIDp == nil {
		r.Fail("C08.4c-delete-id-recorded", fk(fn)+": TopicUpdate{DelId}", c.P.Pos(fn.Pos()), "the delete transaction id is no longer recorded at the topic: anchor lost")
		return
	}
	// numbered transactions only: cut the edges on which delID > 0 fails
	g := core.LessGuard("0<delID", core.IsConstInt(0), func(v ssa.Value) bool { return core.Strip(v) == ssa.Value(delIDp) }, true)
	cut := core.FailEdges(fn, g)
	ei := errIndex(fn.Signature)
	miss := false
	var where ssa.Instruction
	res := core.NilWalk(fn, nil, cut, func(in ssa.Instruction) bool { return in == upd }, func(in ssa.Instruction, f core.NilFacts) {
		ret, ok := in.(*ssa.Return)
		if !ok {
			return
		}
		if k, n := core.Nilness(ret.Results[ei], f); k && !n {
			return
		}
		miss, where = true, in
	})
	r.Check(!miss && !res.Overflow && len(cut) > 0, "C08.4c-delete-id-recorded", fk(fn)+": every numbered delete records its id at the topic", c.pos(upd), "",
		"a numbered delete transaction can succeed"+posOf(c, where)+" without its id being recorded at the topic row: after a reload the topic re-issues the id and reports a stale `clear` value")
}

// checkFeaturesAccumulate (C11): the features put into the record handed to the token generator
// are the authenticator's features, possibly with bits added: never replaced by a constant (the
// no-login restriction of a token must survive a login with it).
func (c *Ctx) checkFeaturesAccumulate() {
	r := c.R
	featF := c.field("server/auth", "Rec", "Features")
	n := 0
	var allFrom func(v ssa.Value, d int) bool
	allFrom = func(v ssa.Value, d int) bool {
		v = core.Strip(v)
		if d > 8 {
			return false
		}
		if core.IsFieldLoad(featF)(v) {
			return true
		}
		switch x := v.(type) {
		case *ssa.Phi:
			for _, e := range x.Edges {
				if !allFrom(e, d+1) {
					return false
				}
			}
			return len(x.Edges) > 0
		case *ssa.BinOp:
			if x.Op == token.OR {
				return allFrom(x.X, d+1) || allFrom(x.Y, d+1)
			}
		}
		return false
	}
	for _, fn := range c.P.ModFuncs {
		if !core.InPkg(fn, "server") || !isPtrToNamedRecv(fn, "Session") {
			continue
		}
		for _, st := range core.StoresToField(fn, featF) {
			if rootsInAlloc(st.Addr) {
				continue // a fresh record built by the server itself (reset secret): not an authenticator's record
			}
			n++
			r.Func(fk(fn))
			r.Check(allFrom(st.Val, 0), "C11.3e-features-accumulate", fmt.Sprintf("%s: Rec.Features rewritten only with bits added #%s", fk(fn), retOrdinalOfStore(fn, st)), c.pos(st), "",
				"the features of the authenticated record are replaced instead of extended: a restricted (no-login) token is exchanged for an unrestricted one")
		}
	}
	r.Check(n >= 1, "C11.3e-features-accumulate", "stores to auth.Rec.Features in the session", "-", fmt.Sprintf("%d", n), "anchor lost")
}

// checkTagDeltaOrder (C19): stringSliceDelta(old, new): where one argument is the topic's cached
// tags it is the first one (the helper's "removed" result is what the cache refresh relies on).
func (c *Ctx) checkTagDeltaOrder() {
	r := c.R
	delta := c.fn("server", "stringSliceDelta")
	liveTags := c.E().topicField("tags")
	n := 0
	for _, fn := range c.funcsCalling(delta, "server") {
		for _, ci := range core.CallsTo(fn, delta) {
			args := core.CallArgs(ci.Common())
			a0 := core.Derives(args[0], core.IsFieldLoad(liveTags), false)
			a1 := core.Derives(args[1], core.IsFieldLoad(liveTags), false)
			if !a0 && !a1 {
				continue
			}
			n++
			r.Func(fk(fn))
			r.Check(a0 && !a1, "C19.1c-tag-delta-order", fmt.Sprintf("%s: stringSliceDelta(cached tags, new tags) #%s", fk(fn), retOrdinalOfCall(fn, ci.(ssa.Instruction))), c.pos(ci), "",
				"the cached tags are passed as the *new* list: added and removed are swapped, the cache is not refreshed when a tag disappears and a later {set tags} is compared with stale restricted tags")
		}
	}
	r.Check(n >= 2, "C19.1c-tag-delta-order", "delta computations against the cached tags", "-", fmt.Sprintf("%d", n), "fewer than two: anchor lost")
}

// checkCollectorChannel (C14): a completion channel handed to several topics in one sweep is the
// sweep's own collector (created there), not the caller's: the caller's channel is signalled once,
// after the collector was drained.
func (c *Ctx) checkCollectorChannel() {
	r := c.R
	doneF := c.field("server", "shutDown", "done")
	n := 0
	for _, fn := range c.P.ModFuncs {
		if !core.InPkg(fn, "server") {
			continue
		}
		for _, st := range core.StoresToField(fn, doneF) {
			n++
			r.Func(fk(fn))
			v := core.Strip(st.Val)
			// handed down through a parameter of a helper with a single call site, or captured
			for i := 0; i < 3; i++ {
				if ld, ok := v.(*ssa.UnOp); ok && ld.Op == token.MUL {
					if fv, ok := ld.X.(*ssa.FreeVar); ok {
						if b, ok := core.FreeVarBinding(fv).(*ssa.Alloc); ok {
							if sv := c.soleStoreTo(b); sv != nil {
								v = core.Strip(sv)
								continue
							}
						}
					}
				}
				if fv, ok := v.(*ssa.FreeVar); ok {
					if b := core.FreeVarBinding(fv); b != nil {
						v = core.Strip(b)
						continue
					}
				}
				if _, isP := v.(*ssa.Parameter); isP {
					if w := c.rootValue(v); w != v {
						v = w
						continue
					}
				}
				break
			}
			_, isMake := v.(*ssa.MakeChan)
			if ct, ok := v.(*ssa.ChangeType); ok {
				_, isMake = core.Strip(ct.X).(*ssa.MakeChan)
			}
			if mi, ok := v.(*ssa.MakeInterface); ok {
				_, isMake = core.Strip(mi.X).(*ssa.MakeChan)
			}
			isNil := core.IsNil(v)
			// a collector declared first and created conditionally (`var done chan bool; if caller != nil
			// { done = make(..) }`), possibly captured by the sweep's function literal: every value ever
			// stored into the variable is a channel created here
			if ld, ok := v.(*ssa.UnOp); ok && ld.Op == token.MUL && !isMake {
				cell := ld.X
				if fv, ok := cell.(*ssa.FreeVar); ok {
					if b := core.FreeVarBinding(fv); b != nil {
						cell = b
					}
				}
				if al, ok := cell.(*ssa.Alloc); ok && al.Referrers() != nil {
					all, any := true, false
					for _, ref := range *al.Referrers() {
						if s2, ok := ref.(*ssa.Store); ok && s2.Addr == ssa.Value(al) {
							any = true
							if _, mk := core.Strip(s2.Val).(*ssa.MakeChan); !mk && !core.IsNil(s2.Val) {
								all = false
							}
						}
					}
					isMake = all && any
				}
			}
			r.Check(isMake || isNil, "C14.6b-collector-channel", fmt.Sprintf("%s: shutDown.done is this function's own collector #%s", fk(fn), retOrdinalOfStore(fn, st)), c.pos(st), "",
				"the completion channel given to the topics is not the collector created by the sweep (for instance the caller's unbuffered channel): the caller is released by the first topic and the others block forever")
		}
	}
	r.Check(n >= 2, "C14.6b-collector-channel", "shutDown literals with a completion channel", "-", fmt.Sprintf("%d", n), "fewer than two: anchor lost")
}

// soleStoreTo: the value of the only store into a local variable (nil otherwise).
func (c *Ctx) soleStoreTo(a *ssa.Alloc) ssa.Value {
	if a.Referrers() == nil {
		return nil
	}
	var v ssa.Value
	n := 0
	for _, r := range *a.Referrers() {
		if st, ok := r.(*ssa.Store); ok && st.Addr == ssa.Value(a) {
			v = st.Val
			n++
		}
	}
	if n != 1 {
		return nil
	}
	return v
}
