package rules

import (
	"fmt"
	"go/constant"
	"go/token"
	"go/types"
	"sort"
	"strings"
	"unicode"

	"golang.org/x/tools/go/ssa"

	"verifchk/core"
)

func init() { register("C05", checkC05) }

func checkC05(c *Ctx) {
	r := c.R
	r.Explanation = "Structural agreement of the access-mode codec and of the change-notification protocol: (1) the letter->bit table extracted from the switch of ParseAcs (both cases of each letter) and the bit->letter table extracted from the literal of MarshalText are mutual inverses over the 8 permission bits, 'N' maps to ModeNone on both sides, the default arm of ParseAcs returns an error; (2) UnmarshalText stores through its receiver only behind err==nil of ParseAcs and m0 != ModeUnset (unknown letters and the empty string leave the target unchanged) and the stored value is masked with ModeBitmask; (3) effective permission is the intersection wherever it is decided (F-INTERSECT, shared with C07); (4) notification protocol: the emitter renders each side as old.Delta(new) or new.String(); the consumer applies both sides with ApplyMutation and writes the record back; ApplyMutation is a no-op only for the empty string and otherwise dispatches to ApplyDelta exactly for strings containing '+' or '-' and to UnmarshalText for the rest; ApplyDelta masks with ModeBitmask and stores only after the whole delta was parsed; (5) the previous owner's permission-change notice is emitted while Topic.owner still names the previous owner."
	r.NotDecided = []string{"the delta laws old.ApplyDelta(old.Delta(new)) == new over all 65 536 pairs (value-level)", "string-level behaviour of ApplyDelta on arbitrary input"}
	r.Trusted = []string{"go/types, go/ssa"}

	c.checkModeTables()
	c.checkUnmarshalText()
	c.checkIntersect()
	c.checkMutationProtocol()
	c.checkOwnerNoticeOrder()
	c.checkDeltaSides()
	// the "old" side of a delta is taken before the modes are modified
	c.checkSnapshotBeforeChange()
	c.checkIntersectionPairsAreGenerations("C05.3d-intersections-pair-generations")
	c.checkNoticeOldSideIsSnapshot("C05.4e-notice-before-side-is-snapshot")
	c.checkDeltaReturnsOnlyChunks()
	c.checkParseAcsReadsWholeText()
}

func (c *Ctx) checkModeTables() {
	r := c.R
	parse := c.ssaFn("server/store/types", "ParseAcs")
	marshal := c.ssaMethod("server/store/types", "AccessMode", "MarshalText")
	r.Func(fk(parse))
	r.Func(fk(marshal))
	// bit -> letter from the array literal in MarshalText: stores of byte constants at constant indices
	b2l := map[int64]rune{}
	// (the rendering loop may sit in a helper of MarshalText, `m.modeLetters()`)
	renderers := []*ssa.Function{marshal}
	core.AllInstrs(marshal, func(in ssa.Instruction) {
		if call, ok := in.(*ssa.Call); ok {
			if h := call.Call.StaticCallee(); h != nil && h != marshal && core.InPkg(h, "server/store/types") && len(h.Blocks) > 0 {
				renderers = append(renderers, h)
			}
		}
	})
	allRender := func(visit func(in ssa.Instruction)) {
		for _, g := range renderers {
			core.AllInstrs(g, visit)
		}
	}
	allRender(func(in ssa.Instruction) {
		st, ok := in.(*ssa.Store)
		if !ok {
			return
		}
		ia, ok := st.Addr.(*ssa.IndexAddr)
		if !ok {
			return
		}
		idx, ok1 := core.ConstIntValue(ia.Index)
		v, ok2 := core.ConstIntValue(st.Val)
		if ok1 && ok2 && v >= 'A' && v <= 'Z' {
			b2l[int64(1)<<uint(idx)] = rune(v)
		}
	})
	// or from a constant string indexed by the bit number: `const letters = "JRWPASDO"; letters[i]`
	if len(b2l) < 8 {
		b2l = map[int64]rune{}
		allRender(func(in ssa.Instruction) {
			var sv ssa.Value
			switch x := in.(type) {
			case *ssa.Lookup:
				sv = x.X
			case *ssa.Index:
				sv = x.X
			}
			if sv == nil {
				return
			}
			if k, ok := sv.(*ssa.Const); ok && k.Value != nil && k.Value.Kind() == constant.String {
				str := constant.StringVal(k.Value)
				if len(str) == 8 {
					for i, ch := range str {
						if ch >= 'A' && ch <= 'Z' {
							b2l[int64(1)<<uint(i)] = ch
						}
					}
				}
			}
		})
	}
	// letter -> bit from ParseAcs: `if b[i] == K` true edge reaches (within 2 hops) `m0 | BIT`
	l2b := map[rune]int64{}
	noneLetters := map[rune]bool{}
	for _, b := range parse.Blocks {
		ifi, ok := b.Instrs[len(b.Instrs)-1].(*ssa.If)
		if !ok {
			continue
		}
		a := core.NormCond(ifi.Cond)
		if a.Op != token.EQL {
			continue
		}
		var k int64
		var okk bool
		if k, okk = core.ConstIntValue(a.Y); !okk {
			if k, okk = core.ConstIntValue(a.X); !okk {
				continue
			}
		}
		if k < 'A' || k > 'z' {
			continue
		}
		idx := 0
		if a.Negated {
			idx = 1
		}
		tb := b.Succs[idx]
		for hops := 0; hops < 2 && tb != nil; hops++ {
			found := false
			for _, in := range tb.Instrs {
				if bo, ok := in.(*ssa.BinOp); ok && bo.Op == token.OR && isModeType(bo.Type()) {
					if bit, ok := core.ConstIntValue(bo.Y); ok {
						l2b[rune(k)] = bit
						found = true
					}
				}
			}
			if found {
				break
			}
			// `case K: bit = BIT` followed by one `m0 |= bit` after the switch: the constant arrives
			// through a phi of the block the arm jumps to
			if len(tb.Succs) == 1 {
				nb := tb.Succs[0]
				pi := -1
				for i, p := range nb.Preds {
					if p == tb {
						pi = i
					}
				}
				for _, in := range nb.Instrs {
					phi, ok := in.(*ssa.Phi)
					if !ok {
						break
					}
					if pi >= 0 && isModeType(phi.Type()) {
						if bit, ok := core.ConstIntValue(phi.Edges[pi]); ok && bit != 0 {
							usedInOr := false
							if phi.Referrers() != nil {
								for _, ref := range *phi.Referrers() {
									if bo, ok := ref.(*ssa.BinOp); ok && bo.Op == token.OR {
										usedInOr = true
									}
								}
							}
							if usedInOr {
								l2b[rune(k)] = bit
								found = true
							}
						}
					}
				}
				if found {
					break
				}
			}
			// the N arm: compares m0 with ModeUnset
			for _, in := range tb.Instrs {
				if bo, ok := in.(*ssa.BinOp); ok && (bo.Op == token.NEQ || bo.Op == token.EQL) && isModeType(bo.X.Type()) {
					noneLetters[rune(k)] = true
					found = true
				}
			}
			if found || len(tb.Succs) != 1 {
				break
			}
			tb = tb.Succs[0]
		}
	}
	// the letter arms moved into a helper that maps one character to its bit
	// (`bit, ok := acsLetterBit(chr)` with `case 'J', 'j': return ModeJoin, true`): its result per letter
	if len(l2b) < 16 {
		core.AllInstrs(parse, func(in ssa.Instruction) {
			call, ok := in.(*ssa.Call)
			if !ok {
				return
			}
			h := call.Call.StaticCallee()
			if h == nil || h == parse || !core.InModule(h) || len(h.Blocks) == 0 || h.Signature.Results().Len() < 1 || !isModeType(h.Signature.Results().At(0).Type()) {
				return
			}
			// its result is or-ed into the accumulator
			used := false
			if call.Referrers() != nil {
				for _, ref := range *call.Referrers() {
					if ex, isEx := ref.(*ssa.Extract); isEx && ex.Index == 0 && ex.Referrers() != nil {
						for _, r2 := range *ex.Referrers() {
							if bo, isBo := r2.(*ssa.BinOp); isBo && bo.Op == token.OR {
								used = true
							}
						}
					}
				}
			}
			if !used {
				return
			}
			for _, b := range h.Blocks {
				ifi, ok := b.Instrs[len(b.Instrs)-1].(*ssa.If)
				if !ok {
					continue
				}
				a := core.NormCond(ifi.Cond)
				if a.Op != token.EQL {
					continue
				}
				var k int64
				var okk bool
				if k, okk = core.ConstIntValue(a.Y); !okk {
					if k, okk = core.ConstIntValue(a.X); !okk {
						continue
					}
				}
				if k < 'A' || k > 'z' {
					continue
				}
				idx := 0
				if a.Negated {
					idx = 1
				}
				tb := b.Succs[idx]
				for hops := 0; hops < 2 && tb != nil; hops++ {
					if ret, isRet := tb.Instrs[len(tb.Instrs)-1].(*ssa.Return); isRet {
						if bit, ok := core.ConstIntValue(ret.Results[0]); ok && bit != 0 {
							l2b[rune(k)] = bit
						}
						break
					}
					if len(tb.Succs) != 1 {
						break
					}
					tb = tb.Succs[0]
				}
			}
		})
	}
	r.Floor("C05.1-mode-tables-agree", 3)
	var bad []string
	for bit, L := range b2l {
		if l2b[L] != bit {
			bad = append(bad, fmt.Sprintf("'%c' renders bit %#x but parses to %#x", L, bit, l2b[L]))
		}
		lo := unicode.ToLower(L)
		if l2b[lo] != bit {
			bad = append(bad, fmt.Sprintf("'%c' parses to %#x, expected %#x", lo, l2b[lo], bit))
		}
	}
	for L, bit := range l2b {
		if b2l[bit] != unicode.ToUpper(L) {
			shown := "nothing"
			if b2l[bit] != 0 {
				shown = fmt.Sprintf("'%c'", b2l[bit])
			}
			bad = append(bad, fmt.Sprintf("'%c' parses to bit %#x which renders as %s", L, bit, shown))
		}
	}
	sort.Strings(bad)
	r.Check(len(bad) == 0 && len(b2l) == 8 && len(l2b) == 16, "C05.1-mode-tables-agree", "ParseAcs switch <-> MarshalText table", c.P.Pos(parse.Pos()),
		fmt.Sprintf("%d letters (both cases) and %d bits are mutual inverses", len(l2b), len(b2l)), fmt.Sprintf("tables disagree (%d bits, %d letters): %v", len(b2l), len(l2b), bad))
	r.Check(noneLetters['N'] && noneLetters['n'], "C05.1-mode-tables-agree", "ParseAcs: 'N'/'n' handled as explicit none", c.P.Pos(parse.Pos()), "", "'N' is no longer parsed as the explicit empty set in both cases")
	// MarshalText renders ModeNone as 'N'
	none := c.konst("server/store/types", "ModeNone")
	okN := false
	core.AllInstrs(marshal, func(in ssa.Instruction) {
		if st, ok := in.(*ssa.Store); ok {
			if v, ok := core.ConstIntValue(st.Val); ok && v == 'N' {
				g := core.EqGuard("m==ModeNone", isParam, core.IsConstOf(none), true)
				if ok2, cnt := core.GuardedBy(marshal, st, g); ok2 && cnt[0] > 0 {
					okN = true
				}
			}
		}
	})
	r.Check(okN, "C05.1-mode-tables-agree", "MarshalText: ModeNone renders as \"N\"", c.P.Pos(marshal.Pos()), "", "the empty permission set no longer renders as N")
	// default arm returns an error: every return of ParseAcs with a non-nil error exists and the last compare's false edge leads to it
	nErr := 0
	core.AllInstrs(parse, func(in ssa.Instruction) {
		if ret, ok := in.(*ssa.Return); ok && !core.IsNil(ret.Results[1]) {
			nErr++
		}
	})
	if nErr < 2 {
		// single exit: the two errors are created in the arms and returned through one variable
		nErr = 0
		core.AllInstrs(parse, func(in ssa.Instruction) {
			if call, ok := in.(*ssa.Call); ok {
				if n := calleeFullName(call); n == "errors.New" || n == "fmt.Errorf" {
					nErr++
				}
			}
		})
	}
	r.Check(nErr >= 2, "C05.1-mode-tables-agree", "ParseAcs: unknown letters and N combined with others are errors", c.P.Pos(parse.Pos()), "", "ParseAcs no longer rejects unknown letters")
}

func (c *Ctx) checkUnmarshalText() {
	r := c.R
	um := c.ssaMethod("server/store/types", "AccessMode", "UnmarshalText")
	r.Func(fk(um))
	parse := c.fn("server/store/types", "ParseAcs")
	unset := c.konst("server/store/types", "ModeUnset")
	mask := c.konst("server/store/types", "ModeBitmask")
	r.Floor("C05.2-unmarshal-guards", 2)
	var calls []ssa.CallInstruction
	for _, ci := range core.CallsTo(um, parse) {
		calls = append(calls, ci)
	}
	n := 0
	core.AllInstrs(um, func(in ssa.Instruction) {
		st, ok := in.(*ssa.Store)
		if !ok {
			return
		}
		if p, ok := st.Addr.(*ssa.Parameter); !ok || p != um.Params[0] {
			return
		}
		n++
		var gs []core.Guard
		for _, ci := range calls {
			gs = append(gs, successGuard(ci))
		}
		ok1, _ := core.GuardedBy(um, st, gs...)
		r.Check(ok1 && len(calls) > 0, "C05.2-unmarshal-guards", fk(um)+": target written only if parsing succeeded", c.pos(st), "", "text with unknown letters changes the target")
		gU := core.EqGuard("m0!=ModeUnset", func(v ssa.Value) bool {
			ex, ok := v.(*ssa.Extract)
			return ok && ex.Index == 0
		}, core.IsConstOf(unset), false)
		ok2, cnt := core.GuardedBy(um, st, gU)
		r.Check(ok2 && cnt[0] > 0, "C05.2-unmarshal-guards", fk(um)+": empty string means no change", c.pos(st), "", "an empty mode string overwrites the target")
		okMask := core.IsBinOp(token.AND, core.Any, core.IsConstOf(mask), true)(st.Val)
		r.Check(okMask, "C05.2-unmarshal-guards", fk(um)+": stored value masked with ModeBitmask", c.pos(st), "", "internal marker bits (unset/invalid) can be stored as permissions")
	})
	if n == 0 {
		// the conditional store moved onto a method of the target (`m.assignDefined(m0)`): the store and
		// its unset test and mask are examined there, the success of parsing at the call
		core.AllInstrs(um, func(in ssa.Instruction) {
			call, ok := in.(*ssa.Call)
			if !ok {
				return
			}
			h := call.Call.StaticCallee()
			if h == nil || h == um || !core.InModule(h) || len(h.Blocks) == 0 || len(h.Params) != 2 || len(call.Call.Args) != 2 {
				return
			}
			if call.Call.Args[0] != ssa.Value(um.Params[0]) {
				return
			}
			ex, isEx := call.Call.Args[1].(*ssa.Extract)
			if !isEx || ex.Index != 0 {
				return
			}
			core.AllInstrs(h, func(in2 ssa.Instruction) {
				st, ok := in2.(*ssa.Store)
				if !ok {
					return
				}
				if p, ok := st.Addr.(*ssa.Parameter); !ok || p != h.Params[0] {
					return
				}
				n++
				var gs []core.Guard
				for _, ci := range calls {
					gs = append(gs, successGuard(ci))
				}
				ok1, _ := core.GuardedBy(um, call, gs...)
				r.Check(ok1 && len(calls) > 0, "C05.2-unmarshal-guards", fk(um)+": target written only if parsing succeeded", c.pos(call), "", "text with unknown letters changes the target")
				gU := core.EqGuard("m0!=ModeUnset", func(v ssa.Value) bool { return v == ssa.Value(h.Params[1]) }, core.IsConstOf(unset), false)
				saved := core.NoLift
				core.NoLift = true
				ok2, cnt := core.GuardedBy(h, st, gU)
				core.NoLift = saved
				r.Check(ok2 && cnt[0] > 0, "C05.2-unmarshal-guards", fk(um)+": empty string means no change", c.pos(st), "", "an empty mode string overwrites the target")
				okMask := core.IsBinOp(token.AND, core.Any, core.IsConstOf(mask), true)(st.Val)
				r.Check(okMask, "C05.2-unmarshal-guards", fk(um)+": stored value masked with ModeBitmask", c.pos(st), "", "internal marker bits (unset/invalid) can be stored as permissions")
			})
		})
	}
	r.Check(n == 1, "C05.2-unmarshal-guards", fk(um)+": exactly one assignment of the target", "-", "", fmt.Sprintf("%d assignments of the target", n))
}

func (c *Ctx) checkMutationProtocol() {
	r := c.R
	am := c.ssaMethod("server/store/types", "AccessMode", "ApplyMutation")
	applyDelta := c.method("server/store/types", "AccessMode", "ApplyDelta")
	unmarshal := c.method("server/store/types", "AccessMode", "UnmarshalText")
	applyMut := c.method("server/store/types", "AccessMode", "ApplyMutation")
	delta := c.method("server/store/types", "AccessMode", "Delta")
	str := c.method("server/store/types", "AccessMode", "String")
	r.Func(fk(am))
	r.Floor("C05.4-mutation-protocol", 4)
	// (a) no-op only for ""
	var consts []string
	core.AllInstrs(am, func(in ssa.Instruction) {
		if b, ok := in.(*ssa.BinOp); ok && (b.Op == token.EQL || b.Op == token.NEQ) {
			for _, side := range []ssa.Value{b.X, b.Y} {
				if k, ok := side.(*ssa.Const); ok && k.Value != nil && k.Value.Kind() == constant.String {
					consts = append(consts, constant.StringVal(k.Value))
				}
			}
		}
	})
	sort.Strings(consts)
	r.Check(len(consts) == 1 && consts[0] == "", "C05.4-mutation-protocol", fk(am)+": no-op only for the empty string", c.P.Pos(am.Pos()), "", fmt.Sprintf("ApplyMutation ignores more than the empty string (compared constants: %q): a full-mode notification such as \"N\" leaves the tracked permissions unchanged", consts))
	// (b) dispatch
	var dcalls, ucalls []ssa.CallInstruction
	dcalls = core.CallsTo(am, applyDelta)
	ucalls = core.CallsTo(am, unmarshal)
	gDelta := core.Guard{Name: "ContainsAny(mutation, \"+-\")", Match: func(a core.CondAtom) (bool, bool) {
		if a.Op != token.ILLEGAL || calleeFullName(a.Val) != "strings.ContainsAny" {
			return false, false
		}
		k, ok := a.Val.(*ssa.Call).Call.Args[1].(*ssa.Const)
		if !ok || k.Value == nil {
			return false, false
		}
		s := constant.StringVal(k.Value)
		if len(s) != 2 || !((s[0] == '+' && s[1] == '-') || (s[0] == '-' && s[1] == '+')) {
			return false, false
		}
		return true, true
	}}
	okD := len(dcalls) == 1
	if okD {
		ok, cnt := core.GuardedBy(am, dcalls[0].(ssa.Instruction), gDelta)
		okD = ok && cnt[0] > 0
	}
	okU := len(ucalls) == 1
	if okU {
		fe := core.FailEdges(am, gDelta)
		reach := core.ReachFromEdges(am, fe, nil)
		okU = reach[ucalls[0].Block()]
		// and not reachable from the pass edge
		pe, _ := core.PassEdges(am, gDelta)
		if core.ReachFromEdges(am, pe, nil)[ucalls[0].Block()] {
			okU = false
		}
	}
	r.Check(okD && okU, "C05.4-mutation-protocol", fk(am)+": deltas go to ApplyDelta, full modes to UnmarshalText", c.P.Pos(am.Pos()), "", "ApplyMutation no longer dispatches on the presence of '+'/'-'")
	// (c) ApplyDelta masks and stores last
	ad := c.ssaMethod("server/store/types", "AccessMode", "ApplyDelta")
	r.Func(fk(ad))
	mask := c.konst("server/store/types", "ModeBitmask")
	nMasked, nOps := 0, 0
	c.noDescend = map[*ssa.Function]bool{c.ssaFn("server/store/types", "ParseAcs"): true} // the letter parser builds its own bit sets
	defer func() { c.noDescend = nil }()
	c.withCallees(ad, 2, func(_ *ssa.Function, in ssa.Instruction, _ ssa.Instruction) {
		if b, ok := in.(*ssa.BinOp); ok && isModeType(b.Type()) && (b.Op == token.OR || b.Op == token.AND_NOT) {
			nOps++
			if core.IsBinOp(token.AND, core.Any, core.IsConstOf(mask), true)(b.Y) {
				nMasked++
			}
		}
	})
	r.Check(nOps >= 2 && nMasked == nOps, "C05.4-mutation-protocol", fk(ad)+": + and - operate on upd & ModeBitmask", c.P.Pos(ad.Pos()), "", fmt.Sprintf("%d of %d delta operations are masked with ModeBitmask", nMasked, nOps))
	// the receiver is assigned only at the end: no path from the store to a return with non-nil error
	core.AllInstrs(ad, func(in ssa.Instruction) {
		st, ok := in.(*ssa.Store)
		if !ok {
			return
		}
		if p, ok := st.Addr.(*ssa.Parameter); !ok || p != ad.Params[0] {
			return
		}
		found, _ := core.PathAvoiding(ad, st, func(x ssa.Instruction) bool {
			ret, ok := x.(*ssa.Return)
			return ok && !core.IsNil(ret.Results[0])
		}, nil, nil)
		if found {
			// confirm on nil-feasible paths: `if err == nil { *m = v }; return err`
			found = false
			// walk from the store with the facts that hold there
			var factsAtStore []core.NilFacts
			core.NilWalk(ad, nil, nil, nil, func(x ssa.Instruction, f core.NilFacts) {
				if x == ssa.Instruction(st) {
					g := core.NilFacts{}
					for k, v := range f {
						g[k] = v
					}
					factsAtStore = append(factsAtStore, g)
				}
			})
			for _, f0 := range factsAtStore {
				r2 := core.NilWalkAfterWith(ad, st, f0, nil, nil, func(x ssa.Instruction, f core.NilFacts) {
					if ret, ok := x.(*ssa.Return); ok {
						if k, n := core.Nilness(ret.Results[0], f); !(k && n) {
							found = true
						}
					}
				})
				if r2.Overflow {
					found = true
				}
			}
		}
		r.Check(!found, "C05.4-mutation-protocol", fk(ad)+": target assigned only after the whole delta parsed", c.pos(st), "", "a delta with an invalid chunk partially changes the target")
	})
	// (d) emitter: the delta strings of notifications come from Delta() or String()
	dWantF := c.field("server", "presParams", "dWant")
	dGivenF := c.field("server", "presParams", "dGiven")
	acsWantF := c.field("server", "MsgAccessMode", "Want")
	acsGivenF := c.field("server", "MsgAccessMode", "Given")
	// MsgAccessMode.Want/Given (the reported modes) are themselves rendered by String()/Delta() or copied
	// from the delta fields, outside the protobuf converters
	for _, fn := range c.P.ModFuncs {
		if !core.InPkg(fn, "server") || strings.Contains(c.P.Pos(fn.Pos()), "pbconverter.go") {
			continue
		}
		for _, fv := range []*types.Var{acsWantF, acsGivenF} {
			for _, st := range core.StoresToField(fn, fv) {
				ok := core.Derives(st.Val, core.Or(core.IsCallTo(delta), core.IsCallTo(str), core.IsFieldLoad(dWantF), core.IsFieldLoad(dGivenF)), true)
				r.Check(ok, "C05.4b-emitter-forms", fmt.Sprintf("%s: MsgAccessMode.%s rendered canonically", fk(fn), fv.Name()), c.pos(st), "", "a reported access mode is not rendered by String()/Delta()")
			}
		}
	}
	nEmit := 0
	for _, fn := range c.P.ModFuncs {
		if !core.InPkg(fn, "server") {
			continue
		}
		for _, fld := range []string{"dWant", "dGiven"} {
			fv := c.field("server", "presParams", fld)
			for _, st := range core.StoresToField(fn, fv) {
				nEmit++
				r.Func(fk(fn))
				ok := core.Derives(st.Val, core.Or(core.IsCallTo(delta), core.IsCallTo(str), core.IsFieldLoad(acsWantF), core.IsFieldLoad(acsGivenF), func(v ssa.Value) bool {
					_, isP := v.(*ssa.Parameter)
					return isP
				}), true)
				r.Check(ok, "C05.4b-emitter-forms", fmt.Sprintf("%s: presParams.%s is old.Delta(new) or new.String()", fk(fn), fld), c.pos(st), "", "a permission-change notification carries a string that is neither a delta nor a canonical full mode")
			}
		}
	}
	r.Check(nEmit >= 2, "C05.4b-emitter-forms", "emitters of dWant/dGiven found", "-", "", "no emitter of permission deltas found: undecided")
	// (e) consumer: applies both sides with ApplyMutation and writes back
	perUser := c.E().topicField("perUser")
	acsWant := c.field("server", "MsgAccessMode", "Want")
	acsGiven := c.field("server", "MsgAccessMode", "Given")
	nCons := 0
	for _, fn := range c.funcsCalling(applyMut, "server") {
		// the consumer is a Topic method, or a helper (for instance a method of the record) that a
		// Topic method is the only caller of
		root := c.climbUntil(fn, func(f *ssa.Function) bool { return isPtrToNamedRecv(f, "Topic") })
		if !isPtrToNamedRecv(root, "Topic") {
			continue
		}
		nCons++
		r.Func(fk(fn))
		sides := map[string]bool{}
		for _, ci := range core.CallsTo(fn, applyMut) {
			args := core.CallArgs(ci.Common())
			recvF, _ := core.FieldOfAddr(args[0])
			if al, isLocal := args[0].(*ssa.Alloc); isLocal && recvF == nil && al.Referrers() != nil {
				// a local working copy: initialised from the record's field and stored back into it
				var from, back *types.Var
				for _, ref := range *al.Referrers() {
					if st, ok := ref.(*ssa.Store); ok && st.Addr == ssa.Value(al) {
						if f, _ := core.LoadedField(core.Strip(st.Val)); f != nil {
							from = f
						}
					}
					if ld, ok := ref.(*ssa.UnOp); ok && ld.Referrers() != nil {
						for _, r2 := range *ld.Referrers() {
							if st, ok := r2.(*ssa.Store); ok && st.Val == ssa.Value(ld) {
								if f, _ := core.FieldOfAddr(st.Addr); f != nil {
									back = f
								}
							}
						}
					}
				}
				if from != nil && from == back {
					recvF = from
				}
			}
			var argF string
			if core.IsFieldLoad(acsWant)(args[1]) {
				argF = "Want"
			} else if core.IsFieldLoad(acsGiven)(args[1]) {
				argF = "Given"
			}
			if recvF != nil {
				sides[recvF.Name()+"<-"+argF] = true
			}
		}
		ok := sides["modeWant<-Want"] && sides["modeGiven<-Given"]
		r.Check(ok, "C05.4c-consumer-applies-both", fk(fn)+": want<-Acs.Want and given<-Acs.Given via ApplyMutation", c.P.Pos(fn.Pos()), "", fmt.Sprintf("the notification consumer applies %v", keys(sides)))
		// write-back on every success path
		miss := false
		for _, ci := range core.CallsTo(fn, applyMut) {
			_ = ci
		}
		var last ssa.Instruction
		for _, ci := range core.CallsTo(fn, applyMut) {
			last = ci.(ssa.Instruction)
		}
		if last != nil {
			cut := core.FailEdges(fn, successGuard(last.(ssa.CallInstruction)))
			if root != fn {
				for e := range core.FailEdges(root, successGuard(last.(ssa.CallInstruction))) {
					cut[e] = true
				}
			}
			c.withRegionUp(root, func() {
				miss, _ = core.PathAvoidingX(fn, last, core.IsReturn, func(x ssa.Instruction) bool {
					mu, ok := x.(*ssa.MapUpdate)
					return ok && core.IsFieldLoad(perUser)(mu.Map)
				}, cut)
			})
		}
		r.Check(!miss, "C05.4c-consumer-applies-both", fk(fn)+": updated record written back to Topic.perUser", c.P.Pos(fn.Pos()), "", "the tracked permissions are computed but not stored")
	}
	r.Check(nCons >= 1, "C05.4c-consumer-applies-both", "consumer of permission notifications found", "-", "", "no Topic method applies ApplyMutation: undecided")
}

// checkOwnerNoticeOrder: the notice about the previous owner (first argument = load of Topic.owner)
// is emitted before Topic.owner is reassigned.
func (c *Ctx) checkOwnerNoticeOrder() {
	r := c.R
	owner := c.E().topicField("owner")
	notify := c.method("server", "Topic", "notifySubChange")
	r.Floor("C05.5-previous-owner-notice", 1)
	for _, fn := range c.funcsCalling(notify, "server") {
		stores := core.StoresToField(fn, owner)
		if len(stores) == 0 {
			continue
		}
		for _, ci := range core.CallsTo(fn, notify) {
			args := core.CallArgs(ci.Common()) // t, uid, actor, ...
			if !core.IsFieldLoad(owner)(args[1]) {
				continue
			}
			r.Func(fk(fn))
			ld := core.Strip(args[1]).(ssa.Instruction)
			bad := false
			for _, st := range stores {
				if found, _ := core.PathAvoiding(fn, st, func(x ssa.Instruction) bool { return x == ld }, nil, nil); found {
					bad = true
				}
			}
			r.Check(!bad, "C05.5-previous-owner-notice", fk(fn)+": notifySubChange(t.owner, ..) reads the previous owner", c.pos(ci), "", "Topic.owner is reassigned before the previous owner's permission change is announced: the notice is addressed to the new owner and trackers of the old owner keep O")
		}
	}
}
