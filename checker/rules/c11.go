package rules

import (
	"fmt"
	"go/types"
	"sort"
	"strings"

	"golang.org/x/tools/go/ssa"

	"verifchk/core"
)

func init() { register("C11", checkC11) }

// handlerExpr decodes a func-typed value built from wrapper applications around a base handler:
//
//	v ::= h                      (the wrapped handler parameter, when decoding a wrapper's result)
//	    | s.X / F                (a bound method or function taking the request: the base handler)
//	    | W(v)                   (W a closure, bound method or function returning a func)
//	    | func(m){ ...h(m)... }  (a closure capturing h: guards dominating every dynamic call)
//
// and returns the guards every eventual call of the base handler (or of h) is behind.
type handlerRes struct {
	guards  map[string]bool
	handler *ssa.Function
	ok      bool
	inners  []*ssa.Function // the guard closures met on the way
}

func isFuncType(t types.Type) bool {
	_, ok := t.Underlying().(*types.Signature)
	return ok
}

func (c *Ctx) handlerExpr(v ssa.Value, h ssa.Value, guards map[string]core.Guard, depth int) handlerRes {
	bad := handlerRes{map[string]bool{}, nil, false, nil}
	if depth > 10 {
		return bad
	}
	if h != nil && v == h {
		return handlerRes{map[string]bool{}, nil, true, nil}
	}
	switch x := v.(type) {
	case *ssa.Function:
		if h == nil && x.Signature.Results().Len() == 0 {
			return handlerRes{map[string]bool{}, x, true, nil}
		}
		return bad
	case *ssa.MakeClosure:
		fn := x.Fn.(*ssa.Function)
		if h != nil {
			// a closure capturing h: which guards dominate every dynamic call inside it
			captures := false
			for _, bnd := range x.Bindings {
				if bnd == h {
					captures = true
				}
				// captured by reference: the cell the parameter was spilled into
				if al, ok := bnd.(*ssa.Alloc); ok && al.Referrers() != nil {
					for _, ref := range *al.Referrers() {
						if st, ok := ref.(*ssa.Store); ok && st.Addr == ssa.Value(al) && st.Val == h {
							captures = true
						}
					}
				}
			}
			if !captures {
				return bad
			}
			g, ok := innerGuards(fn, guards)
			return handlerRes{g, nil, ok, []*ssa.Function{fn}}
		}
		if fn.Signature.Results().Len() == 0 {
			return handlerRes{map[string]bool{}, fn, true, nil}
		}
		return bad
	case *ssa.Call:
		if x.Call.IsInvoke() {
			return bad
		}
		var callee *ssa.Function
		if sc := x.Call.StaticCallee(); sc != nil {
			callee = sc
		} else if mc, ok := x.Call.Value.(*ssa.MakeClosure); ok {
			callee = mc.Fn.(*ssa.Function)
		}
		if callee == nil || callee.Blocks == nil {
			return bad
		}
		var farg ssa.Value
		n := 0
		for _, a := range x.Call.Args {
			if isFuncType(a.Type()) {
				farg = a
				n++
			}
		}
		if n != 1 {
			return bad
		}
		// the wrapper is summarised for this call: a flag argument (`guarded(true, s.get)`) decides
		// which tests apply
		savedSubst := core.ParamSubst
		ns := map[ssa.Value]ssa.Value{}
		for k, v := range savedSubst {
			ns[k] = v
		}
		for i, p := range callee.Params {
			if i < len(x.Call.Args) {
				ns[p] = x.Call.Args[i]
			}
		}
		core.ParamSubst = ns
		w := c.wrapperFunc(callee, guards, depth+1)
		core.ParamSubst = savedSubst
		sub := c.handlerExpr(farg, h, guards, depth+1)
		if !w.ok || !sub.ok {
			return bad
		}
		out := map[string]bool{}
		for k := range w.guards {
			out[k] = true
		}
		for k := range sub.guards {
			out[k] = true
		}
		return handlerRes{out, sub.handler, true, append(append([]*ssa.Function{}, w.inners...), sub.inners...)}
	}
	return bad
}

// wrapperFunc summarises a function taking one func-typed parameter h and returning a func: the
// guards that every eventual call of h is behind, on every return.
func (c *Ctx) wrapperFunc(w *ssa.Function, guards map[string]core.Guard, depth int) handlerRes {
	bad := handlerRes{map[string]bool{}, nil, false, nil}
	var hp ssa.Value
	n := 0
	for _, p := range w.Params {
		if isFuncType(p.Type()) {
			hp = p
			n++
		}
	}
	if n != 1 || w.Signature.Results().Len() != 1 || !isFuncType(w.Signature.Results().At(0).Type()) {
		return bad
	}
	var acc map[string]bool
	var inners []*ssa.Function
	ok := true
	core.AllInstrs(w, func(in ssa.Instruction) {
		ret, isRet := in.(*ssa.Return)
		if !isRet {
			return
		}
		res := c.handlerExpr(ret.Results[0], hp, guards, depth+1)
		if !res.ok {
			ok = false
			return
		}
		inners = append(inners, res.inners...)
		if acc == nil {
			acc = res.guards
			return
		}
		for k := range acc {
			if !res.guards[k] {
				delete(acc, k)
			}
		}
	})
	if !ok || acc == nil {
		return bad
	}
	return handlerRes{acc, nil, true, inners}
}

// innerGuards: the guards that dominate every dynamic call in the closure
// `func(m){ if !cond {reply; return}; h(m) }`.
func innerGuards(inner *ssa.Function, guards map[string]core.Guard) (map[string]bool, bool) {
	out := map[string]bool{}
	var dyn []ssa.Instruction
	core.AllInstrs(inner, func(in ssa.Instruction) {
		call, ok := in.(*ssa.Call)
		if !ok || call.Call.IsInvoke() || call.Call.StaticCallee() != nil {
			return
		}
		if _, isB := call.Call.Value.(*ssa.Builtin); isB {
			return
		}
		if _, isSig := call.Call.Value.Type().Underlying().(*types.Signature); isSig {
			dyn = append(dyn, call)
		}
	})
	if len(dyn) == 0 {
		return out, false
	}
	for name, g := range guards {
		all := true
		for _, d := range dyn {
			ok, cnt := core.GuardedBy(inner, d, g)
			if !ok || cnt[0] == 0 {
				all = false
			}
		}
		if all {
			out[name] = true
		}
	}
	return out, true
}

// dispatchTable decodes the session dispatcher: for each client message kind the bound handler
// method and the wrapper closures around it. Returns nil when the shape is not recognised.
type dispatchEntry struct {
	Kind    string
	Handler *ssa.Function // $bound wrapper
	Guards  map[string]bool
	Inners  []*ssa.Function // guard closures around the handler
	Pos     string
	OK      bool
}

func (c *Ctx) dispatchTable() (fn *ssa.Function, entries []dispatchEntry, nDispatchers int) {
	ccmT := c.P.NamedType("server", "ClientComMessage")
	if ccmT == nil {
		c.lost("type server.ClientComMessage")
	}
	for _, f := range c.P.ModFuncs {
		if !core.InPkg(f, "server") || f.Signature.Recv() == nil || !isPtrToNamed(f.Signature.Recv().Type(), "Session") {
			continue
		}
		found := false
		core.AllInstrs(f, func(in ssa.Instruction) {
			call, ok := in.(*ssa.Call)
			if !ok || call.Call.IsInvoke() {
				return
			}
			phi, ok := call.Call.Value.(*ssa.Phi)
			if !ok {
				return
			}
			sig, ok := phi.Type().Underlying().(*types.Signature)
			if !ok || sig.Params().Len() != 1 {
				return
			}
			if p, ok := sig.Params().At(0).Type().(*types.Pointer); !ok || !types.Identical(p.Elem(), ccmT) {
				return
			}
			found = true
			fn = f
			for i, ev := range phi.Edges {
				pred := phi.Block().Preds[i]
				kind := caseKind(pred, ccmT)
				res := c.handlerExpr(ev, nil, c.sessionStateGuards(), 0)
				entries = append(entries, dispatchEntry{kind, res.handler, res.guards, res.inners, c.P.Pos(ev.Pos()), res.ok && res.handler != nil && kind != ""})
			}
		})
		if found {
			nDispatchers++
		}
	}
	return
}

func checkC11(c *Ctx) {
	r := c.R
	r.Explanation = "Structural necessary conditions of 'sessions act only within their handshake/authentication state', decided per request (so they hold for every sequence): (1) in the session dispatcher every value that can reach the final dynamic handler call is decoded as wrappers(bound method); per client-message kind (the ClientComMessage field whose non-nil test selects the case) the wrappers must include the version guard (Session.ver != 0) and, except for login/acc/hi/note, the user guard (AsUser != \"\"); the {note} handler itself drops silently behind both tests; (2) on-behalf-of: every store to ClientComMessage.AsUser/AuthLvl in the dispatcher whose value does not derive from Session.uid/authLvl is cut off when the authLvl==LevelRoot edge is removed; (3) writer census: Session.ver is written only in the handshake handler (non-zero only behind ver==0), Session.uid/authLvl are set to an authenticated value only in the post-login function behind FeatureNoLogin==0 and len(missing)==0 and are otherwise only reset to zero or set on freshly allocated proxy sessions; (4) the post-login call in the login handler is cut off when any of {session not yet authenticated, Authenticate err==nil, state/validation err==nil, challenge==nil} edges is removed; (5) sender header: at session and at topic, before the hand-off/Save, head[\"sender\"] is either assigned from the session's own uid or deleted."
	r.NotDecided = []string{"correctness of the authenticators themselves (C12)", "cluster-proxied requests carry the origin node's already-checked AsUser (trusted inter-node protocol)"}
	r.Trusted = []string{"go/types, go/ssa construction", "closure/bound-method representation of go/ssa"}

	sessUid := c.E().sessionField("uid")
	sessLvl := c.E().sessionField("authLvl")
	ccmT := c.P.NamedType("server", "ClientComMessage")
	if ccmT == nil {
		c.lost("type server.ClientComMessage")
	}
	asUser := c.field("server", "ClientComMessage", "AsUser")
	authLvlF := c.field("server", "ClientComMessage", "AuthLvl")
	levelRoot := c.konst("server/auth", "LevelRoot")

	guards := c.sessionStateGuards()
	policy := map[string][]string{
		"Pub": {"ver", "user"}, "Sub": {"ver", "user"}, "Leave": {"ver", "user"}, "Get": {"ver", "user"},
		"Set": {"ver", "user"}, "Del": {"ver", "user"}, "Login": {"ver"}, "Acc": {"ver"}, "Hi": {}, "Note": {},
	}

	// locate the dispatcher: the *Session method containing a dynamic call through a phi of
	// func(*ClientComMessage) values.
	var dispatchers []*ssa.Function
	type dynCall struct {
		call *ssa.Call
		phi  *ssa.Phi
	}
	dcalls := map[*ssa.Function][]dynCall{}
	for _, fn := range c.P.ModFuncs {
		if !core.InPkg(fn, "server") || fn.Signature.Recv() == nil || !isPtrToNamed(fn.Signature.Recv().Type(), "Session") {
			continue
		}
		core.AllInstrs(fn, func(in ssa.Instruction) {
			call, ok := in.(*ssa.Call)
			if !ok || call.Call.IsInvoke() {
				return
			}
			phi, ok := call.Call.Value.(*ssa.Phi)
			if !ok {
				return
			}
			sig, ok := phi.Type().Underlying().(*types.Signature)
			if !ok || sig.Params().Len() != 1 {
				return
			}
			if p, ok := sig.Params().At(0).Type().(*types.Pointer); !ok || !types.Identical(p.Elem(), ccmT) {
				return
			}
			dcalls[fn] = append(dcalls[fn], dynCall{call, phi})
		})
		if len(dcalls[fn]) > 0 {
			dispatchers = append(dispatchers, fn)
		}
	}
	r.Floor("C11.1-dispatch-guards", 10)
	if len(dispatchers) != 1 {
		r.Fail("C11.1-dispatch-guards", "session dispatcher", "-", fmt.Sprintf("expected exactly one *Session method dispatching through a handler variable, found %d: dispatch shape not recognised, undecided", len(dispatchers)))
	}
	handlerOfKind := map[string]*ssa.Function{}
	for _, fn := range dispatchers {
		r.Func(fk(fn))
		for _, dc := range dcalls[fn] {
			for i, ev := range dc.phi.Edges {
				pred := dc.phi.Block().Preds[i]
				kind := caseKind(pred, ccmT)
				construct := fmt.Sprintf("%s: case msg.%s", fk(fn), kind)
				res := c.handlerExpr(ev, nil, guards, 0)
				m, have, shapeOK := res.handler, res.guards, true
				if !res.ok || m == nil || kind == "" {
					r.Fail("C11.1-dispatch-guards", construct, c.P.Pos(dc.call.Pos()), "handler value not of the form wrappers(bound method): undecided")
					continue
				}
				pol, known := policy[kind]
				if !known {
					r.Fail("C11.1-dispatch-guards", construct, c.P.Pos(dc.call.Pos()), "client message kind without a guard policy")
					continue
				}
				missing := []string{}
				for _, need := range pol {
					if have[need] {
						continue
					}
					// flags style: no wrapper around the handler, the dispatcher itself tests the
					// session state before the dynamic call, depending on booleans set in the same case:
					// decided per case, with the phis at the merge point resolved for this case
					// the flags are constants of this case: the branches they decide are resolved first,
					// then the guard's pass edges are computed with the dead ways of a merged condition
					// (`needVers && s.ver == 0`) left out
					core.DeadEdges = core.PhiCutsFrom(fn, []*ssa.BasicBlock{pred}, map[core.Edge]bool{})
					cutG, cntG := core.PassEdges(fn, guards[need])
					for e := range core.DeadEdges {
						cutG[e] = true
					}
					core.DeadEdges = nil
					for e := range core.PhiCutsFrom(fn, []*ssa.BasicBlock{pred}, cutG) {
						cutG[e] = true
					}
					if cntG[0] > 0 && !core.ReachBlocks(fn, []*ssa.BasicBlock{pred}, cutG)[dc.call.Block()] {
						have[need] = true
						continue
					}
					missing = append(missing, need)
				}
				handlerOfKind[kind] = m
				r.Check(shapeOK && len(missing) == 0, "C11.1-dispatch-guards", construct, c.P.Pos(ev.Pos()),
					fmt.Sprintf("handler %s wrapped by guards %v (policy %v)", m.Name(), keys(have), pol),
					fmt.Sprintf("handler %s is dispatched without guard(s) %v (has %v)", m.Name(), missing, keys(have)))
			}
		}
		// (2) on-behalf-of stores
		c.checkOboStores(fn, asUser, authLvlF, sessUid, sessLvl, levelRoot)
	}
	// all ten kinds seen
	for k := range policy {
		if _, ok := handlerOfKind[k]; !ok && len(dispatchers) == 1 {
			r.Fail("C11.1-dispatch-guards", "dispatcher case msg."+k, "-", "no dispatch case found for this client message kind")
		}
	}
	// the note handler drops silently behind both tests
	r.Floor("C11.1b-note-self-guard", 1)
	if nb := handlerOfKind["Note"]; nb != nil {
		nfn := boundTarget(c, nb)
		if nfn == nil {
			r.Fail("C11.1b-note-self-guard", "note handler", "-", "cannot resolve the bound method")
		} else {
			r.Func(fk(nfn))
			// every effect in the handler (channel send, store call) must be behind both guards
			bad := ""
			core.AllInstrs(nfn, func(in ssa.Instruction) {
				isEff := false
				switch x := in.(type) {
				case *ssa.Send:
					isEff = true
				case *ssa.Select:
					for _, st := range x.States {
						if st.Dir == types.SendOnly {
							isEff = true
						}
					}
				}
				if !isEff {
					return
				}
				ok1, _ := core.GuardedBy(nfn, in, guards["ver"])
				ok2, _ := core.GuardedBy(nfn, in, guards["user"])
				if !ok1 || !ok2 {
					bad = c.pos(in)
				}
			})
			r.Check(bad == "", "C11.1b-note-self-guard", fk(nfn)+": hand-offs behind ver!=0 and AsUser!=\"\"", c.P.Pos(nfn.Pos()),
				"every hand-off of a {note} is behind both session-state tests", "a {note} is handed on without the version/user tests at "+bad)
			fe := core.FailEdges(nfn, guards["ver"], guards["user"])
			if b := c.effectFreeFrom(nfn, fe, nil); b != nil {
				r.Fail("C11.1b-note-self-guard", fk(nfn)+": drop edge is silent", c.pos(b), "effect on the drop path: "+b.String())
			} else {
				r.OK("C11.1b-note-self-guard", fk(nfn)+": drop edge is silent", c.P.Pos(nfn.Pos()), "nothing but return after a failed state test")
			}
		}
	}

	c.checkC11Writers(handlerOfKind)
	c.checkC11Login(handlerOfKind)
	c.checkSenderHeader()
	c.checkLongPollSerialised()
	c.checkFeaturesAccumulate()
	c.checkCredentialValidatedOnlyOnSuccess()
	// a session is authenticated by a token only when the token passes the gates (signature, serial,
	// expiry compared as a time): shared with C12
	c.checkTokenAuth()
	c.checkValidatedOnlyWhenNothingMissing()
}

func keys(m map[string]bool) []string {
	out := []string{}
	for k := range m {
		out = append(out, k)
	}
	sort.Strings(out)
	return out
}

// boundTarget resolves `(*T).m$bound` to the method's function.
func boundTarget(c *Ctx, b *ssa.Function) *ssa.Function {
	if !strings.HasSuffix(b.Name(), "$bound") {
		return b
	}
	if o, ok := b.Object().(*types.Func); ok {
		return c.P.SSA.FuncValue(o)
	}
	return nil
}

// caseKind: pred is a switch-case body block whose single predecessor ends in
// `if msg.<Kind> != nil`; returns Kind.
func caseKind(pred *ssa.BasicBlock, ccmT *types.Named) string {
	b := pred
	for hops := 0; hops < 3 && b != nil; hops++ {
		if len(b.Preds) != 1 {
			return ""
		}
		p := b.Preds[0]
		if ifi, ok := p.Instrs[len(p.Instrs)-1].(*ssa.If); ok {
			a := core.NormCond(ifi.Cond)
			if a.Op.String() == "==" {
				var other ssa.Value
				if core.IsNil(a.X) {
					other = a.Y
				} else if core.IsNil(a.Y) {
					other = a.X
				}
				if other != nil {
					if f, base := core.LoadedField(other); f != nil {
						if pt, ok := base.Type().(*types.Pointer); ok && types.Identical(pt.Elem(), ccmT) {
							// b must be on the non-nil edge
							nonNilIdx := 1
							if a.Negated {
								nonNilIdx = 0
							}
							if p.Succs[nonNilIdx] == b {
								return f.Name()
							}
						}
					}
				}
			}
			return ""
		}
		b = p
	}
	return ""
}

func (c *Ctx) checkOboStores(fn *ssa.Function, asUser, authLvlF, sessUid, sessLvl *types.Var, levelRoot *types.Const) {
	r := c.R
	r.Floor("C11.2-obo-root-only", 2)
	gRoot := core.EqGuard("Session.authLvl==LevelRoot", core.IsFieldLoad(sessLvl), core.IsConstOf(levelRoot), true)
	for _, root := range core.WithClosures(fn) {
		root := root
		c.withCallees(root, 2, func(f *ssa.Function, in ssa.Instruction, outer ssa.Instruction) {
			st, ok := in.(*ssa.Store)
			if !ok {
				return
			}
			fld, _ := core.FieldOfAddr(st.Addr)
			if fld != asUser && fld != authLvlF {
				return
			}
			uidUserId := c.method("server/store/types", "Uid", "UserId")
			own := core.Derives(st.Val, core.Or(core.IsFieldLoad(sessLvl), core.IsCallTo(uidUserId, core.IsFieldLoad(sessUid))), true)
			construct := fmt.Sprintf("%s: store ClientComMessage.%s", fk(f), fld.Name())
			if own {
				r.OK("C11.2-obo-root-only", construct+" [own identity]", c.pos(st), "value is the session's own uid / level")
				return
			}
			// the identity is resolved by a helper that returns it in a small struct: per return of the
			// helper the value is the session's own, or that return is behind the root test
			if call, ri, path, isComp := core.ResultComponent(core.Strip(st.Val)); isComp && len(path) == 1 {
				callee := call.Call.StaticCallee()
				allOK := true
				isOwn := core.Or(core.IsFieldLoad(sessLvl), core.IsCallTo(uidUserId, core.IsFieldLoad(sessUid)))
				decided := core.EachReturnedFieldValue(callee, ri, path[0], func(ret *ssa.Return, vals []ssa.Value, zero bool) {
					foreign := false
					for _, v := range vals {
						if !core.Derives(v, isOwn, true) {
							foreign = true
						}
					}
					if !foreign {
						return
					}
					core.NoLift = true
					g, cnt := core.GuardedBy(callee, ret, gRoot)
					core.NoLift = false
					if !g || cnt[0] == 0 {
						allOK = false
					}
				})
				if decided && allOK {
					r.OK("C11.2-obo-root-only", construct+" [own identity, or a foreign one resolved behind authLvl==LevelRoot]", c.pos(st), "decided per return of "+callee.Name())
					return
				}
			}
			ok2, cnt := core.GuardedBy(f, st, gRoot)
			if !(ok2 && cnt[0] > 0) && f != root {
				// the store sits in an extracted helper: the call in the dispatcher is behind the guard
				ok2, cnt = core.GuardedBy(root, outer, gRoot)
			}
			r.Check(ok2 && cnt[0] > 0, "C11.2-obo-root-only", construct+" [foreign identity]", c.pos(st),
				"store of a client-supplied identity is reachable only through authLvl==LevelRoot", "a non-root session can set the acting user / level of a request")
		})
	}
}

func (c *Ctx) checkC11Writers(handlerOfKind map[string]*ssa.Function) {
	r := c.R
	sessVer := c.E().sessionField("ver")
	sessUid := c.E().sessionField("uid")
	sessLvl := c.E().sessionField("authLvl")
	var hello *ssa.Function
	if h := handlerOfKind["Hi"]; h != nil {
		hello = boundTarget(c, h)
	}
	r.Floor("C11.3-session-state-writers", 4)
	for _, a := range c.censusField(sessVer) {
		if a.Kind != "store" {
			continue
		}
		st := a.Instr.(*ssa.Store)
		construct := fk(a.Fn) + ": store Session.ver"
		if rootsInAlloc(st.Addr) {
			r.OK("C11.3-session-state-writers", construct+" [fresh session]", c.pos(st), "initialisation of a session object created in this function")
			continue
		}
		if a.Fn != hello {
			r.Fail("C11.3-session-state-writers", construct, c.pos(st), "protocol version written outside the handshake handler")
			continue
		}
		if core.IsConstInt(0)(st.Val) {
			r.OK("C11.3-session-state-writers", construct+" [reset to 0]", c.pos(st), "reset on unsupported version")
			continue
		}
		g := core.EqGuard("Session.ver==0", core.IsFieldLoad(sessVer), core.IsConstInt(0), true)
		ok, cnt := core.GuardedBy(a.Fn, st, g)
		r.Check(ok && cnt[0] > 0, "C11.3-session-state-writers", construct+" [set]", c.pos(st), "version is set only while it is still 0", "protocol version can be changed after the handshake")
		// a refused handshake must not leave the version set: every path from the set to a return
		// passes the compatibility-accepted edge, the parse-failed edge (ver==0), or a reset to 0.
		vcmp := c.fn("server", "versionCompare")
		gAccept := core.LessGuard("versionCompare(ver,min)>=0", core.IsCallTo(vcmp, core.IsFieldLoad(sessVer)), core.IsConstInt(0), false)
		cut, cnts := core.PassEdges(a.Fn, gAccept, g)
		isReset := func(in ssa.Instruction) bool {
			s2, ok := in.(*ssa.Store)
			if !ok {
				return false
			}
			f2, _ := core.FieldOfAddr(s2.Addr)
			return f2 == sessVer && core.IsConstInt(0)(s2.Val)
		}
		found, _ := core.PathAvoiding(a.Fn, st, core.IsReturn, isReset, cut)
		if found || cnts[0] == 0 {
			// the other order: the offered version is checked in a local first and stored only once
			// it was accepted (the store is behind versionCompare(<stored value>, min) >= 0)
			isStored := func(v ssa.Value) bool { return core.Strip(v) == core.Strip(st.Val) }
			gAcceptLocal := core.LessGuard("versionCompare(v,min)>=0", core.IsCallTo(vcmp, isStored), core.IsConstInt(0), false)
			if okL, cntL := core.GuardedBy(a.Fn, st, gAcceptLocal); okL && cntL[0] > 0 {
				found = false
				cnts[0] = 1
			}
		}
		r.Check(!found && cnts[0] > 0, "C11.3c-refused-handshake-leaves-no-version", construct+" [set]", c.pos(st),
			"every exit after setting the version passes the minimum-version acceptance, the parse-failure edge, or resets it to 0",
			"a handshake that is refused (unsupported version) leaves Session.ver non-zero: later requests pass the version guard")
	}
	noLogin := c.konst("server/auth", "FeatureNoLogin")
	for _, fld := range []*types.Var{sessUid, sessLvl} {
		for _, a := range c.censusField(fld) {
			if a.Kind != "store" {
				continue
			}
			st := a.Instr.(*ssa.Store)
			construct := fk(a.Fn) + ": store Session." + fld.Name()
			if rootsInAlloc(st.Addr) {
				r.OK("C11.3-session-state-writers", construct+" [fresh session]", c.pos(st), "field of a session object allocated in this function (proxy/multiplex session)")
				continue
			}
			if isZeroValue(st.Val) {
				r.OK("C11.3-session-state-writers", construct+" [reset to zero]", c.pos(st), "de-authentication")
				continue
			}
			// must be behind features&FeatureNoLogin == 0 and len(missing)==0
			gNoLogin := core.EqGuard("features&FeatureNoLogin==0",
				core.IsBinOp(andTok, core.Any, core.IsConstOf(noLogin), true), core.IsConstInt(0), true)
			ok1, c1 := core.GuardedBy(a.Fn, st, gNoLogin)
			gMissing := core.Guard{Name: "len(missing)==0", Match: func(at core.CondAtom) (bool, bool) {
				// len(x) > 0  == 0 < len(x): passes when false
				if at.Op.String() == "<" && core.IsConstInt(0)(at.X) && isLenCall(at.Y) {
					return true, false
				}
				if at.Op.String() == "==" && ((isLenCall(at.X) && core.IsConstInt(0)(at.Y)) || (isLenCall(at.Y) && core.IsConstInt(0)(at.X))) {
					return true, true
				}
				return false, false
			}}
			ok2, c2 := core.GuardedBy(a.Fn, st, gMissing)
			r.Check(ok1 && c1[0] > 0 && ok2 && c2[0] > 0, "C11.3-session-state-writers", construct+" [authenticate]", c.pos(st),
				"session identity set only behind FeatureNoLogin==0 and no missing credentials", fmt.Sprintf("session identity can be set from a restricted token or with unvalidated credentials (nologin-guard=%v missing-guard=%v)", ok1 && c1[0] > 0, ok2 && c2[0] > 0))
			// the value comes from the auth record parameter
			_, isParamRooted := rootParam(st.Val)
			r.Check(isParamRooted, "C11.3b-identity-from-auth-record", construct, c.pos(st), "value is a field of the *auth.Rec parameter", "session identity does not come from the authenticator's record")
		}
	}
}

var andTok = tokenAND()

func isZeroValue(v ssa.Value) bool {
	v = core.Strip(v)
	if k, ok := v.(*ssa.Const); ok {
		if k.Value == nil {
			return true
		}
		if n, ok := core.ConstIntValue(k); ok && n == 0 {
			return true
		}
	}
	// load of a package-level zero constant like types.ZeroUid (a var? a const) handled by Const
	return false
}

func isLenCall(v ssa.Value) bool {
	call, ok := v.(*ssa.Call)
	if !ok {
		return false
	}
	b, ok := call.Call.Value.(*ssa.Builtin)
	return ok && b.Name() == "len"
}

// rootParam: value is a field load chain rooted at a parameter.
func rootParam(v ssa.Value) (*ssa.Parameter, bool) {
	for i := 0; i < 8; i++ {
		v = core.Strip(v)
		switch x := v.(type) {
		case *ssa.Parameter:
			return x, true
		case *ssa.UnOp:
			v = x.X
		case *ssa.FieldAddr:
			v = x.X
		case *ssa.Field:
			v = x.X
		default:
			return nil, false
		}
	}
	return nil, false
}

func (c *Ctx) checkC11Login(handlerOfKind map[string]*ssa.Function) {
	r := c.R
	lb := handlerOfKind["Login"]
	if lb == nil {
		return
	}
	login := boundTarget(c, lb)
	if login == nil {
		return
	}
	r.Func(fk(login))
	sessUid := c.E().sessionField("uid")
	authn := c.method("server/auth", "AuthHandler", "Authenticate")
	isZero := c.method("server/store/types", "Uid", "IsZero")
	stateF := c.field("server/auth", "Rec", "State")
	stateOK := c.konst("server/store/types", "StateOK")
	// the post-login function: the callee (in module) that stores Session.uid non-zero
	var post []ssa.CallInstruction
	core.AllInstrs(login, func(in ssa.Instruction) {
		ci, ok := in.(ssa.CallInstruction)
		if !ok {
			return
		}
		cal := ci.Common().StaticCallee()
		if cal == nil || cal.Blocks == nil {
			return
		}
		for _, st := range core.StoresToField(cal, sessUid) {
			if !isZeroValue(st.Val) {
				post = append(post, ci)
				break
			}
		}
	})
	r.Floor("C11.4-login-gates", 4)
	if len(post) == 0 {
		r.Fail("C11.4-login-gates", fk(login)+": call of post-login function", "-", "login handler no longer calls the function that authenticates the session: undecided")
		return
	}
	auths := core.CallsTo(login, authn)
	for _, p := range post {
		base := fk(login) + ": post-login call"
		g1 := core.BoolGuard("Session.uid.IsZero()", core.IsCallTo(isZero, core.IsFieldLoad(sessUid)), true)
		ok, cnt := core.GuardedBy(login, p, g1)
		r.Check(ok && cnt[0] > 0, "C11.4-login-gates", base+" / not yet authenticated", c.pos(p), "behind Session.uid.IsZero()", "an authenticated session can log in again")
		var ga []core.Guard
		for _, a := range auths {
			ga = append(ga, successGuard(a))
		}
		ok, _ = core.GuardedBy(login, p, ga...)
		r.Check(len(auths) > 0 && ok, "C11.4-login-gates", base+" / Authenticate err==nil", c.pos(p), "behind err==nil of AuthHandler.Authenticate", "post-login reachable after a failed Authenticate")
		// challenge == nil
		var gc []core.Guard
		for _, a := range auths {
			gc = append(gc, core.NilGuard("challenge==nil", errResultOf(a, 1), true))
		}
		ok, _ = core.GuardedBy(login, p, gc...)
		r.Check(len(auths) > 0 && ok, "C11.4-login-gates", base+" / challenge==nil", c.pos(p), "behind challenge==nil", "post-login reachable while a multi-stage challenge is pending")
		// account state: every nil-feasible path to the post-login call passes the State==StateOK edge
		gState := core.EqGuard("rec.State==StateOK", core.IsFieldLoad(stateF), core.IsConstOf(stateOK), true)
		ok, cnt = core.GuardedByNil(login, p, gState)
		r.Check(ok && cnt[0] > 0, "C11.4-login-gates", base+" / account state OK", c.pos(p),
			"every feasible path to post-login passes rec.State==StateOK", "post-login reachable for a suspended/deleted account (some path does not compare the account state with StateOK)")
		// every error-returning call whose other results feed the post-login call has succeeded
		core.AllInstrs(login, func(in ssa.Instruction) {
			call, ok := in.(*ssa.Call)
			if !ok || ssa.Instruction(call) == p.(ssa.Instruction) || errIndex(call.Call.Signature()) < 0 || call.Call.Signature().Results().Len() < 2 {
				return
			}
			if core.CalleeOf(&call.Call) == authn {
				return
			}
			feeds := false
			for _, a := range p.Common().Args {
				if derivesAny(a, func(v ssa.Value) bool {
					ex, ok := v.(*ssa.Extract)
					return ok && ex.Tuple == ssa.Value(call)
				}) {
					feeds = true
				}
			}
			if !feeds {
				return
			}
			// on the paths that executed the call: the post-login call is reachable only through its success edge
			cutS, _ := core.PassEdges(login, successGuard(call))
			reached := false
			wr := core.NilWalkAfter(login, call, cutS, nil, func(x ssa.Instruction, _ core.NilFacts) {
				if x == p.(ssa.Instruction) {
					reached = true
				}
			})
			okc := !reached && !wr.Overflow
			r.Check(okc, "C11.4b-inputs-of-login-checked", fmt.Sprintf("%s: %s succeeded before its result is used to log in", fk(login), describeCall(call)), c.pos(call), "",
				"the session is authenticated although a lookup that decides what is still to be validated failed (its error is not the one that is tested)")
		})
	}
	// every other call site of the post-login function is behind Session.uid.IsZero() as well
	seenPost := map[*ssa.Function]bool{}
	for _, p := range post {
		pf := p.Common().StaticCallee()
		if pf == nil || seenPost[pf] {
			continue
		}
		seenPost[pf] = true
		for _, cs := range c.callersOf(pf) {
			if cs.Caller == login {
				continue
			}
			r.Func(fk(cs.Caller))
			g1 := core.BoolGuard("Session.uid.IsZero()", core.IsCallTo(isZero, core.IsFieldLoad(sessUid)), true)
			ok, cnt := core.GuardedByCorr(cs.Caller, cs.Site.(ssa.Instruction), g1)
			r.Check(ok && cnt[0] > 0, "C11.4c-login-once", fk(cs.Caller)+": post-login call only for a session that is not authenticated yet", c.pos(cs.Site), "",
				"an authenticated session can log in again (as another user) through this path while staying attached to the previous user's topics")
		}
	}
}

// checkSenderHeader: in every function that (a) hands a {pub} to a topic or (b) calls
// Messages.Save with a head map, all paths to that point either assign head["sender"] or delete
// it (or head is nil).
func (c *Ctx) checkSenderHeader() {
	r := c.R
	save := c.E().storeIface("MessagesPersistenceInterface", "Save")
	bcast := c.field("server", "Subscription", "broadcast")
	headPub := c.field("server", "MsgClientPub", "Head")
	r.Floor("C11.5-sender-header", 2)
	type target struct {
		fn *ssa.Function
		in ssa.Instruction
		nm string
	}
	var targets []target
	for _, fn := range c.P.ModFuncs {
		if !core.InPkg(fn, "server") {
			continue
		}
		for _, s := range core.CallsTo(fn, save) {
			targets = append(targets, target{fn, s.(ssa.Instruction), "store.Messages.Save"})
		}
		if fn.Signature.Recv() != nil && isPtrToNamed(fn.Signature.Recv().Type(), "Session") && c.readsFieldDeep(fn, headPub) {
			for _, s := range chanSends(fn, core.IsFieldLoad(bcast)) {
				targets = append(targets, target{fn, s.Instr, "send on Subscription.broadcast"})
			}
		}
	}
	sessUid := c.E().sessionField("uid")
	uidUserId := c.method("server/store/types", "Uid", "UserId")
	for _, t := range targets {
		r.Func(fk(t.fn))
		isSenderWrite := func(in ssa.Instruction) bool {
			switch x := in.(type) {
			case *ssa.MapUpdate:
				if core.IsConstString("sender")(x.Key) {
					// value must be the session's own uid
					// the session's own uid; an empty constant may be merged in on the branch that does
					// not write the header (`sender := ""; if onBehalf { sender = uid }`)
					isOwn := core.IsCallTo(uidUserId, core.IsFieldLoad(sessUid))
					return core.Derives(x.Value, isOwn, false) && core.Derives(x.Value, func(v ssa.Value) bool {
						return isOwn(v) || core.IsConstString("")(v)
					}, true)
				}
			case *ssa.Call:
				if b, ok := x.Call.Value.(*ssa.Builtin); ok && b.Name() == "delete" && len(x.Call.Args) == 2 && core.IsConstString("sender")(x.Call.Args[1]) {
					return true
				}
			}
			return false
		}
		// nil-map edges: `head == nil`-true edge that is NOT followed by creating the map is fine (no header at all):
		// cut the edges on which the head map is known nil and stays nil: handled by treating the
		// comparison `head != nil` false edge as satisfied when no MapUpdate follows... we model it
		// by cutting nil edges of map-typed nil tests.
		// the function the target belongs to may be one phase of a split function: search from the
		// entry of the function the phases belong to, entering the phases
		root := c.phaseRoot(t.fn)
		cut := map[core.Edge]bool{}
		for f := range c.regionOf(root) {
			for e := range nilMapEdges(f) {
				cut[e] = true
			}
		}
		found, _ := core.PathAvoidingX(root, nil, func(in ssa.Instruction) bool { return in == t.in }, core.Deep(isSenderWrite, 2, nilMapEdges), cut)
		r.Check(!found, "C11.5-sender-header", fk(t.fn)+": head[\"sender\"] fixed before "+t.nm, c.pos(t.in),
			"every path with a non-nil head assigns sender from the session uid or deletes it", "a client-supplied \"sender\" header can survive to "+t.nm)
	}
}

// nilMapEdges: the edges on which a map-typed value is known nil and no map is created next (no
// header at all on that path).
func nilMapEdges(fn *ssa.Function) map[core.Edge]bool {
	cut := map[core.Edge]bool{}
	for _, b := range fn.Blocks {
		ifi, ok := b.Instrs[len(b.Instrs)-1].(*ssa.If)
		if !ok {
			continue
		}
		a := core.NormCond(ifi.Cond)
		if a.Op.String() != "==" {
			continue
		}
		var other ssa.Value
		if core.IsNil(a.X) {
			other = a.Y
		} else if core.IsNil(a.Y) {
			other = a.X
		}
		if other == nil {
			continue
		}
		if _, isMap := other.Type().Underlying().(*types.Map); !isMap {
			continue
		}
		// edge where map == nil
		nilIdx := 0
		if a.Negated {
			nilIdx = 1
		}
		// only cut if that edge's target does not create/assign the map before target: approximate
		// by checking the successor block contains no MakeMap
		hasMake := false
		for _, in := range b.Succs[nilIdx].Instrs {
			if _, ok := in.(*ssa.MakeMap); ok {
				hasMake = true
			}
		}
		if !hasMake {
			cut[core.Edge{From: b, Idx: nilIdx}] = true
		}
	}
	return cut
}

// sessionStateGuards: the two per-request session-state tests of the dispatcher.
func (c *Ctx) sessionStateGuards() map[string]core.Guard {
	sessVer := c.E().sessionField("ver")
	asUser := c.field("server", "ClientComMessage", "AsUser")
	return map[string]core.Guard{
		"ver":  core.EqGuard("Session.ver!=0", core.IsFieldLoad(sessVer), core.IsConstInt(0), false),
		"user": core.EqGuard("AsUser!=\"\"", core.IsFieldLoad(asUser), core.IsConstString(""), false),
	}
}
