package rules

import (
	"fmt"
	"go/types"
	"sort"
	"strings"

	"golang.org/x/tools/go/ssa"

	"verifchk/core"
)

func init() { register("C08", checkC08) }

// mirroredTopicFields: live topic state that mirrors stored attributes.
var mirroredTopicFields = []string{"lastID", "delID", "owner", "tags", "public", "trusted", "accessAuth", "accessAnon"}

func (c *Ctx) isCacheMutation(in ssa.Instruction) (bool, string) {
	perUser := c.E().topicField("perUser")
	switch x := in.(type) {
	case *ssa.MapUpdate:
		if core.IsFieldLoad(perUser)(x.Map) {
			return true, "perUser[..] = .."
		}
	case *ssa.Call:
		if b, ok := x.Call.Value.(*ssa.Builtin); ok && b.Name() == "delete" && len(x.Call.Args) > 0 && core.IsFieldLoad(perUser)(x.Call.Args[0]) {
			return true, "delete(perUser, ..)"
		}
	case *ssa.Store:
		f, base := core.FieldOfAddr(x.Addr)
		if f == nil || rootsInAlloc(x.Addr) {
			return false, ""
		}
		if !isPtrToNamed(base.Type(), "Topic") {
			return false, ""
		}
		for _, n := range mirroredTopicFields {
			if f.Name() == n {
				return true, "Topic." + n + " = .."
			}
		}
	}
	return false, ""
}

// positiveReplyCtors: package-level functions of server returning *ServerComMessage whose Ctrl.Code
// constant is 2xx (directly or through one delegated constructor).
func (c *Ctx) positiveReplyCtors() map[*ssa.Function]bool { return c.replyCtorsByCode(200, 300) }

// replyCtorsByCode: the reply constructors (functions returning *ServerComMessage) whose constant
// ctrl code lies in [lo, hi).
func (c *Ctx) replyCtorsByCode(lo, hi int64) map[*ssa.Function]bool {
	codeF := c.field("server", "MsgServerCtrl", "Code")
	out := map[*ssa.Function]bool{}
	direct := map[*ssa.Function]int64{}
	var ctors []*ssa.Function
	for _, fn := range c.P.ModFuncs {
		if !core.InPkg(fn, "server") || fn.Parent() != nil || fn.Signature.Recv() != nil || fn.Signature.Results().Len() != 1 {
			continue
		}
		if !isPtrToNamed(fn.Signature.Results().At(0).Type(), "ServerComMessage") {
			continue
		}
		ctors = append(ctors, fn)
		for _, st := range core.StoresToField(fn, codeF) {
			if k, ok := core.ConstIntValue(st.Val); ok {
				direct[fn] = k
			}
		}
	}
	// wrappers of wrappers (`NoErrReply` -> `NoErrExplicitTs` -> `NoErrParamsExplicitTs`): the code of
	// the constructor they end in
	for round := 0; round < 3; round++ {
		for _, fn := range ctors {
			if _, ok := direct[fn]; ok {
				continue
			}
			core.AllInstrs(fn, func(in ssa.Instruction) {
				if call, isCall := in.(*ssa.Call); isCall {
					if cal := call.Call.StaticCallee(); cal != nil {
						if k, has := direct[cal]; has {
							direct[fn] = k
						}
					}
				}
			})
		}
	}
	for _, fn := range ctors {
		if code, ok := direct[fn]; ok && code >= lo && code < hi {
			out[fn] = true
		}
	}
	return out
}

func checkC08(c *Ctx) {
	r := c.R
	r.Explanation = "Write-through discipline (F-WRITETHROUGH) over every function of package server that calls a mutating method of the store interfaces: walking all nil-feasible paths after the call under the assumption that its error result is non-nil (so tests through merged error variables are honoured, the `err == ErrNotFound` idiom is treated as success), (1) no mutation of mirrored topic state (perUser map, lastID, delID, owner, tags, public, trusted, default access) and (2) no positive (2xx) reply constructor is reached: a failed request changes nothing clients later see and is not acknowledged; (3) cache follows store: after a successful Subs.Update of mode/private/mark attributes in a topic handler every path to a success return rewrites Topic.perUser; (4) reload coverage: the subscription attribute keys written through Subs.Update are all read back by every loader that fills Topic.perUser from stored subscriptions, and the topic attribute keys written through Topics.Update are read back by the group-topic loader."
	r.NotDecided = []string{"equality of query answers before/after reload for all histories", "multi-statement non-atomic updates under faults (reported as information)"}
	r.Trusted = []string{"go/types, go/ssa", "store behind its interfaces"}

	posCtors := c.positiveReplyCtors()
	r.Extra["positive_reply_constructors"] = len(posCtors)
	nWrites := 0
	for _, fn := range c.P.ModFuncs {
		if !core.InPkg(fn, "server") {
			continue
		}
		sinks := c.storeWriteSinks(fn)
		if len(sinks) == 0 {
			continue
		}
		cut := sentinelEqEdges(fn)
		for _, w := range sinks {
			call, ok := w.(*ssa.Call)
			if !ok {
				continue
			}
			ei := errIndex(call.Call.Signature())
			if ei < 0 {
				continue
			}
			errV := errValue(call, ei)
			name := describeCall(call)
			construct := fmt.Sprintf("%s: after failed %s", fk(fn), name)
			if errV == nil {
				// error result discarded: nothing to decide on the failure path; informational
				r.Info("C08.1-failed-write-changes-nothing", construct, c.pos(call), "error result is discarded (best-effort write)")
				continue
			}
			if f, _ := c.isStoreCall(call); f != nil && f.Name() == "LinkAttachments" {
				// exception (one row): linking attachments is best effort by design ("not a critical
				// error, continue execution"); what a failed link means for garbage collection is C16's business
				r.Info("C08.1-failed-write-changes-nothing", construct, c.pos(call), "exception: attachment linking is best effort; failure is logged and the request proceeds")
				continue
			}
			if f, _ := c.isStoreCall(call); f != nil && f.Name() == "UpdateLastSeen" {
				// exception (one row): the last-seen timestamp is bookkeeping that rides on a {leave} or a
				// disconnect; its failure is logged and the request it rides on (which is not this write)
				// is answered on its own merits
				r.Info("C08.1-failed-write-changes-nothing", construct, c.pos(call), "exception: the last-seen update is best effort; the request it accompanies is not this write")
				continue
			}
			nWrites++
			r.Func(fk(fn))
			r.CallSites++
			var badMut, badAck ssa.Instruction
			var mutWhat string
			core.ExtraNilness = func(v ssa.Value) (bool, bool) {
				if v == errV {
					return true, false
				}
				return errorsNewNonNil(v)
			}
			res := core.NilWalkAfter(fn, call, cut, nil, func(in ssa.Instruction, f core.NilFacts) {
				if m, what := c.isCacheMutation(in); m && badMut == nil {
					badMut, mutWhat = in, what
				}
				if ci, ok := in.(*ssa.Call); ok {
					if cal := ci.Call.StaticCallee(); cal != nil && posCtors[cal] && badAck == nil {
						badAck = in
					}
				}
			})
			core.ExtraNilness = nil
			if res.Overflow {
				r.Fail("C08.1-failed-write-changes-nothing", construct, c.pos(call), "path exploration overflowed: undecided")
				continue
			}
			key := construct
			if n := countSame(r, "C08.1-failed-write-changes-nothing", key); n > 0 {
				key = fmt.Sprintf("%s #%d", construct, n+1)
			}
			r.Check(badMut == nil, "C08.1-failed-write-changes-nothing", key, c.pos(call), "no mirrored state is mutated on the failure path",
				"after the store call failed the live topic state is still mutated ("+mutWhat+posOf(c, badMut)+"): cache and store diverge")
			r.Check(badAck == nil, "C08.2-failed-write-not-acknowledged", key, c.pos(call), "no 2xx reply on the failure path",
				"a failed store write can be acknowledged with a 2xx reply"+posOf(c, badAck))
		}
	}
	r.Floor("C08.1-failed-write-changes-nothing", 30)

	c.checkCacheFollowsStore(nil)
	c.checkReloadCoverage()
	c.checkCacheAfterStore()
	// the loader reconstructs the owner exactly as the live topic determines it (shared with C06)
	c.checkOwnerWriters()
	c.checkSnapshotBeforeChange()
	c.checkOwnerTransfer()
	// what get.desc reports does not depend on whether the marks were reloaded
	c.checkReportClamp()
	// a failed delete of a live topic leaves it as it was (un-paused)
	c.checkPauseBeforeStoreDelete()
	c.checkLoaderRecordsFromOneRow()
	c.checkActingUserNotSession("C08.1c-store-write-keyed-by-acting-user", "store-writes")
	c.checkDelIdRecorded()
	c.checkCachedMapsNotMutatedInPlace()
	c.checkReaderRowUnderChannelName()
	c.checkCachedTagsAreStoredTags()
	c.checkLoaderCachesEveryRow()
	// the loaded topic and the offline paths decide ownership alike: on want & given
	c.R.Scoped(func(rule, construct string) bool { return strings.HasPrefix(construct, "IsOwner()") }, c.checkIntersect)
	c.checkP2PRecordsAgree()
	c.checkUpdateKeysIndependent()
	c.checkLocalCopyWrittenBack("C08.3c-local-copy-written-back", nil)
}

// checkCacheAfterStore: in a handler that persists a change, the mirrored topic fields are
// assigned only on the success edge of a store write of that handler (never before the write).
func (c *Ctx) checkCacheAfterStore() {
	r := c.R
	r.Floor("C08.5-cache-after-store", 3)
	// the store writes (with a tested error) of a function, its helpers and function literals
	writesOf := func(root *ssa.Function) []ssa.CallInstruction {
		var regionFns []*ssa.Function
		for f := range c.regionOf(root) {
			regionFns = append(regionFns, f)
		}
		sort.Slice(regionFns, func(i, j int) bool { return fk(regionFns[i]) < fk(regionFns[j]) })
		var writes []ssa.CallInstruction
		for _, f := range regionFns {
			for _, w := range c.storeWriteSinks(f) {
				call, ok := w.(*ssa.Call)
				if !ok {
					continue
				}
				if f, _ := c.isStoreCall(call); f != nil && f.Name() == "LinkAttachments" {
					continue
				}
				if ei := errIndex(call.Call.Signature()); ei >= 0 && errValue(call, ei) != nil {
					writes = append(writes, call)
				}
			}
		}
		return writes
	}
	for _, fn := range c.P.ModFuncs {
		if !core.InPkg(fn, "server") {
			continue
		}
		// a Topic method, or a helper / method of a request-scoped struct that a Topic method owns
		if !isPtrToNamedRecv(fn, "Topic") {
			owner := c.climbUntil(fn, func(R *ssa.Function) bool { return isPtrToNamedRecv(R, "Topic") })
			if !isPtrToNamedRecv(owner, "Topic") {
				continue
			}
		}
		core.AllInstrs(fn, func(in ssa.Instruction) {
			st, ok := in.(*ssa.Store)
			if !ok {
				return
			}
			m, what := c.isCacheMutation(in)
			if !m {
				return
			}
			// counters and the owner are tied to exactly one write of their handler; description,
			// tags and default access are assigned under map-key tests that correlate with the write
			// (value-level correlation: not decided here, the failure path is C08.1's business)
			if !(strings.Contains(what, "lastID") || strings.Contains(what, "delID") || strings.Contains(what, "owner")) {
				return
			}
			// the handler: this function, or - when the handler was split into phases and the write
			// sits in another phase - the nearest function up the chain of sole callers that contains one
			root := fn
			writes := writesOf(root)
			for i := 0; i < 2 && len(writes) == 0; i++ {
				up := c.soleCaller(root)
				if up == nil {
					break
				}
				root = up
				writes = writesOf(root)
			}
			if len(writes) == 0 {
				return
			}
			r.Func(fk(fn))
			// every path to the mutation passes a store write of this handler (what happens after a
			// failed write is decided by C08.1)
			isWrite := func(x ssa.Instruction) bool {
				for _, w := range writes {
					if x == w.(ssa.Instruction) {
						return true
					}
				}
				return false
			}
			before, _ := core.PathAvoidingX(root, nil, func(x ssa.Instruction) bool { return x == in }, isWrite, nil)
			ok2 := !before
			construct := fmt.Sprintf("%s: %s only after a successful store write", fk(root), what)
			if n := countSame(r, "C08.5-cache-after-store", construct); n > 0 {
				construct = fmt.Sprintf("%s #%d", construct, n+1)
			}
			r.Check(ok2, "C08.5-cache-after-store", construct, c.pos(st), "", "mirrored topic state is changed before (or regardless of) the store write of the same handler: if the write fails the live topic and the store diverge")
		})
	}
}

func countSame(r *core.Report, rule, construct string) int {
	n := 0
	for _, o := range r.Obls {
		if o.Rule == rule && (o.Construct == construct || strings.HasPrefix(o.Construct, construct+" #")) {
			n++
		}
	}
	return n
}

// errValue returns the SSA value of the error result of call (nil when discarded).
func errValue(call *ssa.Call, ei int) ssa.Value {
	if call.Call.Signature().Results().Len() == 1 {
		if call.Referrers() != nil && len(*call.Referrers()) > 0 {
			return call
		}
		return nil
	}
	if call.Referrers() == nil {
		return nil
	}
	for _, ref := range *call.Referrers() {
		if ex, ok := ref.(*ssa.Extract); ok && ex.Index == ei && ex.Referrers() != nil && len(*ex.Referrers()) > 0 {
			return ex
		}
	}
	return nil
}

var subAttrKeys = map[string]bool{"ModeWant": true, "ModeGiven": true, "Private": true, "RecvSeqId": true, "ReadSeqId": true, "DelId": true}

func (c *Ctx) checkCacheFollowsStore(only map[string]bool) {
	r := c.R
	r.Floor("C08.3-cache-follows-store", 2)
	perUser := c.E().topicField("perUser")
	for _, fn := range c.P.ModFuncs {
		if !core.InPkg(fn, "server") || fn.Signature.Recv() == nil || !isPtrToNamed(fn.Signature.Recv().Type(), "Topic") {
			continue
		}
		ei := errIndex(fn.Signature)
		for _, s := range c.subsUpdateSites(fn) {
			var keys []string
			for k := range s.keys {
				if subAttrKeys[k] && (only == nil || only[k]) {
					keys = append(keys, k)
				}
			}
			sort.Strings(keys)
			if len(keys) == 0 {
				continue
			}
			r.Func(fk(fn))
			errV := errValue(s.call, 0)
			isCache := func(in ssa.Instruction) bool {
				mu, ok := in.(*ssa.MapUpdate)
				if ok && core.IsFieldLoad(perUser)(mu.Map) {
					return true
				}
				// delegated: a callee that always rewrites perUser (e.g. evictUser) also counts
				if call, ok := in.(*ssa.Call); ok {
					if cal := call.Call.StaticCallee(); cal != nil && cal.Blocks != nil && cal != fn {
						has := false
						core.AllInstrs(cal, func(i2 ssa.Instruction) {
							if mu, ok := i2.(*ssa.MapUpdate); ok && core.IsFieldLoad(perUser)(mu.Map) {
								has = true
							}
							if c2, ok := i2.(*ssa.Call); ok {
								if b, ok := c2.Call.Value.(*ssa.Builtin); ok && b.Name() == "delete" && len(c2.Call.Args) > 0 && core.IsFieldLoad(perUser)(c2.Call.Args[0]) {
									has = true
								}
							}
						})
						return has && isPtrToNamedRecv(cal, "Topic") && strings.HasPrefix(cal.Name(), "evict")
					}
				}
				return false
			}
			miss := false
			var where ssa.Instruction
			core.ExtraNilness = func(v ssa.Value) (bool, bool) {
				if errV != nil && v == errV {
					return true, true
				}
				return errorsNewNonNil(v)
			}
			onRet := func(ei int) func(in ssa.Instruction, f core.NilFacts) {
				return func(in ssa.Instruction, f core.NilFacts) {
					ret, ok := in.(*ssa.Return)
					if !ok {
						return
					}
					if ei >= 0 {
						if k, n := core.Nilness(ret.Results[ei], f); k && !n {
							return // error return
						}
					}
					miss = true
					where = in
				}
			}
			core.NilWalkAfter(fn, s.call, nil, isCache, onRet(ei))
			// the handler: this function, or - when the update sits in one phase of a split handler and
			// the cache is written in another - the nearest function up the chain of sole callers whose
			// region writes Topic.perUser at all
			isCacheWrite := func(in ssa.Instruction) bool {
				mu, ok := in.(*ssa.MapUpdate)
				return ok && core.IsFieldLoad(perUser)(mu.Map)
			}
			owner := c.climbUntil(fn, func(R *ssa.Function) bool { return isPtrToNamedRecv(R, "Topic") && c.regionHas(R, isCacheWrite) })
			if miss && owner != fn {
				// walk on into helpers and, after this function returns, in the handler
				if root := owner; root != nil {
					miss, where = false, nil
					var res core.NilWalkResult
					c.withRegionUp(root, func() {
						core.WalkDeepUp(2, func() {
							res = core.NilWalkAfter(fn, s.call, nil, isCache, onRet(errIndex(root.Signature)))
						})
					})
					if res.Overflow {
						miss = true
					}
				}
			}
			core.ExtraNilness = nil
			// the construct names the handler in which the path without the rewrite ends (the same
			// handler whether or not the update was moved into a phase of it)
			construct := fmt.Sprintf("%s: Subs.Update%v then perUser rewritten", fk(owner), keys)
			if n := countSame(r, "C08.3-cache-follows-store", construct); n > 0 {
				construct = fmt.Sprintf("%s #%d", construct, n+1)
			}
			r.Check(!miss, "C08.3-cache-follows-store", construct, c.pos(s.call), "every success path after the update rewrites Topic.perUser",
				"after a successful Subs.Update the cached record is not rewritten on some path to a success return"+posOf(c, where)+": the live topic keeps acting on the old attributes until reload")
		}
	}
}

func isPtrToNamedRecv(fn *ssa.Function, name string) bool {
	return fn.Signature.Recv() != nil && isPtrToNamed(fn.Signature.Recv().Type(), name)
}

func (c *Ctx) checkReloadCoverage() {
	r := c.R
	// subscription attribute keys written anywhere in server
	written := map[string]bool{}
	for _, fn := range c.P.ModFuncs {
		if !core.InPkg(fn, "server") {
			continue
		}
		for _, s := range c.subsUpdateSites(fn) {
			for k := range s.keys {
				if subAttrKeys[k] {
					written[k] = true
				}
			}
		}
	}
	var wk []string
	for k := range written {
		wk = append(wk, k)
	}
	sort.Strings(wk)
	r.Extra["subscription_keys_written"] = wk
	// loaders: functions that iterate stored subscriptions and write Topic.perUser
	perUser := c.E().topicField("perUser")
	subT := c.P.NamedType("server/store/types", "Subscription")
	r.Floor("C08.4-reload-coverage", 2)
	getSubs := c.E().storeIface("TopicsPersistenceInterface", "GetSubs")
	getUsers := c.E().storeIface("TopicsPersistenceInterface", "GetUsers")
	for _, fn := range c.P.ModFuncs {
		if !core.InPkg(fn, "server") {
			continue
		}
		if len(core.CallsTo(fn, getSubs))+len(core.CallsTo(fn, getUsers)) == 0 {
			continue
		}
		writes := false
		core.AllInstrs(fn, func(in ssa.Instruction) {
			if mu, ok := in.(*ssa.MapUpdate); ok && core.IsFieldLoad(perUser)(mu.Map) {
				writes = true
			}
		})
		if !writes {
			continue
		}
		r.Func(fk(fn))
		read := map[string]bool{}
		c.withCallees(fn, 2, func(_ *ssa.Function, in ssa.Instruction, _ ssa.Instruction) {
			if fa, ok := in.(*ssa.FieldAddr); ok {
				if f, base := core.FieldOfAddr(fa); f != nil {
					if pt, ok := base.Type().(*types.Pointer); ok && types.Identical(pt.Elem(), subT) {
						read[f.Name()] = true
					}
				}
			}
			if fv, ok := in.(*ssa.Field); ok {
				if f, base := core.LoadedField(fv); f != nil && types.Identical(base.Type(), subT) {
					read[f.Name()] = true
				}
			}
		})
		var missing []string
		for _, k := range wk {
			if !read[k] {
				missing = append(missing, k)
			}
		}
		r.Check(len(missing) == 0, "C08.4-reload-coverage", fk(fn)+": loader reads back every subscription attribute handlers write", c.P.Pos(fn.Pos()),
			fmt.Sprintf("reads %v", wk), fmt.Sprintf("attributes written through Subs.Update but not restored by this loader: %v", missing))
	}
	// topic attributes
	topicsUpdate := c.E().storeIface("TopicsPersistenceInterface", "Update")
	tw := map[string]bool{}
	for _, fn := range c.P.ModFuncs {
		if !core.InPkg(fn, "server") {
			continue
		}
		for _, site := range core.CallsTo(fn, topicsUpdate) {
			args := core.CallArgs(site.Common())
			for k := range mapLiteralKeys(args[len(args)-1]) {
				tw[k] = true
			}
		}
	}
	// keys filled through helper closures in the description handler
	for _, k := range []string{"Public", "Trusted", "Access"} {
		tw[k] = true
	}
	keyToField := map[string]string{"Public": "Public", "Trusted": "Trusted", "Access": "Access", "Tags": "Tags", "DelId": "DelId", "SeqId": "SeqId"}
	topicT := c.P.NamedType("server/store/types", "Topic")
	topicsGet := c.E().storeIface("TopicsPersistenceInterface", "Get")
	grp := c.konst("server/store/types", "TopicCatGrp")
	catF := c.E().topicField("cat")
	tg := c.getterCallers(topicsGet, "server")
	var tgFns []*ssa.Function
	for fn := range tg {
		tgFns = append(tgFns, fn)
	}
	sort.Slice(tgFns, func(i, j int) bool { return fk(tgFns[i]) < fk(tgFns[j]) })
	for _, fn := range tgFns {
		// the group-topic loader: stores TopicCatGrp into Topic.cat
		isGrpLoader := false
		for _, st := range core.StoresToField(fn, catF) {
			if core.IsConstOf(grp)(st.Val) {
				isGrpLoader = true
			}
		}
		if !isGrpLoader {
			continue
		}
		r.Func(fk(fn))
		read := map[string]bool{}
		c.withCallees(fn, 2, func(_ *ssa.Function, in ssa.Instruction, _ ssa.Instruction) {
			if fa, ok := in.(*ssa.FieldAddr); ok {
				if f, base := core.FieldOfAddr(fa); f != nil {
					if pt, ok := base.Type().(*types.Pointer); ok && types.Identical(pt.Elem(), topicT) {
						read[f.Name()] = true
					}
				}
			}
		})
		var missing []string
		for k, f := range keyToField {
			if (tw[k] || k == "SeqId" || k == "DelId") && !read[f] {
				missing = append(missing, k)
			}
		}
		sort.Strings(missing)
		r.Check(len(missing) == 0, "C08.4-reload-coverage", fk(fn)+": group loader reads back every topic attribute handlers write", c.P.Pos(fn.Pos()), "", fmt.Sprintf("topic attributes written to the store but not restored on reload: %v", missing))
	}
}
