package rules

// Rules written after the ninth (measured-only) round of seeded changes: four of its seven misses.

import (
	"fmt"
	"go/constant"
	"go/types"

	"verifchk/core"

	"golang.org/x/tools/go/ssa"
)

// loopAround: the innermost natural loop of fn that contains block b (header, body), or nil.
func loopAround(fn *ssa.Function, b *ssa.BasicBlock) (*ssa.BasicBlock, map[*ssa.BasicBlock]bool) {
	be := backEdges(fn)
	var header *ssa.BasicBlock
	for e := range be {
		h := e.From.Succs[e.Idx]
		if h.Dominates(b) && (header == nil || header.Dominates(h)) {
			// b must be inside the loop, not merely dominated by its header
			header = h
		}
	}
	if header == nil {
		return nil, nil
	}
	inLoop := map[*ssa.BasicBlock]bool{header: true}
	var mark func(x *ssa.BasicBlock)
	mark = func(x *ssa.BasicBlock) {
		if inLoop[x] || !header.Dominates(x) {
			return
		}
		inLoop[x] = true
		for _, p := range x.Preds {
			mark(p)
		}
	}
	for e := range be {
		if e.From.Succs[e.Idx] == header {
			mark(e.From)
		}
	}
	if !inLoop[b] {
		return nil, nil
	}
	return header, inLoop
}

// checkDeleteLoopVisitsEveryLocation (C16): a media handler's Delete that removes the files one by
// one (a loop around a removal call: os.Remove or a method/func named Remove*/Delete*) leaves that
// loop only at the end of the list - a file that cannot be removed does not keep the ones listed
// after it on the disk, where nothing refers to them any more (their records are already gone).
func (c *Ctx) checkDeleteLoopVisitsEveryLocation() {
	r := c.R
	const rule = "C16.6b-delete-loop-visits-every-location"
	r.Explanation += " The media handler that removes files one by one leaves its removal loop only at the end of the list (C16.6b)."
	del := c.method("server/media", "Handler", "Delete")
	if del == nil {
		return
	}
	impls, loops := 0, 0
	for _, fn := range c.P.ModFuncs {
		if fn.Parent() != nil || fn.Name() != "Delete" || fn.Signature.Recv() == nil || !(core.InPkg(fn, "server/media/fs") || core.InPkg(fn, "server/media/s3")) {
			continue
		}
		if !types.Identical(types.NewSignatureType(nil, nil, nil, fn.Signature.Params(), fn.Signature.Results(), false), del.Type().(*types.Signature)) {
			continue
		}
		impls++
		r.Func(fk(fn))
		var removals []*ssa.Call
		core.AllInstrs(fn, func(in ssa.Instruction) {
			if call, ok := in.(*ssa.Call); ok {
				if calleeFullName(call) == "os.Remove" || calleeFullName(call) == "os.RemoveAll" {
					removals = append(removals, call)
				}
			}
		})
		for _, call := range removals {
			header, inLoop := loopAround(fn, call.Block())
			if header == nil {
				continue
			}
			loops++
			var bad *ssa.BasicBlock
			for b := range inLoop {
				if b == header {
					continue
				}
				for _, s := range b.Succs {
					if !inLoop[s] && (bad == nil || b.Index < bad.Index) {
						bad = b
					}
				}
				if len(b.Succs) == 0 && (bad == nil || b.Index < bad.Index) {
					bad = b
				}
			}
			pos := c.pos(call)
			if bad != nil && len(bad.Instrs) > 0 {
				pos = c.pos(bad.Instrs[len(bad.Instrs)-1])
			}
			r.Check(bad == nil, rule, fk(fn)+": the removal loop ends only at the end of the list", pos, "",
				"the loop that removes the listed files can be left before the end of the list (a return or break inside it): after one file that cannot be removed the remaining files stay in the storage although their records have been deleted - nothing will ever collect them")
		}
	}
	r.Check(impls >= 1 && loops >= 1, rule, "media handlers that remove files one by one", "-", fmt.Sprintf("%d Delete implementations, %d removal loops", impls, loops), "anchor lost: no media handler Delete with a removal loop")
}

// checkLinkOwnerIsOneOfTopicOrUser (C16): the adapter decides what an upload is linked to from
// which of (topic, user id, message id) is set - a message first, then a topic, then a user. The
// store mapper therefore hands it a user id only together with an empty topic name: every pair
// (topic, userId) that reaches adp.FileLinkAttachments in fileMapper.LinkAttachments has a constant
// empty topic or a constant zero user.
func (c *Ctx) checkLinkOwnerIsOneOfTopicOrUser() {
	r := c.R
	const rule = "C16.5g-link-owner-is-topic-or-user"
	r.Explanation += " fileMapper.LinkAttachments hands the adapter a topic name or a user id, never both (C16.5g)."
	link := c.method("server/db", "Adapter", "FileLinkAttachments")
	fn := c.P.SSAFunc(c.method("server/store", "fileMapper", "LinkAttachments"))
	if link == nil || fn == nil {
		c.lost("fileMapper.LinkAttachments")
		return
	}
	r.Func(fk(fn))
	isEmpty := func(v ssa.Value) bool {
		k, ok := core.Strip(v).(*ssa.Const)
		if !ok {
			return false
		}
		if k.Value == nil {
			return true
		}
		s := k.Value.ExactString()
		return s == `""` || s == "0"
	}
	n := 0
	for _, ci := range core.CallsTo(fn, link) {
		args := core.CallArgs(ci.Common())
		if len(args) < 4 {
			continue
		}
		n++
		topic, uid := args[len(args)-4], args[len(args)-3]
		type pair struct{ t, u ssa.Value }
		var pairs []pair
		pt, okT := topic.(*ssa.Phi)
		pu, okU := uid.(*ssa.Phi)
		switch {
		case okT && okU && pt.Block() == pu.Block():
			for i := range pt.Edges {
				pairs = append(pairs, pair{pt.Edges[i], pu.Edges[i]})
			}
		case okT:
			for _, e := range pt.Edges {
				pairs = append(pairs, pair{e, uid})
			}
		case okU:
			for _, e := range pu.Edges {
				pairs = append(pairs, pair{topic, e})
			}
		default:
			pairs = append(pairs, pair{topic, uid})
		}
		ok := true
		for _, p := range pairs {
			if !isEmpty(p.t) && !isEmpty(p.u) {
				ok = false
			}
		}
		construct := fk(fn) + ": FileLinkAttachments gets a topic name or a user id, never both"
		if k := countSame(r, rule, construct); k > 0 {
			construct = fmt.Sprintf("%s #%d", construct, k+1)
		}
		r.Check(ok, rule, construct, c.pos(ci.(ssa.Instruction)), fmt.Sprintf("%d (topic, user) pairs", len(pairs)),
			"on some path both a topic name and a user id reach the adapter: it prefers the topic, so an account avatar is recorded as the attachment of a topic 'usrXXX' that does not exist, the user's link is never written (or never replaced), and the file is collected while the account shows it")
	}
	r.Check(n >= 1, rule, "adp.FileLinkAttachments calls in fileMapper.LinkAttachments", "-", fmt.Sprintf("%d", n), "none: anchor lost")
}

// checkPasswordVerbatim (C12): the password half of a basic secret reaches bcrypt as the client
// sent it: the second result of parseSecret is cut out of the parameter and passes through no
// re-spelling call (case folding, trimming, replacing) - otherwise 'Secret' and 'secret' are one
// password and the effective key space shrinks.
func (c *Ctx) checkPasswordVerbatim() {
	r := c.R
	const rule = "C12.4c-password-verbatim"
	r.Explanation += " The password result of parseSecret is cut out of the client text and passes through no re-spelling call (C12.4c)."
	ps := c.ssaFn("server/auth/basic", "parseSecret")
	if ps == nil {
		return
	}
	respell := map[string]bool{}
	for _, p := range []string{"strings", "bytes"} {
		for _, n := range []string{"ToLower", "ToUpper", "ToTitle", "Title", "TrimSpace", "Trim", "TrimLeft", "TrimRight", "TrimFunc", "Map", "Replace", "ReplaceAll", "ToValidUTF8", "ToLowerSpecial", "ToUpperSpecial", "Fields"} {
			respell[p+"."+n] = true
		}
	}
	var hit ssa.Instruction
	seen := map[ssa.Value]bool{}
	var walk func(v ssa.Value, d int)
	walk = func(v ssa.Value, d int) {
		if v == nil || d > 16 || seen[v] || hit != nil {
			return
		}
		seen[v] = true
		switch x := v.(type) {
		case *ssa.Slice:
			walk(x.X, d+1)
		case *ssa.Convert:
			walk(x.X, d+1)
		case *ssa.ChangeType:
			walk(x.X, d+1)
		case *ssa.Phi:
			for _, e := range x.Edges {
				walk(e, d+1)
			}
		case *ssa.BinOp:
			walk(x.X, d+1)
			walk(x.Y, d+1)
		case *ssa.Extract:
			walk(x.Tuple, d+1)
		case *ssa.Index:
			walk(x.X, d+1)
		case *ssa.UnOp:
			walk(x.X, d+1)
		case *ssa.IndexAddr:
			walk(x.X, d+1)
		case *ssa.Call:
			if respell[calleeFullName(x)] {
				hit = x
				return
			}
			// a splitting helper (strings.Cut, SplitN, a module helper): the text it was given
			for _, a := range x.Call.Args {
				if b, ok := a.Type().Underlying().(*types.Basic); ok && b.Info()&types.IsString != 0 {
					walk(a, d+1)
				} else if _, ok := a.Type().Underlying().(*types.Slice); ok {
					walk(a, d+1)
				}
			}
		}
	}
	n := 0
	core.AllInstrs(ps, func(in ssa.Instruction) {
		ret, ok := in.(*ssa.Return)
		if !ok || len(ret.Results) < 2 {
			return
		}
		n++
		walk(ret.Results[1], 0)
	})
	r.Func(fk(ps))
	r.Check(n >= 1 && hit == nil, rule, fk(ps)+": the password result is the client's text, not re-spelled", c.P.Pos(ps.Pos()), fmt.Sprintf("%d returns", n),
		"the password half of the secret passes through a case-folding / trimming call"+posOf(c, hit)+": passwords that differ only in case (or surrounding space) authenticate the same account, at creation, login and update alike")
}

// checkChannelSpellingChosenPerUser (C08.1g): at a write of the acting user's own subscription row
// whose name argument is computed, every GrpToChn that feeds the name is taken only where the
// request was addressed to the channel (the verifyChannelAccess flag) or the user's cached record
// says "channel reader" (perUserData.isChan) - not under a property of the topic.
func (c *Ctx) checkChannelSpellingChosenPerUser(fn *ssa.Function, sink *ssa.Call, op string, name ssa.Value, knows bool, flag core.VPred, pudChan *types.Var) {
	r := c.R
	const rule = "C08.1g-channel-spelling-chosen-per-user"
	toChn := c.fn("server/store/types", "GrpToChn")
	if toChn == nil {
		return
	}
	var calls []*ssa.Call
	seen := map[ssa.Value]bool{}
	var walk func(v ssa.Value, d int)
	walk = func(v ssa.Value, d int) {
		v = core.Strip(v)
		if v == nil || d > 4 || seen[v] {
			return
		}
		seen[v] = true
		switch x := v.(type) {
		case *ssa.Phi:
			for _, e := range x.Edges {
				walk(e, d+1)
			}
		case *ssa.Call:
			if core.CalleeOf(&x.Call) == toChn {
				calls = append(calls, x)
			}
		}
	}
	walk(name, 0)
	for _, gc := range calls {
		c.nSpelling++
		r.Func(fk(fn))
		saved := core.NoLift
		core.NoLift = true
		ok := false
		if knows {
			okG, cnt := core.GuardedBy(fn, gc, core.BoolGuard("asChan", flag, true))
			ok = okG && cnt[0] > 0
		}
		if !ok && pudChan != nil {
			okG, cnt := core.GuardedBy(fn, gc, core.BoolGuard("pud.isChan", core.IsFieldLoad(pudChan), true))
			ok = okG && cnt[0] > 0
		}
		if !ok && pudChan != nil {
			// a helper that is told by its caller: the parameter is bound to the flag or to the user's
			// record at every call site
			told := func(v ssa.Value) bool {
				pp, isP := core.Strip(v).(*ssa.Parameter)
				return isP && c.paramAtCallers(fn, pp, func(caller *ssa.Function, arg ssa.Value) bool {
					return core.IsFieldLoad(pudChan)(arg) || flag(arg)
				})
			}
			okG, cnt := core.GuardedBy(fn, gc, core.BoolGuard("isChan (parameter)", told, true))
			ok = okG && cnt[0] > 0
		}
		core.NoLift = saved
		construct := fmt.Sprintf("%s: the channel spelling for Subs.%s of the acting user's row is chosen by the request or the user's record", fk(fn), op)
		if k := countSame(r, rule, construct); k > 0 {
			construct = fmt.Sprintf("%s #%d", construct, k+1)
		}
		r.Check(ok, rule, construct, c.pos(gc), "",
			"the acting user's row is addressed as chnXXX without asking whether this user is a channel reader (neither the verifyChannelAccess flag nor perUserData.isChan decides it): on a channel-enabled topic a regular subscriber's write is acknowledged and lands on a row that does not exist, and the cache keeps what the store never received")
	}
}

// checkRepeatedOperatorSeenAcrossSpace (C19): the search grammar refuses a doubled comma also when
// white space separates the two (' , ,'). The lexer classifies white space as an operator of its
// own, so "the previous lexeme" is AND, not OR, when the second comma arrives: the refusal in the
// comma case of the parser therefore consults state that survives white space (the pending
// operator of the context), not the previous-lexeme variable. Decided on the SSA form of
// parseSearchQuery: an `if X == K { return error }` that sits inside the case `lexeme == K` of the
// parser switch (same constant K) has an X that is not the loop-carried copy of the lexeme.
// Five seeded changes (C19_m1, r5m1, r7m2, r9m1, r10m1) made exactly this edit.
func (c *Ctx) checkRepeatedOperatorSeenAcrossSpace() {
	r := c.R
	const rule = "C19.5-repeated-operator-seen-across-space"
	r.Explanation += " Of the query grammar one structural clause is decided: the refusal of a repeated operator inside that operator's case of the parser does not consult the loop-carried previous lexeme, which white space resets (C19.5)."
	fn := c.ssaFn("server", "parseSearchQuery")
	if fn == nil {
		return
	}
	r.Func(fk(fn))
	eqConst := func(v ssa.Value) (x ssa.Value, k string, ok bool) {
		b, isB := v.(*ssa.BinOp)
		if !isB || b.Op.String() != "==" {
			return nil, "", false
		}
		if kc, isK := b.Y.(*ssa.Const); isK && kc.Value != nil {
			return b.X, kc.Value.ExactString(), true
		}
		if kc, isK := b.X.(*ssa.Const); isK && kc.Value != nil {
			return b.Y, kc.Value.ExactString(), true
		}
		return nil, "", false
	}
	errorReturn := func(b *ssa.BasicBlock) bool {
		if len(b.Instrs) == 0 {
			return false
		}
		ret, ok := b.Instrs[len(b.Instrs)-1].(*ssa.Return)
		if !ok || len(ret.Results) == 0 {
			return false
		}
		last := ret.Results[len(ret.Results)-1]
		if k, isK := last.(*ssa.Const); isK && k.Value == nil {
			return false
		}
		return true
	}
	// carries(p, lex): p is a loop-header phi one of whose incoming values is lex (directly or
	// through one more phi): the "previous lexeme" variable
	var reaches func(v, lex ssa.Value, d int) bool
	reaches = func(v, lex ssa.Value, d int) bool {
		if v == lex {
			return true
		}
		if p, ok := v.(*ssa.Phi); ok && d < 3 {
			for _, e := range p.Edges {
				if e != v && reaches(e, lex, d+1) {
					return true
				}
			}
		}
		return false
	}
	carries := func(x, lex ssa.Value) bool {
		p, ok := x.(*ssa.Phi)
		if !ok {
			return false
		}
		header := false
		for _, pr := range p.Block().Preds {
			if p.Block().Dominates(pr) {
				header = true
			}
		}
		if !header {
			return false
		}
		for _, e := range p.Edges {
			if reaches(e, lex, 0) {
				return true
			}
		}
		return false
	}
	n := 0
	for _, b := range fn.Blocks {
		if len(b.Instrs) == 0 {
			continue
		}
		ifi, ok := b.Instrs[len(b.Instrs)-1].(*ssa.If)
		if !ok {
			continue
		}
		x, k, ok := eqConst(ifi.Cond)
		if !ok || !errorReturn(b.Succs[0]) {
			continue
		}
		// the enclosing case: a dominating `lex == K` (same K) whose true side dominates b
		var lex ssa.Value
		for blk := b; blk != nil && lex == nil; blk = blk.Idom() {
			par := blk.Idom()
			if par == nil || len(par.Instrs) == 0 {
				continue
			}
			pif, isIf := par.Instrs[len(par.Instrs)-1].(*ssa.If)
			if !isIf || par.Succs[0] != blk || par.Succs[0] == par.Succs[1] {
				continue
			}
			if lx, lk, okc := eqConst(pif.Cond); okc && lk == k && lx != x {
				lex = lx
			}
		}
		if lex == nil {
			continue
		}
		n++
		construct := fk(fn) + ": the repeated-operator refusal consults state that white space does not reset"
		if kk := countSame(r, rule, construct); kk > 0 {
			construct = fmt.Sprintf("%s #%d", construct, kk+1)
		}
		r.Check(!carries(x, lex), rule, construct, c.pos(ifi), "",
			"the refusal of a repeated operator compares the previous lexeme with the operator: white space between the two operators is a lexeme of its own, so ' , ,' (a doubled comma with a blank in between) is no longer refused and is read as one OR")
	}
	r.Check(n >= 1, rule, fk(fn)+": refusals of a repeated operator inside the operator's case", c.P.Pos(fn.Pos()), fmt.Sprintf("%d", n), "none: a doubled comma is not refused at all (or the parser no longer has the shape this rule reads)")
}

// checkOnlineDecrementMatchesIncrement (C10): the per-user online counter counts attached
// *foreground* sessions - a background session is counted only when it is promoted. The two sides
// of the account agree: where a single session's departure lowers the counter of its user (a
// decrement outside the loop over a multiplexing session's users), it does so only for a session
// that is not in the background, exactly as the increment next to the attach does.
func (c *Ctx) checkOnlineDecrementMatchesIncrement() {
	r := c.R
	const rule = "C10.3f-background-session-not-uncounted"
	r.Explanation += " A single session's departure lowers the online counter only for a foreground session (C10.3f)."
	onlineF := c.E().pudField("online")
	bgF := c.field("server", "Session", "background")
	if onlineF == nil || bgF == nil {
		return
	}
	isOne := func(v ssa.Value) bool {
		k, ok := v.(*ssa.Const)
		return ok && k.Value != nil && k.Value.ExactString() == "1"
	}
	// kind of a function as a counter helper: -1 a closure that lowers the counter by one itself
	// (`oneSessionLess := func(user) {...; userData.online--; ...}`), 2 a function that adds a
	// parameter to it (`t.addOnline(uid, delta)`)
	directDec := func(fn *ssa.Function) (out []*ssa.Store, incs int) {
		for _, st := range core.StoresToField(fn, onlineF) {
			b, ok := core.Strip(st.Val).(*ssa.BinOp)
			if !ok || !(isOne(b.Y) || isOne(b.X)) {
				continue
			}
			switch b.Op.String() {
			case "+":
				incs++
			case "-":
				out = append(out, st)
			}
		}
		return
	}
	addsParam := func(g *ssa.Function) bool {
		for _, st := range core.StoresToField(g, onlineF) {
			if b, ok := core.Strip(st.Val).(*ssa.BinOp); ok && b.Op.String() == "+" {
				if _, isP := core.Strip(b.Y).(*ssa.Parameter); isP {
					return true
				}
				if _, isP := core.Strip(b.X).(*ssa.Parameter); isP {
					return true
				}
			}
		}
		return false
	}
	nDecAll, nDec, nInc := 0, 0, 0
	for _, fn := range c.P.ModFuncs {
		if !core.InPkg(fn, "server") || !isPtrToNamedRecv(core.TopFunc(fn), "Topic") {
			continue
		}
		var decs []ssa.Instruction
		ds, incs := directDec(fn)
		nInc += incs
		nDecAll += len(ds)
		if fn.Parent() == nil {
			for _, st := range ds {
				decs = append(decs, st)
			}
		} // a closure's own decrement is asked about where the closure is called (below)
		core.AllInstrs(fn, func(in ssa.Instruction) {
			call, ok := in.(*ssa.Call)
			if !ok {
				return
			}
			g := call.Call.StaticCallee()
			if g == nil || g == fn || !core.InModule(g) || len(g.Blocks) == 0 {
				return
			}
			if g.Parent() == fn {
				if gd, _ := directDec(g); len(gd) > 0 {
					decs = append(decs, call)
				}
				return
			}
			if !addsParam(g) {
				return
			}
			for _, a := range call.Call.Args {
				if k, ok := a.(*ssa.Const); ok && k.Value != nil && k.Value.Kind() == constant.Int {
					if constant.Sign(k.Value) < 0 {
						decs = append(decs, call)
						nDecAll++
					} else if constant.Sign(k.Value) > 0 {
						nInc++
					}
				}
			}
		})
		for _, st := range decs {
			if h, _ := loopAround(fn, st.Block()); h != nil {
				continue // one per user of a multiplexing (cluster) session: those are never in the background
			}
			nDec++
			r.Func(fk(fn))
			saved := core.NoLift
			core.NoLift = true
			okG, cnt := core.GuardedBy(fn, st, core.BoolGuard("!sess.background", core.IsFieldLoad(bgF), false))
			core.NoLift = saved
			construct := fk(fn) + ": online-- for a single session only when the session is not in the background"
			if k := countSame(r, rule, construct); k > 0 {
				construct = fmt.Sprintf("%s #%d", construct, k+1)
			}
			r.Check(okG && cnt[0] > 0, rule, construct, c.pos(st), "",
				"the online counter is lowered for a departing session without asking whether the session was counted: a background session (never counted by the increment side) that leaves takes one off the count of its user's foreground sessions - the others are told 'off' while the user is attached, and the counter goes negative afterwards")
		}
	}
	// the obligation exists only for decrements made outside a loop; a tree that lowers the counter
	// only inside loops (one list of leaving users for both kinds of session) has nothing to ask
	// here, which the count reports. The anchor is that the counter is lowered and raised at all.
	r.Check(nDecAll >= 1 && nInc >= 1, rule, "decrements and increments of the online counter in Topic methods", "-", fmt.Sprintf("%d decrements (%d outside loops, each asked about), %d increments", nDecAll, nDec, nInc), "anchor lost: no decrement (or no increment) of perUserData.online found")
}

// checkContactOnlineOnlyWhenEnabled (C10): on a 'me' topic the record of a contact says "online"
// only while notifications from that contact are enabled ("if we don't care about updates, keep
// the other user off"): in procPresReq a value other than the constant false is stored into
// perSubsData.online only under perSubsData.enabled == true. Otherwise a contact that came online
// while muted is remembered as online, and the "on" that follows the un-muting is suppressed as
// "no change".
func (c *Ctx) checkContactOnlineOnlyWhenEnabled() {
	r := c.R
	const rule = "C10.4e-contact-online-only-when-enabled"
	r.Explanation += " procPresReq records a reported online state for a contact only under perSubsData.enabled (C10.4e)."
	onF := c.field("server", "perSubsData", "online")
	enF := c.field("server", "perSubsData", "enabled")
	if onF == nil || enF == nil {
		return
	}
	// the reported state is whatever is stored that is not a constant (`*online` of the handler, or a
	// plain bool where the pointer was replaced by a pair "known, value"); the function that stores
	// it may be procPresReq or a helper the body was moved into. The constructor of a new record
	// (both fields stored from parameters: addToPerSubs) is C10.4d's, not this rule's.
	reported := func(v ssa.Value) bool {
		_, isK := core.Strip(v).(*ssa.Const)
		return !isK
	}
	isCtor := func(fn *ssa.Function) bool {
		on, en := false, false
		for _, st := range core.StoresToField(fn, onF) {
			if _, ok := core.Strip(st.Val).(*ssa.Parameter); ok {
				on = true
			}
		}
		for _, st := range core.StoresToField(fn, enF) {
			if _, ok := core.Strip(st.Val).(*ssa.Parameter); ok {
				en = true
			}
		}
		return on && en
	}
	n := 0
	for _, fn := range c.P.ModFuncs {
		if !core.InPkg(fn, "server") || isCtor(fn) {
			continue
		}
		for _, st := range core.StoresToField(fn, onF) {
			if !reported(st.Val) {
				continue
			}
			n++
			r.Func(fk(fn))
			saved := core.NoLift
			core.NoLift = true
			okG, cnt := core.GuardedBy(fn, st, core.BoolGuard("psd.enabled", core.IsFieldLoad(enF), true))
			core.NoLift = saved
			construct := fk(fn) + ": a contact is recorded online only while its notifications are enabled"
			if k := countSame(r, rule, construct); k > 0 {
				construct = fmt.Sprintf("%s #%d", construct, k+1)
			}
			r.Check(okG && cnt[0] > 0, rule, construct, c.pos(st), "",
				"the contact's record takes the reported online state although notifications from it are disabled: the contact is remembered as online while muted, and after the un-muting handshake the 'on' is dropped as 'no change' - the user never learns that the contact is online")
		}
	}
	r.Check(n >= 1, rule, "stores of a reported state into perSubsData.online of an existing record", "-", fmt.Sprintf("%d", n), "none: anchor lost")
}
