// Package rules holds the per-property rule tables. Every rule is keyed on typed program
// entities (fields, interface methods, package-level API), never on text or positions.
package rules

import (
	"fmt"
	"go/types"
	"sort"

	"golang.org/x/tools/go/callgraph"
	"golang.org/x/tools/go/ssa"

	"verifchk/core"
)

type Ctx struct {
	reachM    map[*ssa.Function]map[*ssa.Function]bool
	effFree   map[*ssa.Function]int
	noDescend map[*ssa.Function]bool // withCallees does not enter these (leaf producers)
	P         *core.Prog
	R         *core.Report
	Tier      string
	nSpelling int // C08.1g: sites examined
}

type Check struct {
	ID  string
	Run func(c *Ctx)
}

var Registry = map[string]func(c *Ctx){}

func register(id string, f func(c *Ctx)) { Registry[id] = f }

// anchorLost is raised when a typed entity a rule is keyed on cannot be resolved.
type anchorLost struct{ what string }

func (c *Ctx) lost(what string) {
	panic(anchorLost{what})
}

// RunSafely runs f converting lost anchors / panics into failed obligations.
func (c *Ctx) RunSafely(f func(c *Ctx)) {
	defer func() {
		if r := recover(); r != nil {
			if al, ok := r.(anchorLost); ok {
				c.R.Fail("anchor", al.what, "-", "typed entity the rules are keyed on could not be resolved in the current tree")
				return
			}
			c.R.Fail("checker-panic", fmt.Sprint(r), "-", "checker panicked; no verdict")
		}
	}()
	core.LiftCallers = func(fn *ssa.Function) []core.LiftSite {
		var out []core.LiftSite
		for _, cs := range c.callersOf(fn) {
			out = append(out, core.LiftSite{Caller: cs.Caller, Site: cs.Site})
		}
		return out
	}
	f(c)
}

func (c *Ctx) field(rel, typ, name string) *types.Var {
	f := c.P.Field(rel, typ, name)
	if f == nil {
		c.lost("field " + rel + "." + typ + "." + name)
	}
	return f
}

func (c *Ctx) method(rel, typ, name string) *types.Func {
	f := c.P.Method(rel, typ, name)
	if f == nil {
		c.lost("method " + rel + "." + typ + "." + name)
	}
	return f
}

func (c *Ctx) fn(rel, name string) *types.Func {
	f := c.P.Func(rel, name)
	if f == nil {
		c.lost("func " + rel + "." + name)
	}
	return f
}

func (c *Ctx) konst(rel, name string) *types.Const {
	k := c.P.Const(rel, name)
	if k == nil {
		c.lost("const " + rel + "." + name)
	}
	return k
}

func (c *Ctx) global(rel, name string) *types.Var {
	g := c.P.Global(rel, name)
	if g == nil {
		c.lost("var " + rel + "." + name)
	}
	return g
}

func (c *Ctx) ssaMethod(rel, typ, name string) *ssa.Function {
	f := c.P.SSAFunc(c.method(rel, typ, name))
	if f == nil || f.Blocks == nil {
		c.lost("body of " + rel + "." + typ + "." + name)
	}
	return f
}

func (c *Ctx) ssaFn(rel, name string) *ssa.Function {
	f := c.P.SSAFunc(c.fn(rel, name))
	if f == nil || f.Blocks == nil {
		c.lost("body of " + rel + "." + name)
	}
	return f
}

func (c *Ctx) pos(in ssa.Instruction) string { return c.P.Pos(core.InstrPos(in)) }

func fk(fn *ssa.Function) string { return core.FuncKey(fn) }

// callersOf returns in-module call sites (call instruction + caller) of fn per the VTA graph.
type callSite struct {
	Caller *ssa.Function
	Site   ssa.CallInstruction
}

func (c *Ctx) callersOf(fn *ssa.Function) []callSite {
	n := c.P.CallGraph().Nodes[fn]
	if n == nil {
		return nil
	}
	var out []callSite
	seen := map[ssa.CallInstruction]bool{}
	for _, e := range n.In {
		if e.Site == nil || seen[e.Site] {
			continue
		}
		seen[e.Site] = true
		if e.Caller.Func.Synthetic != "" && e.Caller.Func.Parent() == nil && len(e.Caller.In) == 0 {
			// synthetic pointer-receiver / bound wrapper that nobody calls: an artefact of the
			// initial CHA graph, not a caller
			continue
		}
		out = append(out, callSite{e.Caller.Func, e.Site})
	}
	sort.Slice(out, func(i, j int) bool {
		if fk(out[i].Caller) != fk(out[j].Caller) {
			return fk(out[i].Caller) < fk(out[j].Caller)
		}
		return out[i].Site.Pos() < out[j].Site.Pos()
	})
	return out
}

// calleesOf returns module functions callable from site per the call graph.
func (c *Ctx) calleesOf(caller *ssa.Function, site ssa.CallInstruction) []*ssa.Function {
	n := c.P.CallGraph().Nodes[caller]
	if n == nil {
		return nil
	}
	var out []*ssa.Function
	for _, e := range n.Out {
		if e.Site == site {
			out = append(out, e.Callee.Func)
		}
	}
	return out
}

// reaches computes the set of module functions reachable from roots in the call graph, not
// crossing `go` statements when noGo is set.
func (c *Ctx) reaches(roots []*ssa.Function, noGo bool) map[*ssa.Function]bool {
	cg := c.P.CallGraph()
	seen := map[*ssa.Function]bool{}
	var work []*callgraph.Node
	for _, r := range roots {
		if n := cg.Nodes[r]; n != nil && !seen[r] {
			seen[r] = true
			work = append(work, n)
		}
	}
	for len(work) > 0 {
		n := work[len(work)-1]
		work = work[:len(work)-1]
		for _, e := range n.Out {
			if noGo {
				if _, isGo := e.Site.(*ssa.Go); isGo {
					continue
				}
			}
			if !seen[e.Callee.Func] {
				seen[e.Callee.Func] = true
				work = append(work, e.Callee)
			}
		}
	}
	return seen
}

// funcsCalling returns module functions (in package rel, "" = any) containing a call to callee.
func (c *Ctx) funcsCalling(callee *types.Func, rel string) []*ssa.Function {
	return c.P.FuncsWhere(func(fn *ssa.Function) bool {
		if rel != "" && !core.InPkg(fn, rel) {
			return false
		}
		return len(core.CallsTo(fn, callee)) > 0
	})
}

// globalStructField resolves a field of a package-level variable of anonymous struct type.
func (c *Ctx) globalStructField(rel, global, field string) *types.Var {
	g := c.global(rel, global)
	st, ok := g.Type().Underlying().(*types.Struct)
	if !ok {
		c.lost("struct var " + rel + "." + global)
	}
	for i := 0; i < st.NumFields(); i++ {
		if st.Field(i).Name() == field {
			return st.Field(i)
		}
	}
	c.lost("field " + rel + "." + global + "." + field)
	return nil
}
