package rules

import (
	"fmt"
	"go/token"
	"go/types"
	"strings"

	"golang.org/x/tools/go/ssa"

	"verifchk/core"
)

func init() { register("C02", checkC02) }

func checkC02(c *Ctx) {
	r := c.R
	r.Explanation = "Structural necessary conditions of 'each accepted message reaches exactly the attached readers, once, unaltered': (1) fan-out filter: within one loop iteration the {data} branch reaches the queueOut sink only through userIsReader(<attached user's uid>)==true or isChanSub==true, never for the session named by SkipSid; (2) each recipient gets its own copy of the broadcast message, fixed up by prepareBroadcastableMessage with the recipient's uid and channel flag before it is queued; (3) in the fix-up the author is blanked exactly on the isChanSub && Data != nil edge and the recipient-specific topic name is GrpToChn(xoriginal) for channel readers and Topic.original(uid) otherwise; (4) content unaltered: the Head/Content placed in the broadcast MsgServerData are the very values given to Messages.Save; the per-recipient copy of MsgServerData is a whole-struct copy; (5) push audience: a recipient is added to the push receipt only behind IsPresencer and IsReader of want&given, !deleted and !isChan; the channel address is set only for channel topics."
	r.NotDecided = []string{"'exactly once' and per-session ordering across interleavings of publishes with attach/detach", "slow-consumer drops"}
	r.Trusted = []string{"go/types, go/ssa"}

	fo := c.checkFanoutCommon("C02.1")
	c.checkNoPublishInsideFanout("C02.6", fo)
	c.checkFanoutData("C02.1", fo)
	c.checkPrepareMessage()
	c.checkContentUnaltered()
	c.checkPushAudience()
	c.checkChannelPushNotDropped()
	// the push for users hosted elsewhere is handed to their node: the local/remote split asks the ring
	// by the same name the request is routed by
	c.R.Scoped(func(rule, construct string) bool {
		return strings.Contains(construct, "sendPush") || !strings.Contains(construct, ": ")
	}, func() { c.checkRingKeyedByRoutableName("C17.1d-ring-keyed-by-routable-name") })
	c.checkChannelNameNormalised()
	// of the module-wide intersection census the predicates this property depends on: a copy goes to
	// readers (R), a push to readers with presence (R, P) - each decided on want & given
	c.R.Scoped(func(rule, construct string) bool {
		return strings.HasPrefix(construct, "IsReader()") || strings.HasPrefix(construct, "IsPresencer()")
	}, c.checkIntersect)
	// who receives a message and a push is decided on the cached modes: they follow the store
	c.checkCacheFollowsStore(map[string]bool{"ModeWant": true, "ModeGiven": true})
	c.checkLocalCopyWrittenBack("C08.3c-local-copy-written-back", map[string]bool{"modeWant": true, "modeGiven": true, "deleted": true, "isChan": true})
	c.checkMessageCopyIsDeep()
	c.checkEvictionDetachesAll()
}

func (c *Ctx) checkPrepareMessage() {
	r := c.R
	prep := c.ssaMethod("server", "Topic", "prepareBroadcastableMessage")
	r.Func(fk(prep))
	fromF := c.field("server", "MsgServerData", "From")
	dataF := c.field("server", "ServerComMessage", "Data")
	topicData := c.field("server", "MsgServerData", "Topic")
	grpToChn := c.fn("server/store/types", "GrpToChn")
	original := c.method("server", "Topic", "original")
	var isChanSub *ssa.Parameter
	for _, p := range prep.Params {
		if p.Name() == "isChanSub" || (p.Type().String() == "bool") {
			isChanSub = p
		}
	}
	r.Floor("C02.3-recipient-view", 3)
	if isChanSub == nil {
		r.Fail("C02.3-recipient-view", fk(prep)+": channel flag parameter", "-", "no bool parameter: undecided")
		return
	}
	gChan := core.BoolGuard("isChanSub", func(v ssa.Value) bool { return v == ssa.Value(isChanSub) }, true)
	gData := core.NilGuard("msg.Data!=nil", core.IsFieldLoad(dataF), false)
	n := 0
	for _, st := range core.StoresToField(prep, fromF) {
		n++
		ok1, c1 := core.GuardedBy(prep, st, gChan)
		ok2, c2 := core.GuardedBy(prep, st, gData)
		r.Check(core.IsConstString("")(st.Val) && ok1 && c1[0] > 0 && ok2 && c2[0] > 0, "C02.3-recipient-view", fk(prep)+": Data.From = \"\"", c.pos(st), "author blanked only for channel readers", "the author of a {data} copy is altered outside the channel-reader case")
	}
	// every path on which isChanSub && Data != nil holds passes the blanking store
	r.Check(n == 1, "C02.3-recipient-view", fk(prep)+": exactly one store to Data.From", "-", "", fmt.Sprintf("%d stores to Data.From in the fix-up (expected one: blanking for channel readers)", n))
	for _, st := range core.StoresToField(prep, topicData) {
		// value is a phi/ local of GrpToChn(..) on the chan edge and original(uid) otherwise
		okV := core.Derives(st.Val, core.Or(core.IsCallTo(grpToChn), core.IsCallTo(original)), true)
		r.Check(okV, "C02.3-recipient-view", fk(prep)+": Data.Topic = channel spelling or Topic.original(uid)", c.pos(st), "", "a {data} copy is given a topic name that is neither the recipient's own name for the topic nor the channel spelling")
	}
	// the two producers sit on the right edges (also inside an extracted naming helper, whose
	// channel-flag parameter stands for the fix-up's)
	isFlag := func(v ssa.Value) bool { return core.Strip(v) == ssa.Value(isChanSub) }
	nGrp, nOrig := 0, 0
	c.noDescend = map[*ssa.Function]bool{c.ssaMethod("server", "Topic", "original"): true}
	defer func() { c.noDescend = nil }()
	c.withCallees(prep, 2, func(owner *ssa.Function, in ssa.Instruction, _ ssa.Instruction) {
		ci, ok := in.(*ssa.Call)
		if !ok {
			return
		}
		switch core.CalleeOf(&ci.Call) {
		case grpToChn:
			nGrp++
			ok, cnt := core.GuardedBy(owner, ci, core.BoolGuard("isChanSub", isFlag, true))
			r.Check(ok && cnt[0] > 0, "C02.3-recipient-view", fk(prep)+": GrpToChn only for channel readers", c.pos(ci), "", "the channel spelling is used for an ordinary subscriber")
		case original:
			nOrig++
			ok, cnt := core.GuardedBy(owner, ci, core.BoolGuard("!isChanSub", isFlag, false))
			args := core.CallArgs(&ci.Call)
			_, uidIsParam := core.Strip(args[1]).(*ssa.Parameter)
			r.Check(ok && cnt[0] > 0 && uidIsParam && core.Strip(args[1]).Parent() == prep, "C02.3-recipient-view", fk(prep)+": Topic.original(<recipient uid>) for ordinary subscribers", c.pos(ci), "", "the recipient-specific topic name is computed for a user other than the recipient")
		}
	})
	r.Check(nGrp > 0 && nOrig > 0, "C02.3-recipient-view", fk(prep)+": both name producers present", "-", "", "the fix-up no longer computes the channel spelling / the recipient's own topic name")
}

func (c *Ctx) checkContentUnaltered() {
	r := c.R
	save := c.E().storeIface("MessagesPersistenceInterface", "Save")
	r.Floor("C02.4-content-unaltered", 3)
	for _, fn := range c.funcsCalling(save, "server") {
		r.Func(fk(fn))
		for _, site := range core.CallsTo(fn, save) {
			args := core.CallArgs(site.Common())
			saved, ok := c.literalOf(args[1])
			if !ok {
				r.Fail("C02.4-content-unaltered", fk(fn)+": message literal", c.pos(site), "message passed to Save is not a literal: undecided")
				continue
			}
			// the MsgServerData literal created in the same function, or in a sibling phase of it
			var dataAlloc *ssa.Alloc
			c.regionInstrs(c.phaseRoot(fn), func(_ *ssa.Function, in ssa.Instruction) {
				if a, ok := in.(*ssa.Alloc); ok && isPtrToNamed(a.Type(), "MsgServerData") {
					dataAlloc = a
				}
			})
			if dataAlloc == nil {
				r.Fail("C02.4-content-unaltered", fk(fn)+": broadcast MsgServerData literal", c.pos(site), "no MsgServerData literal in the saving function: undecided")
				continue
			}
			sent := literalFields(dataAlloc)
			for _, f := range []string{"Head", "Content"} {
				same := saved[f] != nil && sent[f] != nil && (c.rootValue(saved[f]) == c.rootValue(sent[f]) || c.sameCarrierField(saved[f], sent[f]))
				r.Check(same, "C02.4-content-unaltered", fmt.Sprintf("%s: broadcast %s is the value given to Save", fk(fn), f), c.pos(site), "", "the "+f+" delivered to recipients is not the value that was stored")
			}
			// From/author: both derive from the same request field / parameter family
			r.Check(sent["From"] != nil && sent["SeqId"] != nil && sent["Timestamp"] != nil, "C02.4-content-unaltered", fk(fn)+": broadcast data carries author, id and timestamp", c.pos(site), "", "a {data} field (From, SeqId or Timestamp) is no longer set on the broadcast copy")
		}
	}
	// MsgServerData.copy is a whole-struct copy
	cp := c.ssaMethod("server", "MsgServerData", "copy")
	whole := false
	core.AllInstrs(cp, func(in ssa.Instruction) {
		if st, ok := in.(*ssa.Store); ok {
			if _, isAlloc := st.Addr.(*ssa.Alloc); isAlloc {
				if u, ok := st.Val.(*ssa.UnOp); ok {
					if _, isParam := u.X.(*ssa.Parameter); isParam {
						whole = true
					}
				}
			}
		}
	})
	if !whole {
		whole = wholeStructCopy(cp, 0)
	}
	r.Check(whole, "C02.4b-copy-is-whole", "MsgServerData.copy copies the whole struct (*dst = *src)", c.P.Pos(cp.Pos()), "", "the per-recipient copy of {data} is built field by field: a field can be dropped")
}

func literalFields(a *ssa.Alloc) map[string]ssa.Value {
	out := map[string]ssa.Value{}
	if a.Referrers() == nil {
		return out
	}
	collect := func(base ssa.Value) {
		if base.Referrers() == nil {
			return
		}
		for _, ref := range *base.Referrers() {
			fa, ok := ref.(*ssa.FieldAddr)
			if !ok || fa.X != base || fa.Referrers() == nil {
				continue
			}
			f, _ := core.FieldOfAddr(fa)
			for _, r2 := range *fa.Referrers() {
				if st, ok := r2.(*ssa.Store); ok && st.Addr == ssa.Value(fa) {
					out[f.Name()] = st.Val
				}
			}
		}
	}
	collect(a)
	// the object may also be filled through the field it was stored into:
	// `m := &Outer{Inner: &T{}}; m.Inner.F = v` - loads of that field of the same outer object
	fn := a.Parent()
	for _, ref := range *a.Referrers() {
		st, ok := ref.(*ssa.Store)
		if !ok || st.Val != ssa.Value(a) {
			continue
		}
		hf, hbase := core.FieldOfAddr(st.Addr)
		if hf == nil {
			continue
		}
		core.AllInstrs(fn, func(in ssa.Instruction) {
			ld, ok := in.(*ssa.UnOp)
			if !ok || ld.Op != token.MUL {
				return
			}
			if f2, b2 := core.FieldOfAddr(ld.X); f2 == hf && b2 == hbase {
				collect(ld)
			}
		})
	}
	return out
}

func (c *Ctx) checkPushAudience() {
	r := c.R
	toF := c.field("server/push", "Receipt", "To")
	chanF := c.field("server/push", "Receipt", "Channel")
	isPres := c.E().modeMethod("IsPresencer")
	isReader := c.E().modeMethod("IsReader")
	deletedF := c.E().pudField("deleted")
	isChanPud := c.E().pudField("isChan")
	isChanTopic := c.E().topicField("isChan")
	perUser := c.E().topicField("perUser")
	r.Floor("C02.5-push-audience", 4)
	modeOK := func(v ssa.Value) bool { return c.isEffMode()(v) || c.isIntersection(v, 0) }
	for _, fn := range c.P.ModFuncs {
		if !core.InPkg(fn, "server") {
			continue
		}
		// functions that fill Receipt.To while ranging over Topic.perUser for a {data} message
		rangesPerUser := false
		core.AllInstrs(fn, func(in ssa.Instruction) {
			if rg, ok := in.(*ssa.Range); ok && core.IsFieldLoad(perUser)(rg.X) {
				rangesPerUser = true
			}
		})
		if !rangesPerUser {
			continue
		}
		var sinks []ssa.Instruction
		// the map of recipients: Receipt.To, or a map of that type filled by a phase of the function
		// that builds the receipt (`To: t.dataPushRecipients(..)`)
		toT := toF.Type()
		core.AllInstrs(fn, func(in ssa.Instruction) {
			if mu, ok := in.(*ssa.MapUpdate); ok && (core.IsFieldLoad(toF)(mu.Map) || types.Identical(mu.Map.Type(), toT)) {
				sinks = append(sinks, in)
			}
		})
		if len(sinks) == 0 {
			continue
		}
		hasDataParam := false
		for _, f2 := range []*ssa.Function{fn, c.soleCaller(fn)} {
			if f2 == nil {
				continue
			}
			for _, p := range f2.Params {
				if isPtrToNamed(p.Type(), "MsgServerData") {
					hasDataParam = true
				}
			}
		}
		if !hasDataParam {
			continue
		}
		r.Func(fk(fn))
		back := loopBackEdges(fn)
		for _, s := range sinks {
			check := func(name string, g core.Guard, msg string) {
				cut, cnt := core.PassEdges(fn, g)
				for e := range back {
					cut[e] = true
				}
				// within one iteration: from the loop body entry the sink is unreachable when the pass edge is cut
				reach := core.ReachBlocks(fn, nil, cut)
				_ = reach
				found, _ := core.PathAvoiding(fn, nil, func(in ssa.Instruction) bool { return in == s }, nil, cut)
				// paths from entry necessarily enter the loop once; the back-edge cut keeps the decision in one iteration
				r.Check(!found && cnt[0] > 0, "C02.5-push-audience", fk(fn)+": receipt.To[uid] behind "+name, c.pos(s), "", msg)
			}
			check("IsPresencer(want&given)", core.BoolGuard("P", core.IsCallTo(isPres, modeOK), true), "a push for a message is addressed to a subscriber without presence permission")
			check("IsReader(want&given)", core.BoolGuard("R", core.IsCallTo(isReader, modeOK), true), "a push for a message is addressed to a subscriber without read permission")
			check("!deleted", core.BoolGuard("!deleted", core.IsFieldLoad(deletedF), false), "a push for a message is addressed to a removed subscriber")
			check("!isChan", core.BoolGuard("!isChan", core.IsFieldLoad(isChanPud), false), "a push for a message is addressed individually to a channel reader (they are reached through the channel address only)")
		}
		for _, st := range core.StoresToField(fn, chanF) {
			ok, cnt := core.GuardedBy(fn, st, core.BoolGuard("t.isChan", core.IsFieldLoad(isChanTopic), true))
			r.Check(ok && cnt[0] > 0, "C02.5-push-audience", fk(fn)+": receipt.Channel only for channel topics", c.pos(st), "", "the channel broadcast address is set for a topic that is not a channel")
		}
	}
}

// wholeStructCopy: fn returns a copy of the struct its first parameter points to that has every
// field: `dst := *src` (possibly in a helper, a generic one included, that fn returns the result
// of), or a literal that sets every field of the struct from the same field of the source.
func wholeStructCopy(fn *ssa.Function, depth int) bool {
	if fn == nil || len(fn.Blocks) == 0 || len(fn.Params) == 0 || depth > 2 {
		return false
	}
	src := fn.Params[0]
	ok := false
	core.AllInstrs(fn, func(in ssa.Instruction) {
		switch x := in.(type) {
		case *ssa.Store:
			if _, isAlloc := x.Addr.(*ssa.Alloc); isAlloc {
				if u, isLoad := x.Val.(*ssa.UnOp); isLoad && u.X == ssa.Value(src) {
					ok = true
				}
			}
		case *ssa.Return:
			if len(x.Results) == 1 {
				if call, isCall := core.Strip(x.Results[0]).(*ssa.Call); isCall {
					g := call.Call.StaticCallee()
					inMod := g != nil && (core.InModule(g) || (g.Origin() != nil && core.InModule(g.Origin())))
					if inMod && len(call.Call.Args) > 0 && core.Strip(call.Call.Args[0]) == ssa.Value(src) {
						if wholeStructCopy(g, depth+1) {
							ok = true
						}
					}
				}
			}
		case *ssa.Alloc:
			pt, isP := x.Type().(*types.Pointer)
			if !isP {
				return
			}
			st, isS := pt.Elem().Underlying().(*types.Struct)
			if !isS || x.Referrers() == nil {
				return
			}
			set := map[int]bool{}
			for _, ref := range *x.Referrers() {
				fa, isFA := ref.(*ssa.FieldAddr)
				if !isFA || fa.Referrers() == nil {
					continue
				}
				for _, r2 := range *fa.Referrers() {
					s2, isSt := r2.(*ssa.Store)
					if !isSt || s2.Addr != ssa.Value(fa) {
						continue
					}
					if ld, isLd := s2.Val.(*ssa.UnOp); isLd {
						if fa2, isFA2 := ld.X.(*ssa.FieldAddr); isFA2 && fa2.Field == fa.Field && fa2.X == ssa.Value(src) {
							set[fa.Field] = true
						}
					}
				}
			}
			if st.NumFields() > 0 && len(set) == st.NumFields() {
				ok = true
			}
		}
	})
	return ok
}
