package rules

import (
	"fmt"
	"go/constant"
	"go/token"
	"go/types"
	"os"
	"sort"
	"strings"

	"golang.org/x/tools/go/ssa"

	"verifchk/core"
)

func init() { register("C07", checkC07) }

// isModeType: the AccessMode named type.
func isModeType(t types.Type) bool {
	n, ok := t.(*types.Named)
	return ok && n.Obj().Name() == "AccessMode"
}

// isIntersection: v is `a & b` of two non-constant AccessMode values (any provenance), or a phi of
// such values and the constants ModeInvalid / ModeNone (which only remove permissions), or both
// results of one call returning a (want, given) pair.
func (c *Ctx) isIntersection(v ssa.Value, depth int) bool {
	v = core.Strip(v)
	if depth > 4 {
		return false
	}
	switch x := v.(type) {
	case *ssa.BinOp:
		if x.Op != token.AND {
			return false
		}
		_, k1 := core.Strip(x.X).(*ssa.Const)
		_, k2 := core.Strip(x.Y).(*ssa.Const)
		return !k1 && !k2 && isModeType(x.X.Type()) && isModeType(x.Y.Type()) && !sameValue(x.X, x.Y, 0)
	case *ssa.Call:
		// an accessor that returns the intersection (`pair.effective()`, `acsOf(pud).effective()`)
		g := x.Call.StaticCallee()
		if g == nil || !core.InModule(g) || len(g.Blocks) == 0 || g.Signature.Results().Len() != 1 || !isModeType(g.Signature.Results().At(0).Type()) {
			return false
		}
		n, good := 0, true
		core.AllInstrs(g, func(in ssa.Instruction) {
			ret, ok := in.(*ssa.Return)
			if !ok || len(ret.Results) != 1 {
				return
			}
			if _, isK := core.Strip(ret.Results[0]).(*ssa.Const); isK {
				return
			}
			n++
			if !c.isIntersection(ret.Results[0], depth+1) {
				good = false
			}
		})
		return good && n > 0
	case *ssa.Phi:
		n := 0
		for _, e := range x.Edges {
			if k, ok := core.Strip(e).(*ssa.Const); ok {
				inv := c.konst("server/store/types", "ModeInvalid")
				none := c.konst("server/store/types", "ModeNone")
				if k.Value != nil && (constant.Compare(constant.ToInt(k.Value), token.EQL, inv.Val()) || constant.Compare(constant.ToInt(k.Value), token.EQL, none.Val())) {
					continue
				}
				return false
			}
			if !c.isIntersection(e, depth+1) {
				return false
			}
			n++
		}
		return n > 0
	}
	return false
}

// singleSided: reviewed single-sided tests: one side (want or given) or a client-requested mode is
// tested on purpose. Key: predicate and receiver class (module-wide budget, so that moving a test
// into a helper or another handler changes nothing); a mode parameter is resolved to the class of the
// argument at every call site. Value: number of reviewed sites and the reasons.
var singleSided = map[string]struct {
	n   int
	why string
}{
	"IsAdmin|field modeGiven":    {1, "self-subscription: a group admin may raise their own grant"},
	"IsAdmin|value":              {1, "self-subscription: the requested mode asks for admin bits"},
	"IsDefined|field ModeGiven":  {1, "get.sub reports only defined modes"},
	"IsDefined|field ModeWant":   {1, "get.sub reports only defined modes"},
	"IsDefined|param":            {4, "acs delta rendering in notifySubChange: value defined?"},
	"IsZero|param":               {2, "acs delta rendering in notifySubChange: full mode when the old one was empty"},
	"IsInvalid|value":            {2, "validity of the parsed default access of a new group"},
	"IsJoiner|field modeGiven":   {3, "grant lacks J: banned, cannot attach / a target whose new grant lacks J is evicted"},
	"IsJoiner|field modeWant":    {3, "self-ban / un-self-ban; a self-banned subscription is not deleted (would allow re-invite)"},
	"IsJoiner|value":             {4, "requested or parsed-back mode: owner cannot self-ban, invitation rejected, joined?"},
	"IsOwner|field ModeWant":     {1, "no ownership changes while the topic is offline"},
	"IsOwner|field modeGiven":    {1, "only a grant with O may accept/hold ownership"},
	"IsOwner|field modeWant":     {1, "ownership acceptance: previously not requested"},
	"IsOwner|value":              {11, "requested mode asks for / drops O; default access must not contain O; offline set-sub"},
	"IsPresencer|field modeWant": {1, "channel reader push subscription follows the requested P bit (grant is fixed)"},
}

func checkC07(c *Ctx) {
	r := c.R
	r.Explanation = "Structural necessary conditions of 'permissions change only through authorised requests': (1) F-INTERSECT: every AccessMode predicate call in package server has as receiver the intersection of a want and a given value (of one perUser record, one stored subscription, a want/given pair, or phi thereof with ModeInvalid/ModeNone), except the reviewed single-sided sites (table keyed by function, predicate and receiver class); helper filters receive intersections at every call site; (2) in the handler that changes another user's subscription every store write is cut off unless the actor's effective mode IsSharer, unless (no explicit mode or actor IsAdmin), unless the topic is not read-only and not addressed as channel; (3) re-subscription restores the previous grant: the lookup uses keepDeleted=true and on the found edge the grant is assigned from the stored ModeGiven before any default is applied; (4) join bit: Subs.Create in the self-subscription handler and its success returns are cut off unless the grant IsJoiner (self-ban excepted); (5) p2p mask: at least six `(x & ModeCP2P) | ModeApprove` expressions exist and ModeCP2P folds to J|R|W|P|A; (6) subscriber limit: every Subs.Create in topic handlers is cut off unless subsCount() < globals.maxSubscriberCount or the topic is not a group / addressed as channel; (7) sys requires root; the routable name of me/fnd derives only from the request's acting user."
	r.NotDecided = []string{"'never a third p2p participant' over all histories", "value-level behaviour of the mode algebra (C05)"}
	r.Trusted = []string{"go/types, go/ssa", "errors.New results are non-nil"}
	core.ExtraNilness = errorsNewNonNil
	defer func() { core.ExtraNilness = nil }()

	c.checkIntersect()
	c.checkOtherUserGuards()
	c.checkGrantRestored()
	c.checkJoinBit()
	c.checkP2PMask()
	c.checkSubscriberLimit()
	c.checkSysAndSelfNames()
	c.checkSelfGrantShapes()
	c.checkMaskAfterParse()
	// after a transfer the previous owner has no O in store or cache (only the owner can grant ownership)
	c.checkOwnerTransfer()
	c.checkLoaderReadsLiveRows("C07.2e-loader-reads-live-subscriptions")
	c.checkFndDefaultAccessNone()
}

func (c *Ctx) pairCall(v ssa.Value) bool {
	// want, given := f(...); (given & want)
	b, ok := core.Strip(v).(*ssa.BinOp)
	if !ok || b.Op != token.AND {
		return false
	}
	e1, ok1 := core.Strip(b.X).(*ssa.Extract)
	e2, ok2 := core.Strip(b.Y).(*ssa.Extract)
	return ok1 && ok2 && e1.Tuple == e2.Tuple && e1.Index != e2.Index
}

func (c *Ctx) checkIntersect() {
	r := c.R
	r.Floor("C07.1-effective-mode-is-intersection", 45)
	type vsite struct {
		fn    *ssa.Function
		pos   string
		pred  string
		cls   string
		inter bool
	}
	var sites []vsite
	// lift: resolves a receiver to (class, isIntersection) pairs; parameters are resolved at the callers.
	var lift func(fn *ssa.Function, recv ssa.Value, depth int, pos string, pred string)
	lift = func(fn *ssa.Function, recv ssa.Value, depth int, pos string, pred string) {
		// want&given of one record, of one stored subscription, or of the pair returned by the
		// record accessor (C07.1c checks that it returns the two sides of one record)
		if c.isEffMode()(recv) || c.isEffModeSub()(recv) || c.isIntersection(recv, 0) {
			sites = append(sites, vsite{fn, pos, pred, "intersection", true})
			return
		}
		definedness := pred == "IsDefined" || pred == "IsZero" || pred == "IsInvalid" // not a permission bit: no lifting
		if p, ok := core.Strip(recv).(*ssa.Parameter); ok && depth < 5 && !definedness {
			idx := -1
			for i, q := range fn.Params {
				if q == p {
					idx = i
				}
			}
			callers := c.callersOf(fn)
			if idx >= 0 && len(callers) > 0 {
				for _, cs := range callers {
					args := cs.Site.Common().Args
					if cs.Site.Common().IsInvoke() || idx >= len(args) {
						sites = append(sites, vsite{fn, pos, pred, "param", false})
						continue
					}
					lift(cs.Caller, args[idx], depth+1, pos+" <- "+c.pos(cs.Site), pred)
				}
				return
			}
		}
		if p, ok := core.Strip(recv).(*ssa.Parameter); ok && definedness && depth == 0 {
			// a definedness test moved into a small helper (`noneIfInvalid(mode)`): when every caller
			// passes a computed value, it is the same test on that value
			idx := -1
			for i, q := range fn.Params {
				if q == p {
					idx = i
				}
			}
			callers := c.callersOf(fn)
			all := idx >= 0 && len(callers) > 0
			for _, cs := range callers {
				args := cs.Site.Common().Args
				if cs.Site.Common().IsInvoke() || idx >= len(args) {
					all = false
					break
				}
				switch c.modeRecvClass(args[idx]) {
				case "local", "phi", "extract", "load", "value":
				default:
					all = false
				}
			}
			if all {
				sites = append(sites, vsite{fn, pos, pred, "value", false})
				return
			}
		}
		cls := c.modeRecvClass(recv)
		if c.pairCall(recv) {
			cls = "pair"
		}
		if _, _, path, ok := core.ResultComponent(core.Strip(recv)); ok && len(path) > 0 {
			cls = "value" // a field of a verdict struct returned by a helper: a computed value, not a record
		}
		switch cls {
		case "local", "phi", "extract", "load":
			cls = "value"
		}
		if strings.HasPrefix(cls, "param ") {
			cls = "param"
		}
		sites = append(sites, vsite{fn, pos, pred, cls, false})
	}
	for _, fn := range c.P.ModFuncs {
		if !core.InPkg(fn, "server") {
			continue
		}
		core.AllInstrs(fn, func(in ssa.Instruction) {
			// a mode converted to a plain integer and masked with a run-time filter (the presence
			// filters `int(mode) & FilterIn`) is a permission decision like a predicate call
			if cv, isCv := in.(*ssa.Convert); isCv && isModeType(cv.X.Type()) {
				masked := false
				for _, ref := range *cv.Referrers() {
					if b, isB := ref.(*ssa.BinOp); isB && b.Op == token.AND {
						_, k1 := b.X.(*ssa.Const)
						_, k2 := b.Y.(*ssa.Const)
						masked = masked || (!k1 && !k2)
					}
				}
				if masked {
					r.Func(fk(fn))
					lift(fn, cv.X, 0, c.pos(cv), "filter mask")
				}
				return
			}
			call, ok := in.(*ssa.Call)
			if !ok {
				return
			}
			f := core.CalleeOf(&call.Call)
			if f == nil || f.Pkg() == nil || f.Pkg().Path() != core.ModPath+"/server/store/types" || !strings.HasPrefix(f.Name(), "Is") {
				return
			}
			sig := f.Type().(*types.Signature)
			if sig.Recv() == nil || !isModeType(sig.Recv().Type()) {
				return
			}
			r.Func(fk(fn))
			lift(fn, call.Call.Args[0], 0, c.pos(call), f.Name())
		})
	}
	sort.Slice(sites, func(i, j int) bool {
		if sites[i].pred+sites[i].cls != sites[j].pred+sites[j].cls {
			return sites[i].pred+sites[i].cls < sites[j].pred+sites[j].cls
		}
		return sites[i].pos < sites[j].pos
	})
	count := map[string]int{}
	where := map[string][]string{}
	nInter := 0
	for _, s := range sites {
		if s.inter {
			nInter++
			r.OK("C07.1-effective-mode-is-intersection", fmt.Sprintf("%s() on want&given #%d", s.pred, nInter), s.pos, "receiver is an intersection of a want and a given value")
			continue
		}
		key := s.pred + "|" + s.cls
		count[key]++
		where[key] = append(where[key], fk(s.fn)+" "+s.pos)
	}
	var keys []string
	for k := range count {
		keys = append(keys, k)
	}
	sort.Strings(keys)
	for _, k := range keys {
		parts := strings.SplitN(k, "|", 2)
		construct := fmt.Sprintf("%s() on %s", parts[0], parts[1])
		row, ok := singleSided[k]
		if os.Getenv("VERIF_DUMP") != "" {
			fmt.Printf("DUMP\t%q: {%d, \"\"}, // %s\n", k, count[k], strings.Join(where[k], "; "))
		}
		switch {
		case !ok:
			r.Fail("C07.1-effective-mode-is-intersection", construct, strings.Join(where[k], "; "), "a permission decision is made on a value that is neither want&given nor a reviewed single-sided test")
		case count[k] > row.n:
			r.Fail("C07.1-effective-mode-is-intersection", construct, strings.Join(where[k], "; "), fmt.Sprintf("%d single-sided tests of this kind, %d were reviewed (%s): one of the listed sites decides on one side only", count[k], row.n, row.why))
		default:
			for i := 0; i < count[k]; i++ {
				r.OK("C07.1-effective-mode-is-intersection", fmt.Sprintf("%s #%d", construct, i+1), where[k][i], "reviewed single-sided test: "+row.why)
			}
		}
	}
	// filter helpers taking a mode parameter: every call site passes an intersection
	for _, name := range []string{"presOfflineFilter"} {
		fn := c.ssaFn("server", name)
		for _, cs := range c.callersOf(fn) {
			arg := cs.Site.Common().Args[0]
			ok := c.argIsIntersection(cs.Caller, arg, 0)
			r.Check(ok, "C07.1b-filter-callers-pass-intersection", fmt.Sprintf("%s -> %s", fk(cs.Caller), name), c.pos(cs.Site), "", "a presence filter is applied to a single-sided mode")
		}
	}
	// the pair helper returns want and given of one record (or the unions)
	gp := c.ssaMethod("server", "Topic", "getPerUserAcs")
	wantF, givenF := c.E().pudField("modeWant"), c.E().pudField("modeGiven")
	wu, gu := c.E().topicField("modeWantUnion"), c.E().topicField("modeGivenUnion")
	okPair := true
	pairStruct := false
	core.AllInstrs(gp, func(in ssa.Instruction) {
		ret, ok := in.(*ssa.Return)
		if !ok {
			return
		}
		if len(ret.Results) < 2 {
			// the pair is returned as one small struct: decided below, per field
			pairStruct = true
			return
		}
		// named results assigned in both branches merge pairwise: the two merges sit in one block and
		// are compared edge by edge
		var pairOK func(v0, v1 ssa.Value, d int) bool
		pairOK = func(v0, v1 ssa.Value, d int) bool {
			p0, isP0 := core.Strip(v0).(*ssa.Phi)
			p1, isP1 := core.Strip(v1).(*ssa.Phi)
			if isP0 && isP1 && p0.Block() == p1.Block() && len(p0.Edges) == len(p1.Edges) && d < 3 {
				for i := range p0.Edges {
					if !pairOK(p0.Edges[i], p1.Edges[i], d+1) {
						return false
					}
				}
				return len(p0.Edges) > 0
			}
			f0, b0 := core.LoadedField(core.Strip(v0))
			f1, b1 := core.LoadedField(core.Strip(v1))
			if f0 == wantF && f1 == givenF && sameValue(b0, b1, 0) {
				return true
			}
			return f0 == wu && f1 == gu
		}
		if !pairOK(ret.Results[0], ret.Results[1], 0) {
			okPair = false
		}
	})
	if pairStruct {
		// struct{want, given}: at every return field 0 is a want and field 1 a given of one record (or the unions)
		var w0, g0 [][]ssa.Value
		ok0 := core.EachReturnedFieldValue(gp, 0, 0, func(_ *ssa.Return, vals []ssa.Value, _ bool) { w0 = append(w0, vals) })
		ok1 := core.EachReturnedFieldValue(gp, 0, 1, func(_ *ssa.Return, vals []ssa.Value, _ bool) { g0 = append(g0, vals) })
		okPair = ok0 && ok1 && len(w0) == len(g0) && len(w0) > 0
		for i := range w0 {
			if !okPair || len(w0[i]) != 1 || len(g0[i]) != 1 {
				okPair = false
				break
			}
			f0, b0 := core.LoadedField(core.Strip(w0[i][0]))
			f1, b1 := core.LoadedField(core.Strip(g0[i][0]))
			if !((f0 == wantF && f1 == givenF && sameValue(b0, b1, 0)) || (f0 == wu && f1 == gu)) {
				okPair = false
			}
		}
	}
	r.Check(okPair, "C07.1c-pair-helper", "Topic.getPerUserAcs returns (want, given) of one record or the unions", c.P.Pos(gp.Pos()), "", "the want/given pair helper no longer returns the two sides of one record")
}

// otherUserHandler: the *Topic method with exactly one parsed mode cell, Subs.Update/Create sinks and
// no Topics.OwnerChange (changes another user's subscription).
func (c *Ctx) subHandlers() (self, other *ssa.Function) {
	ownerChange := c.E().storeIface("TopicsPersistenceInterface", "OwnerChange")
	subsCreate := c.E().storeIface("SubsPersistenceInterface", "Create")
	for _, fn := range c.P.ModFuncs {
		if !core.InPkg(fn, "server") || fn.Signature.Recv() == nil || !isPtrToNamed(fn.Signature.Recv().Type(), "Topic") {
			continue
		}
		// the handler may be split into phases: Subs.Create in the function, its literals or a helper
		// only it calls
		if len(c.requestedModes(fn)) != 1 || len(c.regionCallsTo(fn, subsCreate)) == 0 {
			continue
		}
		if c.callsDeep(fn, ownerChange, 2) {
			self = fn
		} else {
			other = fn
		}
	}
	if self == nil || other == nil {
		c.lost("self/other subscription handlers (Topic methods parsing a mode string and calling Subs.Create)")
	}
	return
}

func (c *Ctx) storeWriteSinks(fn *ssa.Function) []ssa.Instruction {
	var out []ssa.Instruction
	core.AllInstrs(fn, func(in ssa.Instruction) {
		if f, ok := c.isStoreCall(in); ok && isStoreWriteName(f.Name()) {
			out = append(out, in)
		}
	})
	return out
}

func (c *Ctx) checkOtherUserGuards() {
	r := c.R
	_, other := c.subHandlers()
	r.Func(fk(other))
	ld := c.requestedModes(other)[0]
	unset := c.konst("server/store/types", "ModeUnset")
	isSharer := c.E().modeMethod("IsSharer")
	isAdmin := c.E().modeMethod("IsAdmin")
	readonly := c.method("server", "Topic", "isReadOnly")
	var sinks []ssa.Instruction
	for _, f := range c.regionFuncsSorted(other) {
		sinks = append(sinks, c.storeWriteSinks(f)...)
	}
	r.Floor("C07.2-other-user-guards", 8)
	// effects also include cache writes
	perUser := c.E().topicField("perUser")
	c.regionInstrs(other, func(_ *ssa.Function, in ssa.Instruction) {
		if mu, ok := in.(*ssa.MapUpdate); ok && core.IsFieldLoad(perUser)(mu.Map) {
			sinks = append(sinks, in)
		}
	})
	var asChan *ssa.Parameter
	for _, p := range other.Params {
		if b, ok := p.Type().Underlying().(*types.Basic); ok && b.Kind() == types.Bool {
			asChan = p
		}
	}
	for _, sink := range sinks {
		what := describeCall(sink)
		if _, ok := sink.(*ssa.MapUpdate); ok {
			what = "perUser[..] = .."
		}
		construct := fk(other) + ": " + what
		ok1, c1 := core.GuardedBy(sink.Parent(), sink, core.BoolGuard("actor IsSharer", core.IsCallTo(isSharer, c.isEffMode()), true))
		r.Check(ok1 && c1[0] > 0, "C07.2-other-user-guards", construct+" / actor is sharer", c.pos(sink), "", "another user's subscription can be changed by an actor whose effective mode lacks S")
		ok2, _ := core.GuardedBy(sink.Parent(), sink,
			core.EqGuard("mode==Unset", ld, core.IsConstOf(unset), true),
			core.BoolGuard("actor IsAdmin", core.IsCallTo(isAdmin, c.isEffMode()), true))
		r.Check(ok2, "C07.2-other-user-guards", construct+" / explicit mode needs approver", c.pos(sink), "", "a sharer without A/O can set an explicit grant")
		ok3, c3 := core.GuardedBy(sink.Parent(), sink, core.BoolGuard("!isReadOnly", core.IsCallTo(readonly), false))
		r.Check(ok3 && c3[0] > 0, "C07.2-other-user-guards", construct+" / topic not read-only", c.pos(sink), "", "subscriptions of a suspended topic can be changed")
		if asChan != nil {
			ok4, c4 := core.GuardedBy(sink.Parent(), sink, core.BoolGuard("!asChan", func(v ssa.Value) bool {
				return core.Strip(v) == ssa.Value(asChan) || c.rootValue(v) == c.rootValue(asChan)
			}, false))
			r.Check(ok4 && c4[0] > 0, "C07.2-other-user-guards", construct+" / not addressed as channel", c.pos(sink), "", "channel addressing can be used to change another user's subscription")
		}
	}
}

func (c *Ctx) checkGrantRestored() {
	r := c.R
	self, _ := c.subHandlers()
	r.Func(fk(self))
	subsGet := c.E().storeIface("SubsPersistenceInterface", "Get")
	subGiven := c.field("server/store/types", "Subscription", "ModeGiven")
	pudGiven := c.E().pudField("modeGiven")
	r.Floor("C07.3-previous-grant-restored", 1)
	n := 0
	for _, ci := range c.regionCallsTo(self, subsGet) {
		call := ci.(*ssa.Call)
		args := core.CallArgs(&call.Call)
		k, ok := core.Strip(args[len(args)-1]).(*ssa.Const)
		if !ok || k.Value == nil || k.Value.Kind() != constant.Bool || !constant.BoolVal(k.Value) {
			continue // lookups that do not ask for deleted rows are other paths (channel readers)
		}
		n++
		construct := fk(self) + ": Subs.Get(.., keepDeleted=true)"
		found := core.NilGuard("sub!=nil", errResultOf(call, 0), false)
		// all tests of the lookup result (also through the phi that merges it with the channel lookup)
		isSub := func(v ssa.Value) bool { return core.Derives(v, errResultOf(call, 0), false) }
		found = core.NilGuard("sub!=nil", isSub, false)
		pe, cnt := core.PassEdges(self, found)
		if cnt[0] == 0 {
			r.Fail("C07.3-previous-grant-restored", construct, c.pos(call), "result of the lookup is not tested for nil: undecided")
			continue
		}
		isRestore := func(in ssa.Instruction) bool {
			st, ok := in.(*ssa.Store)
			if !ok {
				return false
			}
			f, _ := core.FieldOfAddr(st.Addr)
			return f == pudGiven && core.IsFieldLoad(subGiven)(st.Val)
		}
		isDefault := func(in ssa.Instruction) bool {
			st, ok := in.(*ssa.Store)
			if !ok {
				return false
			}
			f, _ := core.FieldOfAddr(st.Addr)
			return f == pudGiven && !core.IsFieldLoad(subGiven)(st.Val)
		}
		// only the first test after the lookup matters: start from the lookup, cut the sub==nil edges
		cut := core.FailEdges(self, found)
		_ = pe
		bad, w := core.PathAvoiding(self, call, isDefault, isRestore, cut)
		if bad {
			// the restore may sit in a helper / a method of the record that tests the lookup result
			// itself: walk on, entering helpers, with the result assumed to be present
			facts := core.NilFacts{core.ResultFact(call, 0): false}
			var hit ssa.Instruction
			var res core.NilWalkResult
			core.WalkDeep(2, nil, func() {
				res = core.NilWalkAfterWith(self, call, facts, cut, func(in ssa.Instruction) bool { return hit != nil || isRestore(in) || isDefault(in) }, func(in ssa.Instruction, _ core.NilFacts) {
					if hit == nil && isDefault(in) {
						hit = in
					}
				})
			})
			if !res.Overflow {
				bad, w = hit != nil, hit
			}
		}
		r.Check(!bad, "C07.3-previous-grant-restored", construct+": found => grant := stored ModeGiven before any default", c.pos(call),
			"", "with a previous (soft-deleted) subscription present the grant can be set to something other than the stored ModeGiven"+posOf(c, w)+": unsubscribe/resubscribe escapes a ban")
	}
	if n == 0 {
		n = c.checkGrantRestoredViaHelper(self, subsGet, subGiven, pudGiven)
	}
	if n == 0 {
		r.Fail("C07.3-previous-grant-restored", fk(self)+": Subs.Get(.., keepDeleted=true)", "-", "the self-subscription handler no longer looks up the soft-deleted subscription")
	}
}

// checkGrantRestoredViaHelper: the lookup of the soft-deleted subscription was extracted into a
// helper returning (subscription, previous grant, ...): inside the helper every return with a
// possibly non-nil subscription returns that subscription's ModeGiven; in the handler the first
// assignment of the grant after the call is the helper's mode result.
func (c *Ctx) checkGrantRestoredViaHelper(self *ssa.Function, subsGet *types.Func, subGiven, pudGiven *types.Var) int {
	r := c.R
	n := 0
	core.AllInstrs(self, func(in ssa.Instruction) {
		outer, ok := in.(*ssa.Call)
		if !ok {
			return
		}
		h := outer.Call.StaticCallee()
		if h == nil || h == self || !core.InModule(h) {
			return
		}
		for _, ci := range core.CallsTo(h, subsGet) {
			call := ci.(*ssa.Call)
			args := core.CallArgs(&call.Call)
			k, ok := core.Strip(args[len(args)-1]).(*ssa.Const)
			if !ok || k.Value == nil || k.Value.Kind() != constant.Bool || !constant.BoolVal(k.Value) {
				continue
			}
			// result indices of the helper: the subscription and the mode
			subIdx, modeIdx := -1, -1
			res := h.Signature.Results()
			for i := 0; i < res.Len(); i++ {
				if isPtrToNamed(res.At(i).Type(), "Subscription") {
					subIdx = i
				}
				if isModeType(res.At(i).Type()) {
					modeIdx = i
				}
			}
			if modeIdx < 0 {
				continue
			}
			n++
			construct := fk(self) + ": Subs.Get(.., keepDeleted=true) via " + fk(h)
			isSub := func(v ssa.Value) bool { return core.Derives(v, errResultOf(call, 0), false) }
			bad := false
			walk := core.NilWalk(h, nil, nil, nil, func(x ssa.Instruction, f core.NilFacts) {
				ret, ok := x.(*ssa.Return)
				if !ok {
					return
				}
				// is the looked-up subscription possibly non-nil here?
				foundPossible := true
				for v, isNil := range f {
					if isSub(v) && isNil {
						foundPossible = false
					}
				}
				if subIdx >= 0 && core.IsNil(ret.Results[subIdx]) {
					foundPossible = false
				}
				if ei := errIndex(h.Signature); ei >= 0 {
					if kn, nn := core.Nilness(ret.Results[ei], f); kn && !nn {
						return // error return
					}
				}
				if foundPossible && !core.IsFieldLoad(subGiven)(ret.Results[modeIdx]) {
					bad = true
				}
			})
			r.Check(!bad && !walk.Overflow, "C07.3-previous-grant-restored", construct+": found => helper returns the stored ModeGiven", c.pos(call), "",
				"with a previous (soft-deleted) subscription present the helper can return a grant other than the stored ModeGiven: unsubscribe/resubscribe escapes a ban")
			isRes := func(v ssa.Value) bool {
				ex, ok := core.Strip(v).(*ssa.Extract)
				return ok && ex.Tuple == ssa.Value(outer) && ex.Index == modeIdx
			}
			isRestore := func(x ssa.Instruction) bool {
				st, ok := x.(*ssa.Store)
				if !ok {
					return false
				}
				f, _ := core.FieldOfAddr(st.Addr)
				return f == pudGiven && core.Derives(st.Val, isRes, true)
			}
			isDefault := func(x ssa.Instruction) bool {
				st, ok := x.(*ssa.Store)
				if !ok {
					return false
				}
				f, _ := core.FieldOfAddr(st.Addr)
				return f == pudGiven && !core.Derives(st.Val, isRes, true)
			}
			found, w := core.PathAvoiding(self, outer, isDefault, isRestore, nil)
			hasRestore := false
			core.AllInstrs(self, func(x ssa.Instruction) {
				if isRestore(x) {
					hasRestore = true
				}
			})
			r.Check(!found && hasRestore, "C07.3-previous-grant-restored", construct+": grant := helper's result before any default", c.pos(outer), "",
				"after the lookup the grant can be set to something other than the looked-up previous grant"+posOf(c, w)+": unsubscribe/resubscribe escapes a ban")
		}
	})
	return n
}

func (c *Ctx) checkJoinBit() {
	r := c.R
	self, _ := c.subHandlers()
	subsCreate := c.E().storeIface("SubsPersistenceInterface", "Create")
	isJoiner := c.E().modeMethod("IsJoiner")
	pudGiven, pudWant := c.E().pudField("modeGiven"), c.E().pudField("modeWant")
	gJ := core.BoolGuard("grant.IsJoiner()", core.IsCallTo(isJoiner, core.IsFieldLoad(pudGiven)), true)
	gSelfBan := core.BoolGuard("!want.IsJoiner()", core.IsCallTo(isJoiner, core.IsFieldLoad(pudWant)), false)
	r.Floor("C07.4-join-bit", 2)
	for _, ci := range c.regionCallsTo(self, subsCreate) {
		ok, cnt := core.GuardedBy(ci.Parent(), ci.(ssa.Instruction), gJ)
		r.Check(ok && cnt[0] > 0, "C07.4-join-bit", fk(self)+": Subs.Create", c.pos(ci), "new subscription stored only if the grant has J", "a subscription can be created with a grant that lacks J")
	}
	// success returns (nil error) are behind grant.IsJoiner() or the self-ban edge
	ei := errIndex(self.Signature)
	core.AllInstrs(self, func(in ssa.Instruction) {
		ret, ok := in.(*ssa.Return)
		if !ok || !core.IsNil(ret.Results[ei]) {
			return
		}
		ok2, _ := core.GuardedBy(self, ret, gJ, gSelfBan)
		r.Check(ok2, "C07.4-join-bit", fk(self)+": success return #"+retOrdinal(self, ret), c.pos(ret), "success only if grant has J (or the user self-banned and was evicted)", "the self-subscription handler reports success for a user whose grant lacks J: the session gets attached")
	})
	// the caller attaches only after success
	addSession := c.method("server", "Topic", "addSession")
	for _, cs := range c.callersOf(self) {
		for _, as := range core.CallsTo(cs.Caller, addSession) {
			ok, _ := core.GuardedBy(cs.Caller, as.(ssa.Instruction), successGuard(cs.Site))
			r.Check(ok, "C07.4b-attach-after-success", fk(cs.Caller)+": addSession", c.pos(as), "behind err==nil of the self-subscription handler", "a session can be attached although the subscription handler failed")
		}
	}
}

func (c *Ctx) checkP2PMask() {
	r := c.R
	cp2p := c.konst("server/store/types", "ModeCP2P")
	appr := c.konst("server/store/types", "ModeApprove")
	n := 0
	for _, fn := range c.P.ModFuncs {
		if !core.InPkg(fn, "server") {
			continue
		}
		core.AllInstrs(fn, func(in ssa.Instruction) {
			b, ok := in.(*ssa.BinOp)
			if !ok || b.Op != token.OR || !isModeType(b.Type()) {
				return
			}
			isMask := func(x, y ssa.Value) bool {
				a, ok := core.Strip(x).(*ssa.BinOp)
				return ok && a.Op == token.AND && (core.IsConstOf(cp2p)(a.Y) || core.IsConstOf(cp2p)(a.X)) && core.IsConstOf(appr)(y)
			}
			// the mask passed in: `clip := func(requested, mask) { requested &= mask; ... |= ModeApprove }`
			// applied with ModeCP2P at a call site
			maskParam := func(x, y ssa.Value) *ssa.Parameter {
				a, ok := core.Strip(x).(*ssa.BinOp)
				if !ok || a.Op != token.AND || !core.IsConstOf(appr)(y) {
					return nil
				}
				if p, ok := core.Strip(a.Y).(*ssa.Parameter); ok {
					return p
				}
				if p, ok := core.Strip(a.X).(*ssa.Parameter); ok {
					return p
				}
				return nil
			}
			mp := maskParam(b.X, b.Y)
			if mp == nil {
				mp = maskParam(b.Y, b.X)
			}
			if mp != nil {
				idx := -1
				for i, q := range fn.Params {
					if q == mp {
						idx = i
					}
				}
				for _, cs := range c.callersOf(fn) {
					args := cs.Site.Common().Args
					if idx >= 0 && !cs.Site.Common().IsInvoke() && idx < len(args) && core.IsConstOf(cp2p)(args[idx]) {
						n++
						r.OK("C07.5-p2p-mask", fmt.Sprintf("%s: (x & mask) | ModeApprove applied with ModeCP2P #%d", fk(cs.Caller), n), c.pos(cs.Site), "")
						r.Func(fk(fn))
					}
				}
			}
			if isMask(b.X, b.Y) || isMask(b.Y, b.X) {
				n++
				r.OK("C07.5-p2p-mask", fmt.Sprintf("%s: (x & ModeCP2P) | ModeApprove #%d", fk(fn), n), c.pos(b), "")
				r.Func(fk(fn))
				// an extracted mask helper: each of its call sites is an application of the mask
				if ret := singleReturnOf(fn); ret != nil && len(ret.Results) == 1 && ret.Results[0] == ssa.Value(b) {
					for _, cs := range c.callersOf(fn) {
						n++
						r.OK("C07.5-p2p-mask", fmt.Sprintf("%s: mask helper %s applied #%d", fk(cs.Caller), fn.Name(), n), c.pos(cs.Site), "")
					}
				}
			}
		})
	}
	r.Floor("C07.5-p2p-mask", 8)
	// constant algebra
	want := constant.MakeInt64(0)
	for _, nme := range []string{"ModeJoin", "ModeRead", "ModeWrite", "ModePres", "ModeApprove"} {
		want = constant.BinaryOp(want, token.OR, c.konst("server/store/types", nme).Val())
	}
	r.Check(constant.Compare(cp2p.Val(), token.EQL, want), "C07.5b-p2p-mask-constant", "ModeCP2P == J|R|W|P|A", c.P.Pos(cp2p.Pos()), "", "the p2p mask admits bits beyond join/read/write/presence/approve or lacks one")
}

func (c *Ctx) checkSubscriberLimit() {
	r := c.R
	self, other := c.subHandlers()
	subsCreate := c.E().storeIface("SubsPersistenceInterface", "Create")
	subsCount := c.method("server", "Topic", "subsCount")
	maxF := c.globalStructField("server", "globals", "maxSubscriberCount")
	catF := c.E().topicField("cat")
	grp := c.konst("server/store/types", "TopicCatGrp")
	r.Floor("C07.6-subscriber-limit", 2)
	for _, fn := range []*ssa.Function{self, other} {
		var asChan *ssa.Parameter
		for _, p := range fn.Params {
			if b, ok := p.Type().Underlying().(*types.Basic); ok && b.Kind() == types.Bool {
				asChan = p
			}
		}
		for _, ci := range c.regionCallsTo(fn, subsCreate) {
			gs := []core.Guard{
				core.LessGuard("subsCount()<max", core.IsCallTo(subsCount), core.IsFieldLoad(maxF), true),
				core.EqGuard("cat!=Grp", core.IsFieldLoad(catF), core.IsConstOf(grp), false),
			}
			if asChan != nil {
				gs = append(gs, core.BoolGuard("asChan", func(v ssa.Value) bool {
					return core.Strip(v) == ssa.Value(asChan) || c.rootValue(v) == c.rootValue(asChan)
				}, true))
			}
			ok, cnt := core.GuardedBy(ci.Parent(), ci.(ssa.Instruction), gs...)
			r.Check(ok && cnt[0] > 0, "C07.6-subscriber-limit", fk(fn)+": Subs.Create", c.pos(ci), "group subscriptions are created only below the configured limit", "a group can get more subscribers than globals.maxSubscriberCount")
		}
	}
}

func (c *Ctx) checkSysAndSelfNames() {
	r := c.R
	self, _ := c.subHandlers()
	subsCreate := c.E().storeIface("SubsPersistenceInterface", "Create")
	catF := c.E().topicField("cat")
	sys := c.konst("server/store/types", "TopicCatSys")
	root := c.konst("server/auth", "LevelRoot")
	r.Floor("C07.7-sys-root-and-self-names", 2)
	for _, ci := range c.regionCallsTo(self, subsCreate) {
		gs := []core.Guard{
			core.EqGuard("cat!=Sys", core.IsFieldLoad(catF), core.IsConstOf(sys), false),
			core.EqGuard("asLvl==LevelRoot", func(v ssa.Value) bool {
				n, ok := v.Type().(*types.Named)
				return ok && n.Obj().Name() == "Level"
			}, core.IsConstOf(root), true),
		}
		// from the `cat == Sys` edge every path to the write passes `asLvl == LevelRoot`
		sysEdges := core.FailEdges(self, gs[0])
		rootEdges, cnt := core.PassEdges(self, gs[1])
		found, _ := core.PathFromEdgeAvoiding(self, sysEdges, func(in ssa.Instruction) bool { return in == ci.(ssa.Instruction) }, nil, rootEdges)
		r.Check(!found && len(sysEdges) > 0 && cnt[0] > 0, "C07.7-sys-root-and-self-names", fk(self)+": Subs.Create / sys requires root", c.pos(ci), "", "a non-root user can subscribe to the sys topic")
	}
	// expandTopicName: for "me"/"fnd" the routable name derives only from AsUser
	etn := c.ssaMethod("server", "Session", "expandTopicName")
	r.Func(fk(etn))
	asUser := c.field("server", "ClientComMessage", "AsUser")
	orig := c.field("server", "ClientComMessage", "Original")
	derivesFrom := func(v ssa.Value, f *types.Var) bool { return derivesThroughCalls(v, core.IsFieldLoad(f), 0) }
	nSelf := 0
	okAll := true
	for _, self := range []string{"me", "fnd"} {
		self := self
		// with msg.Original fixed to "me"/"fnd" every comparison of it with a constant is decided
		core.AssumeFn = func(a core.CondAtom) (bool, bool) {
			if a.Op != token.EQL {
				return false, false
			}
			var other ssa.Value
			if core.IsFieldLoad(orig)(a.X) {
				other = a.Y
			} else if core.IsFieldLoad(orig)(a.Y) {
				other = a.X
			}
			if other == nil {
				return false, false
			}
			kc, ok := core.Strip(other).(*ssa.Const)
			if !ok || kc.Value == nil || kc.Value.Kind() != constant.String {
				return false, false
			}
			return true, constant.StringVal(kc.Value) == self
		}
		seen := 0
		// evaluate a function's result #idx under the assumption; a result produced by an extracted
		// decision function is followed into that function (parameters substituted)
		var eval func(fn *ssa.Function, idx int, depth int)
		eval = func(fn *ssa.Function, idx int, depth int) {
			cut := core.AssumedCuts(fn)
			reach := core.ReachBlocks(fn, nil, cut)
			core.AllInstrs(fn, func(in ssa.Instruction) {
				ret, ok := in.(*ssa.Return)
				if !ok || !reach[ret.Block()] || idx >= len(ret.Results) {
					return
				}
				var vals []ssa.Value
				if phi, isPhi := ret.Results[idx].(*ssa.Phi); isPhi && phi.Block() == ret.Block() {
					for i, e := range phi.Edges {
						pred := phi.Block().Preds[i]
						edgeCut := false
						for si, su := range pred.Succs {
							if su == phi.Block() && cut[core.Edge{From: pred, Idx: si}] {
								edgeCut = true
							}
						}
						if reach[pred] && !edgeCut {
							vals = append(vals, e)
						}
					}
				} else {
					vals = append(vals, ret.Results[idx])
				}
				for _, v := range vals {
					// the result of a module function: decide inside it
					var call *ssa.Call
					ridx := 0
					switch x := v.(type) {
					case *ssa.Call:
						call = x
					case *ssa.Extract:
						if cc, ok := x.Tuple.(*ssa.Call); ok {
							call, ridx = cc, x.Index
						}
					}
					if call != nil && depth < 2 {
						if cal := call.Call.StaticCallee(); cal != nil && core.InPkg(cal, "server") && takesStrings(cal) {
							callee := call.Call.StaticCallee()
							saved := core.ParamSubst
							ns := map[ssa.Value]ssa.Value{}
							for k, v2 := range saved {
								ns[k] = v2
							}
							for i, p := range callee.Params {
								if i < len(call.Call.Args) {
									ns[p] = call.Call.Args[i]
								}
							}
							core.ParamSubst = ns
							eval(callee, ridx, depth+1)
							core.ParamSubst = saved
							continue
						}
					}
					if _, isConst := core.Strip(v).(*ssa.Const); isConst {
						continue // an error return's empty name: not influenced by anything
					}
					seen++
					if !derivesFrom(v, asUser) || derivesFrom(v, orig) {
						okAll = false
					}
				}
			})
		}
		eval(etn, 0, 0)
		core.AssumeFn = nil
		if seen > 0 {
			nSelf++
		}
	}
	r.Check(okAll && nSelf == 2, "C07.7-sys-root-and-self-names", fk(etn)+": me/fnd expand to names derived from the acting user only", c.P.Pos(etn.Pos()), "", "the routable name of 'me'/'fnd' can be influenced by client input other than the acting user")
}

// derivesThroughCalls: like Derives(any) but also through calls (receiver/arguments).
func derivesThroughCalls(v ssa.Value, src core.VPred, depth int) bool {
	if depth > 8 {
		return false
	}
	v = core.Strip(v)
	if src(v) {
		return true
	}
	switch x := v.(type) {
	case *ssa.Call:
		for _, a := range core.CallArgs(&x.Call) {
			if derivesThroughCalls(a, src, depth+1) {
				return true
			}
		}
	case *ssa.Phi:
		for _, e := range x.Edges {
			if derivesThroughCalls(e, src, depth+1) {
				return true
			}
		}
	case *ssa.Extract:
		return derivesThroughCalls(x.Tuple, src, depth+1)
	case *ssa.BinOp:
		return derivesThroughCalls(x.X, src, depth+1) || derivesThroughCalls(x.Y, src, depth+1)
	}
	return false
}

// origComparedWith: block b is reached through the true edge of `msg.Original == "<k>"`; returns k.
func origComparedWith(b *ssa.BasicBlock, orig *types.Var) string {
	for hops := 0; hops < 2 && b != nil; hops++ {
		if len(b.Preds) != 1 {
			return ""
		}
		p := b.Preds[0]
		if ifi, ok := p.Instrs[len(p.Instrs)-1].(*ssa.If); ok {
			a := core.NormCond(ifi.Cond)
			if a.Op == token.EQL {
				var k ssa.Value
				if core.IsFieldLoad(orig)(a.X) {
					k = a.Y
				} else if core.IsFieldLoad(orig)(a.Y) {
					k = a.X
				}
				if kc, ok := k.(*ssa.Const); ok && kc.Value != nil && kc.Value.Kind() == constant.String {
					idx := 0
					if a.Negated {
						idx = 1
					}
					if p.Succs[idx] == b {
						return constant.StringVal(kc.Value)
					}
				}
			}
			return ""
		}
		b = p
	}
	return ""
}

// argIsIntersection: the value is an intersection, a restricting constant, or a parameter that
// receives an intersection at every call site (depth 3).
func (c *Ctx) argIsIntersection(fn *ssa.Function, v ssa.Value, depth int) bool {
	if c.isEffMode()(v) || c.isEffModeSub()(v) || c.isIntersection(v, 0) || c.pairCall(v) {
		return true
	}
	v = core.Strip(v)
	if k, ok := v.(*ssa.Const); ok && k.Value != nil {
		for _, nm := range []string{"ModeInvalid", "ModeNone", "ModeUnset"} {
			if constant.Compare(constant.ToInt(k.Value), token.EQL, c.konst("server/store/types", nm).Val()) {
				return true
			}
		}
		return false
	}
	if phi, ok := v.(*ssa.Phi); ok {
		for _, e := range phi.Edges {
			if !c.argIsIntersection(fn, e, depth) {
				return false
			}
		}
		return true
	}
	p, ok := v.(*ssa.Parameter)
	if !ok || depth >= 3 {
		return false
	}
	idx := -1
	for i, q := range fn.Params {
		if q == p {
			idx = i
		}
	}
	callers := c.callersOf(fn)
	if idx < 0 || len(callers) == 0 {
		return false
	}
	for _, cs := range callers {
		args := cs.Site.Common().Args
		if idx >= len(args) || !c.argIsIntersection(cs.Caller, args[idx], depth+1) {
			return false
		}
	}
	return true
}

// singleReturnOf: the only Return instruction of fn, or nil.
func singleReturnOf(fn *ssa.Function) *ssa.Return {
	var out *ssa.Return
	n := 0
	core.AllInstrs(fn, func(in ssa.Instruction) {
		if r, ok := in.(*ssa.Return); ok {
			out = r
			n++
		}
	})
	if n != 1 {
		return nil
	}
	return out
}

// takesStrings: every parameter (after the receiver) is a string: a pure naming helper.
func takesStrings(fn *ssa.Function) bool {
	n := 0
	for i, p := range fn.Params {
		if i == 0 && fn.Signature.Recv() != nil {
			continue
		}
		b, ok := p.Type().Underlying().(*types.Basic)
		if !ok || b.Kind() != types.String {
			return false
		}
		n++
	}
	return n > 0
}
