package rules

import (
	"fmt"
	"go/types"

	"golang.org/x/tools/go/ssa"

	"verifchk/core"
)

// DebugSlices lists slice expressions with a constant bound on slice/string values.
func DebugSlices(p *core.Prog) {
	for _, fn := range p.ModFuncs {
		core.AllInstrs(fn, func(in ssa.Instruction) {
			sl, ok := in.(*ssa.Slice)
			if !ok {
				return
			}
			switch sl.X.Type().Underlying().(type) {
			case *types.Slice, *types.Basic:
			default:
				return
			}
			var hi, lo int64 = -1, -1
			if sl.High != nil {
				if k, ok := core.ConstIntValue(sl.High); ok {
					hi = k
				}
			}
			if sl.Low != nil {
				if k, ok := core.ConstIntValue(sl.Low); ok {
					lo = k
				}
			}
			if hi <= 0 && lo <= 0 {
				return
			}
			fmt.Printf("%s %s lo=%d hi=%d x=%s\n", p.Pos(core.InstrPos(sl)), core.FuncKey(fn), lo, hi, sl.X.Name())
		})
	}
}

// DebugPanics lists explicit panics and fatal log calls in module functions with their goroutine roots.
func DebugPanics(p *core.Prog) {
	c := &Ctx{P: p}
	ri := c.roots()
	for _, fn := range p.ModFuncs {
		core.AllInstrs(fn, func(in ssa.Instruction) {
			what := ""
			switch x := in.(type) {
			case *ssa.Panic:
				what = "panic"
			case ssa.CallInstruction:
				if f := core.CalleeOf(x.Common()); f != nil && f.Pkg() != nil && f.Pkg().Path() == "log" {
					switch f.Name() {
					case "Panic", "Panicf", "Panicln", "Fatal", "Fatalf", "Fatalln":
						what = "log." + f.Name()
					}
				}
			}
			if what == "" {
				return
			}
			fmt.Printf("%s %s %s roots=%v\n", p.Pos(core.InstrPos(in)), core.FuncKey(fn), what, rootNames(ri.of(fn)))
		})
	}
}

// DebugModes lists AccessMode predicate call sites in package server with receiver classes.
func DebugModes(p *core.Prog) {
	c := &Ctx{P: p}
	for _, fn := range p.ModFuncs {
		if !core.InPkg(fn, "server") {
			continue
		}
		core.AllInstrs(fn, func(in ssa.Instruction) {
			call, ok := in.(*ssa.Call)
			if !ok {
				return
			}
			f := core.CalleeOf(&call.Call)
			if f == nil || f.Pkg() == nil || f.Pkg().Path() != core.ModPath+"/server/store/types" {
				return
			}
			sig := f.Type().(*types.Signature)
			if sig.Recv() == nil {
				return
			}
			if n, ok := sig.Recv().Type().(*types.Named); !ok || n.Obj().Name() != "AccessMode" {
				return
			}
			if len(f.Name()) < 3 || f.Name()[:2] != "Is" {
				return
			}
			fmt.Printf("%s %s %s recv=%s\n", p.Pos(core.InstrPos(in)), core.FuncKey(fn), f.Name(), c.modeRecvClass(call.Call.Args[0]))
		})
	}
}
