package rules

func (c *Ctx) checkReplyObligation() {}
func (c *Ctx) checkPanicCensus()     {}
