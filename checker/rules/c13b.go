package rules

import (
	"fmt"
	"go/token"
	"go/types"
	"os"
	"sort"
	"strings"

	"golang.org/x/tools/go/ssa"

	"verifchk/core"
)

// ---------------------------------------------------------------------------------------------
// (3) reply obligation

type replyAnalysis struct {
	c           *Ctx
	handoff     []*types.Var          // channel fields whose receivers owe the reply
	memo        map[*ssa.Function]int // 0 unknown, 1 in progress, 2 always replies, 3 not
	errMemo     map[*ssa.Function]int
	cutMemo     map[*ssa.Function]map[core.Edge]bool
	witness     map[*ssa.Function]ssa.Instruction
	queueOut    []*types.Func
	routeMaster *types.Func
	active      map[*ssa.Function]bool
	initExempt  bool
}

func (c *Ctx) newReplyAnalysis() *replyAnalysis {
	ra := &replyAnalysis{c: c, memo: map[*ssa.Function]int{}, witness: map[*ssa.Function]ssa.Instruction{}, errMemo: map[*ssa.Function]int{}, cutMemo: map[*ssa.Function]map[core.Edge]bool{}, active: map[*ssa.Function]bool{}}
	for _, f := range [][2]string{{"Hub", "join"}, {"Hub", "routeCli"}, {"Hub", "meta"}, {"Hub", "unreg"},
		{"Subscription", "broadcast"}, {"Subscription", "meta"}, {"Subscription", "done"}, {"Topic", "reg"}, {"Topic", "unreg"}, {"Topic", "meta"}, {"Topic", "clientMsg"}} {
		ra.handoff = append(ra.handoff, c.field("server", f[0], f[1]))
	}
	ra.routeMaster = c.method("server", "Cluster", "routeToTopicMaster")
	ra.queueOut = []*types.Func{c.method("server", "Session", "queueOut"), c.method("server", "Session", "queueOutBytes")}
	return ra
}

func (ra *replyAnalysis) isHandoffChan(v ssa.Value) bool {
	if _, isPhi := v.(*ssa.Phi); isPhi {
		return allChanChoices(v, ra.isHandoffChan)
	}
	f, _ := core.LoadedField(core.Strip(v))
	if f == nil {
		return false
	}
	for _, h := range ra.handoff {
		if h == f {
			return true
		}
	}
	return false
}

// isReplyInstr: the instruction itself discharges the obligation.
func (ra *replyAnalysis) isReplyInstr(in ssa.Instruction) bool {
	switch x := in.(type) {
	case *ssa.Send:
		return ra.isHandoffChan(x.Chan)
	case ssa.CallInstruction:
		if _, isDefer := in.(*ssa.Defer); isDefer {
			return false
		}
		f := core.CalleeOf(x.Common())
		for _, q := range ra.queueOut {
			if f == q {
				return true
			}
		}
		if f == ra.routeMaster {
			// request forwarded to the master node of a proxied topic (the caller replies when forwarding fails)
			return true
		}
		if cal := x.Common().StaticCallee(); cal != nil && cal.Blocks != nil && core.InModule(cal) {
			if ra.always(cal) {
				return true
			}
			// with the call's arguments in place of the parameters (a channel passed to a helper or
			// to a function literal) and the captured variables bound
			if _, isCall := in.(*ssa.Call); isCall && !ra.active[cal] && (len(cal.Params) > 0 || len(cal.FreeVars) > 0) {
				ra.active[cal] = true
				defer delete(ra.active, cal)
				saved := core.ParamSubst
				ns := map[ssa.Value]ssa.Value{}
				for k, v := range saved {
					ns[k] = v
				}
				for i, p := range cal.Params {
					if i < len(x.Common().Args) {
						ns[p] = x.Common().Args[i]
					}
				}
				if mc, ok := x.Common().Value.(*ssa.MakeClosure); ok {
					for i, fv := range cal.FreeVars {
						if i < len(mc.Bindings) {
							ns[fv] = mc.Bindings[i]
						}
					}
				}
				core.ParamSubst = ns
				delete(ra.cutMemo, cal)
				cut := ra.cuts(cal)
				found, _ := core.PathAvoiding(cal, nil, core.IsReturn, ra.isReplyInstr, cut)
				delete(ra.cutMemo, cal)
				core.ParamSubst = saved
				return !found
			}
			return false
		}
	}
	return false
}

// replyCut: edges on which a non-blocking select chose a hand-off send.
func (ra *replyAnalysis) replyCut(fn *ssa.Function) map[core.Edge]bool {
	cut, _ := core.PassEdges(fn, selectSendGuard("hand-off chosen", ra.isHandoffChan))
	return cut
}

// always: every path from fn's entry to a return passes a reply or a hand-off.
func (ra *replyAnalysis) always(fn *ssa.Function) bool {
	switch ra.memo[fn] {
	case 1:
		return false
	case 2:
		return true
	case 3:
		return false
	}
	ra.memo[fn] = 1
	cut := ra.cuts(fn)
	found, w := core.PathAvoiding(fn, nil, core.IsReturn, ra.isReplyInstr, cut)
	if found {
		// confirmed on the interprocedural, nil-sensitive walk: replies made inside a helper or a
		// function literal (also a deferred one) on some of its paths only
		if f2, w2, over := core.PathAvoidingDeep(fn, nil, nil, core.IsReturn, ra.isReplyInstr, ra.regionCuts(fn, nil)); !over {
			found, w = f2, w2
		}
	}
	if found {
		ra.memo[fn] = 3
		ra.witness[fn] = w
		return false
	}
	ra.memo[fn] = 2
	return true
}

// regionCuts: the cuts of fn, of its function literals and of the helpers only it calls; extra adds
// rule-specific cuts per function.
func (ra *replyAnalysis) regionCuts(fn *ssa.Function, extra func(f *ssa.Function) map[core.Edge]bool) map[core.Edge]bool {
	out := map[core.Edge]bool{}
	for f := range ra.c.regionOf(fn) {
		for e := range ra.cuts(f) {
			out[e] = true
		}
		if extra != nil {
			for e := range extra(f) {
				out[e] = true
			}
		}
	}
	return out
}

// cuts: edges on which the obligation is already discharged or does not apply: a hand-off
// chosen by a non-blocking select; a store failure (not this rule's business); the error edge of
// a callee that replies itself before returning an error; internal requests (join without a
// {sub} packet: the sys topic bootstrap).
func (ra *replyAnalysis) cuts(fn *ssa.Function) map[core.Edge]bool {
	if c, ok := ra.cutMemo[fn]; ok {
		return c
	}
	cut := ra.replyCut(fn)
	for e := range ra.c.storeFailEdges(fn) {
		cut[e] = true
	}
	core.AllInstrs(fn, func(in ssa.Instruction) {
		call, ok := in.(*ssa.Call)
		if !ok {
			return
		}
		cal := call.Call.StaticCallee()
		if cal == nil || cal.Blocks == nil || errIndex(cal.Signature) < 0 || !core.InPkg(cal, "server") {
			return
		}
		if ra.repliesOnError(cal) {
			for e := range core.FailEdges(fn, successGuard(call)) {
				cut[e] = true
			}
		}
	})
	// a merged test: `var err error; if a { x, err = f() } else { x, err = g() }; if err != nil { return err }`
	// where f and g both reply on their error paths
	repliesErr := func(v ssa.Value) bool {
		if k, ok := v.(*ssa.Const); ok && k.Value == nil {
			return true
		}
		ex, ok := v.(*ssa.Extract)
		if !ok {
			return false
		}
		call, ok := ex.Tuple.(*ssa.Call)
		if !ok {
			return false
		}
		cal := call.Call.StaticCallee()
		return cal != nil && cal.Blocks != nil && core.InPkg(cal, "server") && errIndex(cal.Signature) == ex.Index && ra.repliesOnError(cal)
	}
	for _, b := range fn.Blocks {
		if len(b.Instrs) == 0 {
			continue
		}
		ifi, ok := b.Instrs[len(b.Instrs)-1].(*ssa.If)
		if !ok {
			continue
		}
		a := core.NormCond(ifi.Cond)
		if a.Op != token.EQL || !core.IsNil(a.Y) {
			continue
		}
		phi, ok := core.Strip(a.X).(*ssa.Phi)
		if !ok {
			continue
		}
		all := len(phi.Edges) > 0
		for _, e := range phi.Edges {
			if !repliesErr(e) {
				all = false
			}
		}
		if !all {
			continue
		}
		// the edge on which the merged error is non-nil
		idx := 1
		if a.Negated {
			idx = 0
		}
		cut[core.Edge{From: b, Idx: idx}] = true
	}
	subF := ra.c.field("server", "ClientComMessage", "Sub")
	pe, _ := core.PassEdges(fn, core.NilGuard("msg.Sub==nil (internal join)", core.IsFieldLoad(subF), true))
	for e := range pe {
		cut[e] = true
	}
	if ra.initExempt {
		// a request the server made up itself (ClientComMessage.init false: eviction, account deletion)
		// is owed no reply
		initF := ra.c.field("server", "ClientComMessage", "init")
		pe2, _ := core.PassEdges(fn, core.BoolGuard("!msg.init (server-originated)", core.IsFieldLoad(initF), false))
		for e := range pe2 {
			cut[e] = true
		}
	}
	ra.cutMemo[fn] = cut
	return cut
}

// repliesOnError: every path to a return with a possibly non-nil error passes a reply.
func (ra *replyAnalysis) repliesOnError(fn *ssa.Function) bool {
	switch ra.errMemo[fn] {
	case 1:
		return false
	case 2:
		return true
	case 3:
		return false
	}
	ra.errMemo[fn] = 1
	ei := errIndex(fn.Signature)
	isErrRet := func(in ssa.Instruction) bool {
		ret, ok := in.(*ssa.Return)
		return ok && !core.IsNil(ret.Results[ei])
	}
	// does the function return errors at all?
	any := false
	core.AllInstrs(fn, func(in ssa.Instruction) {
		if isErrRet(in) {
			any = true
		}
	})
	if !any {
		ra.errMemo[fn] = 3
		return false
	}
	found, _ := core.PathAvoiding(fn, nil, isErrRet, ra.isReplyInstr, ra.cutsNoSelf(fn))
	if found {
		ra.errMemo[fn] = 3
		return false
	}
	ra.errMemo[fn] = 2
	return true
}

func (ra *replyAnalysis) cutsNoSelf(fn *ssa.Function) map[core.Edge]bool {
	return ra.cuts(fn)
}

// storeFailEdges: the err != nil edges of calls on the store persistence interfaces.
func (c *Ctx) storeFailEdges(fn *ssa.Function) map[core.Edge]bool {
	out := map[core.Edge]bool{}
	core.AllInstrs(fn, func(in ssa.Instruction) {
		call, ok := in.(*ssa.Call)
		if !ok {
			return
		}
		if _, isStore := c.isStoreCall(call); !isStore {
			return
		}
		if errIndex(call.Call.Signature()) < 0 {
			return
		}
		for e := range core.FailEdges(fn, successGuard(call)) {
			out[e] = true
		}
	})
	// a merged test: `err := store.A(); if err == nil { err = store.B() }; if err != nil {...}` -
	// the tested value is a phi all of whose non-nil leaves are store-call errors
	isStoreErr := func(v ssa.Value) bool {
		if k, ok := v.(*ssa.Const); ok && k.Value == nil {
			return true
		}
		var call *ssa.Call
		switch x := v.(type) {
		case *ssa.Call:
			call = x
		case *ssa.Extract:
			call, _ = x.Tuple.(*ssa.Call)
		}
		if call == nil {
			return false
		}
		_, isStore := c.isStoreCall(call)
		return isStore
	}
	for _, b := range fn.Blocks {
		ifi, ok := b.Instrs[len(b.Instrs)-1].(*ssa.If)
		if !ok {
			continue
		}
		a := core.NormCond(ifi.Cond)
		if a.Op != token.EQL || !(core.IsNil(a.X) || core.IsNil(a.Y)) {
			continue
		}
		v := a.X
		if core.IsNil(a.X) {
			v = a.Y
		}
		if _, isPhi := v.(*ssa.Phi); !isPhi || !isErrorType(v.Type()) {
			continue
		}
		if !core.Derives(v, isStoreErr, true) || !core.Derives(v, func(x ssa.Value) bool {
			_, isK := x.(*ssa.Const)
			return !isK && isStoreErr(x)
		}, false) {
			continue
		}
		// the non-nil edge: atom `v == nil` is false there
		idx := 1
		if a.Negated {
			idx = 0
		}
		out[core.Edge{From: b, Idx: idx}] = true
	}
	return out
}

func isErrorType(t types.Type) bool {
	return types.Identical(t, types.Universe.Lookup("error").Type())
}

func (c *Ctx) checkReplyObligation() {
	r := c.R
	_, entries, n := c.dispatchTable()
	r.Floor("C13.3-reply-obligation", 9)
	if n != 1 {
		r.Fail("C13.3-reply-obligation", "session dispatcher", "-", "dispatcher shape not recognised: undecided")
		return
	}
	ra := c.newReplyAnalysis()
	doneWrapper := map[*ssa.Function]bool{}
	sort.Slice(entries, func(i, j int) bool { return entries[i].Kind < entries[j].Kind })
	for _, e := range entries {
		if !e.OK {
			r.Fail("C13.3-reply-obligation", "dispatcher case "+e.Kind, e.Pos, "handler not decodable: undecided")
			continue
		}
		if e.Kind == "Note" {
			continue // notes are never answered
		}
		h := boundTarget(c, e.Handler)
		if h == nil {
			r.Fail("C13.3-reply-obligation", "handler of "+e.Kind, e.Pos, "bound method not resolvable")
			continue
		}
		r.Func(fk(h))
		ok := ra.always(h)
		detail := ""
		if !ok {
			detail = "a path from entry to return at " + c.pos(ra.witness[h]) + " passes neither a reply (queueOut) nor a hand-off to a consumer that owes one"
			if culprit := ra.firstNonReplyingCallee(h); culprit != "" {
				detail += "; " + culprit
			}
		}
		r.Check(ok, "C13.3-reply-obligation", fmt.Sprintf("%s: every path replies or hands the {%s} on", fk(h), strings.ToLower(e.Kind)), c.P.Pos(h.Pos()),
			"all paths discharge the reply obligation", detail)
		// the wrappers reply on their refusal edge
		for _, inner := range e.Inners {
			if doneWrapper[inner] {
				continue
			}
			doneWrapper[inner] = true
			// dynamic handler call counts as reply (the wrapped handler is checked above)
			isDyn := func(in ssa.Instruction) bool {
				call, ok := in.(*ssa.Call)
				if !ok || call.Call.IsInvoke() || call.Call.StaticCallee() != nil {
					return false
				}
				_, isB := call.Call.Value.(*ssa.Builtin)
				return !isB
			}
			found, _ := core.PathAvoiding(inner, nil, core.IsReturn, func(in ssa.Instruction) bool { return isDyn(in) || ra.isReplyInstr(in) }, nil)
			r.Check(!found, "C13.3b-guard-refusal-replies", fk(inner)+": refusal edge replies", c.P.Pos(inner.Pos()), "", "a state guard refuses a request without replying")
		}
	}
	c.checkConsumers(ra)
	if os.Getenv("VERIF_DEBUG") != "" {
		for fn, st := range ra.memo {
			if st == 3 && takesRequest(fn) {
				fmt.Printf("DEBUG silent: %s witness %s\n", fk(fn), c.pos(ra.witness[fn]))
			}
		}
	}
}

// checkConsumers: one level down - the goroutine loops that receive requests from the hand-off
// channels must, for each received request, reply or hand it further on before taking the next one.
func (c *Ctx) checkConsumers(ra *replyAnalysis) {
	r := c.R
	type chanSpec struct {
		typ, field string
		// noteField: requests for which silence is allowed are recognised by this non-nil field
	}
	// Topic.meta is not listed: its handlers reply per bit of MetaWhat, whose non-emptiness is a
	// value-level fact established at the session (not decided here).
	specs := []chanSpec{{"Hub", "join"}, {"Hub", "meta"}, {"Hub", "routeCli"}, {"Topic", "reg"}}
	// census backing an exception: only the {get} and {set} session handlers send on Hub.meta, so
	// a request taken off Hub.meta has Get or Set non-nil
	metaF := c.field("server", "Hub", "meta")
	getF, setF := c.field("server", "ClientComMessage", "Get"), c.field("server", "ClientComMessage", "Set")
	onlyGetSet := true
	nSenders := 0
	for _, fn := range c.P.ModFuncs {
		if !core.InPkg(fn, "server") {
			continue
		}
		if len(chanSends(fn, core.IsFieldLoad(metaF))) > 0 {
			nSenders++
			if !(c.readsField(fn, getF) || c.readsField(fn, setF)) {
				onlyGetSet = false
			}
		}
	}
	r.Check(onlyGetSet && nSenders >= 2, "C13.3d-hub-meta-senders", "every sender on Hub.meta is a {get} or {set} handler", "-", fmt.Sprintf("%d sending functions", nSenders), "a function that handles neither {get} nor {set} sends on Hub.meta")
	noteF := c.field("server", "ClientComMessage", "Note")
	r.Floor("C13.3c-consumer-replies", 5)
	for _, sp := range specs {
		fld := c.field("server", sp.typ, sp.field)
		n := 0
		for _, fn := range c.P.ModFuncs {
			if !core.InPkg(fn, "server") {
				continue
			}
			core.AllInstrs(fn, func(in ssa.Instruction) {
				sel, ok := in.(*ssa.Select)
				if !ok || !sel.Blocking {
					return
				}
				for i, st := range sel.States {
					if st.Dir != types.RecvOnly || !core.IsFieldLoad(fld)(st.Chan) {
						continue
					}
					n++
					r.Func(fk(fn))
					edges := selectCaseEdges(sel, i)
					cut := map[core.Edge]bool{}
					for e := range ra.cuts(fn) {
						cut[e] = true
					}
					// {note} requests are never answered: cut the edges on which msg.Note != nil
					gNote := core.NilGuard("msg.Note!=nil", core.IsFieldLoad(noteF), false)
					pn, _ := core.PassEdges(fn, gNote)
					for e := range pn {
						cut[e] = true
					}
					if sp.field == "meta" && onlyGetSet {
						// exception backed by the census above: Get==nil && Set==nil is infeasible
						ps, _ := core.PassEdges(fn, core.NilGuard("msg.Set==nil", core.IsFieldLoad(setF), true))
						for e := range ps {
							cut[e] = true
						}
					}
					target := func(x ssa.Instruction) bool { return x == ssa.Instruction(sel) || core.IsReturn(x) }
					isReply := func(x ssa.Instruction) bool {
						if g, ok := x.(*ssa.Go); ok {
							if cal := g.Common().StaticCallee(); cal != nil && cal.Blocks != nil {
								return ra.always(cal)
							}
						}
						return ra.isReplyInstr(x)
					}
					found, _ := pathFromEdgeAvoidingNil(fn, edges, target, isReply, cut)
					if found {
						extra := func(f *ssa.Function) map[core.Edge]bool {
							out, _ := core.PassEdges(f, gNote)
							if sp.field == "meta" && onlyGetSet {
								ps, _ := core.PassEdges(f, core.NilGuard("msg.Set==nil", core.IsFieldLoad(setF), true))
								for e := range ps {
									out[e] = true
								}
							}
							return out
						}
						if f2, _, over := core.PathAvoidingDeep(fn, nil, edges, target, isReply, ra.regionCuts(fn, extra)); !over {
							found = f2
						}
					}
					construct := fmt.Sprintf("%s: request received from %s.%s is answered or handed on before the next one", fk(fn), sp.typ, sp.field)
					detail := ""
					if found {
						detail = "some path from taking a request off " + sp.typ + "." + sp.field + " back to the select passes neither a reply nor a hand-off"
						if cul := ra.firstNonReplyingCallee(fn); cul != "" {
							detail += "; " + cul
						}
					}
					r.Check(!found, "C13.3c-consumer-replies", construct, c.pos(sel), "", detail)
				}
			})
		}
		if n == 0 {
			r.Fail("C13.3c-consumer-replies", "consumer of "+sp.typ+"."+sp.field, "-", "no select-receive on this channel found: undecided")
		}
	}
}

func (ra *replyAnalysis) firstNonReplyingCallee(fn *ssa.Function) string {
	var names []string
	core.AllInstrs(fn, func(in ssa.Instruction) {
		ci, ok := in.(ssa.CallInstruction)
		if !ok {
			return
		}
		if cal := ci.Common().StaticCallee(); cal != nil && ra.memo[cal] == 3 && takesRequest(cal) {
			names = append(names, fmt.Sprintf("callee %s has a silent path ending at %s", fk(cal), ra.c.pos(ra.witness[cal])))
		}
	})
	if len(names) > 0 {
		return names[0]
	}
	return ""
}

// reviewedPanics: explicit panic / log.Panic / log.Fatal sites that can run on a goroutine other
// than start-up, reviewed by reading (function -> number of sites, reason). A site in a function
// that is not listed, or more sites than listed, is reported.
var reviewedPanics = map[string]struct {
	n   int
	why string
}{
	"(*server.Cluster).TopicMaster":                {1, "inter-node session update for a topic without a session-update channel: cluster protocol invariant"},
	"(*server.ClusterNode).callAsync":              {1, "programming error assertion: unbuffered done channel"},
	"(*server.Session).clusterWriteLoop":           {1, "default arm over the closed set of proxy request types"},
	"(*server.SessionStore).NewSession":            {2, "duplicate session id (random 64-bit) / unknown connection type: assertions"},
	"(*server.Topic).fndGetPublic":                 {2, "category/type assertions on the fnd topic's own state"},
	"(*server.Topic).fndSetPublic":                 {2, "category/type assertions on the fnd topic's own state"},
	"(*server.Topic).fndRemovePublic":              {2, "category/type assertions on the fnd topic's own state"},
	"(*server.Topic).handleClientMsg":              {1, "default arm: only {pub} and {note} are ever sent on Topic.clientMsg (session side decided by C03/C09 rules)"},
	"(*server.Topic).handleServerMsg":              {1, "default arm over server-generated message kinds"},
	"(*server.Topic).handleLeaveRequest":           {1, "leave request without a resolvable user from a non-cluster session: assertion"},
	"(*server.Topic).handleSessionUpdate":          {1, "user-agent update routed to a non-me topic: assertion"},
	"(*server.Topic).original":                     {1, "FINDING D16: p2p name rendering panics for a non-participant; a root session acting on behalf of a user who is not a participant of the p2p topic reaches it through the denial reply of a {pub} (probe: /verif/probes/d16_p2p_original_panic_test.go)"},
	"(*server.Topic).p2pOtherUser":                 {2, "p2p topic with other than two subscribers / wrong category: assertion"},
	"(*server.Topic).procPresReq":                  {1, "default arm over server-generated presence commands"},
	"(*server.Topic).proxyCtrlBroadcast":           {1, "eviction notice from the master without uid: cluster protocol invariant"},
	"(*server.Topic).replyLeaveUnsub":              {1, "zero user id: checked by the dispatcher's user guard (C11)"},
	"(*server.boundedWaitGroup).Done":              {2, "more Done than Add: the pairing is decided by C14"},
	"(*server/concurrency.GoRoutinePool).Schedule": {1, "schedule on a stopped pool: shutdown only"},
	"(*server/concurrency.GoRoutinePool).worker":   {1, "assertion"},
	"server.getDefaultAccess":                      {1, "default arm over topic categories"},
	"server.pluginActionToCrud":                    {1, "default arm over plugin actions"},
	"server.statsUpdater":                          {2, "stats registry assertions"},
	"server/store/types.GetTopicCat":               {1, "partial function: every call site decided by C13.1"},
}

func (c *Ctx) checkPanicCensus() {
	r := c.R
	ri := c.roots()
	count := map[string]int{}
	first := map[string]ssa.Instruction{}
	for _, fn := range c.P.ModFuncs {
		if strings.HasPrefix(core.FuncKey(fn), "pbx") {
			continue
		}
		core.AllInstrs(fn, func(in ssa.Instruction) {
			is := false
			switch x := in.(type) {
			case *ssa.Panic:
				is = x.Pos().IsValid() // go/ssa's own "blocking select matched no case" panics have no position
			case ssa.CallInstruction:
				if f := core.CalleeOf(x.Common()); f != nil && f.Pkg() != nil && f.Pkg().Path() == "log" {
					switch f.Name() {
					case "Panic", "Panicf", "Panicln", "Fatal", "Fatalf", "Fatalln":
						is = true
					}
				}
			}
			if !is {
				return
			}
			// start-up only?
			startup := true
			for rt := range ri.of(fn) {
				n := rt.Name()
				if !(n == "main" || n == "init" || strings.HasPrefix(n, "init#")) {
					startup = false
				}
			}
			if startup {
				return
			}
			k := fk(core.TopFunc(fn))
			count[k]++
			if first[k] == nil {
				first[k] = in
			}
		})
	}
	r.Floor("C13.5-panic-census", 15)
	var ks []string
	for k := range count {
		ks = append(ks, k)
	}
	sort.Strings(ks)
	// sites that moved between functions (an extracted helper, a merged handler) are not new sites:
	// the surplus over the reviewed table is compared with what disappeared from reviewed functions
	surplus, deficit := 0, 0
	for _, k := range ks {
		if row, ok := reviewedPanics[k]; ok {
			if count[k] > row.n {
				surplus += count[k] - row.n
			}
		} else if !isInitClosure(k) {
			surplus += count[k]
		}
	}
	for k, row := range reviewedPanics {
		if count[k] < row.n {
			deficit += row.n - count[k]
		}
	}
	moved := surplus > 0 && surplus <= deficit
	for _, k := range ks {
		row, ok := reviewedPanics[k]
		construct := k + ": explicit panic/fatal sites"
		switch {
		case (!ok && !isInitClosure(k) || ok && count[k] > row.n) && moved:
			r.OK("C13.5-panic-census", construct+" [moved]", c.pos(first[k]), fmt.Sprintf("%d site(s); the module-wide number of reviewed sites did not grow (%d moved, %d disappeared from reviewed functions)", count[k], surplus, deficit))
		case !ok && isInitClosure(k):
			r.OK("C13.5-panic-census", construct+" [plugin/worker start-up closure]", c.pos(first[k]), "goroutine body started during initialisation; panic is go/ssa's select fallthrough or an init assertion")
		case !ok:
			r.Fail("C13.5-panic-census", construct, c.pos(first[k]), fmt.Sprintf("%d explicit panic/fatal site(s) in a function that can run on a serving goroutine and is not in the reviewed table", count[k]))
		case count[k] > row.n:
			r.Fail("C13.5-panic-census", construct, c.pos(first[k]), fmt.Sprintf("%d sites, reviewed table lists %d: a new explicit panic was added", count[k], row.n))
		case strings.HasPrefix(row.why, "FINDING"):
			r.Fail("C13.5-panic-census", construct, c.pos(first[k]), row.why)
		default:
			r.OK("C13.5-panic-census", construct, c.pos(first[k]), fmt.Sprintf("%d site(s), reviewed: %s", count[k], row.why))
		}
	}
}

func isInitClosure(k string) bool {
	return strings.Contains(k, ".Init$") || strings.Contains(k, "$1") && (strings.Contains(k, "garbageCollectUsers") || strings.Contains(k, "largeFileRunGarbageCollection"))
}

func takesRequest(fn *ssa.Function) bool {
	if fn.Signature.Results().Len() == 1 {
		if pt, ok := fn.Signature.Results().At(0).Type().(*types.Pointer); ok {
			if n, ok := pt.Elem().(*types.Named); ok && n.Obj().Name() == "ServerComMessage" {
				return false // reply constructor
			}
		}
	}
	for _, p := range fn.Params {
		if pt, ok := p.Type().(*types.Pointer); ok {
			if n, ok := pt.Elem().(*types.Named); ok && n.Obj().Name() == "ClientComMessage" {
				return true
			}
		}
	}
	return false
}
