package rules

import (
	"fmt"
	"go/token"
	"go/types"
	"sort"
	"strings"

	"golang.org/x/tools/go/ssa"

	"verifchk/core"
)

func init() { register("C14", checkC14) }

func checkC14(c *Ctx) {
	r := c.R
	r.Explanation = "Structural necessary conditions of race-free attach/detach bookkeeping: (1) in-flight pairing: after every inflightReqs.Add(1) each path to return passes exactly one Done() or one hand-off of the request (Hub.join, Subscription.done); every consumer that takes such a request off Hub.join / Topic.reg / Topic.unreg passes a Done (behind the inflightReqs!=nil and client-initiated tests) or hands it on before the next iteration; the init goroutine's deferred Done is suppressed exactly when it hands the request to Topic.reg; (2) lock discipline: Session.subs only under Session.subsLock, SessionStore.sessCache/lru only under SessionStore.lock, clusterFailover.activeNodes written under its lock and read under it or on the writer's goroutine; fields updated through sync/atomic are touched only through sync/atomic; (3) actor confinement: every access to topic state owned by the topic goroutine is reached only from the topic goroutine or the init goroutine that precedes it; (4) the hub removes a topic from its registry only after marking it paused or deleted; (5) attach/detach symmetry: every successful removal of a session from Topic.sessions is followed on every path by Session.delSub / detachSession (except for proxy sessions), and every addSession is paired with addSub in the same function; (6) every send on shutDown.done is behind a nil test."
	r.NotDecided = []string{"absence of deadlock/livelock", "quiescent subs<=>sessions symmetry as a global invariant over interleavings", "reply-vs-evict races", "exactly-once Done across goroutines (decided per function, not per schedule)"}
	r.Trusted = []string{"go/types, go/ssa, VTA call graph", "sync and sync/atomic semantics", "closures handed to sync.Map.Range run on the caller's goroutine"}

	c.checkInflightPairing()
	c.checkLockDiscipline()
	c.checkActorConfinement()
	c.checkRemovalOrder()
	c.checkAttachSymmetry()
	c.checkShutdownDone()
	c.checkPauseBeforeStoreDelete()
	c.checkEvictionDetachesAll()
	c.checkCleanupOrder()
	c.checkAtomicRMW()
	c.checkCollectorChannel()
	c.checkDetachNeverDropped()
	c.checkLockReleasedOnEveryPath()
	c.checkCompletionChannelSignalled("C14.6c-completion-reported-on-every-path")
}

// ---------------------------------------------------------------------------------------------
// (1) in-flight pairing

type doneAnalysis struct {
	c       *Ctx
	add     *types.Func
	done    *types.Func
	handoff []*types.Var
	memo    map[*ssa.Function]int
}

func (c *Ctx) newDoneAnalysis() *doneAnalysis {
	da := &doneAnalysis{c: c, memo: map[*ssa.Function]int{}}
	da.add = c.method("server", "boundedWaitGroup", "Add")
	da.done = c.method("server", "boundedWaitGroup", "Done")
	for _, f := range [][2]string{{"Hub", "join"}, {"Subscription", "done"}, {"Topic", "reg"}, {"Topic", "unreg"}} {
		da.handoff = append(da.handoff, c.field("server", f[0], f[1]))
	}
	return da
}

func (da *doneAnalysis) isHandoffChan(v ssa.Value) bool {
	if _, isPhi := v.(*ssa.Phi); isPhi {
		return allChanChoices(v, da.isHandoffChan)
	}
	f, _ := core.LoadedField(core.Strip(v))
	for _, h := range da.handoff {
		if h == f {
			return true
		}
	}
	return false
}

func (da *doneAnalysis) isDischarge(in ssa.Instruction) bool {
	switch x := in.(type) {
	case *ssa.Send:
		return da.isHandoffChan(x.Chan)
	case *ssa.Go:
		if cal := x.Common().StaticCallee(); cal != nil && cal.Blocks != nil {
			return da.always(cal)
		}
	case *ssa.Call:
		if core.CalleeOf(&x.Call) == da.done {
			return true
		}
		if cal := x.Call.StaticCallee(); cal != nil && cal.Blocks != nil && core.InPkg(cal, "server") {
			return da.always(cal)
		}
	}
	return false
}

// cuts: edges on which no Done is owed: the session has no bounded wait group
// (inflightReqs == nil), the request is not client-initiated (msg.init == false, join.Sub == nil),
// or a non-blocking select chose a hand-off.
func (da *doneAnalysis) cuts(fn *ssa.Function) map[core.Edge]bool {
	c := da.c
	cut := map[core.Edge]bool{}
	infl := c.E().sessionField("inflightReqs")
	initF := c.field("server", "ClientComMessage", "init")
	subF := c.field("server", "ClientComMessage", "Sub")
	sessF := c.field("server", "ClientComMessage", "sess")
	gs := []core.Guard{
		core.NilGuard("inflightReqs==nil", core.IsFieldLoad(infl), true),
		core.BoolGuard("msg.init==false", core.IsFieldLoad(initF), false),
		core.NilGuard("msg.Sub==nil", core.IsFieldLoad(subF), true),
		core.NilGuard("msg.sess==nil", core.IsFieldLoad(sessF), true),
	}
	pe, _ := core.PassEdges(fn, gs...)
	for e := range pe {
		cut[e] = true
	}
	ph, _ := core.PassEdges(fn, selectSendGuard("hand-off chosen", da.isHandoffChan))
	for e := range ph {
		cut[e] = true
	}
	return cut
}

// always: every path from entry to return passes a Done / hand-off (or is exempt).
func (da *doneAnalysis) always(fn *ssa.Function) bool {
	switch da.memo[fn] {
	case 1, 3:
		return false
	case 2:
		return true
	}
	da.memo[fn] = 1
	if da.deferredDoneUnlessHandedOff(fn) {
		da.memo[fn] = 2
		return true
	}
	found, _ := core.PathAvoiding(fn, nil, core.IsReturn, da.isDischarge, da.cuts(fn))
	if found {
		// confirmed on the interprocedural walk: a Done made in a deferred function literal or inside
		// a helper on some of its paths
		cut := map[core.Edge]bool{}
		for f := range da.c.regionOf(fn) {
			for e := range da.cuts(f) {
				cut[e] = true
			}
		}
		if f2, _, over := core.PathAvoidingDeep(fn, nil, nil, core.IsReturn, da.isDischarge, cut); !over {
			found = f2
		}
	}
	if found {
		da.memo[fn] = 3
		return false
	}
	da.memo[fn] = 2
	return true
}

// deferredDoneUnlessHandedOff recognises the init goroutine's idiom:
//
//	var issued bool; defer func(){ if !issued && ... { Done() } }() ... issued = true; t.reg <- join
//
// and checks that every store of true to the flag shares its block with a hand-off send that
// follows it, and every hand-off send is preceded in its block by such a store.
func (da *doneAnalysis) deferredDoneUnlessHandedOff(fn *ssa.Function) bool {
	var flag *ssa.Alloc
	core.AllInstrs(fn, func(in ssa.Instruction) {
		d, ok := in.(*ssa.Defer)
		if !ok {
			return
		}
		mc, ok := d.Call.Value.(*ssa.MakeClosure)
		if !ok {
			return
		}
		cl := mc.Fn.(*ssa.Function)
		var doneCall ssa.Instruction
		core.AllInstrs(cl, func(i2 ssa.Instruction) {
			if call, ok := i2.(*ssa.Call); ok && core.CalleeOf(&call.Call) == da.done {
				doneCall = i2
			}
		})
		if doneCall == nil {
			return
		}
		for i, fv := range cl.FreeVars {
			pt, ok := fv.Type().(*types.Pointer)
			if !ok {
				continue
			}
			if b, ok := pt.Elem().Underlying().(*types.Basic); !ok || b.Kind() != types.Bool {
				continue
			}
			g := core.BoolGuard("!flag", func(v ssa.Value) bool {
				u, ok := v.(*ssa.UnOp)
				return ok && u.Op == token.MUL && u.X == ssa.Value(fv)
			}, false)
			if ok, cnt := core.GuardedBy(cl, doneCall, g); ok && cnt[0] > 0 {
				if a, ok := mc.Bindings[i].(*ssa.Alloc); ok {
					flag = a
				}
			}
		}
	})
	if flag == nil {
		return false
	}
	okAll := true
	nSet := 0
	for _, b := range fn.Blocks {
		setIdx, sendIdx := -1, -1
		for i, in := range b.Instrs {
			if st, ok := in.(*ssa.Store); ok && st.Addr == ssa.Value(flag) {
				if k, ok := st.Val.(*ssa.Const); ok && k.Value != nil && k.Value.String() == "true" {
					setIdx = i
					nSet++
				}
			}
			if s, ok := in.(*ssa.Send); ok && da.isHandoffChan(s.Chan) {
				// only the hand-off of the function's own request (a parameter), not re-queued ones
				if core.Derives(s.X, func(v ssa.Value) bool { _, isP := v.(*ssa.Parameter); return isP }, true) {
					sendIdx = i
				}
			}
		}
		if (setIdx >= 0) != (sendIdx >= 0) || (setIdx >= 0 && setIdx > sendIdx) {
			okAll = false
		}
	}
	return okAll && nSet > 0
}

func (c *Ctx) checkInflightPairing() {
	r := c.R
	da := c.newDoneAnalysis()
	r.Floor("C14.1-inflight-add-paired", 2)
	for _, fn := range c.P.ModFuncs {
		if !core.InPkg(fn, "server") || core.TopFunc(fn).Name() == "Add" {
			continue
		}
		for _, add := range core.CallsTo(fn, da.add) {
			r.Func(fk(fn))
			r.CallSites++
			construct := fk(fn) + ": inflightReqs.Add(1)"
			cut := da.cuts(fn)
			// at least one
			miss, w := core.PathAvoiding(fn, add.(ssa.Instruction), core.IsReturn, da.isDischarge, cut)
			r.Check(!miss, "C14.1-inflight-add-paired", construct+" / every path reaches Done or a hand-off", c.pos(add),
				"", "a path from Add(1) to return"+posOf(c, w)+" passes neither Done() nor a hand-off: the session's next request blocks forever")
			// at most one: after a discharge no second discharge before return
			double := false
			var where ssa.Instruction
			core.AllInstrs(fn, func(in ssa.Instruction) {
				isD := false
				if call, ok := in.(*ssa.Call); ok && core.CalleeOf(&call.Call) == da.done {
					isD = true
				}
				if s, ok := in.(*ssa.Send); ok && da.isHandoffChan(s.Chan) {
					isD = true
				}
				if !isD {
					return
				}
				found, w2 := core.PathAvoiding(fn, in, func(x ssa.Instruction) bool {
					if call, ok := x.(*ssa.Call); ok && core.CalleeOf(&call.Call) == da.done {
						return true
					}
					if s, ok := x.(*ssa.Send); ok && da.isHandoffChan(s.Chan) {
						return true
					}
					return false
				}, func(x ssa.Instruction) bool { return x == add.(ssa.Instruction) }, nil)
				if found {
					double = true
					where = w2
				}
			})
			r.Check(!double, "C14.1b-inflight-at-most-once", construct+" / no path discharges twice", c.pos(add), "", "a second Done()/hand-off is reachable after the first"+posOf(c, where))
		}
	}
	// consumers
	r.Floor("C14.1c-consumer-done", 4)
	specs := [][2]string{{"Hub", "join"}, {"Topic", "reg"}, {"Topic", "unreg"}}
	for _, sp := range specs {
		fld := c.field("server", sp[0], sp[1])
		n := 0
		for _, fn := range c.P.ModFuncs {
			if !core.InPkg(fn, "server") {
				continue
			}
			core.AllInstrs(fn, func(in ssa.Instruction) {
				sel, ok := in.(*ssa.Select)
				if !ok || !sel.Blocking {
					return
				}
				for i, st := range sel.States {
					if st.Dir != types.RecvOnly || !core.IsFieldLoad(fld)(st.Chan) {
						continue
					}
					n++
					r.Func(fk(fn))
					edges := selectCaseEdges(sel, i)
					target := func(x ssa.Instruction) bool { return x == ssa.Instruction(sel) || core.IsReturn(x) }
					found, _ := pathFromEdgeAvoidingNil(fn, edges, target, da.isDischarge, da.cuts(fn))
					culprit := ""
					if found {
						core.AllInstrs(fn, func(x ssa.Instruction) {
							if ci, ok := x.(ssa.CallInstruction); ok {
								if cal := ci.Common().StaticCallee(); cal != nil && da.memo[cal] == 3 && takesRequest(cal) && culprit == "" {
									culprit = "; callee " + fk(cal) + " has a path to return without Done()"
								}
							}
						})
					}
					r.Check(!found, "C14.1c-consumer-done", fmt.Sprintf("%s: request taken off %s.%s reaches Done or is handed on", fk(fn), sp[0], sp[1]), c.pos(sel),
						"", "some path from taking the request back to the select passes no inflightReqs.Done() and no hand-off"+culprit)
				}
			})
		}
		if n == 0 {
			r.Fail("C14.1c-consumer-done", "consumer of "+sp[0]+"."+sp[1], "-", "no select-receive found: undecided")
		}
	}
	// the failure drain of the init goroutine discharges what it drains from Topic.unreg
	ti := c.ssaFn("server", "topicInit")
	r.Check(da.deferredDoneUnlessHandedOff(ti), "C14.1d-init-deferred-done", "server.topicInit: deferred Done suppressed exactly when the request is handed to Topic.reg", c.P.Pos(ti.Pos()),
		"", "the init goroutine's deferred Done and its hand-off to Topic.reg are no longer mutually exclusive")
}

// ---------------------------------------------------------------------------------------------
// (2) lock discipline

// heldAt: mutex field m is held (Lock or RLock called, no Unlock/RUnlock since) on every path
// from entry to instruction at. Deferred unlocks do not release before return.
func heldAt(fn *ssa.Function, at ssa.Instruction, m *types.Var, needWrite bool) bool {
	isLock := func(in ssa.Instruction) bool {
		call, ok := in.(*ssa.Call)
		if !ok {
			return false
		}
		f := core.CalleeOf(&call.Call)
		if f == nil || !(f.Name() == "Lock" || (!needWrite && f.Name() == "RLock")) {
			return false
		}
		g, _ := core.FieldOfAddr(core.CallArgs(&call.Call)[0])
		return g == m
	}
	isUnlock := func(in ssa.Instruction) bool {
		call, ok := in.(*ssa.Call)
		if !ok {
			return false
		}
		f := core.CalleeOf(&call.Call)
		if f == nil || !(f.Name() == "Unlock" || f.Name() == "RUnlock") {
			return false
		}
		g, _ := core.FieldOfAddr(core.CallArgs(&call.Call)[0])
		return g == m
	}
	isAt := func(in ssa.Instruction) bool { return in == at }
	if found, _ := core.PathAvoiding(fn, nil, isAt, isLock, nil); found {
		return false
	}
	// after any unlock, must re-lock before reaching at
	bad := false
	core.AllInstrs(fn, func(in ssa.Instruction) {
		if isUnlock(in) {
			if found, _ := core.PathAvoiding(fn, in, isAt, isLock, nil); found {
				bad = true
			}
		}
	})
	return !bad
}

func (c *Ctx) checkLockDiscipline() {
	r := c.R
	type guarded struct {
		typ, field, lock string
		singleWriter     bool
	}
	table := []guarded{
		{"Session", "subs", "subsLock", false},
		{"SessionStore", "sessCache", "lock", false},
		{"SessionStore", "lru", "lock", false},
		{"clusterFailover", "activeNodes", "activeNodesLock", true},
	}
	ri := c.roots()
	r.Floor("C14.2-lock-discipline", 15)
	for _, g := range table {
		fld := c.field("server", g.typ, g.field)
		lock := c.field("server", g.typ, g.lock)
		acc := c.censusField(fld)
		// writer roots for single-writer pattern
		writerRoots := map[*ssa.Function]bool{}
		if g.singleWriter {
			for _, a := range acc {
				if a.isWrite() && !rootsInAlloc(addrOf(a.Instr)) {
					for rt := range ri.of(a.Fn) {
						writerRoots[rt] = true
					}
				}
			}
		}
		seen := map[string]bool{}
		for _, a := range acc {
			if a.Kind == "addr" {
				continue
			}
			if a.Kind == "load" && isMapOrListValueUse(a.Instr) {
				continue // the load of the map header itself; the map operation is censused separately
			}
			if rootsInAlloc(addrOf(a.Instr)) || c.isConstructor(a.Fn, g.typ) {
				continue // initialisation of an object that is not shared yet
			}
			construct := fmt.Sprintf("%s: %s of %s.%s", fk(a.Fn), a.Kind, g.typ, g.field)
			if seen[construct] {
				continue
			}
			seen[construct] = true
			r.Func(fk(a.Fn))
			needWrite := a.isWrite()
			ok := heldAt(a.Fn, a.Instr, lock, needWrite)
			why := "lock held on every path"
			if !ok {
				// one-level summary: all callers hold the lock at the call site
				var callers []callSite
				for _, cs := range c.callersOf(a.Fn) {
					if cs.Caller != a.Fn { // self-recursion (delegation to the multiplexing session) is not a caller
						callers = append(callers, cs)
					}
				}
				if len(callers) > 0 {
					all := true
					for _, cs := range callers {
						if !heldAt(cs.Caller, cs.Site.(ssa.Instruction), lock, needWrite) {
							all = false
						}
					}
					if all {
						ok = true
						why = "every caller holds the lock at the call site"
					}
				}
			}
			if !ok && g.singleWriter && !needWrite {
				onWriter := true
				for rt := range ri.of(a.Fn) {
					if !writerRoots[rt] {
						onWriter = false
					}
				}
				if onWriter {
					ok = true
					why = "read on the single writer's goroutine"
				}
			}
			r.Check(ok, "C14.2-lock-discipline", construct, c.pos(a.Instr), why,
				fmt.Sprintf("%s.%s is accessed without %s.%s held", g.typ, g.field, g.typ, g.lock))
		}
	}
	// atomics
	atomics := [][2]string{{"Session", "terminating"}, {"Session", "lastAction"}, {"Topic", "status"}}
	for _, at := range atomics {
		fld := c.field("server", at[0], at[1])
		for _, fn := range c.P.ModFuncs {
			core.AllInstrs(fn, func(in ssa.Instruction) {
				fa, ok := in.(*ssa.FieldAddr)
				if !ok {
					return
				}
				if g, _ := core.FieldOfAddr(fa); g != fld {
					return
				}
				if rootsInAlloc(fa) {
					return
				}
				okAll := true
				for _, ref := range *fa.Referrers() {
					call, isCall := ref.(*ssa.Call)
					if !isCall {
						okAll = false
						continue
					}
					f := core.CalleeOf(&call.Call)
					if f == nil || f.Pkg() == nil || f.Pkg().Path() != "sync/atomic" {
						okAll = false
					}
				}
				r.Check(okAll, "C14.2b-atomic-only", fmt.Sprintf("%s: %s.%s", fk(fn), at[0], at[1]), c.pos(fa), "address flows only into sync/atomic", "a field that is updated atomically elsewhere is read or written directly")
			})
		}
	}
}

func addrOf(in ssa.Instruction) ssa.Value {
	switch x := in.(type) {
	case *ssa.Store:
		return x.Addr
	case *ssa.UnOp:
		return x.X
	case *ssa.MapUpdate:
		if u, ok := x.Map.(*ssa.UnOp); ok {
			return u.X
		}
	case *ssa.Lookup:
		if u, ok := x.X.(*ssa.UnOp); ok {
			return u.X
		}
	case *ssa.Range:
		if u, ok := x.X.(*ssa.UnOp); ok {
			return u.X
		}
	case *ssa.Call:
		if len(x.Call.Args) > 0 {
			if u, ok := x.Call.Args[0].(*ssa.UnOp); ok {
				return u.X
			}
		}
	}
	return nil
}

// isMapOrListValueUse: a load whose only uses are map operations / method calls censused elsewhere.
func isMapOrListValueUse(in ssa.Instruction) bool {
	u, ok := in.(*ssa.UnOp)
	if !ok || u.Referrers() == nil {
		return false
	}
	if _, isMap := u.Type().Underlying().(*types.Map); !isMap {
		return false
	}
	for _, ref := range *u.Referrers() {
		switch ref.(type) {
		case *ssa.MapUpdate, *ssa.Lookup, *ssa.Range:
		default:
			if call, ok := ref.(*ssa.Call); ok {
				if b, ok := call.Call.Value.(*ssa.Builtin); ok && (b.Name() == "delete") {
					continue
				}
			}
			return false
		}
	}
	return true
}

// isConstructor: fn returns a freshly allocated *typ (NewX functions).
func (c *Ctx) isConstructor(fn *ssa.Function, typ string) bool {
	res := fn.Signature.Results()
	for i := 0; i < res.Len(); i++ {
		if isPtrToNamed(res.At(i).Type(), typ) && fn.Signature.Recv() == nil {
			return true
		}
	}
	return false
}

// ---------------------------------------------------------------------------------------------
// (3) actor confinement

func (c *Ctx) checkActorConfinement() {
	r := c.R
	run, init := c.topicActorRoots()
	if len(run) == 0 || len(init) == 0 {
		c.lost("topic actor / init goroutine roots")
	}
	allowed := map[*ssa.Function]bool{}
	for _, f := range append(run, init...) {
		allowed[f] = true
	}
	ri := c.roots()
	// actor-owned state of Topic (everything that is neither immutable after init nor atomic nor a channel)
	owned := []string{"sessions", "perUser", "perSubs", "owner", "lastID", "delID", "currentCall", "tags", "public", "trusted",
		"accessAuth", "accessAnon", "touched", "updated", "userAgent", "modeWantUnion", "modeGivenUnion"}
	r.Floor("C14.3-actor-confinement", 100)
	for _, name := range owned {
		fld := c.E().topicField(name)
		seen := map[string]bool{}
		for _, a := range c.censusField(fld) {
			if a.Kind == "addr" {
				continue
			}
			if rootsInAlloc(addrOf(a.Instr)) {
				continue // composite literal of a topic that is not running yet
			}
			perFn := fmt.Sprintf("%s: %s Topic.%s", fk(a.Fn), accessClass(a.Kind), name)
			if seen[perFn] {
				continue
			}
			seen[perFn] = true
			roots := ri.of(a.Fn)
			var bad []string
			for rt := range roots {
				if !allowed[rt] {
					bad = append(bad, fk(rt))
				}
			}
			sort.Strings(bad)
			if len(bad) == 0 {
				r.OK("C14.3-actor-confinement", perFn, c.pos(a.Instr), "only on the topic's goroutine")
				continue
			}
			// a race is a pair (foreign goroutine, field): the finding is named after the goroutine(s)
			// on which the access happens and the field, not after the function the access sits in, so
			// that moving the access into a helper on the same goroutine is not a new finding
			construct := fmt.Sprintf("goroutine %s: %s Topic.%s off-actor", strings.Join(bad, ", "), accessClass(a.Kind), name)
			if seen[construct] {
				continue
			}
			seen[construct] = true
			r.Func(fk(a.Fn))
			r.Fail("C14.3-actor-confinement", construct, c.pos(a.Instr),
				fmt.Sprintf("topic state owned by the topic goroutine is %s on another goroutine (in %s): data race (concurrent map access is fatal in Go)", accessVerb(a.Kind), fk(a.Fn)))
		}
	}
}

func accessClass(kind string) string {
	switch kind {
	case "store", "mapupdate", "mapdelete":
		return "write"
	}
	return "read"
}

func accessVerb(kind string) string {
	if accessClass(kind) == "write" {
		return "written"
	}
	return "read"
}

// ---------------------------------------------------------------------------------------------
// (4) removal order

func (c *Ctx) checkRemovalOrder() {
	r := c.R
	topicDel := c.method("server", "Hub", "topicDel")
	markPaused := c.method("server", "Topic", "markPaused")
	markDeleted := c.method("server", "Topic", "markDeleted")
	r.Floor("C14.4-mark-before-remove", 3)
	for _, fn := range c.funcsCalling(topicDel, "server") {
		for _, site := range core.CallsTo(fn, topicDel) {
			r.Func(fk(fn))
			// every path from entry to topicDel passes markPaused(true) or markDeleted(), or the topic
			// never became visible as active (init goroutine: created paused)
			isMark := func(in ssa.Instruction) bool {
				call, ok := in.(*ssa.Call)
				if !ok {
					return false
				}
				f := core.CalleeOf(&call.Call)
				if f == markDeleted {
					return true
				}
				if f == markPaused {
					if k, ok := call.Call.Args[len(call.Call.Args)-1].(*ssa.Const); ok && k.Value != nil && k.Value.String() == "true" {
						return true
					}
				}
				return false
			}
			found, _ := core.PathAvoiding(fn, nil, func(in ssa.Instruction) bool { return in == site.(ssa.Instruction) }, isMark, nil)
			construct := fk(fn) + ": Hub.topicDel"
			if found {
				// exception: init goroutine - the topic was created paused by the hub and is still paused
				_, initRoots := c.topicActorRoots()
				isInit := false
				for _, ir := range initRoots {
					if ir == fn {
						isInit = true
					}
				}
				if isInit {
					r.OK("C14.4-mark-before-remove", construct+" [init goroutine]", c.pos(site), "exception: the topic is created paused by the hub and has not been un-paused yet on these paths")
					continue
				}
			}
			r.Check(!found, "C14.4-mark-before-remove", construct, c.pos(site), "every path marks the topic paused/deleted first", "the hub can drop a topic from its registry while sessions may still attach to it (not marked paused or deleted first)")
		}
	}
}

// ---------------------------------------------------------------------------------------------
// (5) attach/detach symmetry

func (c *Ctx) checkAttachSymmetry() {
	r := c.R
	rem := c.method("server", "Topic", "remSession")
	delSub := c.method("server", "Session", "delSub")
	detach := c.method("server", "Session", "detachSession")
	isProxy := c.method("server", "Session", "isProxy")
	addSession := c.method("server", "Topic", "addSession")
	addSub := c.method("server", "Session", "addSub")
	r.Floor("C14.5-detach-symmetry", 3)
	for _, fn := range c.funcsCalling(rem, "server") {
		for _, site := range core.CallsTo(fn, rem) {
			call, ok := site.(*ssa.Call)
			if !ok {
				continue
			}
			r.Func(fk(fn))
			construct := fk(fn) + ": after Topic.remSession removed the session"
			// success edges: pssd != nil (#0) or removed == true (#1)
			g0 := core.NilGuard("pssd!=nil", errResultOf(call, 0), false)
			g1 := core.BoolGuard("removed", errResultOf(call, 1), true)
			// remSession returns (record, removed): the session is gone from Topic.sessions only when
			// removed is true; a function that ignores it relies on record != nil
			pe, cnt := core.PassEdges(fn, g1)
			if cnt[0] == 0 {
				pe, cnt = core.PassEdges(fn, g0)
			}
			if cnt[0] == 0 {
				// result not tested: the proxy master notification path removes unconditionally
				r.Info("C14.5-detach-symmetry", construct, c.pos(site), "result of remSession is not tested; not decided")
				continue
			}
			// proxy sessions are multiplexed: no per-topic sub on the session
			cut, _ := core.PassEdges(fn, core.BoolGuard("sess.isProxy()", core.IsCallTo(isProxy), true))
			// walk from the call itself, never taking an edge on which the removal did not happen
			for e := range core.FailEdges(fn, g0, g1) {
				cut[e] = true
			}
			_ = pe
			isDetach := core.IsCallInstrTo(delSub, detach)
			found, w := core.PathAvoiding(fn, call, core.IsReturn, isDetach, cut)
			r.Check(!found, "C14.5-detach-symmetry", construct, c.pos(site), "every path tells the session (delSub / detachSession)",
				"a session removed from Topic.sessions can keep the topic in its own subscription table (return"+posOf(c, w)+" reached without delSub/detachSession): later {sub} is answered 'already subscribed', {leave} gets no reply")
		}
	}
	for _, fn := range c.funcsCalling(addSession, "server") {
		r.Func(fk(fn))
		r.Check(len(core.CallsTo(fn, addSub)) > 0, "C14.5b-attach-symmetry", fk(fn)+": addSession paired with Session.addSub", c.P.Pos(fn.Pos()), "", "a session is added to Topic.sessions without the topic being added to the session's subscription table")
	}
}

// ---------------------------------------------------------------------------------------------
// (6) shutDown.done

func (c *Ctx) checkShutdownDone() {
	r := c.R
	doneF := c.field("server", "shutDown", "done")
	r.Floor("C14.6-shutdown-done-nil-guard", 2)
	for _, fn := range c.P.ModFuncs {
		if !core.InPkg(fn, "server") {
			continue
		}
		for _, s := range chanSends(fn, core.IsFieldLoad(doneF)) {
			r.Func(fk(fn))
			g := core.NilGuard("done!=nil", core.IsFieldLoad(doneF), false)
			ok, cnt := core.GuardedBy(fn, s.Instr, g)
			r.Check(ok && cnt[0] > 0, "C14.6-shutdown-done-nil-guard", fk(fn)+": send on shutDown.done", c.pos(s.Instr), "behind done != nil",
				"send on a possibly nil channel blocks forever (shutDown.done is nil for deletions and idle unloads)")
		}
	}
	_ = strings.TrimSpace
}
