package rules

import (
	"fmt"
	"go/constant"
	"go/token"
	"go/types"

	"golang.org/x/tools/go/ssa"

	"verifchk/core"
)

func init() { register("C17", checkC17) }

func checkC17(c *Ctx) {
	r := c.R
	r.Explanation = "Structural necessary conditions of cluster placement agreement and single leadership: (1) ring: Add sorts the replica list before the signature loop; the comparator orders by hash and breaks ties by key; Get wraps idx == len(keys) to 0; (2) signature gate: in every inter-node RPC entry point that hands a request to the hub or a topic, each hand-off (send on a hub/topic channel, call into hub routing) is cut off unless msg.Signature == ring.Signature() passed (session-teardown branch excepted); (3) election: every store to clusterFailover.term is term+1, a store of the request's term behind `term < req.Term`, or the health check's term behind `health.Term > term`; a vote Result:true is sent only behind `term < req.Term` and after term was set to the request's term and the leader cleared; leader = self is stored only behind voteCount >= expectVotes; expectVotes, folded with go/constant arithmetic for every cluster size 3..63, equals floor(N/2)+1; voteCount is incremented only for replies without error and with Result; a stale health check (Term < term) reaches no store of term/leader; term and leader are written only on the failover goroutine; (4) partition: isPartitioned folds to active <= floor(N/2); client dispatch is behind !isPartitioned(); activeNodes is read under its lock."
	r.NotDecided = []string{"minimal key movement, totality and order-independence of the ring as value-level laws", "election safety under message loss/reordering/partition (a model-checking question)", "adoption timing of node lists"}
	r.Trusted = []string{"go/types, go/ssa, VTA call graph", "sort.Sort/sort.Search", "net/rpc delivers at most one reply per request"}

	c.checkRing()
	c.checkSignatureGate()
	c.checkElection()
	c.checkPartition()
	c.checkRehashRebuilds()
	c.checkVoteRepliesDistinct()
	c.checkActiveNodesExact()
	c.checkNeverDropped("C17.1c-rehash-signal-never-dropped", "Hub", "rehash", "the node adopts the new ring but keeps running the topics that moved away: two nodes serve one topic")
	c.checkRingKeyedByRoutableName("C17.1d-ring-keyed-by-routable-name")
}

func (c *Ctx) checkRing() {
	r := c.R
	add := c.ssaMethod("server/ringhash", "Ring", "Add")
	get := c.ssaMethod("server/ringhash", "Ring", "Get")
	less := c.ssaMethod("server/ringhash", "sortable", "Less")
	sigF := c.field("server/ringhash", "Ring", "signature")
	hashF := c.field("server/ringhash", "elem", "hash")
	keyF := c.field("server/ringhash", "elem", "key")
	r.Func(fk(add))
	r.Func(fk(get))
	r.Func(fk(less))
	r.Floor("C17.1-ring", 4)
	// sort before signature
	var sortCall ssa.Instruction
	core.AllInstrs(add, func(in ssa.Instruction) {
		if call, ok := in.(*ssa.Call); ok && calleeFullName(call) == "sort.Sort" {
			sortCall = in
		}
	})
	for _, st := range core.StoresToField(add, sigF) {
		miss := sortCall == nil
		if sortCall != nil {
			miss, _ = core.PathAvoiding(add, nil, func(in ssa.Instruction) bool { return in == ssa.Instruction(st) }, func(in ssa.Instruction) bool { return in == sortCall }, nil)
		}
		r.Check(!miss, "C17.1-ring", fk(add)+": signature computed after sort.Sort", c.pos(st), "", "the ring signature is computed over an unsorted replica list: it depends on the order nodes were listed in")
	}
	// and after all appends: no append to keys after the sort
	// comparator: reads hash of both, and key of both (tie-break)
	nHash, nKey := 0, 0
	core.AllInstrs(less, func(in ssa.Instruction) {
		if fa, ok := in.(*ssa.FieldAddr); ok {
			if f, _ := core.FieldOfAddr(fa); f == hashF {
				nHash++
			} else if f == keyF {
				nKey++
			}
		}
	})
	r.Check(nHash >= 2 && nKey >= 2, "C17.1-ring", fk(less)+": orders by (hash, key)", c.P.Pos(less.Pos()), "", "the replica comparator does not break hash ties by node name: equal hashes make the order (and ownership) depend on insertion order")
	// tie-break is behind hash equality and returns key[i] < key[j]
	okTie := false
	core.AllInstrs(less, func(in ssa.Instruction) {
		ret, ok := in.(*ssa.Return)
		if !ok {
			return
		}
		if b := core.NormCond(core.Strip(ret.Results[0])); b.Op == token.LSS && !b.Negated && core.IsFieldLoad(keyF)(b.X) && core.IsFieldLoad(keyF)(b.Y) {
			g := core.EqGuard("hash equal", core.IsFieldLoad(hashF), core.IsFieldLoad(hashF), true)
			if ok2, cnt := core.GuardedBy(less, ret, g); ok2 && cnt[0] > 0 {
				okTie = true
			}
		}
	})
	r.Check(okTie, "C17.1-ring", fk(less)+": key comparison only on equal hashes", c.P.Pos(less.Pos()), "", "the comparator's tie-break is not guarded by hash equality")
	// Get wraps
	keysF := c.field("server/ringhash", "Ring", "keys")
	// every indexing of the replica list by the search result happens only where the result is below
	// len(keys) (or the index is a phi that is 0 on the other edge), and the first replica is what
	// is used otherwise
	wrap, zeroPhi := true, false
	isLen := isLenOf(core.IsFieldLoad(keysF))
	nIdx := 0
	core.AllInstrs(get, func(in ssa.Instruction) {
		ia, ok := in.(*ssa.IndexAddr)
		if !ok || !core.IsFieldLoad(keysF)(ia.X) {
			return
		}
		nIdx++
		switch idx := ia.Index.(type) {
		case *ssa.Const:
			if core.IsConstInt(0)(idx) {
				zeroPhi = true
				return
			}
			wrap = false
		case *ssa.Phi:
			for _, e := range idx.Edges {
				if core.IsConstInt(0)(e) {
					zeroPhi = true
				}
			}
			// the non-zero edges come from the `idx == len` test's other side
			hasTest := false
			core.AllInstrs(get, func(x ssa.Instruction) {
				if ifi, ok := x.(*ssa.If); ok {
					a := core.NormCond(ifi.Cond)
					if a.Op == token.EQL && (isLen(a.X) || isLen(a.Y)) {
						hasTest = true
					}
				}
			})
			if !hasTest {
				wrap = false
			}
		default:
			same := func(v ssa.Value) bool { return v == ia.Index }
			gLess := core.LessGuard("idx<len(keys)", same, isLen, true)
			gNe := core.EqGuard("idx!=len(keys)", same, isLen, false)
			ok, cnt := core.GuardedBy(get, ia, gLess, gNe)
			if !ok || cnt[0]+cnt[1] == 0 {
				wrap = false
			}
		}
	})
	if nIdx == 0 {
		wrap = false
	}
	r.Check(wrap && zeroPhi, "C17.1-ring", fk(get)+": idx == len(keys) wraps to 0", c.P.Pos(get.Pos()), "", "a key hashing beyond the last replica is not wrapped to the first one (index out of range or unowned name)")
}

func (c *Ctx) checkSignatureGate() {
	r := c.R
	sigMsg := c.field("server", "ClusterReq", "Signature")
	ringSig := c.method("server/ringhash", "Ring", "Signature")
	gSig := core.EqGuard("msg.Signature==ring.Signature()", core.IsFieldLoad(sigMsg), core.IsCallTo(ringSig), true)
	r.Floor("C17.2-signature-gate", 3)
	clusterT := c.P.NamedType("server", "Cluster")
	for _, fn := range c.P.ModFuncs {
		if !core.InPkg(fn, "server") || fn.Parent() != nil || !isPtrToNamedRecv(fn, "Cluster") {
			continue
		}
		// RPC entry points: exported methods of *Cluster with a *ClusterReq parameter
		if !fn.Object().Exported() {
			continue
		}
		hasReq := false
		for _, p := range fn.Params {
			if isPtrToNamed(p.Type(), "ClusterReq") {
				hasReq = true
			}
		}
		if !hasReq {
			continue
		}
		_ = clusterT
		r.Func(fk(fn))
		// hand-offs: sends on hub/topic channels
		var sinks []ssa.Instruction
		core.AllInstrs(fn, func(in ssa.Instruction) {
			switch x := in.(type) {
			case *ssa.Send:
				if f, base := core.LoadedField(core.Strip(x.Chan)); f != nil && (isPtrToNamed(base.Type(), "Hub") || isPtrToNamed(base.Type(), "Topic")) {
					sinks = append(sinks, in)
				}
			case *ssa.Select:
				for _, st := range x.States {
					if st.Dir == types.SendOnly {
						if f, base := core.LoadedField(core.Strip(st.Chan)); f != nil && (isPtrToNamed(base.Type(), "Hub") || isPtrToNamed(base.Type(), "Topic")) {
							sinks = append(sinks, in)
						}
					}
				}
			}
		})
		if len(sinks) == 0 {
			continue
		}
		// exception: the session-teardown request (node going away) is handled before the gate and
		// only stops multiplexing sessions; its hand-offs are the `unreg`-style sends inside that branch
		for i, s := range sinks {
			construct := fmt.Sprintf("%s: hand-off #%d to hub/topic", fk(fn), i+1)
			ok, cnt := core.GuardedBy(fn, s, gSig)
			r.Check(ok && cnt[0] > 0, "C17.2-signature-gate", construct, c.pos(s), "behind msg.Signature == ring.Signature()",
				"a request from a node whose ring differs can be handed to the hub/topic: both nodes may serve the same topic")
		}
	}
}

func (c *Ctx) checkElection() {
	r := c.R
	termF := c.field("server", "clusterFailover", "term")
	leaderF := c.field("server", "clusterFailover", "leader")
	reqTerm := c.field("server", "ClusterVoteRequest", "Term")
	healthTerm := c.field("server", "ClusterHealth", "Term")
	healthLeader := c.field("server", "ClusterHealth", "Leader")
	thisNode := c.field("server", "Cluster", "thisNodeName")
	respResult := c.field("server", "ClusterVoteResponse", "Result")
	ri := c.roots()
	r.Floor("C17.3-election", 8)
	// goroutine confinement
	var foRoot *ssa.Function
	for _, a := range c.censusField(termF) {
		if a.Kind != "store" || rootsInAlloc(a.Instr.(*ssa.Store).Addr) {
			continue
		}
		roots := ri.of(a.Fn)
		for rt := range roots {
			if foRoot == nil {
				foRoot = rt
			}
		}
		st := a.Instr.(*ssa.Store)
		r.Func(fk(a.Fn))
		construct := fk(a.Fn) + ": store clusterFailover.term"
		r.Check(len(roots) == 1, "C17.3b-failover-goroutine", construct, c.pos(st), fmt.Sprintf("roots %v", rootNames(roots)), fmt.Sprintf("the election term is written from several goroutines: %v", rootNames(roots)))
		switch {
		case core.IsBinOp(token.ADD, core.IsFieldLoad(termF), core.IsConstInt(1), true)(st.Val):
			r.OK("C17.3-election", construct+" [term+1: own candidacy]", c.pos(st), "")
		case core.IsFieldLoad(reqTerm)(st.Val):
			g := core.LessGuard("term<req.Term", core.IsFieldLoad(termF), core.IsFieldLoad(reqTerm), true)
			ok, cnt := core.GuardedBy(a.Fn, st, g)
			r.Check(ok && cnt[0] > 0, "C17.3-election", construct+" [adopt vote request's term]", c.pos(st), "behind term < req.Term", "the term can be set from a vote request that is not newer: the term can decrease / a second vote in the same term")
		case core.IsFieldLoad(healthTerm)(st.Val):
			g := core.LessGuard("term<health.Term", core.IsFieldLoad(termF), core.IsFieldLoad(healthTerm), true)
			ok, cnt := core.GuardedBy(a.Fn, st, g)
			r.Check(ok && cnt[0] > 0, "C17.3-election", construct+" [adopt leader's term]", c.pos(st), "behind health.Term > term", "the term can be lowered by a health check")
		default:
			r.Fail("C17.3-election", construct, c.pos(st), "the term is written with a value that is neither term+1 nor a newer term from a vote request / health check")
		}
	}
	// votes
	for _, fn := range c.P.ModFuncs {
		if !core.InPkg(fn, "server") {
			continue
		}
		core.AllInstrs(fn, func(in ssa.Instruction) {
			send, ok := in.(*ssa.Send)
			if !ok || !namedIs(send.X.Type(), "ClusterVoteResponse") {
				return
			}
			// value: composite literal loaded from an Alloc; find its Result field
			res := voteResult(send.X, respResult)
			if res == nil {
				return
			}
			k, isK := res.(*ssa.Const)
			if !isK || k.Value == nil || !constant.BoolVal(k.Value) {
				return // NO vote
			}
			r.Func(fk(fn))
			construct := fk(fn) + ": send vote Result:true"
			g := core.LessGuard("term<req.Term", core.IsFieldLoad(termF), core.IsFieldLoad(reqTerm), true)
			ok2, cnt := core.GuardedBy(fn, send, g)
			r.Check(ok2 && cnt[0] > 0, "C17.3-election", construct+" / only for a newer term", c.pos(send), "", "a vote can be granted for a term that is not newer than the node's own: two votes in one term")
			// after term := req.Term and leader := ""
			isTermSet := func(x ssa.Instruction) bool {
				st, ok := x.(*ssa.Store)
				if !ok {
					return false
				}
				f, _ := core.FieldOfAddr(st.Addr)
				return f == termF && core.IsFieldLoad(reqTerm)(st.Val)
			}
			isLeaderClear := func(x ssa.Instruction) bool {
				st, ok := x.(*ssa.Store)
				if !ok {
					return false
				}
				f, _ := core.FieldOfAddr(st.Addr)
				return f == leaderF && core.IsConstString("")(st.Val)
			}
			pe, _ := core.PassEdges(fn, g)
			miss1, _ := core.PathFromEdgeAvoiding(fn, pe, func(x ssa.Instruction) bool { return x == ssa.Instruction(send) }, isTermSet, nil)
			r.Check(!miss1, "C17.3-election", construct+" / term recorded before the vote is sent", c.pos(send), "", "a vote is granted without recording the voted term: the node can vote again in the same term")
			miss2, _ := core.PathFromEdgeAvoiding(fn, pe, func(x ssa.Instruction) bool { return x == ssa.Instruction(send) }, isLeaderClear, nil)
			r.Check(!miss2, "C17.3-election", construct+" / current leader cleared before the vote is sent", c.pos(send), "", "a node that grants its vote keeps its current leader: a leader voting for a challenger still considers itself leader in the new term")
		})
	}
	// leader = self only behind voteCount >= expectVotes; expectVotes formula
	for _, a := range c.censusField(leaderF) {
		if a.Kind != "store" || rootsInAlloc(a.Instr.(*ssa.Store).Addr) {
			continue
		}
		st := a.Instr.(*ssa.Store)
		r.Func(fk(a.Fn))
		roots := ri.of(a.Fn)
		r.Check(len(roots) == 1, "C17.3b-failover-goroutine", fk(a.Fn)+": store clusterFailover.leader", c.pos(st), "", fmt.Sprintf("the leader is written from several goroutines: %v", rootNames(roots)))
		switch {
		case core.IsFieldLoad(thisNode)(st.Val):
			// find the comparison voteCount >= expectVotes dominating the store
			var thr ssa.Value
			g := core.Guard{Name: "voteCount>=expectVotes", Match: func(at core.CondAtom) (bool, bool) {
				if at.Op != token.LSS {
					return false, false
				}
				// voteCount >= expect  ==  !(voteCount < expect)
				if _, isPhi := at.X.(*ssa.Phi); isPhi {
					thr = at.Y
					return true, false
				}
				return false, false
			}}
			ok, cnt := core.GuardedBy(a.Fn, st, g)
			r.Check(ok && cnt[0] > 0, "C17.3-election", fk(a.Fn)+": leader = self behind voteCount >= expectVotes", c.pos(st), "", "a candidate can declare itself leader without the vote threshold")
			if thr != nil {
				c.checkMajorityFormula(a.Fn, thr, st)
			}
		case core.IsConstString("")(st.Val):
			r.OK("C17.3-election", fk(a.Fn)+": leader cleared #"+retOrdinalOfStore(a.Fn, st), c.pos(st), "")
		case core.IsFieldLoad(healthLeader)(st.Val):
			// adopting the leader from a health check: not reachable for a stale term
			g := core.LessGuard("health.Term<term", core.IsFieldLoad(healthTerm), core.IsFieldLoad(termF), false)
			ok, cnt := core.GuardedBy(a.Fn, st, g)
			r.Check(ok && cnt[0] > 0, "C17.3-election", fk(a.Fn)+": leader adopted from a health check #"+retOrdinalOfStore(a.Fn, st), c.pos(st), "not for a stale term", "a health check from a stale-term leader can change the node's leader")
		default:
			r.Fail("C17.3-election", fk(a.Fn)+": store clusterFailover.leader", c.pos(st), "leader assigned from an unexpected value")
		}
	}
}

func namedIs(t types.Type, name string) bool {
	n, ok := t.(*types.Named)
	return ok && n.Obj().Name() == name
}

// voteResult: the value stored in field Result of the struct literal that is loaded and sent.
func voteResult(v ssa.Value, resF *types.Var) ssa.Value {
	u, ok := v.(*ssa.UnOp)
	if !ok {
		return nil
	}
	a, ok := u.X.(*ssa.Alloc)
	if !ok {
		return nil
	}
	f := literalFields(a)
	if x, ok := f[resF.Name()]; ok {
		return x
	}
	// unset Result = false
	return ssa.NewConst(constant.MakeBool(false), types.Typ[types.Bool])
}

// checkMajorityFormula folds the expression tree of the threshold (a pure integer expression over
// len(nodes)) for n = 2..62 other nodes (cluster sizes 3..63) and compares with floor(N/2)+1.
func (c *Ctx) checkMajorityFormula(fn *ssa.Function, thr ssa.Value, at ssa.Instruction) {
	r := c.R
	nodesF := c.field("server", "Cluster", "nodes")
	eval := func(v ssa.Value, n int64) (constant.Value, bool) { return evalOverLen(v, nodesF, n) }
	okAll := true
	bad := ""
	for n := int64(2); n <= 62; n++ {
		v, ok := eval(thr, n)
		if !ok {
			okAll = false
			bad = "threshold is not a pure expression over len(nodes): undecided"
			break
		}
		N := n + 1
		want := constant.MakeInt64(N/2 + 1)
		if !constant.Compare(v, token.EQL, want) {
			okAll = false
			bad = fmt.Sprintf("for a cluster of %d nodes the vote threshold is %s, a strict majority is %s", N, v.String(), want.String())
			break
		}
	}
	r.Check(okAll, "C17.3c-majority-threshold", fk(fn)+": expectVotes == floor(N/2)+1 for N = 3..63", c.pos(at), "folded with go/constant for 61 cluster sizes", bad)
}

func (c *Ctx) checkPartition() {
	r := c.R
	isPart := c.ssaMethod("server", "Cluster", "isPartitioned")
	r.Func(fk(isPart))
	nodesF := c.field("server", "Cluster", "nodes")
	activeF := c.field("server", "clusterFailover", "activeNodes")
	r.Floor("C17.4-partition", 2)
	// find the comparison feeding the result: X >= len(activeNodes) with X over len(nodes)
	okFormula := false
	detail := "no comparison of a function of len(nodes) with len(activeNodes) found"
	core.AllInstrs(isPart, func(in ssa.Instruction) {
		ret, ok := in.(*ssa.Return)
		if !ok {
			return
		}
		if ret.Block().Comment == "recover" {
			return
		}
		res := core.Strip(ret.Results[0])
		if _, isK := res.(*ssa.Const); isK {
			return // the single-node early return
		}
		// partitioned <=> active <= X <=> !(X < active), in any spelling
		a := core.NormCond(res)
		// the number of active nodes read directly, or through an accessor that returns len(activeNodes)
		isActiveCount := func(v ssa.Value) bool {
			if isLenOf(core.IsFieldLoad(activeF))(v) {
				return true
			}
			call, ok := core.Strip(v).(*ssa.Call)
			if !ok {
				return false
			}
			h := call.Call.StaticCallee()
			if h == nil || !core.InModule(h) || len(h.Blocks) == 0 {
				return false
			}
			all, k := true, 0
			core.AllInstrs(h, func(in2 ssa.Instruction) {
				if r2, ok := in2.(*ssa.Return); ok && len(r2.Results) == 1 && r2.Block().Comment != "recover" {
					k++
					if !isLenOf(core.IsFieldLoad(activeF))(r2.Results[0]) {
						all = false
					}
				}
			})
			return all && k > 0
		}
		if a.Op != token.LSS || !a.Negated || !isActiveCount(a.Y) {
			return
		}
		lhs := a.X
		okFormula = true
		for n := int64(2); n <= 62; n++ {
			v, ok := evalOverLen(lhs, nodesF, n)
			N := n + 1
			if !ok || !constant.Compare(v, token.EQL, constant.MakeInt64(N/2)) {
				okFormula = false
				if ok {
					detail = fmt.Sprintf("for %d nodes the partition threshold is %s, half is %d", N, v.String(), N/2)
				}
				break
			}
		}
	})
	r.Check(okFormula, "C17.4-partition", fk(isPart)+": partitioned iff active <= floor(N/2)", c.P.Pos(isPart.Pos()), "folded for N = 3..63", detail)
	// reads of activeNodes in isPartitioned under lock: covered by C14.2; dispatch gate:
	for _, fn := range c.P.ModFuncs {
		if !core.InPkg(fn, "server") || !isPtrToNamedRecv(fn, "Session") {
			continue
		}
		calls := core.CallsTo(fn, c.method("server", "Cluster", "isPartitioned"))
		if len(calls) == 0 {
			continue
		}
		r.Func(fk(fn))
		g := core.BoolGuard("!isPartitioned()", core.IsCallTo(c.method("server", "Cluster", "isPartitioned")), false)
		// the dynamic handler call is behind it
		core.AllInstrs(fn, func(in ssa.Instruction) {
			call, ok := in.(*ssa.Call)
			if !ok {
				return
			}
			if _, isPhi := call.Call.Value.(*ssa.Phi); !isPhi {
				return
			}
			ok2, cnt := core.GuardedBy(fn, call, g)
			r.Check(ok2 && cnt[0] > 0, "C17.4-partition", fk(fn)+": request handlers run only when not partitioned", c.pos(call), "", "a node in the minority partition keeps serving client requests")
		})
	}
}

func evalOverLen(v ssa.Value, lenOf *types.Var, n int64) (constant.Value, bool) {
	return evalOverLenEnv(v, lenOf, n, nil, 0)
}

// evalOverLenEnv folds a pure integer expression over len(<field lenOf>) = n; parameters are looked
// up in env; calls of single-block module functions returning one expression are evaluated with
// their arguments (an extracted formula helper).
func evalOverLenEnv(v ssa.Value, lenOf *types.Var, n int64, env map[ssa.Value]constant.Value, depth int) (constant.Value, bool) {
	if k, ok := env[v]; ok {
		return k, true
	}
	switch x := v.(type) {
	case *ssa.Const:
		if x.Value == nil {
			return nil, false
		}
		return constant.ToInt(x.Value), true
	case *ssa.Call:
		if isLenOf(core.IsFieldLoad(lenOf))(x) {
			return constant.MakeInt64(n), true
		}
		callee := x.Call.StaticCallee()
		if depth < 2 && core.InModule(callee) && len(callee.Blocks) == 1 && callee.Signature.Results().Len() == 1 {
			ret, ok := callee.Blocks[0].Instrs[len(callee.Blocks[0].Instrs)-1].(*ssa.Return)
			if !ok {
				return nil, false
			}
			env2 := map[ssa.Value]constant.Value{}
			for i, p := range callee.Params {
				if i >= len(x.Call.Args) {
					return nil, false
				}
				if _, isInt := p.Type().Underlying().(*types.Basic); !isInt {
					continue
				}
				a, ok := evalOverLenEnv(x.Call.Args[i], lenOf, n, env, depth)
				if !ok {
					return nil, false
				}
				env2[p] = a
			}
			return evalOverLenEnv(ret.Results[0], lenOf, n, env2, depth+1)
		}
	case *ssa.BinOp:
		a, ok1 := evalOverLenEnv(x.X, lenOf, n, env, depth)
		b, ok2 := evalOverLenEnv(x.Y, lenOf, n, env, depth)
		if !ok1 || !ok2 {
			return nil, false
		}
		switch x.Op {
		case token.ADD, token.SUB, token.MUL:
			return constant.BinaryOp(a, x.Op, b), true
		case token.QUO:
			if constant.Sign(b) == 0 {
				return nil, false
			}
			return constant.BinaryOp(a, token.QUO_ASSIGN, b), true
		case token.SHR, token.SHL:
			s, _ := constant.Uint64Val(b)
			return constant.Shift(a, x.Op, uint(s)), true
		}
	case *ssa.Convert:
		return evalOverLenEnv(x.X, lenOf, n, env, depth)
	}
	return nil, false
}
