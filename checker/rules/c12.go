package rules

import (
	"fmt"
	"go/constant"
	"go/token"
	"go/types"

	"golang.org/x/tools/go/ssa"

	"verifchk/core"
)

func init() { register("C12", checkC12) }

// succPoint is a point of a function at which it is about to return success: a return whose error
// result is the nil constant, or - in a single-exit function that returns merged variables - the
// end of a predecessor block over which the nil error and a non-nil first result arrive.
type succPoint struct {
	at  ssa.Instruction
	rec ssa.Value
}

// successReturns: the success points of fn (first result not nil, error result nil).
func successReturns(fn *ssa.Function) []succPoint {
	ei := errIndex(fn.Signature)
	var out []succPoint
	core.AllInstrs(fn, func(in ssa.Instruction) {
		ret, ok := in.(*ssa.Return)
		if !ok || ei < 0 {
			return
		}
		errV, recV := ret.Results[ei], ret.Results[0]
		if core.IsNil(errV) {
			if !core.IsNil(recV) {
				out = append(out, succPoint{ret, recV})
			}
			return
		}
		// single exit: `return rec, nil, err` with err (and rec) merged from several assignments
		ephi, ok := errV.(*ssa.Phi)
		if !ok || ephi.Block() != ret.Block() {
			return
		}
		for i, e := range ephi.Edges {
			if !core.IsNil(e) {
				continue
			}
			pred := ephi.Block().Preds[i]
			rv := recV
			if rphi, ok := recV.(*ssa.Phi); ok && rphi.Block() == ret.Block() {
				rv = rphi.Edges[i]
			}
			if core.IsNil(rv) || len(pred.Succs) != 1 || len(pred.Instrs) == 0 {
				continue
			}
			out = append(out, succPoint{pred.Instrs[len(pred.Instrs)-1], rv})
		}
	})
	return out
}

// constBoolResult: v is a result of a static call of a module function (or function literal) all of
// whose returns yield the same boolean constant there.
func constBoolResult(v ssa.Value) (known, val bool) {
	v = core.Strip(v)
	idx := 0
	if ex, ok := v.(*ssa.Extract); ok {
		v, idx = ex.Tuple, ex.Index
	}
	call, ok := v.(*ssa.Call)
	if !ok {
		return false, false
	}
	g := call.Call.StaticCallee()
	if g == nil || len(g.Blocks) == 0 || !core.InModule(g) {
		return false, false
	}
	n := 0
	good := true
	core.AllInstrs(g, func(in ssa.Instruction) {
		ret, ok := in.(*ssa.Return)
		if !ok || idx >= len(ret.Results) {
			return
		}
		k, isK := ret.Results[idx].(*ssa.Const)
		if !isK || k.Value == nil || k.Value.Kind() != constant.Bool {
			good = false
			return
		}
		b := constant.BoolVal(k.Value)
		if n > 0 && b != val {
			good = false
		}
		val = b
		n++
	})
	return good && n > 0, val
}

func isLenOf(p core.VPred) core.VPred {
	return func(v ssa.Value) bool {
		call, ok := core.Strip(v).(*ssa.Call)
		if !ok {
			return false
		}
		b, ok := call.Call.Value.(*ssa.Builtin)
		return ok && b.Name() == "len" && p(call.Call.Args[0])
	}
}

func calleeFullName(v ssa.Value) string {
	call, ok := core.Strip(v).(*ssa.Call)
	if !ok {
		return ""
	}
	if f := core.CalleeOf(&call.Call); f != nil {
		return f.FullName()
	}
	return ""
}

func checkC12(c *Ctx) {
	r := c.R
	r.Explanation = "Guard-cut rules on the authenticators (every success return must be cut off when the pass edge of each named check is removed): (1) token: length test `len(token) >= dataSize+sha256.Size` whose bound is the very upper bound of the signature slice, constant-time MAC comparison (crypto/hmac.Equal or subtle.ConstantTimeCompare) true, AuthLevel <= LevelRoot, serial number equality with the configured one, time.Time.Before(now+1s) false on the decoded expiry; the MAC key is the configured salt and the returned record's fields come from the decoded layout; (2) API key: isValid=true is returned only after the decoded-length, version and signature-equality edges; (3) reset code: success only behind count < maxRetries and code equality, the cache entry is deleted on every success path, a wrong guess passes PCache.Upsert(count+1, failOnDuplicate=false) before failing; (4) password: success only behind a non-zero uid, not expired and bcrypt.CompareHashAndPassword == nil; every unique-login argument handed to the store derives from parseSecret, whose login result passes through strings.ToLower."
	r.NotDecided = []string{"cryptographic strength of HMAC/bcrypt (trusted)", "uniqueness enforcement inside the database", "behaviour under every bit mutation (follows from the HMAC check, which is trusted)"}
	r.Trusted = []string{"go/types, go/ssa", "crypto/hmac, crypto/subtle, bcrypt", "encoding/binary layout"}

	c.checkTokenAuth()
	c.checkAPIKeyRule()
	c.checkCodeAuth()
	c.checkBasicAuth()
	c.checkCacheKeyAgreement()
	c.checkTokenDecodeOffsets()
	c.checkSerialNotNarrowed()
	c.checkTokenMacCoversFields()
}

func (c *Ctx) checkTokenAuth() {
	r := c.R
	fn := c.ssaMethod("server/auth/token", "authenticator", "Authenticate")
	r.Func(fk(fn))
	tokenP := fn.Params[1] // receiver, token, remoteAddr
	isTok := func(v ssa.Value) bool { return core.Strip(v) == ssa.Value(tokenP) }
	levelRoot := c.konst("server/auth", "LevelRoot")
	serialCfg := c.field("server/auth/token", "authenticator", "serialNumber")
	saltF := c.field("server/auth/token", "authenticator", "hmacSalt")
	layoutT := c.P.NamedType("server/auth/token", "tokenLayout")
	if layoutT == nil {
		c.lost("type server/auth/token.tokenLayout")
	}
	serialTok := c.field("server/auth/token", "tokenLayout", "SerialNumber")
	expiresTok := c.field("server/auth/token", "tokenLayout", "Expires")
	succ := successReturns(fn)
	r.Floor("C12.1-token-gates", 5)
	if len(succ) == 0 {
		r.Fail("C12.1-token-gates", fk(fn)+": success return", "-", "no success return found: undecided")
		return
	}
	// the signature slice of the token
	var sigSlice *ssa.Slice
	core.AllInstrs(fn, func(in ssa.Instruction) {
		if sl, ok := in.(*ssa.Slice); ok && isTok(sl.X) && sl.High != nil {
			sigSlice = sl
		}
	})
	// the parsing phase in a helper (`tl, signature, err := parseToken(token)`): the slice and its
	// length test live there; the authenticator goes on only when the helper reported no error
	var parseFn *ssa.Function
	var parseCall *ssa.Call
	var parseTok *ssa.Parameter
	if sigSlice == nil {
		core.AllInstrs(fn, func(in ssa.Instruction) {
			call, ok := in.(*ssa.Call)
			if !ok || parseFn != nil {
				return
			}
			g := call.Call.StaticCallee()
			if g == nil || !core.InModule(g) || len(g.Blocks) == 0 || errIndex(g.Signature) < 0 {
				return
			}
			for i, a := range call.Call.Args {
				if isTok(a) && i < len(g.Params) {
					p := g.Params[i]
					core.AllInstrs(g, func(x ssa.Instruction) {
						if sl, ok := x.(*ssa.Slice); ok && core.Strip(sl.X) == ssa.Value(p) && sl.High != nil {
							sigSlice, parseFn, parseCall, parseTok = sl, g, call, p
						}
					})
				}
			}
		})
	}
	for _, sp := range succ {
		ret := sp.at
		base := fk(fn) + ": success return"
		// a. length
		lenFn, lenTok := fn, isTok
		if parseFn != nil {
			lenFn = parseFn
			lenTok = func(v ssa.Value) bool { return core.Strip(v) == ssa.Value(parseTok) }
		}
		gLen := core.Guard{Name: "len(token)>=bound", Match: func(a core.CondAtom) (bool, bool) {
			if a.Op != token.LSS || !isLenOf(lenTok)(a.X) {
				return false, false
			}
			if sigSlice != nil && !sameValue(a.Y, sigSlice.High, 0) {
				return false, false
			}
			return true, false
		}}
		if parseFn == nil {
			ok, cnt := core.GuardedBy(fn, ret, gLen)
			r.Check(ok && cnt[0] > 0 && sigSlice != nil, "C12.1-token-gates", base+" / length covers the signature slice", c.pos(ret), "", "a token shorter than header+signature is not refused before it is sliced (crash) or compared")
		} else {
			// in the helper every return without error is behind the length test; here the success
			// return is behind the helper's success
			okH := true
			nH := 0
			for _, hs := range successReturns(parseFn) {
				nH++
				saved := core.NoLift
				core.NoLift = true
				ok, cnt := core.GuardedBy(parseFn, hs.at, gLen)
				core.NoLift = saved
				if !ok || cnt[0] == 0 {
					okH = false
				}
			}
			r.Check(okH && nH > 0 && c.afterSuccessOf(fn, parseCall, ret), "C12.1-token-gates", base+" / length covers the signature slice", c.pos(ret), "", "a token shorter than header+signature is not refused before it is sliced (crash) or compared")
		}
		if sigSlice != nil {
			saved := core.NoLift
			core.NoLift = parseFn != nil
			ok2, c2 := core.GuardedBy(lenFn, sigSlice, gLen)
			core.NoLift = saved
			r.Check(ok2 && c2[0] > 0, "C12.1b-token-slice-bounded", fk(fn)+": token[dataSize:dataSize+sha256.Size]", c.pos(sigSlice), "slice bound dominated by the length test on the same expression", "the signature slice of the token is taken without a dominating length test: a short token panics the read loop")
		}
		// b. MAC comparison
		gMac := core.Guard{Name: "hmac.Equal", Match: func(a core.CondAtom) (bool, bool) {
			if a.Op == token.ILLEGAL {
				switch calleeFullName(a.Val) {
				case "crypto/hmac.Equal":
					return true, true
				}
			}
			if a.Op == token.EQL {
				for _, pr := range [][2]ssa.Value{{a.X, a.Y}, {a.Y, a.X}} {
					if calleeFullName(pr[0]) == "crypto/subtle.ConstantTimeCompare" && core.IsConstInt(1)(pr[1]) {
						return true, true
					}
				}
			}
			return false, false
		}}
		ok, cnt := core.GuardedBy(fn, ret, gMac)
		r.Check(ok && cnt[0] > 0, "C12.1-token-gates", base+" / constant-time MAC equality", c.pos(ret), "", "a token is accepted without a constant-time comparison of its signature with the recomputed MAC")
		// c. level
		gLvl := core.LessGuard("AuthLevel<=LevelRoot", core.IsConstOf(levelRoot), core.Any, false)
		ok, cnt = core.GuardedBy(fn, ret, gLvl)
		r.Check(ok && cnt[0] > 0, "C12.1-token-gates", base+" / level within range", c.pos(ret), "", "a token with an out-of-range authentication level is accepted")
		// d. serial
		gSer := core.EqGuard("serial==configured", core.IsFieldLoad(serialTok), core.IsFieldLoad(serialCfg), true)
		ok, cnt = core.GuardedBy(fn, ret, gSer)
		r.Check(ok && cnt[0] > 0, "C12.1-token-gates", base+" / serial number", c.pos(ret), "", "a token issued under another serial number is accepted")
		// e. expiry: time.Time.Before on a time derived from tl.Expires must be false
		gExp := core.Guard{Name: "!expires.Before(now+1s)", Match: func(a core.CondAtom) (bool, bool) {
			if a.Op != token.ILLEGAL {
				return false, false
			}
			name := calleeFullName(a.Val)
			if name != "(time.Time).Before" && name != "(time.Time).After" {
				return false, false
			}
			args := core.Strip(a.Val).(*ssa.Call).Call.Args
			isExp := func(v ssa.Value) bool { return derivesThroughCalls(v, core.IsFieldLoad(expiresTok), 0) }
			switch {
			case isExp(args[0]) && !isExp(args[1]):
				// expires.Before(now+1s) must be false; expires.After(now+1s) must be true
				return true, name == "(time.Time).After"
			case isExp(args[1]) && !isExp(args[0]):
				// (now+1s).After(expires) must be false; (now+1s).Before(expires) must be true
				return true, name == "(time.Time).Before"
			}
			return false, false
		}}
		ok, cnt = core.GuardedBy(fn, ret, gExp)
		r.Check(ok && cnt[0] > 0, "C12.1-token-gates", base+" / not expired", c.pos(ret), "", "an expired token is accepted (the expiry is not compared as a time, e.g. unsigned arithmetic wraps)")
		// g. record fields from the layout
		if a, ok := core.Strip(sp.rec).(*ssa.Alloc); ok {
			fields := literalFields(a)
			fromLayout := func(v ssa.Value) bool {
				return derivesThroughCalls(v, func(x ssa.Value) bool {
					f, base := core.LoadedField(x)
					if f == nil {
						return false
					}
					pt, isP := base.Type().(*types.Pointer)
					return isP && types.Identical(pt.Elem(), layoutT)
				}, 0)
			}
			for _, f := range []string{"Uid", "AuthLevel", "Features"} {
				r.Check(fields[f] != nil && fromLayout(fields[f]), "C12.1c-token-record", fmt.Sprintf("%s: Rec.%s comes from the signed layout", fk(fn), f), c.pos(ret), "", "the authenticated record's "+f+" does not come from the signed token fields")
			}
		}
	}
	// f. MAC key = configured salt
	okKey := false
	c.withCallees(fn, 2, func(_ *ssa.Function, in ssa.Instruction, _ ssa.Instruction) {
		if call, ok := in.(*ssa.Call); ok && calleeFullName(call) == "crypto/hmac.New" {
			if core.IsFieldLoad(saltF)(call.Call.Args[1]) {
				okKey = true
			}
		}
	})
	r.Check(okKey, "C12.1d-token-key", fk(fn)+": MAC keyed with the configured salt", c.P.Pos(fn.Pos()), "", "the token MAC is not keyed with the server's configured salt")
}

func (c *Ctx) checkAPIKeyRule() {
	r := c.R
	fn := c.ssaFn("server", "checkAPIKey")
	r.Func(fk(fn))
	keyLen := c.konst("server", "apikeyLength")
	r.Floor("C12.2-apikey-gates", 3)
	// returns with isValid == true
	var rets []*ssa.Return
	core.AllInstrs(fn, func(in ssa.Instruction) {
		if ret, ok := in.(*ssa.Return); ok {
			if k, ok := core.Strip(ret.Results[0]).(*ssa.Const); ok && k.Value != nil && k.Value.Kind() == constant.Bool && constant.BoolVal(k.Value) {
				rets = append(rets, ret)
			} else if known, val := constBoolResult(ret.Results[0]); known && !val {
				// `return reject(..)`: a helper / function literal that always yields false
			} else if _, isConst := core.Strip(ret.Results[0]).(*ssa.Const); !isConst {
				rets = append(rets, ret) // phi: may be true
			}
		}
	})
	if len(rets) == 0 {
		r.Fail("C12.2-apikey-gates", fk(fn)+": valid return", "-", "no return that can yield isValid=true: undecided")
		return
	}
	for _, ret := range rets {
		base := fk(fn) + ": return isValid=true"
		gLen := core.EqGuard("DecodedLen==apikeyLength", core.Any, core.IsConstOf(keyLen), true)
		ok, cnt := core.GuardedBy(fn, ret, gLen)
		r.Check(ok && cnt[0] > 0, "C12.2-apikey-gates", base+" / length", c.pos(ret), "", "an API key of the wrong length is accepted")
		gVer := core.EqGuard("data[0]==1", core.Any, core.IsConstInt(1), true)
		ok, cnt = core.GuardedBy(fn, ret, gVer)
		r.Check(ok && cnt[0] > 0, "C12.2-apikey-gates", base+" / version", c.pos(ret), "", "an API key with an unknown version byte is accepted")
		gSig := core.Guard{Name: "signature equal", Match: func(a core.CondAtom) (bool, bool) {
			if a.Op != token.ILLEGAL {
				return false, false
			}
			switch calleeFullName(a.Val) {
			case "bytes.Equal", "crypto/hmac.Equal":
				return true, true
			}
			return false, false
		}}
		ok, cnt = core.GuardedBy(fn, ret, gSig)
		r.Check(ok && cnt[0] > 0, "C12.2-apikey-gates", base+" / signature", c.pos(ret), "", "an API key whose signature does not match the server's salt is accepted")
	}
	saltF := c.globalStructField("server", "globals", "apiKeySalt")
	okKey := false
	c.withCallees(fn, 2, func(_ *ssa.Function, in ssa.Instruction, _ ssa.Instruction) {
		if call, ok := in.(*ssa.Call); ok && calleeFullName(call) == "crypto/hmac.New" && core.IsFieldLoad(saltF)(call.Call.Args[1]) {
			okKey = true
		}
	})
	r.Check(okKey, "C12.2-apikey-gates", fk(fn)+": signature keyed with the server's API-key salt", c.P.Pos(fn.Pos()), "", "the API key signature is not keyed with the configured salt")
}

func (c *Ctx) checkCodeAuth() {
	r := c.R
	fn := c.ssaMethod("server/auth/code", "authenticator", "Authenticate")
	r.Func(fk(fn))
	maxRetries := c.field("server/auth/code", "authenticator", "maxRetries")
	pcDelete := c.E().storeIface("PersistentCacheInterface", "Delete")
	pcUpsert := c.E().storeIface("PersistentCacheInterface", "Upsert")
	r.Floor("C12.3-reset-code", 3)
	succ := successReturns(fn)
	if len(succ) == 0 {
		r.Fail("C12.3-reset-code", fk(fn)+": success return", "-", "no success return: undecided")
		return
	}
	// the attempt counter: result of strconv.Atoi
	isAtoi := func(v ssa.Value) bool {
		ex, ok := core.Strip(v).(*ssa.Extract)
		return ok && ex.Index == 0 && calleeFullName(ex.Tuple) == "strconv.Atoi"
	}
	// also when the stored value is decoded by an extracted parser returning the counter
	isCount := func(v ssa.Value) bool {
		if isAtoi(v) || core.Derives(core.Strip(v), isAtoi, true) {
			return true
		}
		// the counter field of a record parsed by a helper: every value it can hold is the Atoi result
		if call, ri, path, ok := core.ResultComponent(core.Strip(v)); ok && len(path) == 1 {
			vals, _, okv := core.ReturnedFieldValues(call.Call.StaticCallee(), ri, path[0])
			if !okv || len(vals) == 0 {
				return false
			}
			for _, fv := range vals {
				if !(isAtoi(fv) || core.Derives(core.Strip(fv), isAtoi, true)) {
					return false
				}
			}
			return true
		}
		return false
	}
	gCount := core.LessGuard("count<maxRetries", isCount, core.IsFieldLoad(maxRetries), true)
	// code equality: comparison of two strings where one derives from the secret parameter
	secretP := fn.Params[1]
	pcGet := c.E().storeIface("PersistentCacheInterface", "Get")
	fromStore := func(v ssa.Value) bool {
		return derivesAny(v, func(x ssa.Value) bool {
			ex, ok := x.(*ssa.Extract)
			if !ok {
				return false
			}
			call, ok := ex.Tuple.(*ssa.Call)
			return ok && core.CalleeOf(&call.Call) == pcGet
		})
	}
	fromSecret := func(v ssa.Value) bool {
		return !fromStore(v) && derivesAny(v, func(x ssa.Value) bool { return x == ssa.Value(secretP) })
	}
	gCode := core.Guard{Name: "stored code == supplied code", Match: func(a core.CondAtom) (bool, bool) {
		if a.Op != token.EQL {
			return false, false
		}
		if b, ok := a.X.Type().Underlying().(*types.Basic); !ok || b.Kind() != types.String {
			return false, false
		}
		if (fromSecret(a.X) && fromStore(a.Y)) || (fromSecret(a.Y) && fromStore(a.X)) {
			return true, true
		}
		return false, false
	}}
	for _, sp := range succ {
		ret := sp.at
		base := fk(fn) + ": success return"
		ok, cnt := core.GuardedBy(fn, ret, gCount)
		r.Check(ok && cnt[0] > 0, "C12.3-reset-code", base+" / attempts below the limit", c.pos(ret), "", "a reset code is accepted although the number of wrong guesses reached the limit")
		ok, cnt = core.GuardedBy(fn, ret, gCode)
		r.Check(ok && cnt[0] > 0, "C12.3-reset-code", base+" / code equality", c.pos(ret), "", "a reset code is accepted without comparing it with the stored one")
		// delete before success
		miss, _ := core.PathAvoiding(fn, nil, func(in ssa.Instruction) bool { return in == ret }, core.IsCallInstrTo(pcDelete), nil)
		r.Check(!miss, "C12.3-reset-code", base+" / entry deleted (single use)", c.pos(ret), "", "a reset code can be accepted without being deleted: it can be used again")
	}
	// wrong guess: from the mismatch edge every path to return passes Upsert(count+1, false)
	fe := core.FailEdges(fn, gCode)
	isBump := func(in ssa.Instruction) bool {
		call, ok := in.(*ssa.Call)
		if !ok || core.CalleeOf(&call.Call) != pcUpsert {
			return false
		}
		args := core.CallArgs(&call.Call)
		last := args[len(args)-1]
		k, ok := core.Strip(last).(*ssa.Const)
		if !ok || k.Value == nil || constant.BoolVal(k.Value) {
			return false // failOnDuplicate must be false: the key exists
		}
		// the value contains count+1
		return derivesAny(args[2], func(x ssa.Value) bool {
			b, ok := x.(*ssa.BinOp)
			return ok && b.Op == token.ADD && isCount(b.X) && core.IsConstInt(1)(b.Y)
		})
	}
	miss, w := core.PathFromEdgeAvoiding(fn, fe, core.IsReturn, isBump, nil)
	r.Check(!miss && len(fe) > 0, "C12.3b-wrong-guess-counted", fk(fn)+": a wrong guess stores count+1 (overwriting the existing entry)", c.P.Pos(fn.Pos()), "", "a wrong guess can return"+posOf(c, w)+" without the attempt counter being advanced (or the write cannot overwrite the existing entry): the code can be brute-forced")
}

// derivesAny: v derives from a value satisfying p through calls, string concatenation, slicing,
// indexing, conversions and phis.
func derivesAny(v ssa.Value, p core.VPred) bool {
	seen := map[ssa.Value]bool{}
	var walk func(x ssa.Value, d int) bool
	walk = func(x ssa.Value, d int) bool {
		if x == nil || d > 12 || seen[x] {
			return false
		}
		seen[x] = true
		if w, ok := core.ParamSubst[x]; ok && w != x {
			return walk(w, d+1)
		}
		if p(x) {
			return true
		}
		// a field of a record returned by a helper (`entry := parse(value)`, `entry.code`): the values
		// that field holds at the helper's returns, or - when they cannot be told - the call itself
		if call, ri, path, ok := core.ResultComponent(x); ok && len(path) > 0 {
			if vals, _, okv := core.ReturnedFieldValues(call.Call.StaticCallee(), ri, path[0]); okv && len(path) == 1 {
				saved := core.ParamSubst
				ns := map[ssa.Value]ssa.Value{}
				for k, v := range saved {
					ns[k] = v
				}
				callee := call.Call.StaticCallee()
				for i, pp := range callee.Params {
					if i < len(call.Call.Args) {
						ns[pp] = call.Call.Args[i]
					}
				}
				core.ParamSubst = ns
				hit := false
				for _, fv := range vals {
					if walk(fv, d+1) {
						hit = true
						break
					}
				}
				core.ParamSubst = saved
				return hit
			}
		}
		switch y := x.(type) {
		case *ssa.Field:
			// a field of a struct value (a small result struct): derives from the struct
			return walk(y.X, d+1)
		case *ssa.Call:
			for _, a := range core.CallArgs(&y.Call) {
				if walk(a, d+1) {
					return true
				}
			}
			// what a module helper / method computes from its arguments
			if g := y.Call.StaticCallee(); g != nil && core.InModule(g) && len(g.Blocks) > 0 && d < 6 {
				saved := core.ParamSubst
				ns := map[ssa.Value]ssa.Value{}
				for k, v := range saved {
					ns[k] = v
				}
				for i, pp := range g.Params {
					if i < len(y.Call.Args) {
						ns[pp] = y.Call.Args[i]
					}
				}
				core.ParamSubst = ns
				hit := false
				core.AllInstrs(g, func(in ssa.Instruction) {
					if ret, ok := in.(*ssa.Return); ok && !hit {
						for _, rv := range ret.Results {
							if walk(rv, d+2) {
								hit = true
							}
						}
					}
				})
				core.ParamSubst = saved
				if hit {
					return true
				}
			}
		case *ssa.Alloc:
			// a local array / variadic argument list: what is stored into it or into its elements
			if y.Referrers() != nil {
				for _, ref := range *y.Referrers() {
					switch z := ref.(type) {
					case *ssa.Store:
						if z.Addr == ssa.Value(y) && walk(z.Val, d+1) {
							return true
						}
					case *ssa.IndexAddr:
						if z.Referrers() != nil {
							for _, r2 := range *z.Referrers() {
								if st, ok := r2.(*ssa.Store); ok && st.Addr == ssa.Value(z) && walk(st.Val, d+1) {
									return true
								}
							}
						}
					}
				}
			}
		case *ssa.BinOp:
			return walk(y.X, d+1) || walk(y.Y, d+1)
		case *ssa.UnOp:
			return walk(y.X, d+1)
		case *ssa.IndexAddr:
			return walk(y.X, d+1)
		case *ssa.Index:
			return walk(y.X, d+1)
		case *ssa.Slice:
			return walk(y.X, d+1)
		case *ssa.Convert:
			return walk(y.X, d+1)
		case *ssa.ChangeType:
			return walk(y.X, d+1)
		case *ssa.MakeInterface:
			return walk(y.X, d+1)
		case *ssa.Extract:
			return walk(y.Tuple, d+1)
		case *ssa.Phi:
			for _, e := range y.Edges {
				if walk(e, d+1) {
					return true
				}
			}
		}
		return false
	}
	return walk(v, 0)
}

func (c *Ctx) checkBasicAuth() {
	r := c.R
	fn := c.ssaMethod("server/auth/basic", "authenticator", "Authenticate")
	r.Func(fk(fn))
	isZero := c.method("server/store/types", "Uid", "IsZero")
	r.Floor("C12.4-password", 3)
	succ := successReturns(fn)
	if len(succ) == 0 {
		r.Fail("C12.4-password", fk(fn)+": success return", "-", "no success return: undecided")
		return
	}
	for _, sp := range succ {
		ret := sp.at
		base := fk(fn) + ": success return"
		ok, cnt := core.GuardedBy(fn, ret, core.BoolGuard("!uid.IsZero()", core.IsCallTo(isZero), false))
		r.Check(ok && cnt[0] > 0, "C12.4-password", base+" / login exists", c.pos(ret), "", "an unknown login can authenticate")
		gBcrypt := core.Guard{Name: "bcrypt ok", Match: func(a core.CondAtom) (bool, bool) {
			if a.Op != token.EQL {
				return false, false
			}
			for _, pr := range [][2]ssa.Value{{a.X, a.Y}, {a.Y, a.X}} {
				if core.IsNil(pr[1]) && calleeFullName(pr[0]) == "golang.org/x/crypto/bcrypt.CompareHashAndPassword" {
					return true, true
				}
			}
			return false, false
		}}
		ok, cnt = core.GuardedBy(fn, ret, gBcrypt)
		r.Check(ok && cnt[0] > 0, "C12.4-password", base+" / password hash matches", c.pos(ret), "", "a wrong password can authenticate")
		gExp := core.Guard{Name: "!expires.Before(now)", Match: func(a core.CondAtom) (bool, bool) {
			if a.Op != token.ILLEGAL {
				return false, false
			}
			name := calleeFullName(a.Val)
			if name != "(time.Time).Before" && name != "(time.Time).After" {
				return false, false
			}
			// which operand is the current time: expires.Before(now) / now.After(expires) mean expired,
			// now.Before(expires) / expires.After(now) mean still valid
			call := core.Strip(a.Val).(*ssa.Call)
			isNow := func(v ssa.Value) bool {
				return derivesAny(v, func(x ssa.Value) bool { return calleeFullName(x) == "time.Now" })
			}
			recvNow, argNow := isNow(call.Call.Args[0]), isNow(call.Call.Args[1])
			if recvNow == argNow {
				return false, false
			}
			expiredWhenTrue := (name == "(time.Time).Before" && argNow) || (name == "(time.Time).After" && recvNow)
			return true, !expiredWhenTrue
		}}
		gNoExp := core.Guard{Name: "expires.IsZero()", Match: func(a core.CondAtom) (bool, bool) {
			if a.Op == token.ILLEGAL && calleeFullName(a.Val) == "(time.Time).IsZero" {
				return true, true
			}
			return false, false
		}}
		ok, cnt = core.GuardedBy(fn, ret, gExp, gNoExp)
		r.Check(ok && cnt[0] > 0, "C12.4-password", base+" / record not expired", c.pos(ret), "", "an expired password record can authenticate")
	}
	// lower-cased unique login
	ps := c.ssaFn("server/auth/basic", "parseSecret")
	lower := false
	core.AllInstrs(ps, func(in ssa.Instruction) {
		ret, ok := in.(*ssa.Return)
		if !ok {
			return
		}
		v := ret.Results[0]
		if derivesAny(v, func(x ssa.Value) bool { return calleeFullName(x) == "strings.ToLower" }) {
			lower = true
		}
	})
	r.Check(lower, "C12.4b-login-case", fk(ps)+": login passes through strings.ToLower", c.P.Pos(ps.Pos()), "", "logins are no longer lower-cased: 'Alice' and 'alice' become different accounts")
	c.checkPasswordVerbatim()
	// every unique argument of the auth-record store calls derives from parseSecret #0
	for _, mname := range []string{"GetAuthUniqueRecord", "AddAuthRecord", "UpdateAuthRecord"} {
		m := c.E().storeIface("UsersPersistenceInterface", mname)
		for _, f := range c.P.ModFuncs {
			if !core.InPkg(f, "server/auth/basic") {
				continue
			}
			for _, ci := range core.CallsTo(f, m) {
				args := core.CallArgs(ci.Common())
				ok := false
				for _, a := range args[1:] {
					if derivesAny(a, func(x ssa.Value) bool {
						ex, isEx := x.(*ssa.Extract)
						return isEx && ex.Index == 0 && core.CalleeOf(ex.Tuple.(*ssa.Call).Common()) != nil && core.CalleeOf(ex.Tuple.(*ssa.Call).Common()).Name() == "parseSecret"
					}) {
						ok = true
					}
				}
				r.Func(fk(f))
				r.Check(ok, "C12.4b-login-case", fmt.Sprintf("%s: %s(unique) derives from parseSecret", fk(f), mname), c.pos(ci), "", "a login reaches the store without passing through parseSecret (not lower-cased)")
			}
		}
	}
}
