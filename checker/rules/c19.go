package rules

import (
	"fmt"
	"go/token"
	"strings"

	"golang.org/x/tools/go/ssa"

	"verifchk/core"
)

func init() { register("C19", checkC19) }

func checkC19(c *Ctx) {
	r := c.R
	r.Explanation = "Structural necessary conditions of the tag rules and of search scoping: (1) client tag writes: every result of normalizeTags() that flows into stored or cached tags (types.User.Tags, types.Topic.Tags, Topic.tags, a \"Tags\" update key) does so only behind restrictedTagsEqual(.., globals.immutableTagNS)==true; every assignment of those sinks in package server takes a value from normalizeTags, from the stored record, or from the credential machinery (census with roles); (2) search: Users.FindSubs is cut off unless the query parser returned no error and the list of restricted terms the user does not carry is empty; that list is computed by filterRestrictedTags over both the required and the optional terms of the parsed query with globals.maskedTagNS and compared with the user's own tags; required/optional terms handed to the store are the parser's results; the activeOnly argument is `session level != LevelRoot`; (3) group tags can be read/written only by the owner (shared with C06)."
	r.NotDecided = []string{"the query grammar (hand-written lexer/parser over all strings): parse results for malformed queries are a value-level question - except the one structural clause of C19.5 (which variable the repeated-operator refusal consults)", "tag normalisation laws beyond the order of folding and sorting", "validator rewriting of e-mail/phone/login terms"}
	r.Trusted = []string{"go/types, go/ssa"}

	c.checkTagWrites()
	c.checkSearchScope()
	c.checkRewriteOnlyIndexed()
	c.checkTagDeltaOrder()
	c.checkTagsNormalisedBeforeSort()
	c.checkRepeatedOperatorSeenAcrossSpace()
	// of the owner-only operations (C06.5) only those on tags belong to this property
	c.R.Scoped(func(rule, construct string) bool { return strings.Contains(construct, "Tags") }, c.checkOwnerOnlyOps)
}

func (c *Ctx) checkTagWrites() {
	r := c.R
	norm := c.fn("server", "normalizeTags")
	rte := c.fn("server", "restrictedTagsEqual")
	immut := c.globalStructField("server", "globals", "immutableTagNS")
	userTags := c.field("server/store/types", "User", "Tags")
	topicTags := c.field("server/store/types", "Topic", "Tags")
	liveTags := c.E().topicField("tags")
	r.Floor("C19.1-tag-writes-guarded", 3)
	isNorm := core.IsCallTo(norm)
	for _, nfn := range c.funcsCalling(norm, "server") {
		r.Func(fk(nfn))
		// sinks: stores of values derived from normalizeTags into tag fields, or "Tags" map keys; when the
		// handler was split into phases they sit in another phase: the handler is the nearest function
		// up the chain of sole callers whose region has such a sink
		isSink := func(in ssa.Instruction) bool {
			switch x := in.(type) {
			case *ssa.Store:
				f, _ := core.FieldOfAddr(x.Addr)
				return (f == userTags || f == topicTags || f == liveTags) && core.Derives(x.Val, isNorm, false)
			case *ssa.MapUpdate:
				return core.IsConstString("Tags")(x.Key) && (derivesAny(x.Value, isNorm) || core.Derives(x.Value, isNorm, false))
			}
			return false
		}
		fn := c.climbUntil(nfn, func(R *ssa.Function) bool { return c.regionHas(R, isSink) })
		var sinks []ssa.Instruction
		c.regionInstrs(fn, func(_ *ssa.Function, in ssa.Instruction) {
			if isSink(in) {
				sinks = append(sinks, in)
			}
		})
		g := core.BoolGuard("restrictedTagsEqual(.., immutableTagNS)", func(v ssa.Value) bool {
			call, ok := v.(*ssa.Call)
			if !ok || core.CalleeOf(&call.Call) != rte {
				return false
			}
			return core.IsFieldLoad(immut)(call.Call.Args[2]) && (core.Derives(call.Call.Args[0], isNorm, false) || core.Derives(call.Call.Args[1], isNorm, false))
		}, true)
		// an empty normalised list has nothing to restrict
		gEmpty := core.Guard{Name: "len(tags)==0", Match: func(a core.CondAtom) (bool, bool) {
			isL := func(v ssa.Value) bool {
				return isLenOf(func(x ssa.Value) bool { return core.Derives(x, isNorm, false) })(v)
			}
			if a.Op == token.LSS && core.IsConstInt(0)(a.X) && isL(a.Y) {
				return true, false
			}
			if a.Op == token.EQL && core.IsNil(a.Y) && core.Derives(a.X, isNorm, false) {
				return true, true
			}
			return false, false
		}}
		// ... when there are no old tags: the comparison is against nil (creation). Where existing tags
		// are compared (an update), an empty new list *removes* every old reserved tag and is not exempt.
		comparesOld := false
		c.regionInstrs(fn, func(_ *ssa.Function, in ssa.Instruction) {
			call, ok := in.(*ssa.Call)
			if !ok || core.CalleeOf(&call.Call) != rte || len(call.Call.Args) < 2 {
				return
			}
			for _, a := range call.Call.Args[:2] {
				if !core.Derives(a, isNorm, false) && !core.IsNil(a) {
					comparesOld = true
				}
			}
		})
		if comparesOld {
			// `tags == nil` (the request carries no tags: nothing changes) stays exempt; `len(tags) == 0`
			// (an explicitly empty list) does not
			gEmpty = core.Guard{Name: "tags==nil", Match: func(a core.CondAtom) (bool, bool) {
				if a.Op == token.EQL && core.IsNil(a.Y) && core.Derives(a.X, isNorm, false) {
					return true, true
				}
				return false, false
			}}
		}
		for i, s := range sinks {
			// a merged value (phi with the no-tags case): the guard must hold on the edges that carry
			// the normalised tags
			var val ssa.Value
			switch x := s.(type) {
			case *ssa.Store:
				val = x.Val
			case *ssa.MapUpdate:
				val = x.Value
			}
			if phi, isPhi := core.Strip(val).(*ssa.Phi); isPhi {
				okAll, any := true, false
				for ei, e := range phi.Edges {
					if !core.Derives(e, isNorm, false) {
						continue
					}
					any = true
					pred := phi.Block().Preds[ei]
					pe, _ := core.PassEdges(s.Parent(), g, gEmpty)
					viaPass := false
					for si, su := range pred.Succs {
						if su == phi.Block() && pe[core.Edge{From: pred, Idx: si}] {
							viaPass = true
						}
					}
					if viaPass {
						continue
					}
					if ok, _ := core.GuardedBy(s.Parent(), pred.Instrs[len(pred.Instrs)-1], g, gEmpty); !ok {
						okAll = false
					}
				}
				r.Check(okAll && any, "C19.1-tag-writes-guarded", fmt.Sprintf("%s: tag write #%d", fk(fn), i+1), c.pos(s), "behind restrictedTagsEqual(.., globals.immutableTagNS)", "client-supplied tags can be stored without the reserved-namespace comparison: a client can add or remove tags owned by authenticators/validators")
				continue
			}
			ok, cnt := core.GuardedBy(s.Parent(), s, g, gEmpty)
			r.Check(ok && cnt[0] > 0, "C19.1-tag-writes-guarded", fmt.Sprintf("%s: tag write #%d", fk(fn), i+1), c.pos(s), "behind restrictedTagsEqual(.., globals.immutableTagNS)", "client-supplied tags can be stored without the reserved-namespace comparison: a client can add or remove tags owned by authenticators/validators")
		}
		r.Check(len(sinks) > 0, "C19.1-tag-writes-guarded", fk(fn)+": normalised tags reach a tag sink", c.P.Pos(fn.Pos()), "", "normalizeTags is called but its result is not what gets stored")
	}
	// census of all assignments of the tag sinks
	r.Floor("C19.1b-tag-writer-census", 5)
	stored := core.Or(core.IsFieldLoad(userTags), core.IsFieldLoad(topicTags), core.IsFieldLoad(liveTags))
	updTags := c.E().storeIface("UsersPersistenceInterface", "UpdateTags")
	reachesUpdateTags := func(fn *ssa.Function) bool {
		seen := c.reaches([]*ssa.Function{fn}, true)
		for f := range seen {
			if len(core.CallsTo(f, updTags)) > 0 {
				return true
			}
		}
		return false
	}
	for _, a := range append(append(c.censusField(userTags), c.censusField(topicTags)...), c.censusField(liveTags)...) {
		if a.Kind != "store" || !core.InPkg(a.Fn, "server") {
			continue
		}
		st := a.Instr.(*ssa.Store)
		r.Func(fk(a.Fn))
		role := ""
		switch {
		case core.Derives(st.Val, isNorm, false):
			role = "normalised client tags"
		case core.Derives(st.Val, stored, true):
			role = "copied from a stored/cached record"
		case derivesAny(st.Val, func(v ssa.Value) bool {
			call, ok := v.(*ssa.Call)
			if !ok {
				return false
			}
			f := core.CalleeOf(&call.Call)
			if f != nil && (f.Name() == "UpdateTags" || f.Name() == "GetTags") {
				return true
			}
			if cal := call.Call.StaticCallee(); cal != nil && cal.Blocks != nil && reachesUpdateTags(cal) {
				return true
			}
			return false
		}):
			role = "result of the store's tag update (credential machinery)"
		case rootsInAlloc(st.Addr) && isParamRooted(st.Val):
			role = "literal built from a parameter"
		}
		construct := fmt.Sprintf("%s: assign %s", fk(a.Fn), a.Field.Name())
		if n := countSame(r, "C19.1b-tag-writer-census", construct); n > 0 {
			construct = fmt.Sprintf("%s #%d", construct, n+1)
		}
		r.Check(role != "", "C19.1b-tag-writer-census", construct, c.pos(st), role, "tags are assigned from a value that is neither normalised client input, a stored record nor the credential machinery: "+st.Val.String())
	}
}

func isParamRooted(v ssa.Value) bool {
	_, ok := rootParam(v)
	return ok
}

func (c *Ctx) checkSearchScope() {
	r := c.R
	find := c.E().storeIface("UsersPersistenceInterface", "FindSubs")
	parse := c.fn("server", "parseSearchQuery")
	filter := c.fn("server", "filterRestrictedTags")
	delta := c.fn("server", "stringSliceDelta")
	masked := c.globalStructField("server", "globals", "maskedTagNS")
	liveTags := c.E().topicField("tags")
	authLvl := c.E().sessionField("authLvl")
	root := c.konst("server/auth", "LevelRoot")
	r.Floor("C19.2-search-scope", 5)
	for _, fn := range c.funcsCalling(find, "server") {
		r.Func(fk(fn))
		for _, s := range core.CallsTo(fn, find) {
			sink := s.(ssa.Instruction)
			base := fk(fn) + ": Users.FindSubs"
			parses := core.CallsTo(fn, parse)
			if len(parses) != 1 {
				r.Fail("C19.2-search-scope", base+" / parser", c.pos(s), "the search handler does not call the query parser exactly once: undecided")
				continue
			}
			p := parses[0].(*ssa.Call)
			ok, _ := core.GuardedBy(fn, sink, successGuard(p))
			r.Check(ok, "C19.2-search-scope", base+" / query parsed without error", c.pos(s), "", "a malformed query reaches the store")
			// restricted-term filter
			// the filter may sit in an extracted predicate: remember the parameter substitution
			var fcall *ssa.Call
			var fOwner *ssa.Function
			var fSubst map[ssa.Value]ssa.Value
			c.withCallees(fn, 2, func(owner *ssa.Function, in ssa.Instruction, _ ssa.Instruction) {
				if call, ok := in.(*ssa.Call); ok && core.CalleeOf(&call.Call) == filter {
					fcall, fOwner = call, owner
					fSubst = map[ssa.Value]ssa.Value{}
					for k, v := range core.ParamSubst {
						fSubst[k] = v
					}
				}
			})
			if fcall == nil {
				r.Fail("C19.2-search-scope", base+" / masked-namespace filter", c.pos(s), "the search handler no longer filters masked-namespace terms")
				continue
			}
			req := errResultOf(p, 0)
			opt := errResultOf(p, 1)
			arg := fcall.Call.Args[0]
			core.ParamSubst = fSubst
			coversReq := derivesAny(arg, req)
			coversOpt := derivesAny(arg, opt)
			core.ParamSubst = nil
			r.Check(coversReq && coversOpt, "C19.2-search-scope", base+" / filter covers required and optional terms", c.pos(fcall), "", fmt.Sprintf("the masked-namespace filter does not see all query terms (required=%v optional=%v): a foreign masked tag in the uncovered position reaches the store", coversReq, coversOpt))
			r.Check(core.IsFieldLoad(masked)(fcall.Call.Args[1]), "C19.2-search-scope", base+" / filter uses globals.maskedTagNS", c.pos(fcall), "", "the filter is not applied with the configured masked namespaces")
			// compared with the user's own tags; denial when anything is left
			var dcall *ssa.Call
			for _, dc := range core.CallsTo(fOwner, delta) {
				d := dc.(*ssa.Call)
				if derivesAny(d.Call.Args[1], func(v ssa.Value) bool { return v == ssa.Value(fcall) }) {
					dcall = d
				}
			}
			if dcall == nil {
				r.Fail("C19.2-search-scope", base+" / compared with own tags", c.pos(s), "the filtered terms are not compared with the searcher's own tags")
				continue
			}
			r.Check(core.IsFieldLoad(liveTags)(dcall.Call.Args[0]), "C19.2-search-scope", base+" / compared with the searcher's own tags", c.pos(dcall), "", "masked terms are compared with something other than the searcher's tags")
			gNone := core.Guard{Name: "len(restr)==0", Match: func(a core.CondAtom) (bool, bool) {
				// len(restr) > 0  ==  0 < len(restr)
				// the list that is tested is the result of the comparison on every path: a merge with "nothing
				// left" from a path that skipped the comparison does not count
				var allFrom func(x ssa.Value, d int) bool
				allFrom = func(x ssa.Value, d int) bool {
					if phi, isPhi := core.Strip(x).(*ssa.Phi); isPhi && d < 4 {
						for _, e := range phi.Edges {
							if !allFrom(e, d+1) {
								return false
							}
						}
						return len(phi.Edges) > 0
					}
					return core.Derives(x, errResultOf(dcall, 0), false)
				}
				isRestr := func(v ssa.Value) bool {
					return isLenOf(func(x ssa.Value) bool { return allFrom(x, 0) })(v)
				}
				if a.Op == token.LSS && core.IsConstInt(0)(a.X) && isRestr(a.Y) {
					return true, false
				}
				if a.Op == token.EQL && ((isRestr(a.X) && core.IsConstInt(0)(a.Y)) || (isRestr(a.Y) && core.IsConstInt(0)(a.X))) {
					return true, true
				}
				return false, false
			}}
			ok, cnt := core.GuardedBy(fn, sink, gNone)
			r.Check(ok && cnt[0] > 0, "C19.2-search-scope", base+" / no foreign masked term", c.pos(s), "", "a search with masked-namespace terms the user does not carry reaches the store")
			// arguments
			args := core.CallArgs(s.Common()) // recv, uid, req, opt, activeOnly
			okArgs := req(args[2]) && opt(args[3])
			r.Check(okArgs, "C19.2-search-scope", base+" / terms are the parser's results", c.pos(s), "", "the store is queried with terms other than the parsed query")
			okActive := core.IsBinOp(token.NEQ, core.IsFieldLoad(authLvl), core.IsConstOf(root), true)(args[4])
			r.Check(okActive, "C19.2-search-scope", base+" / activeOnly = (level != root)", c.pos(s), "", "ordinary users can be shown suspended or deleted accounts/topics (activeOnly is not `session level != LevelRoot`)")
		}
	}
}
