package rules

import (
	"fmt"
	"go/token"
	"go/types"
	"sort"

	"golang.org/x/tools/go/ssa"

	"verifchk/core"
)

func init() { register("C04", checkC04) }

func checkC04(c *Ctx) {
	r := c.R
	r.Explanation = "Structural necessary conditions of exact history and deletion: (1) store.Messages.GetAll / GetDeleted are cut off unless IsReader(want&given) of the requester passed; the query is made for Topic.name, the requesting-user parameter and msgOpts2storeOpts(<request options>): never another topic's messages or another user's deletions; (2) store.Messages.DeleteList is cut off unless the requester has D or R, channel addressing is refused, a requester without D passes the store Hard=false before the hard/soft decision is read (the flag that selects `for everyone` is loaded after the downgrade), the delete id is Topic.delID+1 and Topic.delID is advanced only on the success edge of DeleteList, the ranges handed to the store are the result of RangeSorter.Normalize applied after sort.Sort on every non-error path; (3) in the store layer the deletion log is sorted before it is normalised and the normalised ranges are what is returned; (4) the count reported for a history request is the length of the returned message slice."
	r.NotDecided = []string{"the range algebra itself: RangeSorter.Normalize treats the exclusive Hi as inclusive when testing adjacency and does not compact kept elements (value-level; observed wrong by reading, outside static reach)", "limits and clipping arithmetic", "adapter SQL semantics"}
	r.Trusted = []string{"go/types, go/ssa", "sort.Sort", "errors.New results are non-nil"}
	core.ExtraNilness = errorsNewNonNil
	defer func() { core.ExtraNilness = nil }()

	c.checkHistoryReads()
	c.checkDeleteList()
	c.checkDeletionLog()
	c.checkGetOptsAgreement()
	c.checkClipExact()
	c.checkNormalizeHalfOpen()
	c.checkAdapterBoundsAgree()
	c.checkRangeHiExclusive()
	// every numbered delete transaction is recorded at the topic row (next number after a reload)
	c.checkDelIdRecorded()
	c.checkSavedTimestamp()
	c.checkQueryBoundsOneToOne()
}

func (c *Ctx) checkHistoryReads() {
	r := c.R
	isReader := c.E().modeMethod("IsReader")
	name := c.E().topicField("name")
	opts := c.fn("server", "msgOpts2storeOpts")
	r.Floor("C04.1-history-gated-and-scoped", 4)
	for _, mname := range []string{"GetAll", "GetDeleted"} {
		m := c.E().storeIface("MessagesPersistenceInterface", mname)
		for _, fn := range c.funcsCalling(m, "server") {
			r.Func(fk(fn))
			for _, s := range core.CallsTo(fn, m) {
				construct := fmt.Sprintf("%s: Messages.%s", fk(fn), mname)
				ok, cnt := core.GuardedBy(fn, s.(ssa.Instruction), core.BoolGuard("IsReader(want&given)", core.IsCallTo(isReader, c.isEffMode()), true))
				r.Check(ok && cnt[0] > 0, "C04.1-history-gated-and-scoped", construct+" / requester can read", c.pos(s), "", "history (or the deletion log) is read for a user without read permission")
				args := core.CallArgs(s.Common()) // recv, topic, forUser, opts
				okTopic := core.IsFieldLoad(name)(args[1])
				_, okUser := core.Strip(args[2]).(*ssa.Parameter)
				okOpts := core.IsCallTo(opts, isParam)(args[3]) || core.IsCallTo(opts)(args[3])
				r.Check(okTopic, "C04.1-history-gated-and-scoped", construct+" / for this topic", c.pos(s), "", "history is queried for a name other than the topic's own")
				r.Check(okUser, "C04.1-history-gated-and-scoped", construct+" / for the requesting user", c.pos(s), "", "history is queried on behalf of a user other than the requester (another user's soft deletions would apply)")
				r.Check(okOpts, "C04.1-history-gated-and-scoped", construct+" / options from the request", c.pos(s), "", "the query options do not come from the request through msgOpts2storeOpts")
			}
		}
	}
	// count == len(messages)
	getAll := c.E().storeIface("MessagesPersistenceInterface", "GetAll")
	for _, fn := range c.funcsCalling(getAll, "server") {
		for _, s := range core.CallsTo(fn, getAll) {
			okCount := false
			core.AllInstrs(fn, func(in ssa.Instruction) {
				if mu, ok := in.(*ssa.MapUpdate); ok && core.IsConstString("count")(mu.Key) {
					if derivesAny(mu.Value, func(v ssa.Value) bool {
						// len(result), also when the result is merged with nil on the no-permission path
						return isLenOf(func(a ssa.Value) bool {
							return core.Derives(a, func(x ssa.Value) bool {
								if k, ok := x.(*ssa.Const); ok && k.Value == nil {
									return true
								}
								return errResultOf(s, 0)(x)
							}, true) && core.Derives(a, errResultOf(s, 0), false)
						})(v)
					}) {
						okCount = true
					}
				}
			})
			r.Check(okCount, "C04.4-count-is-len", fk(fn)+": reported count = len(messages)", c.pos(s), "", "the count reported for a history request is not the number of messages returned")
		}
	}
}

func (c *Ctx) checkDeleteList() {
	r := c.R
	dl := c.E().storeIface("MessagesPersistenceInterface", "DeleteList")
	isDeleter := c.E().modeMethod("IsDeleter")
	isReader := c.E().modeMethod("IsReader")
	hardF := c.field("server", "MsgClientDel", "Hard")
	delID := c.E().topicField("delID")
	normalize := c.method("server/store/types", "RangeSorter", "Normalize")
	r.Floor("C04.2-delete-exact", 6)
	for _, sfn := range c.funcsCalling(dl, "server") {
		if !isPtrToNamedRecv(sfn, "Topic") {
			continue
		}
		r.Func(fk(sfn))
		// the delete handler: the function that calls the store, or - when the handler was split into
		// phases (authorise / apply / notify) - the function the phases belong to: the nearest one up
		// the chain of sole callers whose region contains the permission test
		isDelTest := func(in ssa.Instruction) bool {
			call, ok := in.(*ssa.Call)
			return ok && core.CalleeOf(&call.Call) == isDeleter
		}
		fn := c.climbUntil(sfn, func(root *ssa.Function) bool { return c.regionHas(root, isDelTest) })
		var regionFns []*ssa.Function
		for f := range c.regionOf(fn) {
			regionFns = append(regionFns, f)
		}
		sort.Slice(regionFns, func(i, j int) bool { return fk(regionFns[i]) < fk(regionFns[j]) })
		for _, s := range core.CallsTo(sfn, dl) {
			sink := s.(ssa.Instruction)
			isSink := func(in ssa.Instruction) bool { return in == sink }
			base := fk(fn) + ": Messages.DeleteList"
			gD := core.BoolGuard("IsDeleter(want&given)", core.IsCallTo(isDeleter, c.isEffMode()), true)
			gR := core.BoolGuard("IsReader(want&given)", core.IsCallTo(isReader, c.isEffMode()), true)
			ok, cnt := core.GuardedBy(sfn, sink, gD, gR)
			r.Check(ok && cnt[0] > 0 && cnt[1] > 0, "C04.2-delete-exact", base+" / requester has D or R", c.pos(s), "", "messages can be deleted by a user with neither delete nor read permission")
			// channel addressing refused
			var asChan *ssa.Parameter
			for _, p := range fn.Params {
				if b, ok := p.Type().Underlying().(*types.Basic); ok && b.Kind() == types.Bool {
					asChan = p
				}
			}
			if asChan != nil {
				ok, cnt := core.GuardedBy(sfn, sink, core.BoolGuard("!asChan", func(v ssa.Value) bool { return core.Strip(v) == ssa.Value(asChan) }, false))
				r.Check(ok && cnt[0] > 0, "C04.2-delete-exact", base+" / not for channel readers", c.pos(s), "", "a channel reader can delete messages")
			}
			// downgrade: from the !IsDeleter edge every path to the sink passes `Hard = false`
			isDowngrade := func(in ssa.Instruction) bool {
				st, ok := in.(*ssa.Store)
				if !ok {
					return false
				}
				f, _ := core.FieldOfAddr(st.Addr)
				if f != hardF {
					return false
				}
				k, ok := st.Val.(*ssa.Const)
				return ok && k.Value != nil && k.Value.String() == "false"
			}
			miss, nFail := false, 0
			c.withRegionUp(fn, func() {
				for _, f := range regionFns {
					core.NoLift = true
					fe := core.FailEdges(f, gD)
					core.NoLift = false
					if len(fe) == 0 {
						continue
					}
					nFail += len(fe)
					if m, _ := core.PathFromEdgeAvoidingX(f, fe, isSink, isDowngrade, nil); m {
						miss = true
					}
				}
			})
			r.Check(!miss && nFail > 0, "C04.2-delete-exact", base+" / without D the request is downgraded to soft", c.pos(s), "", "a requester without delete permission can reach the store with the hard flag still set")
			// the hard/soft decision is read after the downgrade: every load of Hard that feeds a branch
			// lies after the downgrade store on every path from it
			var hardLoads, downgrades []ssa.Instruction
			c.regionInstrs(fn, func(_ *ssa.Function, in ssa.Instruction) {
				if u, ok := in.(*ssa.UnOp); ok && u.Op == token.MUL {
					if f, _ := core.FieldOfAddr(u.X); f == hardF {
						hardLoads = append(hardLoads, in)
					}
				}
				if isDowngrade(in) {
					downgrades = append(downgrades, in)
				}
			})
			stale := false
			var staleAt ssa.Instruction
			c.withRegionUp(fn, func() {
				for _, ld := range hardLoads {
					// a load of Hard executed before a downgrade that can still follow it is stale when its
					// value survives to the sink: i.e. there is a path load -> downgrade -> sink without a re-load
					for _, dg := range downgrades {
						if f1, _ := core.PathAvoidingX(ld.Parent(), ld, func(in ssa.Instruction) bool { return in == dg }, nil, nil); !f1 {
							continue
						}
						isReload := func(in ssa.Instruction) bool {
							for _, l2 := range hardLoads {
								if in == l2 {
									return true
								}
							}
							return false
						}
						if f2, _ := core.PathAvoidingX(dg.Parent(), dg, isSink, isReload, nil); f2 {
							stale = true
							staleAt = ld
						}
					}
				}
			})
			r.Check(!stale && len(hardLoads) > 0, "C04.2-delete-exact", base+" / hard-or-soft is decided after the permission downgrade", c.pos(s), "",
				"the `for everyone` decision is read"+posOf(c, staleAt)+" before the permission gate resets Hard: a requester without D erases the messages for everybody")
			// forUser argument: phi(requester, ZeroUid)
			args := core.CallArgs(s.Common()) // recv, topic, delID, forUser, ranges
			okID := core.IsBinOp(token.ADD, core.IsFieldLoad(delID), core.IsConstInt(1), true)(args[2])
			r.Check(okID, "C04.2-delete-exact", base+" / delete id = Topic.delID+1", c.pos(s), "", "the delete transaction is not numbered Topic.delID+1")
			okFor := core.Derives(args[3], func(v ssa.Value) bool {
				if _, isP := v.(*ssa.Parameter); isP {
					return true
				}
				if u, ok := v.(*ssa.UnOp); ok {
					if g, ok := u.X.(*ssa.Global); ok && g.Name() == "ZeroUid" {
						return true
					}
				}
				k, ok := v.(*ssa.Const)
				return ok && k.Value != nil
			}, true)
			r.Check(okFor, "C04.2-delete-exact", base+" / deleted for the requester or for everyone", c.pos(s), "", "messages are deleted on behalf of a user other than the requester")
			// delID advanced only after success
			for _, f := range regionFns {
				for _, st := range core.StoresToField(f, delID) {
					ok, _ := core.GuardedBy(f, st, successGuard(s))
					okInc := core.IsBinOp(token.ADD, core.IsFieldLoad(delID), core.IsConstInt(1), true)(st.Val)
					r.Check(ok && okInc, "C04.2b-delid-after-success", fk(fn)+": Topic.delID++ only after DeleteList succeeded", c.pos(st), "", "the delete counter is advanced before / without a successful DeleteList: a failed request changes what clients see and leaves a gap")
				}
			}
			// ranges: Normalize after sort on every non-error path
			var norm, srt, normOuter ssa.Instruction
			var normFn, srtFn *ssa.Function
			c.withCallees(fn, 2, func(owner *ssa.Function, in ssa.Instruction, outer ssa.Instruction) {
				if call, ok := in.(*ssa.Call); ok {
					if core.CalleeOf(&call.Call) == normalize {
						norm, normFn, normOuter = in, owner, outer
					}
					if calleeFullName(call) == "sort.Sort" {
						srt, srtFn = in, owner
					}
				}
			})
			_ = normOuter
			if norm == nil || srt == nil || normFn != srtFn {
				r.Fail("C04.2c-ranges-normalised", base+" / ranges sorted and normalised", c.pos(s), "the delete handler no longer sorts and normalises the requested ranges")
			} else {
				// from the handler's entry no nil-feasible path reaches the store call without passing
				// Normalize (entering helpers: the conversion or the store call may sit in one)
				reached, _, overflow := core.PathAvoidingDeep(fn, nil, nil, isSink, func(in ssa.Instruction) bool { return in == norm }, nil)
				r.Check(!reached && !overflow, "C04.2c-ranges-normalised", base+" / every non-error path normalises the ranges", c.pos(s), "", "the store can receive ranges that were not normalised (overlapping/unsorted ranges delete or log ids outside the union)")
				unsorted, _ := core.PathAvoiding(normFn, nil, func(in ssa.Instruction) bool { return in == norm }, func(in ssa.Instruction) bool { return in == srt }, nil)
				r.Check(!unsorted, "C04.2c-ranges-normalised", base+" / sorted before normalising", c.pos(norm), "", "Normalize is applied to an unsorted list (it assumes sorted input)")
				okArg := core.Derives(c.rootValue(args[4]), func(v ssa.Value) bool { return v == norm.(ssa.Value) }, false) || core.Derives(args[4], func(v ssa.Value) bool { return v == norm.(ssa.Value) }, false)
				r.Check(okArg, "C04.2c-ranges-normalised", base+" / the normalised list is what the store gets", c.pos(s), "", "the ranges handed to the store are not the normalised ones")
			}
		}
	}
}

func (c *Ctx) checkDeletionLog() {
	r := c.R
	getDel := c.method("server/db", "Adapter", "MessageGetDeleted")
	normalize := c.method("server/store/types", "RangeSorter", "Normalize")
	r.Floor("C04.3-deletion-log", 2)
	for _, fn := range c.funcsCalling(getDel, "server/store") {
		r.Func(fk(fn))
		find := func(g *ssa.Function) (norm, srt ssa.Instruction) {
			core.AllInstrs(g, func(in ssa.Instruction) {
				if call, ok := in.(*ssa.Call); ok {
					if core.CalleeOf(&call.Call) == normalize {
						norm = in
					}
					if calleeFullName(call) == "sort.Sort" {
						srt = in
					}
				}
			})
			return
		}
		owner := fn
		norm, srt := find(fn)
		var via ssa.Value // the call of the helper that sorts and normalises, when there is one
		if norm == nil || srt == nil {
			core.AllInstrs(fn, func(in ssa.Instruction) {
				call, ok := in.(*ssa.Call)
				if !ok || via != nil {
					return
				}
				if g := call.Call.StaticCallee(); g != nil && core.InModule(g) && len(g.Blocks) > 0 {
					if n2, s2 := find(g); n2 != nil && s2 != nil {
						owner, norm, srt, via = g, n2, s2, call
					}
				}
			})
		}
		if norm == nil || srt == nil {
			r.Fail("C04.3-deletion-log", fk(fn)+": log ranges sorted and normalised", c.P.Pos(fn.Pos()), "the deletion log is no longer sorted and normalised before it is reported")
			continue
		}
		unsorted, _ := core.PathAvoiding(owner, nil, func(in ssa.Instruction) bool { return in == norm }, func(in ssa.Instruction) bool { return in == srt }, nil)
		r.Check(!unsorted, "C04.3-deletion-log", fk(fn)+": sorted before normalising", c.pos(norm), "", "the deletion log is normalised in transaction order and sorted only afterwards: earlier ranges swallow later entries and ids disappear from the reported log")
		// the returned ranges derive from Normalize's result
		okRet := false
		returnsFrom := func(g *ssa.Function, src ssa.Value) bool {
			got := false
			core.AllInstrs(g, func(in ssa.Instruction) {
				if ret, ok := in.(*ssa.Return); ok && len(ret.Results) > 0 && !core.IsNil(ret.Results[0]) {
					if core.Derives(ret.Results[0], func(v ssa.Value) bool { return v == src }, false) {
						got = true
					}
				}
			})
			return got
		}
		if via == nil {
			okRet = returnsFrom(fn, norm.(ssa.Value))
		} else {
			okRet = returnsFrom(owner, norm.(ssa.Value)) && returnsFrom(fn, via)
		}
		r.Check(okRet, "C04.3-deletion-log", fk(fn)+": returns the normalised ranges", c.pos(norm), "", "the function does not return the normalised ranges")
	}
}
