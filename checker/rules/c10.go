package rules

import (
	"fmt"
	"go/constant"
	"go/token"
	"strings"

	"golang.org/x/tools/go/ssa"

	"verifchk/core"
)

func init() { register("C10", checkC10) }

func checkC10(c *Ctx) {
	r := c.R
	r.Explanation = "Leak clause and counter discipline of presence, decided structurally: (1) every {pres}/{info} that a topic routes to a subscriber's 'me' while ranging over Topic.perUser (send on Hub.routeSrv inside such a loop) is, within one iteration, cut off unless presOfflineFilter(want&given, ..)==true or IsPresencer&&IsReader of want&given passed, and unless the record is not marked deleted; single-user variants pass presOfflineFilter on the mode they are given (callers pass intersections or ModeInvalid for removed users: C07 rule); the summaries of presOfflineFilter and passesPresenceFilters are checked on their bodies (true only via IsPresencer, or what in {acs, gone}, or upd for joiners); (2) the online fan-out delivers {pres} only through passesPresenceFilters of the attached user; (3) census of writers of perUserData.online: ++ only behind !background, -- only behind !background on the leave path, = 0 on eviction; every mutation of the online counter on a local copy of a record is written back to Topic.perUser on every path; (4) on/off symmetry: the group's offline announcement on idle unload and its online announcement use the same recipient filter."
	r.NotDecided = []string{"convergence at quiescence of the on/off/?unkn handshake", "non-negativity and exact equality of the counter with attached foreground sessions over all interleavings"}
	r.Trusted = []string{"go/types, go/ssa"}

	c.checkOfflineFanout()
	c.checkFilterSummaries()
	fo := c.checkFanoutCommon("C10.2")
	c.checkFanoutPres("C10.2", fo)
	c.checkOnlineCounter()
	c.checkOnOffSymmetry()
	c.checkNoLostUpdate()
	// each recipient gets its own copy of the {pres} payload
	c.R.Scoped(func(rule, construct string) bool { return strings.Contains(construct, "Pres") }, c.checkMessageCopyIsDeep)
	c.checkPayloadFreshPerMessage()
	c.checkOnlineCountedWithAttach()
	c.checkIntersectionPairsAreGenerations("C10.7-intersections-pair-generations")
	c.checkCompoundCommandsComparedByHead()
	c.checkOnlineKeyedBySubscribedUser()
	c.checkEnabledComesFromEnCommand()
	c.checkOnlineDecrementMatchesIncrement()
	c.checkContactOnlineOnlyWhenEnabled()
	// of the module-wide intersection census only the predicates presence depends on (P, R, and J for
	// "upd")
	c.R.Scoped(func(rule, construct string) bool {
		return strings.HasPrefix(construct, "IsPresencer()") || strings.HasPrefix(construct, "IsReader()") || strings.HasPrefix(construct, "IsJoiner()")
	}, c.checkIntersect)
}

func (c *Ctx) checkOfflineFanout() {
	r := c.R
	routeSrv := c.field("server", "Hub", "routeSrv")
	perUser := c.E().topicField("perUser")
	pof := c.fn("server", "presOfflineFilter")
	isPres := c.E().modeMethod("IsPresencer")
	isReader := c.E().modeMethod("IsReader")
	deletedF := c.E().pudField("deleted")
	invalid := c.konst("server/store/types", "ModeInvalid")
	modeOK := func(v ssa.Value) bool { return c.isEffMode()(v) || c.isIntersection(v, 0) }
	r.Floor("C10.1-offline-fanout-filtered", 6)
	for _, fn := range c.P.ModFuncs {
		if !core.InPkg(fn, "server") {
			continue
		}
		sends := chanSends(fn, core.IsFieldLoad(routeSrv))
		if len(sends) == 0 {
			continue
		}
		rangesPerUser := false
		core.AllInstrs(fn, func(in ssa.Instruction) {
			if rg, ok := in.(*ssa.Range); ok && core.IsFieldLoad(perUser)(rg.X) {
				rangesPerUser = true
			}
		})
		back := loopBackEdges(fn)
		for i, s := range sends {
			// only messages carrying Pres or Info
			if !sendsPresOrInfo(s.Val) {
				continue
			}
			construct := fmt.Sprintf("%s: routeSrv send #%d", fk(fn), i+1)
			if rangesPerUser {
				r.Func(fk(fn))
				gF := core.BoolGuard("presOfflineFilter(want&given,..)", core.IsCallTo(pof, modeOK), true)
				gP := core.BoolGuard("IsPresencer(want&given)", core.IsCallTo(isPres, modeOK), true)
				cut, cnt := core.PassEdges(fn, gF, gP)
				for e := range back {
					cut[e] = true
				}
				found, _ := core.PathAvoiding(fn, nil, func(in ssa.Instruction) bool { return in == s.Instr }, nil, cut)
				r.Check(!found && cnt[0]+cnt[1] > 0, "C10.1-offline-fanout-filtered", construct+" / presence permission", c.pos(s.Instr), "", "a presence/receipt notification is routed to a subscriber without the presence filter on want&given")
				if cnt[1] > 0 && cnt[0] == 0 {
					// P-only form must also demand R
					cutR, cr := core.PassEdges(fn, core.BoolGuard("IsReader(want&given)", core.IsCallTo(isReader, modeOK), true))
					for e := range back {
						cutR[e] = true
					}
					f2, _ := core.PathAvoiding(fn, nil, func(in ssa.Instruction) bool { return in == s.Instr }, nil, cutR)
					r.Check(!f2 && cr[0] > 0, "C10.1-offline-fanout-filtered", construct+" / read permission", c.pos(s.Instr), "", "a receipt notification is routed to a subscriber without read permission")
				}
				cutD, cd := core.PassEdges(fn, core.BoolGuard("!deleted", core.IsFieldLoad(deletedF), false))
				for e := range back {
					cutD[e] = true
				}
				f3, _ := core.PathAvoiding(fn, nil, func(in ssa.Instruction) bool { return in == s.Instr }, nil, cutD)
				r.Check(!f3 && cd[0] > 0, "C10.1-offline-fanout-filtered", construct+" / not a removed subscriber", c.pos(s.Instr), "", "a notification is routed to a removed (soft-deleted) subscriber")
				continue
			}
			// single-user variants: a mode parameter filtered by presOfflineFilter and != ModeInvalid
			var modeParam *ssa.Parameter
			for _, p := range fn.Params {
				if isModeType(p.Type()) {
					modeParam = p
				}
			}
			if modeParam == nil {
				continue
			}
			r.Func(fk(fn))
			isP := func(v ssa.Value) bool { return v == ssa.Value(modeParam) }
			ok, cnt := core.GuardedBy(fn, s.Instr, core.BoolGuard("presOfflineFilter(mode,..)", core.IsCallTo(pof, isP), true))
			r.Check(ok && cnt[0] > 0, "C10.1-offline-fanout-filtered", construct+" / presOfflineFilter(mode)", c.pos(s.Instr), "", "a single-user notification bypasses the presence filter")
			ok2, c2 := core.GuardedBy(fn, s.Instr, core.EqGuard("mode!=ModeInvalid", isP, core.IsConstOf(invalid), false))
			r.Check(ok2 && c2[0] > 0, "C10.1-offline-fanout-filtered", construct+" / not a removed subscriber (ModeInvalid)", c.pos(s.Instr), "", "a single-user notification can be routed to a removed subscriber")
		}
	}
}

// sendsPresOrInfo: the sent *ServerComMessage literal has Pres or Info set (or is a parameter built elsewhere).
func sendsPresOrInfo(v ssa.Value) bool {
	a, ok := core.Strip(v).(*ssa.Alloc)
	if !ok {
		return false
	}
	f := literalFields(a)
	return f["Pres"] != nil || f["Info"] != nil
}

func (c *Ctx) checkFilterSummaries() {
	r := c.R
	pof := c.ssaFn("server", "presOfflineFilter")
	r.Func(fk(pof))
	isPres := c.E().modeMethod("IsPresencer")
	isJoiner := c.E().modeMethod("IsJoiner")
	var whatP, modeP *ssa.Parameter
	for _, p := range pof.Params {
		if isModeType(p.Type()) {
			modeP = p
		} else if p.Type().String() == "string" {
			whatP = p
		}
	}
	r.Floor("C10.1b-filter-summary", 2)
	if whatP == nil || modeP == nil {
		r.Fail("C10.1b-filter-summary", fk(pof)+": parameters", "-", "undecided: parameters not recognised")
		return
	}
	isWhat := func(k string) core.Guard {
		return core.EqGuard("what==\""+k+"\"", func(v ssa.Value) bool { return v == ssa.Value(whatP) }, core.IsConstString(k), true)
	}
	gP := core.BoolGuard("mode.IsPresencer()", core.IsCallTo(isPres, func(v ssa.Value) bool { return v == ssa.Value(modeP) }), true)
	// every return that can yield true is reached only through IsPresencer, or what==acs/gone, or (what==upd)
	okAll := true
	exemptions := map[string]bool{}
	core.AllInstrs(pof, func(in ssa.Instruction) {
		ret, ok := in.(*ssa.Return)
		if !ok {
			return
		}
		if k, isK := ret.Results[0].(*ssa.Const); isK && k.Value != nil && k.Value.Kind() == constant.Bool && !constant.BoolVal(k.Value) {
			return
		}
		gs := []core.Guard{gP, isWhat("acs"), isWhat("gone"), isWhat("upd")}
		if phi, isPhi := ret.Results[0].(*ssa.Phi); isPhi {
			for i, e := range phi.Edges {
				if k, isK := e.(*ssa.Const); isK && k.Value != nil && k.Value.Kind() == constant.Bool && !constant.BoolVal(k.Value) {
					continue
				}
				pred := phi.Block().Preds[i]
				if ok2, _ := core.GuardedBy(pof, pred.Instrs[len(pred.Instrs)-1], gs...); !ok2 {
					okAll = false
				}
			}
			return
		}
		ok2, _ := core.GuardedBy(pof, ret, gs...)
		if !ok2 {
			okAll = false
		}
	})
	// which what-constants are compared at all
	core.AllInstrs(pof, func(in ssa.Instruction) {
		if b, ok := in.(*ssa.BinOp); ok && (b.Op == token.EQL || b.Op == token.NEQ) {
			for _, side := range []ssa.Value{b.X, b.Y} {
				if k, ok := side.(*ssa.Const); ok && k.Value != nil && k.Value.Kind() == constant.String {
					exemptions[constant.StringVal(k.Value)] = true
				}
			}
		}
	})
	extra := []string{}
	for k := range exemptions {
		if k != "acs" && k != "gone" && k != "upd" {
			extra = append(extra, k)
		}
	}
	r.Check(okAll && len(extra) == 0, "C10.1b-filter-summary", fk(pof)+": true only via IsPresencer or what in {acs, gone, upd}", c.P.Pos(pof.Pos()), "", fmt.Sprintf("the offline presence filter lets notifications through without P (extra exempt kinds: %v)", extra))
	// upd needs J
	ok3 := false
	core.AllInstrs(pof, func(in ssa.Instruction) {
		if call, ok := in.(*ssa.Call); ok && core.CalleeOf(&call.Call) == isJoiner {
			ok3 = true
		}
	})
	r.Check(ok3, "C10.1b-filter-summary", fk(pof)+": upd exemption requires IsJoiner", c.P.Pos(pof.Pos()), "", "description updates are delivered to banned users")
	// passesPresenceFilters: IsPresencer or gone/acs
	ppf := c.ssaMethod("server", "Topic", "passesPresenceFilters")
	r.Func(fk(ppf))
	whatF := c.field("server", "MsgServerPres", "What")
	consts := map[string]bool{}
	hasP := false
	core.AllInstrs(ppf, func(in ssa.Instruction) {
		if b, ok := in.(*ssa.BinOp); ok && (b.Op == token.EQL || b.Op == token.NEQ) && (core.IsFieldLoad(whatF)(b.X) || core.IsFieldLoad(whatF)(b.Y)) {
			for _, side := range []ssa.Value{b.X, b.Y} {
				if k, ok := side.(*ssa.Const); ok && k.Value != nil && k.Value.Kind() == constant.String {
					consts[constant.StringVal(k.Value)] = true
				}
			}
		}
		if call, ok := in.(*ssa.Call); ok && core.CalleeOf(&call.Call) == isPres && c.pairCall(call.Call.Args[0]) {
			hasP = true
		}
	})
	// true only through IsPresencer(want&given of the pair) or one of the two exempt kinds: decided
	// as an implication of the function's result at one of its call sites
	okImpl := false
	if callers := c.callersOf(ppf); len(callers) > 0 {
		if call, isCall := callers[0].Site.(*ssa.Call); isCall {
			gs := []core.Guard{
				core.BoolGuard("IsPresencer(pair)", core.IsCallTo(isPres, func(v ssa.Value) bool { return c.pairCall(v) }), true),
				core.EqGuard("what==gone", core.IsFieldLoad(whatF), core.IsConstString("gone"), true),
				core.EqGuard("what==acs", core.IsFieldLoad(whatF), core.IsConstString("acs"), true),
			}
			okImpl, _ = core.CalleeImplies(call, 0, "bool", 1, 0, gs, nil)
		}
	}
	okC := hasP && okImpl && len(consts) == 2 && consts["gone"] && consts["acs"]
	r.Check(okC, "C10.1b-filter-summary", fk(ppf)+": IsPresencer(want&given) or what in {gone, acs}", c.P.Pos(ppf.Pos()), "", fmt.Sprintf("the online presence filter's exemptions changed: %v, P tested on the pair: %v", keysOf(consts), hasP))
}

func keysOf(m map[string]bool) []string {
	var out []string
	for k := range m {
		out = append(out, k)
	}
	return sortedStrings(out)
}

func (c *Ctx) checkOnlineCounter() {
	r := c.R
	online := c.E().pudField("online")
	perUser := c.E().topicField("perUser")
	bg := c.E().sessionField("background")
	r.Floor("C10.3-online-counter", 5)
	for _, a := range c.censusField(online) {
		if a.Kind != "store" {
			continue
		}
		st := a.Instr.(*ssa.Store)
		fn := a.Fn
		r.Func(fk(fn))
		fa, _ := st.Addr.(*ssa.FieldAddr)
		kind := ""
		switch {
		case core.IsBinOp(token.ADD, core.IsFieldLoad(online), core.IsConstInt(1), true)(st.Val):
			kind = "++"
		case core.IsBinOp(token.SUB, core.IsFieldLoad(online), core.IsConstInt(1), false)(st.Val):
			kind = "--"
		case core.IsConstInt(0)(st.Val):
			kind = "=0"
		case core.IsConstInt(1)(st.Val):
			kind = "=1"
		default:
			kind = "other"
		}
		construct := fmt.Sprintf("%s: online%s #%s", fk(fn), kind, retOrdinalOfStore(fn, st))
		// judgeStep: an increment/decrement at `at` in function f is for a foreground session
		// (or part of dropping a multiplexing session, one per hosted user)
		judgeStep := func(f *ssa.Function, at ssa.Instruction, construct string) {
			gFg := core.BoolGuard("!sess.background", core.IsFieldLoad(bg), false)
			ok, cnt := core.GuardedBy(f, at, gFg)
			if ok && cnt[0] > 0 {
				r.OK("C10.3-online-counter", construct, c.pos(at), "only for foreground sessions")
			} else if c.readsField(f, c.field("server", "perSessionData", "muids")) || (f.Parent() != nil && c.readsField(f.Parent(), c.field("server", "perSessionData", "muids"))) || c.readsFieldDeep(f, c.field("server", "perSessionData", "muids")) {
				r.OK("C10.3-online-counter", construct+" [multiplexed users]", c.pos(at), "exception: per-user accounting of a multiplexing (cluster) session being dropped")
			} else {
				r.Fail("C10.3-online-counter", construct, c.pos(at), "the online counter is changed for a background session")
			}
		}
		// an extracted adjuster `online += delta`: every call site passes +1 or -1 and is judged in its caller
		if b, isB := core.Strip(st.Val).(*ssa.BinOp); isB && kind == "other" && b.Op == token.ADD {
			var dp *ssa.Parameter
			if p, ok := core.Strip(b.Y).(*ssa.Parameter); ok && core.IsFieldLoad(online)(b.X) {
				dp = p
			} else if p, ok := core.Strip(b.X).(*ssa.Parameter); ok && core.IsFieldLoad(online)(b.Y) {
				dp = p
			}
			idx := -1
			for i, q := range fn.Params {
				if dp != nil && q == dp {
					idx = i
				}
			}
			callers := c.callersOf(fn)
			if idx >= 0 && len(callers) > 0 {
				allOK := true
				for _, cs := range callers {
					args := cs.Site.Common().Args
					step := ""
					if idx < len(args) {
						if core.IsConstInt(1)(args[idx]) {
							step = "++"
						} else if core.IsConstInt(-1)(args[idx]) {
							step = "--"
						}
					}
					if step == "" {
						allOK = false
						r.Fail("C10.3-online-counter", fmt.Sprintf("%s: online adjusted through %s", fk(cs.Caller), fk(fn)), c.pos(cs.Site), "online counter adjusted by something other than +1 / -1")
						continue
					}
					r.Func(fk(cs.Caller))
					judgeStep(cs.Caller, cs.Site.(ssa.Instruction), fmt.Sprintf("%s: online%s via %s #%s", fk(cs.Caller), step, fn.Name(), c.pos(cs.Site)))
				}
				if allOK {
					kind = "adjuster"
				}
			}
		}
		switch kind {
		case "adjuster":
		case "++", "--":
			// the step extracted into a helper (`t.userOnlineInc(uid)`): judged at each call site
			gFg := core.BoolGuard("!sess.background", core.IsFieldLoad(bg), false)
			saved := core.NoLift
			core.NoLift = true
			okHere, cntHere := core.GuardedBy(fn, st, gFg)
			core.NoLift = saved
			muidsF := c.field("server", "perSessionData", "muids")
			exempt := c.readsField(fn, muidsF) || (fn.Parent() != nil && c.readsField(fn.Parent(), muidsF))
			callers := c.callersOf(fn)
			if !(okHere && cntHere[0] > 0) && !exempt && fn.Parent() == nil && len(callers) > 0 && len(fn.Blocks) <= 3 {
				for _, cs := range callers {
					r.Func(fk(cs.Caller))
					judgeStep(cs.Caller, cs.Site.(ssa.Instruction), fmt.Sprintf("%s: online%s via %s #%s", fk(cs.Caller), kind, fn.Name(), c.pos(cs.Site)))
				}
			} else {
				judgeStep(fn, st, construct)
			}
		case "=0", "=1":
			r.OK("C10.3-online-counter", construct, c.pos(st), "reset / first-session value")
		default:
			r.Fail("C10.3-online-counter", construct, c.pos(st), "online counter written with an unexpected value: "+st.Val.String())
		}
		// written back: if the record is a local copy, every path from the store to return passes
		// perUser[..] = <that copy> (or deletes the entry)
		if fa == nil {
			continue
		}
		al, isLocal := fa.X.(*ssa.Alloc)
		if !isLocal {
			continue
		}
		isWriteBack := func(in ssa.Instruction) bool {
			switch x := in.(type) {
			case *ssa.MapUpdate:
				if core.IsFieldLoad(perUser)(x.Map) {
					if u, ok := x.Value.(*ssa.UnOp); ok && u.X == ssa.Value(al) {
						return true
					}
				}
			case *ssa.Call:
				if b, ok := x.Call.Value.(*ssa.Builtin); ok && b.Name() == "delete" && len(x.Call.Args) > 0 && core.IsFieldLoad(perUser)(x.Call.Args[0]) {
					return true
				}
			}
			return false
		}
		found, w := core.PathAvoiding(fn, st, core.IsReturn, isWriteBack, nil)
		r.Check(!found, "C10.3b-counter-written-back", construct+" / written back to Topic.perUser", c.pos(st), "",
			"the online counter is changed on a local copy of the record that is not stored back on some path"+posOf(c, w)+": the topic's count no longer matches the attached sessions")
	}
}

// checkOnOffSymmetry: the group's "off" on idle unload and its "on" go to the same audience:
// both presSubsOffline calls with what "off" / "on" pass the same filter arguments (by kind).
func (c *Ctx) checkOnOffSymmetry() {
	r := c.R
	pso := c.method("server", "Topic", "presSubsOffline")
	nilFilters := c.global("server", "nilPresFilters")
	type site struct {
		fn      *ssa.Function
		call    ssa.CallInstruction
		what    string
		filters [2]string
	}
	var sites []site
	for _, fn := range c.funcsCalling(pso, "server") {
		for _, ci := range core.CallsTo(fn, pso) {
			args := core.CallArgs(ci.Common()) // t, what, params, filterSource, filterTarget, skip, offlineOnly
			if len(args) < 5 {
				continue
			}
			what := ""
			if k, ok := core.Strip(args[1]).(*ssa.Const); ok && k.Value != nil && k.Value.Kind() == constant.String {
				what = constant.StringVal(k.Value)
			} else if phi, ok := core.Strip(args[1]).(*ssa.Phi); ok {
				// status := "on" / "on+en"
				for _, e := range phi.Edges {
					if k, ok := e.(*ssa.Const); ok && k.Value != nil && k.Value.Kind() == constant.String {
						what = strings.SplitN(constant.StringVal(k.Value), "+", 2)[0]
					}
				}
			}
			kind := func(v ssa.Value) string {
				if u, ok := core.Strip(v).(*ssa.UnOp); ok {
					if g, ok := u.X.(*ssa.Global); ok && g.Object() == nilFilters {
						return "none"
					}
				}
				if a, ok := core.Strip(v).(*ssa.Alloc); ok {
					f := literalFields(a)
					var parts []string
					for k, val := range f {
						parts = append(parts, k+"="+val.String())
					}
					return "literal{" + strings.Join(sortedStrings(parts), ",") + "}"
				}
				return "other"
			}
			sites = append(sites, site{fn, ci, strings.SplitN(what, "+", 2)[0], [2]string{kind(args[3]), kind(args[4])}})
		}
	}
	r.Floor("C10.4-on-off-symmetry", 1)
	var on, off *site
	for i := range sites {
		switch sites[i].what {
		case "on":
			on = &sites[i]
		case "off":
			off = &sites[i]
		}
	}
	if on == nil || off == nil {
		r.Fail("C10.4-on-off-symmetry", "group on/off announcements to offline subscribers", "-", "the on or the off announcement through presSubsOffline was not found: undecided")
		return
	}
	r.Func(fk(on.fn))
	r.Func(fk(off.fn))
	r.Check(on.filters == off.filters, "C10.4-on-off-symmetry", fmt.Sprintf("%s (on) vs %s (off): same recipient filters", fk(on.fn), fk(off.fn)), c.pos(off.call),
		fmt.Sprintf("both %v", on.filters), fmt.Sprintf("the group's 'on' is announced with filters %v but its 'off' with %v: some members are told 'on' and never 'off' (or vice versa)", on.filters, off.filters))
}
