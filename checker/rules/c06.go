package rules

import (
	"fmt"
	"go/constant"
	"go/token"
	"go/types"

	"golang.org/x/tools/go/ssa"

	"verifchk/core"
)

func init() { register("C06", checkC06) }

// parsedModeCells: local AccessMode cells that receive a client-supplied mode string through
// (*AccessMode).UnmarshalText.
func (c *Ctx) parsedModeCells(fn *ssa.Function) []*ssa.Alloc {
	um := c.method("server/store/types", "AccessMode", "UnmarshalText")
	var out []*ssa.Alloc
	for _, call := range core.CallsTo(fn, um) {
		if a, ok := core.CallArgs(call.Common())[0].(*ssa.Alloc); ok {
			out = append(out, a)
		}
	}
	return out
}

// requestedModes: the client-requested access modes a handler works with: one predicate per parsed
// cell of fn itself, or per call of a module helper that parses the mode string and returns it
// (the helper's result stands for the load of its cell).
func (c *Ctx) requestedModes(fn *ssa.Function) []core.VPred {
	var out []core.VPred
	for _, cell := range c.parsedModeCells(fn) {
		ld := isLoadOfCell(cell)
		// also inside a phase of the handler that receives the parsed mode as a parameter
		out = append(out, func(v ssa.Value) bool { return ld(v) || ld(c.rootValue(v)) })
	}
	core.AllInstrs(fn, func(in ssa.Instruction) {
		call, ok := in.(*ssa.Call)
		if !ok {
			return
		}
		callee := call.Call.StaticCallee()
		if callee == nil || callee == fn || !core.InModule(callee) {
			return
		}
		cells := c.parsedModeCells(callee)
		if len(cells) != 1 {
			return
		}
		ld := isLoadOfCell(cells[0])
		res := callee.Signature.Results()
		for i := 0; i < res.Len(); i++ {
			// a verdict struct with a mode field holding the parsed cell's content
			if st, ok := res.At(i).Type().Underlying().(*types.Struct); ok {
				for fi := 0; fi < st.NumFields(); fi++ {
					if !isModeType(st.Field(fi).Type()) {
						continue
					}
					vals, _, okv := core.ReturnedFieldValues(callee, i, fi)
					good := okv && len(vals) > 0
					for _, v := range vals {
						if _, isK := v.(*ssa.Const); isK {
							continue
						}
						if !core.Derives(v, ld, true) {
							good = false
						}
					}
					if !good {
						continue
					}
					idx, fld := i, fi
					out = append(out, func(v ssa.Value) bool {
						v = core.Strip(v)
						if ld(v) {
							return true // inside the helper: the cell itself
						}
						cl, ri, path, ok := core.ResultComponent(v)
						return ok && cl == call && ri == idx && len(path) == 1 && path[0] == fld
					})
				}
				continue
			}
			if !isModeType(res.At(i).Type()) {
				continue
			}
			// every non-constant returned value is the parsed cell's content
			good, n := true, 0
			core.AllInstrs(callee, func(x ssa.Instruction) {
				ret, ok := x.(*ssa.Return)
				if !ok {
					return
				}
				n++
				v := ret.Results[i]
				if _, isK := v.(*ssa.Const); isK {
					return
				}
				if !core.Derives(v, ld, true) {
					good = false
				}
			})
			if !good || n == 0 {
				continue
			}
			idx, multi := i, res.Len() > 1
			out = append(out, func(v ssa.Value) bool {
				v = core.Strip(v)
				if multi {
					ex, ok := v.(*ssa.Extract)
					return ok && ex.Tuple == ssa.Value(call) && ex.Index == idx
				}
				return v == ssa.Value(call)
			})
		}
	})
	return out
}

func isLoadOfCell(cell *ssa.Alloc) core.VPred {
	return func(v ssa.Value) bool {
		u, ok := core.Strip(v).(*ssa.UnOp)
		return ok && u.Op == token.MUL && u.X == ssa.Value(cell)
	}
}

func isParam(v ssa.Value) bool {
	_, ok := core.Strip(v).(*ssa.Parameter)
	return ok
}

// isParamNamed matches the function parameter with the given index among params of type Uid.
func uidParams(fn *ssa.Function) []*ssa.Parameter {
	var out []*ssa.Parameter
	for _, p := range fn.Params {
		if n, ok := p.Type().(*types.Named); ok && n.Obj().Name() == "Uid" {
			out = append(out, p)
		}
	}
	return out
}

// mapLiteralKeys: constant string keys set on the map value m (a MakeMap) in fn.
func mapLiteralKeys(m ssa.Value) map[string][]ssa.Value {
	out := map[string][]ssa.Value{}
	mm, ok := core.Strip(m).(*ssa.MakeMap)
	if !ok {
		// the update assembled by a helper that returns the map (`upd := pud.subChangesSince(..)`)
		if call, isCall := core.Strip(m).(*ssa.Call); isCall {
			if g := call.Call.StaticCallee(); g != nil && core.InModule(g) && len(g.Blocks) > 0 {
				var made []*ssa.MakeMap
				nret := 0
				core.AllInstrs(g, func(in ssa.Instruction) {
					if ret, isRet := in.(*ssa.Return); isRet && len(ret.Results) >= 1 {
						nret++
						if m2, isM := core.Strip(ret.Results[0]).(*ssa.MakeMap); isM {
							made = append(made, m2)
						}
					}
				})
				if nret == 1 && len(made) == 1 {
					mm, ok = made[0], true
				}
			}
		}
	}
	if !ok || mm.Referrers() == nil {
		return out
	}
	for _, ref := range *mm.Referrers() {
		if mu, ok := ref.(*ssa.MapUpdate); ok && mu.Map == ssa.Value(mm) {
			if k, ok := core.Strip(mu.Key).(*ssa.Const); ok && k.Value != nil && k.Value.Kind() == constant.String {
				out[constant.StringVal(k.Value)] = append(out[constant.StringVal(k.Value)], mu.Value)
			}
		}
	}
	return out
}

// subsUpdateSites: calls of store.Subs.Update in fn with their (user arg, key set).
type subsUpdateSite struct {
	call *ssa.Call
	user ssa.Value
	keys map[string][]ssa.Value
}

func (c *Ctx) subsUpdateSites(fn *ssa.Function) []subsUpdateSite {
	upd := c.E().storeIface("SubsPersistenceInterface", "Update")
	var out []subsUpdateSite
	for _, ci := range core.CallsTo(fn, upd) {
		call, ok := ci.(*ssa.Call)
		if !ok {
			continue
		}
		args := core.CallArgs(&call.Call) // recv, topic, user, update
		if len(args) < 4 {
			continue
		}
		// the write moved into a thin helper that receives the update (`t.saveSubUpdate(uid, isChan, update)`):
		// the map is what the helper's only caller passes
		m := args[3]
		for d := 0; d < 2; d++ {
			p, isP := core.Strip(m).(*ssa.Parameter)
			if !isP {
				break
			}
			callers := c.callersOf(p.Parent())
			idx := -1
			for i, q := range p.Parent().Params {
				if q == p {
					idx = i
				}
			}
			if len(callers) != 1 || idx < 0 || callers[0].Site.Common().IsInvoke() || idx >= len(callers[0].Site.Common().Args) {
				break
			}
			m = callers[0].Site.Common().Args[idx]
		}
		out = append(out, subsUpdateSite{call, args[2], mapLiteralKeys(m)})
	}
	return out
}

func checkC06(c *Ctx) {
	r := c.R
	r.Explanation = "Guard-cut rules protecting the single-owner invariant; every sink is a store call, so a removed or weakened check is seen on the path to the write: (1) self-update of an existing subscription (Subs.Update for the requesting user with a ModeGiven key) is cut off unless t.owner != requester, no explicit mode was requested, or the requested mode has both O and J; and unless the requester's grant has O or the request lacks O (non-owners cannot request ownership); (2) ownership transfer: the store t.owner = requester is cut off without the success edges of Subs.Update(previous owner) and Topics.OwnerChange, and the modes written for the previous owner are loads taken after an `& ^ModeOwner` store (constant-folded: the mask clears O); (3) changing another user's grant (Subs.Update for the target with ModeGiven) is cut off unless t.owner != target or the new grant has both O and J; any write in that handler is cut off unless the new grant lacks O or t.owner == actor; (4) Subs.Delete sinks: eviction requires the target's effective mode not to include O, leave-unsubscribe requires t.owner != requester, the hub's offline path deletes a single subscription only when the requester is not owner; (5) owner-only operations: Topics.Update with Public/Trusted/Access/Tags keys and Topics.Delete are cut off unless t.owner == requester (p2p last-subscriber deletion excepted); (6) census of writers of Topic.owner: creation, reload under IsOwner(want&given), transfer."
	r.NotDecided = []string{"'exactly one owner' as an inductive invariant over all request histories and reloads", "fault paths of the two-step transfer (the code's own stated belief: two owners are better than none)"}
	r.Trusted = []string{"go/types, go/ssa", "error values built by errors.New are non-nil"}
	core.ExtraNilness = errorsNewNonNil
	defer func() { core.ExtraNilness = nil }()

	owner := c.E().topicField("owner")
	isOwner := c.E().modeMethod("IsOwner")
	isJoiner := c.E().modeMethod("IsJoiner")
	pudGiven := c.E().pudField("modeGiven")
	unset := c.konst("server/store/types", "ModeUnset")
	ownerChange := c.E().storeIface("TopicsPersistenceInterface", "OwnerChange")
	subsCreate := c.E().storeIface("SubsPersistenceInterface", "Create")

	nSelf, nOther := 0, 0
	for _, fn := range c.P.ModFuncs {
		if !core.InPkg(fn, "server") || fn.Signature.Recv() == nil || !isPtrToNamed(fn.Signature.Recv().Type(), "Topic") {
			continue
		}
		modes := c.requestedModes(fn)
		var sites []subsUpdateSite
		if len(modes) == 1 {
			for _, f := range c.regionFuncsSorted(fn) {
				sites = append(sites, c.subsUpdateSites(f)...)
			}
		}
		if len(modes) != 1 || len(sites) == 0 {
			continue
		}
		ld := modes[0]
		gUnset := core.EqGuard("mode==ModeUnset", ld, core.IsConstOf(unset), true)
		gO := core.BoolGuard("mode.IsOwner()", core.IsCallTo(isOwner, ld), true)
		gJ := core.BoolGuard("mode.IsJoiner()", core.IsCallTo(isJoiner, ld), true)
		for _, s := range sites {
			if _, hasGiven := s.keys["ModeGiven"]; !hasGiven {
				continue
			}
			up, isP := core.Strip(s.user).(*ssa.Parameter)
			if !isP {
				continue
			}
			r.Func(fk(fn))
			gNotOwner := core.EqGuard("t.owner!="+fk(up.Parent())+"."+up.Name(), core.IsFieldLoad(owner), func(v ssa.Value) bool { return core.Strip(v) == ssa.Value(up) || c.rootValue(v) == c.rootValue(up) }, false)
			construct := fmt.Sprintf("%s: Subs.Update(%s, ModeGiven...)", fk(fn), up.Name())
			// the sink is the selfupdate when the same function also strips a previous owner (has OwnerChange)
			isSelfPath := c.callsDeep(fn, ownerChange, 2)
			okO, _ := core.GuardedBy(s.call.Parent(), s.call, gNotOwner, gUnset, gO)
			okJ, _ := core.GuardedBy(s.call.Parent(), s.call, gNotOwner, gUnset, gJ)
			if isSelfPath {
				nSelf++
				r.Check(okO && okJ, "C06.1-owner-cannot-drop-O-or-J", construct, c.pos(s.call),
					"write reachable only if requester is not owner, no explicit mode, or mode has O and J", fmt.Sprintf("the owner can reach the subscription update with a requested mode lacking O or J (O-guard=%v J-guard=%v)", okO, okJ))
				// non-owner cannot request O
				gGrantO := core.BoolGuard("grant.IsOwner()", core.IsCallTo(isOwner, core.IsFieldLoad(pudGiven)), true)
				gNoO := core.BoolGuard("!mode.IsOwner()", core.IsCallTo(isOwner, ld), false)
				okN, _ := core.GuardedBy(s.call.Parent(), s.call, gGrantO, gNoO, gUnset)
				r.Check(okN, "C06.1b-non-owner-cannot-request-O", construct, c.pos(s.call),
					"write reachable only if the requester's grant has O or the request has no O", "a subscriber whose grant lacks O can store a requested mode with O")
			} else {
				nOther++
				r.Check(okO && okJ, "C06.3-owner-cannot-be-demoted", construct, c.pos(s.call),
					"write reachable only if target is not owner, or new grant has O and J", fmt.Sprintf("another user can change the owner's grant to a mode lacking O or J (O-guard=%v J-guard=%v)", okO, okJ))
			}
		}
		// (3b) granting O requires actor == owner: for handlers of another user's subscription
		if !c.callsDeep(fn, ownerChange, 2) {
			ups := uidParams(fn)
			var sinks []ssa.Instruction
			for _, s := range sites {
				sinks = append(sinks, s.call)
			}
			for _, ci := range c.regionCallsTo(fn, subsCreate) {
				sinks = append(sinks, ci.(ssa.Instruction))
			}
			for _, sink := range sinks {
				gNoO := core.BoolGuard("!mode.IsOwner()", core.IsCallTo(isOwner, ld), false)
				ok := false
				for _, p := range ups {
					gActorOwner := core.EqGuard("t.owner=="+fk(p.Parent())+"."+p.Name(), core.IsFieldLoad(owner), func(v ssa.Value) bool { return core.Strip(v) == ssa.Value(p) || c.rootValue(v) == c.rootValue(p) }, true)
					if g, cnt := core.GuardedBy(sink.Parent(), sink, gNoO, gActorOwner); g && cnt[0] > 0 && cnt[1] > 0 {
						ok = true
					}
				}
				r.Check(ok, "C06.3b-only-owner-grants-O", fk(fn)+": "+describeCall(sink), c.pos(sink), "write reachable only if the new grant lacks O or the actor is the owner", "a non-owner can grant ownership")
			}
		}
	}
	r.Floor("C06.1-owner-cannot-drop-O-or-J", 1)
	r.Floor("C06.3-owner-cannot-be-demoted", 1)
	_ = nSelf
	_ = nOther

	c.checkOwnerTransfer()

	c.checkC06Deletes()
	c.checkOwnerOnlyOps()
	c.checkOwnerWriters()
	c.checkOfflineOwnership()
	c.checkOwnerBitSources()
}

// checkOwnerTransfer: (2) the two-step ownership transfer (also run under C07 and C08: the cached
// record of the previous owner is part of what those properties rely on).
func (c *Ctx) checkOwnerTransfer() {
	r := c.R
	owner := c.E().topicField("owner")
	modeOwner := c.konst("server/store/types", "ModeOwner")
	ownerChange := c.E().storeIface("TopicsPersistenceInterface", "OwnerChange")
	saved := core.ExtraNilness
	core.ExtraNilness = errorsNewNonNil
	defer func() { core.ExtraNilness = saved }()
	// (2) transfer
	r.Floor("C06.2-transfer-order", 2)
	for _, a := range c.censusField(owner) {
		if a.Kind != "store" {
			continue
		}
		st := a.Instr.(*ssa.Store)
		fn := a.Fn
		ocs := core.CallsTo(fn, ownerChange)
		if len(ocs) == 0 {
			continue
		}
		r.Func(fk(fn))
		construct := fk(fn) + ": t.owner = <new owner>"
		for _, oc := range ocs {
			ok := c.afterSuccessOf(fn, oc, st)
			r.Check(ok, "C06.2-transfer-order", construct+" after Topics.OwnerChange succeeded", c.pos(st), "", "cached owner changes without the stored owner having been changed successfully")
		}
		// the previous owner's update
		for _, s := range c.subsUpdateSites(fn) {
			if !core.IsFieldLoad(owner)(s.user) {
				continue
			}
			ok := c.afterSuccessOf(fn, s.call, st)
			r.Check(ok, "C06.2-transfer-order", construct+" after the previous owner was stripped in the store", c.pos(st), "", "ownership moves in the cache although stripping O from the previous owner failed or was skipped")
			// values: loads after an `& ^ModeOwner` store
			for _, key := range []string{"ModeWant", "ModeGiven"} {
				vals := s.keys[key]
				good := len(vals) > 0
				for _, v := range vals {
					if !c.valueHasOwnerCleared(fn, v, modeOwner) {
						good = false
					}
				}
				r.Check(good, "C06.2b-previous-owner-stripped", fmt.Sprintf("%s: Subs.Update(t.owner)[%s] has O cleared", fk(fn), key), c.pos(s.call),
					"value is read after the `& ^ModeOwner` assignment", "the mode persisted for the previous owner is not the stripped one: the store keeps two owners (visible after reload)")
			}
			// cache of the previous owner rewritten before owner changes
			perUser := c.E().topicField("perUser")
			isCacheWrite := func(in ssa.Instruction) bool {
				mu, ok := in.(*ssa.MapUpdate)
				return ok && core.IsFieldLoad(perUser)(mu.Map) && core.IsFieldLoad(owner)(mu.Key)
			}
			found, _ := core.PathAvoiding(fn, s.call, func(in ssa.Instruction) bool { return in == ssa.Instruction(st) }, isCacheWrite, nil)
			r.Check(!found, "C06.2c-previous-owner-cache", fk(fn)+": perUser[t.owner] rewritten before t.owner changes", c.pos(st), "", "t.owner changes while the cached record of the previous owner still has O")
		}
	}
}

func errorsNewNonNil(v ssa.Value) (bool, bool) {
	if call, ok := v.(*ssa.Call); ok {
		if f := core.CalleeOf(&call.Call); f != nil && (f.FullName() == "errors.New" || f.FullName() == "fmt.Errorf") {
			return true, false
		}
	}
	return false, false
}

func describeCall(in ssa.Instruction) string {
	if ci, ok := in.(ssa.CallInstruction); ok {
		if f := core.CalleeOf(ci.Common()); f != nil {
			if sig, ok := f.Type().(*types.Signature); ok && sig.Recv() != nil {
				if n, ok := sig.Recv().Type().(*types.Named); ok {
					return n.Obj().Name() + "." + f.Name()
				}
			}
			return f.Name()
		}
	}
	return in.String()
}

// valueHasOwnerCleared: v is a load of a local struct field cell every path to which passes a
// store to that cell of the shape `x & K` with K & ModeOwner == 0 (or `x &^ ModeOwner`).
func (c *Ctx) valueHasOwnerCleared(fn *ssa.Function, v ssa.Value, modeOwner *types.Const) bool {
	if clearsOwner(core.Strip(v), modeOwner) {
		return true
	}
	ld, ok := core.Strip(v).(*ssa.UnOp)
	if !ok || ld.Op != token.MUL {
		return false
	}
	fa, ok := ld.X.(*ssa.FieldAddr)
	if !ok {
		return false
	}
	isStrip := func(in ssa.Instruction) bool {
		st, ok := in.(*ssa.Store)
		if !ok {
			return false
		}
		fa2, ok := st.Addr.(*ssa.FieldAddr)
		if !ok || fa2.X != fa.X || fa2.Field != fa.Field {
			return false
		}
		return clearsOwner(st.Val, modeOwner)
	}
	found, _ := core.PathAvoiding(fn, nil, func(in ssa.Instruction) bool { return in == ssa.Instruction(ld) }, isStrip, nil)
	return !found
}

func (c *Ctx) checkC06Deletes() {
	r := c.R
	subsDelete := c.E().storeIface("SubsPersistenceInterface", "Delete")
	owner := c.E().topicField("owner")
	isOwner := c.E().modeMethod("IsOwner")
	r.Floor("C06.4-owner-subscription-not-deleted", 3)
	for _, fn := range c.funcsCalling(subsDelete, "server") {
		r.Func(fk(fn))
		for _, site := range core.CallsTo(fn, subsDelete) {
			call := site.(*ssa.Call)
			userArg := core.CallArgs(&call.Call)[2]
			construct := fk(fn) + ": Subs.Delete(" + describeName(c, core.Strip(userArg)) + ")"
			// accepted guards: t.owner != <that user>; IsOwner(want&given of a record) == false (pud or stored subscription)
			var gs []core.Guard
			gs = append(gs, core.EqGuard("t.owner!=user", core.IsFieldLoad(owner), func(v ssa.Value) bool { return sameValue(v, userArg, 0) }, false))
			gs = append(gs, core.BoolGuard("!IsOwner(want&given)", core.IsCallTo(isOwner, core.Or(c.isEffMode(), c.isEffModeSub())), false))
			ok, cnt := core.GuardedByNil(fn, site.(ssa.Instruction), gs...)
			r.Check(ok && cnt[0]+cnt[1] > 0, "C06.4-owner-subscription-not-deleted", construct, c.pos(site),
				"delete reachable only when the user is not the owner", "the owner's subscription can be deleted (topic left without an owner)")
		}
	}
}

func (c *Ctx) checkOwnerOnlyOps() {
	r := c.R
	owner := c.E().topicField("owner")
	topicsUpdate := c.E().storeIface("TopicsPersistenceInterface", "Update")
	topicsDelete := c.E().storeIface("TopicsPersistenceInterface", "Delete")
	catF := c.E().topicField("cat")
	p2p := c.konst("server/store/types", "TopicCatP2P")
	grp := c.konst("server/store/types", "TopicCatGrp")
	isOwner := c.E().modeMethod("IsOwner")
	r.Floor("C06.5-owner-only-ops", 3)
	ownerKeys := map[string]bool{"Public": true, "Trusted": true, "Access": true, "Tags": true}
	for _, fn := range c.funcsCalling(topicsUpdate, "server") {
		for _, site := range core.CallsTo(fn, topicsUpdate) {
			call := site.(*ssa.Call)
			args := core.CallArgs(&call.Call)
			keys := mapLiteralKeys(args[len(args)-1])
			var hit []string
			for k := range keys {
				if ownerKeys[k] {
					hit = append(hit, k)
				}
			}
			if len(hit) == 0 {
				continue
			}
			r.Func(fk(fn))
			// group topics: behind t.owner == requester. (me/fnd/p2p descriptions belong to the user.)
			ok := c.liftToCallers(fn, call, 0, func(f *ssa.Function, at ssa.Instruction) bool {
				for _, p := range uidParams(f) {
					gOwner := core.EqGuard("t.owner=="+fk(p.Parent())+"."+p.Name(), core.IsFieldLoad(owner), func(v ssa.Value) bool { return core.Strip(v) == ssa.Value(p) }, true)
					gNotGrp := core.EqGuard("t.cat!=Grp", core.IsFieldLoad(catF), core.IsConstOf(grp), false)
					if g, cnt := core.GuardedByNil(f, at, gOwner, gNotGrp); g && cnt[0] > 0 {
						return true
					}
				}
				return false
			})
			r.Check(ok, "C06.5-owner-only-ops", fmt.Sprintf("%s: Topics.Update%v", fk(fn), sortedStrings(hit)), c.pos(call),
				"reachable for a group topic only through t.owner == requester", "a non-owner can change the group's public/trusted description, default access or tags")
		}
	}
	// (5b) maps filled indirectly (through helper closures) and then passed to Topics.Update: every
	// site that can add a key to the map must, for group topics, be behind t.owner == requester.
	for _, fn := range c.funcsCalling(topicsUpdate, "server") {
		for _, site := range core.CallsTo(fn, topicsUpdate) {
			call := site.(*ssa.Call)
			args := core.CallArgs(&call.Call)
			mm, ok := core.Strip(args[len(args)-1]).(*ssa.MakeMap)
			if !ok || mm.Referrers() == nil {
				continue
			}
			for _, ref := range *mm.Referrers() {
				var what string
				switch x := ref.(type) {
				case *ssa.MapUpdate:
					if k, ok := core.Strip(x.Key).(*ssa.Const); ok && k.Value != nil && k.Value.Kind() == constant.String {
						if !ownerKeys[constant.StringVal(k.Value)] {
							continue
						}
						what = "key " + constant.StringVal(k.Value)
					} else {
						what = "dynamic key"
					}
				case *ssa.Call:
					if x == call {
						continue
					}
					if _, isB := x.Call.Value.(*ssa.Builtin); isB {
						continue
					}
					if _, isStore := c.isStoreCall(x); isStore {
						continue
					}
					what = "helper call filling the map"
				default:
					continue
				}
				r.Func(fk(fn))
				ok := c.liftToCallers(fn, ref, 0, func(f *ssa.Function, at ssa.Instruction) bool {
					var gs []core.Guard
					for _, p := range uidParams(f) {
						gs = append(gs, core.EqGuard("t.owner=="+fk(p.Parent())+"."+p.Name(), core.IsFieldLoad(owner), func(v ssa.Value) bool { return core.Strip(v) == ssa.Value(p) }, true))
					}
					if len(gs) == 0 {
						return false
					}
					for _, kn := range []string{"TopicCatMe", "TopicCatFnd", "TopicCatP2P", "TopicCatSys"} {
						gs = append(gs, core.EqGuard("t.cat=="+kn, core.IsFieldLoad(catF), core.IsConstOf(c.konst("server/store/types", kn)), true))
					}
					gs = append(gs, core.EqGuard("t.cat!=TopicCatGrp", core.IsFieldLoad(catF), core.IsConstOf(grp), false))
					g, cnt := core.GuardedBy(f, at, gs...)
					return g && cnt[0] > 0
				})
				cnt := []int{1}
				r.Check(ok && cnt[0] > 0, "C06.5b-owner-only-desc", fmt.Sprintf("%s: %s of the map passed to Topics.Update", fk(fn), what), c.pos(ref),
					"for a group topic reachable only through t.owner == requester", "a non-owner can add public/trusted/default-access changes to the group's update")
			}
		}
	}
	for _, fn := range c.funcsCalling(topicsDelete, "server") {
		for _, site := range core.CallsTo(fn, topicsDelete) {
			r.Func(fk(fn))
			var gs []core.Guard
			for _, p := range uidParams(fn) {
				gs = append(gs, core.EqGuard("t.owner=="+fk(p.Parent())+"."+p.Name(), core.IsFieldLoad(owner), func(v ssa.Value) bool { return core.Strip(v) == ssa.Value(p) }, true))
			}
			// local variables of type Uid compared with t.owner (asUid parsed from the message)
			gs = append(gs, core.EqGuard("t.owner==asUid", core.IsFieldLoad(owner), func(v ssa.Value) bool {
				n, ok := v.Type().(*types.Named)
				return ok && n.Obj().Name() == "Uid"
			}, true))
			// the category is Topic.cat for a loaded topic, the result of topicCat(name) for an offline one:
			// any value of the category type (not any integer that happens to equal the constant)
			gs = append(gs, core.EqGuard("cat==P2P", core.Or(core.IsFieldLoad(catF), func(v ssa.Value) bool {
				n, ok := v.Type().(*types.Named)
				return ok && n.Obj().Name() == "TopicCat"
			}), core.IsConstOf(p2p), true))
			gs = append(gs, core.BoolGuard("IsOwner(stored want&given)", core.IsCallTo(isOwner, c.isEffModeSub()), true))
			// an offline name nobody is subscribed to: p2p by its spelling (the name may be anything the
			// client sent, so the category cannot be computed)
			gs = append(gs, core.Guard{Name: "HasPrefix(name, \"p2p\")", Match: func(a core.CondAtom) (bool, bool) {
				call, ok := a.Val.(*ssa.Call)
				if a.Op != token.ILLEGAL || !ok {
					return false, false
				}
				f := core.CalleeOf(&call.Call)
				if f == nil || f.FullName() != "strings.HasPrefix" || len(call.Call.Args) < 2 {
					return false, false
				}
				k, ok := call.Call.Args[1].(*ssa.Const)
				if !ok || k.Value == nil || k.Value.Kind() != constant.String || constant.StringVal(k.Value) != "p2p" {
					return false, false
				}
				return true, true
			}})
			ok, _ := core.GuardedBy(fn, site.(ssa.Instruction), gs...)
			r.Check(ok, "C06.5-owner-only-ops", fk(fn)+": Topics.Delete", c.pos(site),
				"reachable only for the owner (or a p2p topic's last subscriber)", "a non-owner can delete the topic for everybody")
		}
	}
}

func sortedStrings(s []string) []string {
	out := append([]string{}, s...)
	for i := range out {
		for j := i + 1; j < len(out); j++ {
			if out[j] < out[i] {
				out[i], out[j] = out[j], out[i]
			}
		}
	}
	return out
}

func (c *Ctx) checkOwnerWriters() {
	r := c.R
	owner := c.E().topicField("owner")
	isOwner := c.E().modeMethod("IsOwner")
	ownerChange := c.E().storeIface("TopicsPersistenceInterface", "OwnerChange")
	topicsCreate := c.E().storeIface("TopicsPersistenceInterface", "Create")
	r.Floor("C06.6-owner-writers", 3)
	for _, a := range c.censusField(owner) {
		if a.Kind != "store" {
			continue
		}
		st := a.Instr.(*ssa.Store)
		if rootsInAlloc(st.Addr) {
			continue
		}
		r.Func(fk(a.Fn))
		construct := fk(a.Fn) + ": store Topic.owner"
		switch {
		case len(core.CallsTo(a.Fn, ownerChange)) > 0:
			r.OK("C06.6-owner-writers", construct+" [transfer]", c.pos(st), "ordering decided by C06.2")
		case len(core.CallsTo(a.Fn, topicsCreate)) > 0:
			r.OK("C06.6-owner-writers", construct+" [creation]", c.pos(st), "creator becomes owner in the function that creates the topic row")
		default:
			g := core.BoolGuard("IsOwner(stored want&given)", core.IsCallTo(isOwner, c.isEffModeSub()), true)
			ok, cnt := core.GuardedBy(a.Fn, st, g)
			r.Check(ok && cnt[0] > 0, "C06.6-owner-writers", construct+" [reload]", c.pos(st), "behind IsOwner(ModeGiven&ModeWant) of the loaded subscription", "Topic.owner is written outside creation, transfer and reload-under-IsOwner")
		}
	}
}

// clearsOwner: v is `x &^ ModeOwner` or `x & K` with K & ModeOwner == 0.
func clearsOwner(v ssa.Value, modeOwner *types.Const) bool {
	b, ok := v.(*ssa.BinOp)
	if !ok {
		return false
	}
	switch b.Op {
	case token.AND_NOT:
		return core.IsConstOf(modeOwner)(b.Y)
	case token.AND:
		for _, side := range []ssa.Value{b.X, b.Y} {
			if k, ok := side.(*ssa.Const); ok && k.Value != nil {
				if constant.Sign(constant.BinaryOp(constant.ToInt(k.Value), token.AND, modeOwner.Val())) == 0 {
					return true
				}
			}
		}
	}
	return false
}
