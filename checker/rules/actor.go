package rules

import (
	"go/types"
	"sort"

	"golang.org/x/tools/go/ssa"

	"verifchk/core"
)

// goroutine-root analysis (engine E4): for a function F, which goroutine entry points can have
// F on their stack? Walk the call graph backwards from F; an in-edge whose site is a `go`
// statement ends the walk (F itself, or the ancestor reached, is the root of a new goroutine);
// a function without in-module callers is a root (main, init, HTTP/RPC entry points). Closures
// without in-module callers (handed to sync.Map.Range, http.HandlerFunc, sort.Slice ...) are
// attributed to the function that creates them.

type rootInfo struct {
	c     *Ctx
	cache map[*ssa.Function]map[*ssa.Function]bool
}

func (c *Ctx) roots() *rootInfo {
	return &rootInfo{c: c, cache: map[*ssa.Function]map[*ssa.Function]bool{}}
}

func (ri *rootInfo) of(fn *ssa.Function) map[*ssa.Function]bool {
	if r, ok := ri.cache[fn]; ok {
		return r
	}
	cg := ri.c.P.CallGraph()
	roots := map[*ssa.Function]bool{}
	seen := map[*ssa.Function]bool{fn: true}
	work := []*ssa.Function{fn}
	for len(work) > 0 {
		f := work[len(work)-1]
		work = work[:len(work)-1]
		n := cg.Nodes[f]
		callers := 0
		isGoTarget := false
		if n != nil {
			for _, e := range n.In {
				if e.Site == nil {
					continue
				}
				if _, isGo := e.Site.(*ssa.Go); isGo {
					isGoTarget = true
					continue
				}
				callers++
				if !seen[e.Caller.Func] {
					seen[e.Caller.Func] = true
					work = append(work, e.Caller.Func)
				}
			}
		}
		if isGoTarget {
			roots[f] = true
		}
		if callers == 0 && !isGoTarget {
			if p := f.Parent(); p != nil {
				// closure handed to out-of-module code: runs on its creator's goroutine
				// (sync.Map.Range, sort.Slice) or is registered by it (http handlers in main).
				if !seen[p] {
					seen[p] = true
					work = append(work, p)
				}
			} else if f.Synthetic == "" || f == fn {
				// (synthetic pointer-receiver/bound wrappers nobody calls are artefacts, not roots)
				roots[f] = true
			}
		}
	}
	ri.cache[fn] = roots
	return roots
}

func rootNames(m map[*ssa.Function]bool) []string {
	var out []string
	for f := range m {
		out = append(out, fk(f))
	}
	sort.Strings(out)
	return out
}

// fieldAccess is one access of a struct field in a module function.
type fieldAccess struct {
	Fn    *ssa.Function
	Instr ssa.Instruction
	Field *types.Var
	Kind  string // "store", "load", "mapupdate", "mapdelete", "maprange", "maplookup", "addr"
}

// censusField enumerates accesses to field f (of its struct type) in all module functions.
func (c *Ctx) censusField(f *types.Var) []fieldAccess {
	var out []fieldAccess
	for _, fn := range c.P.ModFuncs {
		core.AllInstrs(fn, func(in ssa.Instruction) {
			switch x := in.(type) {
			case *ssa.FieldAddr:
				if g, _ := core.FieldOfAddr(x); g != f {
					return
				}
				refs := x.Referrers()
				if refs == nil {
					return
				}
				for _, r := range *refs {
					switch y := r.(type) {
					case *ssa.Store:
						if y.Addr == ssa.Value(x) {
							out = append(out, fieldAccess{fn, y, f, "store"})
						} else {
							out = append(out, fieldAccess{fn, y, f, "addr"})
						}
					case *ssa.UnOp:
						// load; classify by the use of the loaded value (maps)
						kind := "load"
						if lr := y.Referrers(); lr != nil {
							for _, u := range *lr {
								switch z := u.(type) {
								case *ssa.MapUpdate:
									if z.Map == ssa.Value(y) {
										out = append(out, fieldAccess{fn, z, f, "mapupdate"})
									}
								case *ssa.Call:
									if b, ok := z.Call.Value.(*ssa.Builtin); ok && b.Name() == "delete" && len(z.Call.Args) > 0 && z.Call.Args[0] == ssa.Value(y) {
										out = append(out, fieldAccess{fn, z, f, "mapdelete"})
									}
								case *ssa.Range:
									out = append(out, fieldAccess{fn, z, f, "maprange"})
								case *ssa.Lookup:
									if z.X == ssa.Value(y) {
										out = append(out, fieldAccess{fn, z, f, "maplookup"})
									}
								}
							}
						}
						out = append(out, fieldAccess{fn, y, f, kind})
					default:
						out = append(out, fieldAccess{fn, r, f, "addr"})
					}
				}
			case *ssa.Field:
				if g, _ := core.LoadedField(x); g == f {
					out = append(out, fieldAccess{fn, x, f, "load"})
				}
			}
		})
	}
	return out
}

// isWrite tells whether an access kind mutates.
func (a fieldAccess) isWrite() bool {
	return a.Kind == "store" || a.Kind == "mapupdate" || a.Kind == "mapdelete"
}

// topicActorRoots returns the goroutine roots that constitute "the topic's own goroutine":
// the go-target(s) whose receiver is *Topic and that receive on Topic.clientMsg... discovered
// structurally: methods of *Topic that are the target of a `go` statement.
func (c *Ctx) topicActorRoots() (run []*ssa.Function, init []*ssa.Function) {
	cg := c.P.CallGraph()
	topicT := c.P.NamedType("server", "Topic")
	for fn, n := range cg.Nodes {
		if fn == nil || !core.InPkg(fn, "server") {
			continue
		}
		isGo := false
		for _, e := range n.In {
			if _, ok := e.Site.(*ssa.Go); ok {
				isGo = true
			}
		}
		if !isGo {
			continue
		}
		sig := fn.Signature
		if sig.Recv() != nil && isPtrToNamed(sig.Recv().Type(), "Topic") {
			run = append(run, fn)
			continue
		}
		// init-phase goroutine: a go-target taking a *Topic parameter that itself starts the actor
		for i := 0; i < sig.Params().Len(); i++ {
			if p, ok := sig.Params().At(i).Type().(*types.Pointer); ok && types.Identical(p.Elem(), topicT) {
				startsActor := false
				core.AllInstrs(fn, func(in ssa.Instruction) {
					if g, ok := in.(*ssa.Go); ok {
						if cal := g.Common().StaticCallee(); cal != nil && cal.Signature.Recv() != nil && isPtrToNamed(cal.Signature.Recv().Type(), "Topic") {
							startsActor = true
						}
					}
				})
				if startsActor {
					init = append(init, fn)
				}
			}
		}
	}
	sort.Slice(run, func(i, j int) bool { return fk(run[i]) < fk(run[j]) })
	sort.Slice(init, func(i, j int) bool { return fk(init[i]) < fk(init[j]) })
	return
}
