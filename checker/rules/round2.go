package rules

import (
	"fmt"
	"go/constant"
	"go/token"
	"go/types"

	"golang.org/x/tools/go/ssa"

	"verifchk/core"
)

// Rules added after the second round of seeded changes (DESIGN §9.3).

// reachUnder: is `sink` reachable from the entry of fn when the truth of some condition atoms is
// fixed by assume? (A finite decision table over recognisable atoms; nothing is executed.)
func reachUnder(fn *ssa.Function, sink ssa.Instruction, assume func(core.CondAtom) (bool, bool)) bool {
	return reachFromUnder(fn, nil, sink, assume)
}

// reachFromUnder: the same, for paths that start in the block of `from` (nil = entry).
func reachFromUnder(fn *ssa.Function, from ssa.Instruction, sink ssa.Instruction, assume func(core.CondAtom) (bool, bool)) bool {
	saved := core.AssumeFn
	core.AssumeFn = assume
	cut := core.AssumedCuts(fn)
	core.AssumeFn = saved
	var starts []*ssa.BasicBlock
	if from != nil {
		starts = []*ssa.BasicBlock{from.Block()}
	}
	return core.ReachBlocks(fn, starts, cut)[sink.Block()]
}

// boolAtoms builds an assumption from value predicates: atom i (a boolean SSA value) has truth
// vals[i]; a comparison `x == y` / `x != y` of two such booleans (or constants) is decided too.
func boolAtoms(preds []core.VPred, vals []bool, seen []int) func(core.CondAtom) (bool, bool) {
	valueOf := func(v ssa.Value) (bool, bool) {
		if k, ok := core.Strip(v).(*ssa.Const); ok && k.Value != nil && k.Value.Kind() == constant.Bool {
			return true, constant.BoolVal(k.Value)
		}
		for i, p := range preds {
			if p(v) {
				seen[i]++
				return true, vals[i]
			}
		}
		return false, false
	}
	return func(a core.CondAtom) (bool, bool) {
		switch a.Op {
		case token.ILLEGAL:
			return valueOf(a.Val)
		case token.EQL:
			k1, v1 := valueOf(a.X)
			k2, v2 := valueOf(a.Y)
			if k1 && k2 {
				return true, v1 == v2
			}
		}
		return false, false
	}
}

// checkRehashDecision (C01): on a cluster rehash the hub stops exactly the topics whose placement
// changed: reachable(topicUnreg(.., StopRehashing)) <=> Topic.isProxy != isRemoteTopic(name).
func (c *Ctx) checkRehashDecision() {
	r := c.R
	unreg := c.method("server", "Hub", "topicUnreg")
	rehash := c.konst("server", "StopRehashing")
	isProxyF := c.E().topicField("isProxy")
	isRemote := c.method("server", "Cluster", "isRemoteTopic")
	r.Floor("C01.6-rehash-stops-moved-topics", 1)
	for _, fn := range c.funcsCalling(unreg, "server") {
		for _, site := range core.CallsTo(fn, unreg) {
			args := core.CallArgs(site.Common())
			if !core.IsConstOf(rehash)(args[len(args)-1]) {
				continue
			}
			r.Func(fk(fn))
			preds := []core.VPred{core.IsFieldLoad(isProxyF), core.IsCallTo(isRemote)}
			var bad []string
			seenTotal := []int{0, 0}
			for _, p := range []bool{false, true} {
				for _, rm := range []bool{false, true} {
					seen := []int{0, 0}
					got := reachUnder(fn, site.(ssa.Instruction), boolAtoms(preds, []bool{p, rm}, seen))
					seenTotal[0] += seen[0]
					seenTotal[1] += seen[1]
					if got != (p != rm) {
						bad = append(bad, fmt.Sprintf("isProxy=%v remote=%v: stopped=%v", p, rm, got))
					}
				}
			}
			r.Check(len(bad) == 0 && seenTotal[0] > 0 && seenTotal[1] > 0, "C01.6-rehash-stops-moved-topics", fk(fn)+": topicUnreg(StopRehashing) <=> isProxy != isRemoteTopic(name)", c.pos(site), "decision table over the two placement facts",
				fmt.Sprintf("after a rehash a topic whose placement changed keeps running here, or one that did not move is stopped (%v): two instances of one topic can issue the same ids", bad))
		}
	}
}

// checkAdapterSeqId (C01): every database adapter's TopicUpdateOnMessage hands the message's own
// SeqId to its driver call (the stored high-water mark is the id that was issued, not a counter of
// its own).
func (c *Ctx) checkAdapterSeqId() {
	r := c.R
	seq := c.field("server/store/types", "Message", "SeqId")
	n := 0
	for _, fn := range c.P.ModFuncs {
		if fn.Name() != "TopicUpdateOnMessage" || fn.Signature.Recv() == nil || fn.Pkg == nil {
			continue
		}
		rel := fn.Pkg.Pkg.Path()
		if len(rel) < len(core.ModPath)+11 || rel[len(core.ModPath):len(core.ModPath)+11] != "/server/db/" {
			continue
		}
		n++
		r.Func(fk(fn))
		uses := false
		core.AllInstrs(fn, func(in ssa.Instruction) {
			// a read of Message.SeqId whose value is used (as a statement argument, map value, ...)
			var v ssa.Value
			switch x := in.(type) {
			case *ssa.FieldAddr:
				if f, _ := core.FieldOfAddr(x); f == seq {
					v = x
				}
			case *ssa.Field:
				if f, _ := core.LoadedField(x); f == seq {
					v = x
				}
			}
			if v != nil && v.Referrers() != nil && len(*v.Referrers()) > 0 {
				uses = true
			}
		})
		r.Check(uses, "C01.4c-adapter-stores-issued-id", fk(fn)+": driver call receives msg.SeqId", c.P.Pos(fn.Pos()), "", "the adapter's high-water-mark update does not use the message's SeqId: after a failed insert the stored mark runs ahead of (or behind) the ids actually issued")
	}
	r.Check(n >= 2, "C01.4c-adapter-stores-issued-id", "database adapters implementing TopicUpdateOnMessage", "-", fmt.Sprintf("%d adapters", n), "fewer than two adapters found: anchor lost")
}

// checkPauseBeforeStoreDelete (C03/C14): the hub deletes a live topic from the store only after
// marking it paused; a failed delete un-pauses it.
func (c *Ctx) checkPauseBeforeStoreDelete() {
	r := c.R
	del := c.E().storeIface("TopicsPersistenceInterface", "Delete")
	markPaused := c.method("server", "Topic", "markPaused")
	topicGet := c.method("server", "Hub", "topicGet")
	r.Floor("C14.4b-pause-before-store-delete", 1)
	isPause := func(want string) func(ssa.Instruction) bool {
		return func(in ssa.Instruction) bool {
			call, ok := in.(*ssa.Call)
			if !ok || core.CalleeOf(&call.Call) != markPaused {
				return false
			}
			k, ok := call.Call.Args[len(call.Call.Args)-1].(*ssa.Const)
			return ok && k.Value != nil && k.Value.String() == want
		}
	}
	for _, fn := range c.funcsCalling(del, "server") {
		if len(core.CallsTo(fn, topicGet)) == 0 || len(core.CallsTo(fn, markPaused)) == 0 && !isPtrToNamedRecv(fn, "Hub") {
			continue // offline deletions (no live topic involved)
		}
		for _, site := range core.CallsTo(fn, del) {
			// only the deletion of a topic that was found live: behind topicGet(..) != nil
			gLive := core.NilGuard("topicGet()!=nil", core.IsCallTo(topicGet), false)
			if ok, cnt := core.GuardedBy(fn, site.(ssa.Instruction), gLive); !ok || cnt[0] == 0 {
				continue
			}
			r.Func(fk(fn))
			found, _ := core.PathAvoiding(fn, nil, func(in ssa.Instruction) bool { return in == site.(ssa.Instruction) }, isPause("true"), nil)
			r.Check(!found, "C14.4b-pause-before-store-delete", fk(fn)+": store.Topics.Delete of a live topic only after markPaused(true)", c.pos(site), "", "a live topic keeps accepting requests (publishes are saved and acknowledged) while its rows are being deleted from the store")
			fe := core.FailEdges(fn, successGuard(site))
			miss, _ := core.PathFromEdgeAvoiding(fn, fe, core.IsReturn, isPause("false"), nil)
			r.Check(!miss && len(fe) > 0, "C14.4b-pause-before-store-delete", fk(fn)+": a failed delete un-pauses the topic", c.pos(site), "", "after a failed store delete the topic stays paused forever")
		}
	}
}

// checkOfflineOwnership (C06): the hub's offline set-sub path changes a stored subscription only
// when the requested mode and the stored one agree on the O bit (no ownership change offline).
func (c *Ctx) checkOfflineOwnership() {
	r := c.R
	isOwner := c.E().modeMethod("IsOwner")
	subWant := c.field("server/store/types", "Subscription", "ModeWant")
	upd := c.E().storeIface("SubsPersistenceInterface", "Update")
	r.Floor("C06.7-no-offline-ownership-change", 1)
	for _, fn := range c.funcsCalling(upd, "server") {
		if fn.Signature.Recv() != nil || len(c.parsedModeCells(fn)) != 1 {
			continue // topic methods are decided by C06.1-3; this is the hub's offline handler
		}
		ld := isLoadOfCell(c.parsedModeCells(fn)[0])
		preds := []core.VPred{core.IsCallTo(isOwner, ld), core.IsCallTo(isOwner, core.IsFieldLoad(subWant))}
		var parse ssa.Instruction
		for _, ci := range core.CallsTo(fn, c.method("server/store/types", "AccessMode", "UnmarshalText")) {
			parse = ci.(ssa.Instruction)
		}
		for _, site := range core.CallsTo(fn, upd) {
			r.Func(fk(fn))
			var bad []string
			seenTotal := []int{0, 0}
			anyReach := false
			for _, a := range []bool{false, true} {
				for _, b := range []bool{false, true} {
					seen := []int{0, 0}
					// paths through the parse of an explicit mode
					got := reachFromUnder(fn, parse, site.(ssa.Instruction), boolAtoms(preds, []bool{a, b}, seen))
					seenTotal[0] += seen[0]
					seenTotal[1] += seen[1]
					if got && a != b {
						bad = append(bad, fmt.Sprintf("requested O=%v stored O=%v reaches the update", a, b))
					}
					if got && a == b {
						anyReach = true
					}
				}
			}
			r.Check(len(bad) == 0 && anyReach && seenTotal[0] > 0 && seenTotal[1] > 0, "C06.7-no-offline-ownership-change", fk(fn)+": Subs.Update only when requested and stored mode agree on O", c.pos(site), "decision table over the two IsOwner tests",
				fmt.Sprintf("ownership can be dropped or acquired through the offline path, which neither updates the topic's owner nor checks the owner rules (%v)", bad))
		}
	}
}

var _ = types.Universe

// checkMessageCopyIsDeep (C02): ServerComMessage.copy gives every payload pointer field whose type
// has its own copy method a fresh copy (a call of that method on the source's field), never the
// source's pointer: the fan-out rewrites Topic/From per recipient on the copy.
func (c *Ctx) checkMessageCopyIsDeep() {
	r := c.R
	cp := c.ssaMethod("server", "ServerComMessage", "copy")
	r.Func(fk(cp))
	scm := c.P.NamedType("server", "ServerComMessage")
	st := scm.Underlying().(*types.Struct)
	n := 0
	for i := 0; i < st.NumFields(); i++ {
		f := st.Field(i)
		pt, ok := f.Type().(*types.Pointer)
		if !ok {
			continue
		}
		named, ok := pt.Elem().(*types.Named)
		if !ok {
			continue
		}
		var copyM *types.Func
		for j := 0; j < named.NumMethods(); j++ {
			if named.Method(j).Name() == "copy" {
				copyM = named.Method(j)
			}
		}
		if copyM == nil {
			continue // session pointer etc.: shared by design
		}
		n++
		stores := core.StoresToField(cp, f)
		good := len(stores) > 0
		for _, s := range stores {
			if !core.IsCallTo(copyM, core.IsFieldLoad(f))(s.Val) {
				good = false
			}
		}
		r.Check(good, "C02.4c-per-recipient-payload", fmt.Sprintf("%s: dst.%s = src.%s.copy()", fk(cp), f.Name(), f.Name()), c.P.Pos(cp.Pos()), "",
			"the per-recipient copy shares the payload with the original: the recipient-specific topic name / blanked author of one recipient is seen by the others")
	}
	r.Check(n >= 3, "C02.4c-per-recipient-payload", "payload fields with a copy method", "-", fmt.Sprintf("%d fields", n), "fewer than three copyable payload fields: anchor lost")
}

// checkEvictionDetachesAll (C02/C14): in a loop over Topic.sessions that removes sessions of one
// user, every iteration passes Topic.remSession (no session is skipped before the removal).
func (c *Ctx) checkEvictionDetachesAll() {
	r := c.R
	sessionsF := c.E().topicField("sessions")
	rem := c.method("server", "Topic", "remSession")
	n := 0
	for _, fn := range c.funcsCalling(rem, "server") {
		var rng *ssa.Range
		core.AllInstrs(fn, func(in ssa.Instruction) {
			if rg, ok := in.(*ssa.Range); ok && core.IsFieldLoad(sessionsF)(rg.X) {
				rng = rg
			}
		})
		if rng == nil {
			continue
		}
		var remCall ssa.Instruction
		for _, ci := range core.CallsTo(fn, rem) {
			args := core.CallArgs(ci.Common())
			if len(args) >= 2 && isRangeKey(args[1]) {
				remCall = ci.(ssa.Instruction)
			}
		}
		if remCall == nil {
			continue
		}
		n++
		r.Func(fk(fn))
		back := loopBackEdges(fn)
		// from the start of an iteration (the successor of the Next block on the "has element" edge)
		var starts map[core.Edge]bool = map[core.Edge]bool{}
		for _, b := range fn.Blocks {
			for _, in := range b.Instrs {
				if nx, ok := in.(*ssa.Next); ok && nx.Iter == ssa.Value(rng) {
					if _, isIf := b.Instrs[len(b.Instrs)-1].(*ssa.If); isIf {
						starts[core.Edge{From: b, Idx: 0}] = true
					}
				}
			}
		}
		// target: taking a back edge (the end of the iteration) without having called remSession
		skipped := false
		for e := range back {
			// reachability of the back edge's source block while avoiding remCall
			src := e.From
			found, _ := core.PathFromEdgeAvoiding(fn, starts, func(in ssa.Instruction) bool { return in.Block() == src && in == src.Instrs[len(src.Instrs)-1] }, func(in ssa.Instruction) bool { return in == remCall }, nil)
			if found {
				skipped = true
			}
		}
		r.Check(!skipped && len(starts) > 0 && len(back) > 0, "C14.5c-eviction-covers-every-session", fk(fn)+": every iteration over Topic.sessions passes remSession", c.pos(remCall), "",
			"a session can be skipped before it is removed from the topic: a session of a removed user stays attached and keeps receiving messages")
	}
	r.Check(n >= 1, "C14.5c-eviction-covers-every-session", "loops over Topic.sessions removing a user's sessions", "-", fmt.Sprintf("%d", n), "no eviction loop found: anchor lost")
}

// checkGetOptsAgreement (C04): every handler taking a *MsgGetOpts receives, at all of its call
// sites, the same field of the request's MsgGetQuery, and no two handlers share a field (sibling
// agreement between the {get} and the {sub get=...} dispatch).
func (c *Ctx) checkGetOptsAgreement() {
	r := c.R
	optsT := c.P.NamedType("server", "MsgGetOpts")
	queryT := c.P.NamedType("server", "MsgGetQuery")
	byField := map[string][]string{}
	n := 0
	for _, fn := range c.P.ModFuncs {
		if !core.InPkg(fn, "server") || !isPtrToNamedRecv(fn, "Topic") {
			continue
		}
		idx := -1
		for i, p := range fn.Params {
			if pt, ok := p.Type().(*types.Pointer); ok && types.Identical(pt.Elem(), optsT) {
				idx = i
			}
		}
		callers := c.callersOf(fn)
		if idx < 0 || len(callers) == 0 {
			continue
		}
		fields := map[string]bool{}
		undecided := false
		for _, cs := range callers {
			args := cs.Site.Common().Args
			if idx >= len(args) {
				undecided = true
				continue
			}
			f, base := core.LoadedField(core.Strip(args[idx]))
			if f == nil || base == nil {
				undecided = true
				continue
			}
			if bt, ok := base.Type().(*types.Pointer); !ok || !types.Identical(bt.Elem(), queryT) {
				undecided = true
				continue
			}
			fields[f.Name()] = true
		}
		if undecided && len(fields) == 0 {
			continue // options built elsewhere (not one of the dispatch siblings)
		}
		n++
		r.Func(fk(fn))
		var fs []string
		for f := range fields {
			fs = append(fs, f)
			byField[f] = append(byField[f], fn.Name())
		}
		r.Check(len(fields) == 1 && !undecided, "C04.5-get-options-agree", fmt.Sprintf("%s: every call site passes the same MsgGetQuery field", fk(fn)), c.P.Pos(fn.Pos()), fmt.Sprintf("%v", sortedStrings(fs)),
			fmt.Sprintf("the handler is given different query sections at different call sites (%v): a {sub get=...} request is answered from the options of another section", sortedStrings(fs)))
	}
	for f, hs := range byField {
		r.Check(len(hs) == 1, "C04.5-get-options-agree", "MsgGetQuery."+f+" feeds one handler", "-", "", fmt.Sprintf("the same query section is handed to several handlers: %v", sortedStrings(hs)))
	}
	r.Check(n >= 3, "C04.5-get-options-agree", "handlers taking *MsgGetOpts", "-", fmt.Sprintf("%d", n), "fewer than three: anchor lost")
}

// checkClipExact (C04): in the delete handler the upper bound of a range is replaced by lastID+1
// only behind `lastID < HiId` (an id equal to lastID is a legitimate exclusive upper bound).
func (c *Ctx) checkClipExact() {
	r := c.R
	dl := c.E().storeIface("MessagesPersistenceInterface", "DeleteList")
	lastID := c.E().topicField("lastID")
	hiF := c.field("server", "MsgDelRange", "HiId")
	n := 0
	for _, fn := range c.funcsCalling(dl, "server") {
		c.withCallees(fn, 2, func(owner *ssa.Function, in ssa.Instruction, _ ssa.Instruction) {
			b, ok := in.(*ssa.BinOp)
			if !ok || !core.IsBinOp(token.ADD, core.IsFieldLoad(lastID), core.IsConstInt(1), true)(b) {
				return
			}
			// only the clip: the value must flow into a range bound (a store to HiId, a phi, or a Range literal), not into the message id
			if !flowsToRangeBound(b, hiF) {
				return
			}
			n++
			r.Func(fk(owner))
			g := core.LessGuard("lastID<HiId", core.IsFieldLoad(lastID), func(v ssa.Value) bool {
				return core.Derives(core.Strip(v), core.IsFieldLoad(hiF), false)
			}, true)
			ok2, cnt := core.GuardedBy(owner, b, g)
			r.Check(ok2 && cnt[0] > 0, "C04.2d-clip-exact", fk(owner)+": HiId := lastID+1 only when lastID < HiId", c.pos(b), "", "the upper bound of a delete range is replaced although it does not exceed the last id: the message with the last id is deleted by a range that excludes it")
		})
	}
	r.Check(n >= 1, "C04.2d-clip-exact", "clip of the delete range's upper bound found", "-", fmt.Sprintf("%d", n), "no `lastID+1` clip in the delete handler: anchor lost")
}

func flowsToRangeBound(v ssa.Value, hiF *types.Var) bool {
	seen := map[ssa.Value]bool{}
	var walk func(x ssa.Value, d int) bool
	walk = func(x ssa.Value, d int) bool {
		if x == nil || d > 6 || seen[x] || x.Referrers() == nil {
			return false
		}
		seen[x] = true
		for _, ref := range *x.Referrers() {
			switch y := ref.(type) {
			case *ssa.Store:
				if f, _ := core.FieldOfAddr(y.Addr); f != nil && (f == hiF || f.Name() == "Hi") {
					return true
				}
			case *ssa.Phi:
				if walk(y, d+1) {
					return true
				}
			case *ssa.BinOp:
				// count += hi - low
				if y.Op == token.SUB || y.Op == token.EQL {
					if walk(y, d+1) {
						return true
					}
				}
			}
		}
		return false
	}
	return walk(v, 0)
}

// checkDeltaSides (C05): the function that renders permission-change notifications takes old/new
// want and given modes as parameters; which parameter carries which side is read off the call
// sites (the argument derives from a modeWant / modeGiven field). presParams.dWant may then depend
// only on want-side parameters and dGiven only on given-side parameters.
func (c *Ctx) checkDeltaSides() {
	r := c.R
	wantFs := []*types.Var{c.E().pudField("modeWant"), c.field("server/store/types", "Subscription", "ModeWant")}
	givenFs := []*types.Var{c.E().pudField("modeGiven"), c.field("server/store/types", "Subscription", "ModeGiven")}
	isAny := func(fs []*types.Var) core.VPred {
		return func(v ssa.Value) bool {
			for _, f := range fs {
				if core.IsFieldLoad(f)(v) {
					return true
				}
			}
			return false
		}
	}
	dWant, dGiven := c.field("server", "presParams", "dWant"), c.field("server", "presParams", "dGiven")
	n := 0
	for _, fn := range c.P.ModFuncs {
		if !core.InPkg(fn, "server") {
			continue
		}
		sw, sg := core.StoresToField(fn, dWant), core.StoresToField(fn, dGiven)
		if len(sw) == 0 || len(sg) == 0 {
			continue
		}
		// sides of the mode parameters
		side := map[*ssa.Parameter]string{}
		for i, p := range fn.Params {
			if !isModeType(p.Type()) {
				continue
			}
			w, g := 0, 0
			for _, cs := range c.callersOf(fn) {
				args := cs.Site.Common().Args
				if i >= len(args) {
					continue
				}
				if derivesAny(args[i], isAny(wantFs)) {
					w++
				}
				if derivesAny(args[i], isAny(givenFs)) {
					g++
				}
			}
			switch {
			case w > 0 && g == 0:
				side[p] = "want"
			case g > 0 && w == 0:
				side[p] = "given"
			}
		}
		if len(side) < 2 {
			continue
		}
		n++
		r.Func(fk(fn))
		check := func(stores []*ssa.Store, want string, fld string) {
			for _, st := range stores {
				bad := ""
				for p, s := range side {
					if s != want && derivesAny(st.Val, func(v ssa.Value) bool { return v == ssa.Value(p) }) {
						bad = p.Name()
					}
				}
				r.Check(bad == "", "C05.4d-delta-sides", fmt.Sprintf("%s: presParams.%s depends only on %s-side parameters #%s", fk(fn), fld, want, retOrdinalOfStore(fn, st)), c.pos(st), "",
					fmt.Sprintf("the %s notification is computed from parameter %s, which carries the other side at every call site", fld, bad))
			}
		}
		check(sw, "want", "dWant")
		check(sg, "given", "dGiven")
	}
	r.Check(n >= 1, "C05.4d-delta-sides", "renderer of dWant/dGiven with side-typed parameters", "-", fmt.Sprintf("%d", n), "no such function: anchor lost")
}

// checkSelfGrantShapes (C07): in the self-subscription handler a user raises their own grant
// (`given |= X`) only as owner (X = the requested mode, behind IsOwner of the grant) or as group
// admin with X stripped of the hard-delete bit.
func (c *Ctx) checkSelfGrantShapes() {
	r := c.R
	self, _ := c.subHandlers()
	pudGiven := c.E().pudField("modeGiven")
	isOwner := c.E().modeMethod("IsOwner")
	isAdmin := c.E().modeMethod("IsAdmin")
	modeDelete := c.konst("server/store/types", "ModeDelete")
	modes := c.requestedModes(self)
	if len(modes) != 1 {
		return
	}
	ld := modes[0]
	n := 0
	c.withCallees(self, 2, func(owner *ssa.Function, in ssa.Instruction, outer ssa.Instruction) {
		st, ok := in.(*ssa.Store)
		if !ok {
			return
		}
		if f, _ := core.FieldOfAddr(st.Addr); f != pudGiven {
			return
		}
		b, ok := core.Strip(st.Val).(*ssa.BinOp)
		if !ok || b.Op != token.OR {
			return
		}
		var x ssa.Value
		if core.IsFieldLoad(pudGiven)(b.X) {
			x = b.Y
		} else if core.IsFieldLoad(pudGiven)(b.Y) {
			x = b.X
		}
		if x == nil {
			return
		}
		n++
		r.Func(fk(owner))
		construct := fmt.Sprintf("%s: grant |= ... #%d", fk(owner), n)
		gO := core.BoolGuard("grant.IsOwner()", core.IsCallTo(isOwner, core.IsFieldLoad(pudGiven)), true)
		gA := core.BoolGuard("grant.IsAdmin()", core.IsCallTo(isAdmin, core.IsFieldLoad(pudGiven)), true)
		guarded := func(g core.Guard) bool {
			ok, cnt := core.GuardedBy(owner, st, g)
			if (!ok || cnt[0] == 0) && owner != self {
				ok, cnt = core.GuardedBy(self, outer, g)
			}
			return ok && cnt[0] > 0
		}
		xs := core.Strip(x)
		switch {
		case ld(xs):
			r.Check(guarded(gO), "C07.8-self-grant-shapes", construct+" [whole requested mode: owner only]", c.pos(st), "", "a subscriber who is not the owner can raise their own grant to whatever they request")
		case clearsBit(xs, modeDelete) && func() bool { bb := xs.(*ssa.BinOp); return ld(bb.X) || ld(bb.Y) }():
			r.Check(guarded(gA) || guarded(gO), "C07.8-self-grant-shapes", construct+" [requested mode without D: admin]", c.pos(st), "", "a subscriber without admin rights can raise their own grant")
		default:
			r.Fail("C07.8-self-grant-shapes", construct, c.pos(st), "the user's own grant is raised by a value that is neither the requested mode (owner) nor the requested mode without the delete bit (admin)")
		}
	})
	r.Check(n >= 2, "C07.8-self-grant-shapes", "self-raise sites found", "-", fmt.Sprintf("%d", n), "fewer than two `grant |= ...` sites in the self-subscription handler: anchor lost")
}

// clearsBit: v is `x &^ K` or `x & M` with M & K == 0.
func clearsBit(v ssa.Value, k *types.Const) bool {
	b, ok := v.(*ssa.BinOp)
	if !ok {
		return false
	}
	switch b.Op {
	case token.AND_NOT:
		return core.IsConstOf(k)(b.Y)
	case token.AND:
		for _, side := range []ssa.Value{b.X, b.Y} {
			if kc, ok := side.(*ssa.Const); ok && kc.Value != nil {
				if constant.Sign(constant.BinaryOp(constant.ToInt(kc.Value), token.AND, k.Val())) == 0 {
					return true
				}
			}
		}
	}
	return false
}

// checkMaskAfterParse (C07): in the functions that apply the p2p mask, a client-supplied mode
// parsed straight into a subscription's ModeGiven/ModeWant is masked before the subscription
// reaches the store.
func (c *Ctx) checkMaskAfterParse() {
	r := c.R
	um := c.method("server/store/types", "AccessMode", "UnmarshalText")
	cp2p := c.konst("server/store/types", "ModeCP2P")
	n := 0
	for _, fn := range c.funcsCalling(um, "server") {
		for _, ci := range core.CallsTo(fn, um) {
			fa, ok := core.CallArgs(ci.Common())[0].(*ssa.FieldAddr)
			if !ok {
				continue
			}
			f, base := core.FieldOfAddr(fa)
			if f == nil || (f.Name() != "ModeGiven" && f.Name() != "ModeWant") {
				continue
			}
			n++
			r.Func(fk(fn))
			isMaskStore := func(in ssa.Instruction) bool {
				st, ok := in.(*ssa.Store)
				if !ok {
					return false
				}
				f2, b2 := core.FieldOfAddr(st.Addr)
				if f2 != f || !sameValue(b2, base, 0) {
					return false
				}
				return derivesAny(st.Val, core.IsConstOf(cp2p))
			}
			isSink := func(in ssa.Instruction) bool {
				_, ok := c.isStoreCall(in)
				return ok
			}
			found, w := core.PathAvoiding(fn, ci.(ssa.Instruction), isSink, isMaskStore, nil)
			r.Check(!found, "C07.5c-mask-after-parse", fmt.Sprintf("%s: %s parsed from the request is masked before the store call", fk(fn), f.Name()), c.pos(ci), "",
				"a client-supplied p2p mode reaches the store without the J|R|W|P|A mask and the forced approve bit"+posOf(c, w))
		}
	}
	r.Check(n >= 1, "C07.5c-mask-after-parse", "modes parsed into a subscription field", "-", fmt.Sprintf("%d", n), "no UnmarshalText into Subscription.ModeGiven/ModeWant: anchor lost")
}

// checkSnapshotBeforeChange (C08): the handlers decide which subscription attributes to persist by
// comparing the record's current mode with a snapshot (`if pud.modeGiven != oldGiven`). The
// snapshot must be taken before any modification of that field: no store to the field reaches the
// snapshot load.
func (c *Ctx) checkSnapshotBeforeChange() {
	r := c.R
	n := 0
	for _, fld := range []*types.Var{c.E().pudField("modeGiven"), c.E().pudField("modeWant")} {
		for _, fn := range c.P.ModFuncs {
			if !core.InPkg(fn, "server") || !isPtrToNamedRecv(fn, "Topic") || len(c.subsUpdateSites(fn)) == 0 {
				continue
			}
			done := map[ssa.Value]bool{}
			for _, b := range fn.Blocks {
				ifi, ok := b.Instrs[len(b.Instrs)-1].(*ssa.If)
				if !ok {
					continue
				}
				a := core.NormCond(ifi.Cond)
				if a.Op != token.EQL {
					continue
				}
				var snap ssa.Value
				if core.IsFieldLoad(fld)(a.X) && !core.IsFieldLoad(fld)(a.Y) {
					snap = a.Y
				} else if core.IsFieldLoad(fld)(a.Y) && !core.IsFieldLoad(fld)(a.X) {
					snap = a.X
				}
				if snap == nil || done[snap] {
					continue
				}
				done[snap] = true
				// snapshot loads: leaves of snap that are loads of the same field of a local record
				var loads []*ssa.UnOp
				collectLeaves(snap, func(v ssa.Value) {
					if u, ok := v.(*ssa.UnOp); ok && u.Op == token.MUL {
						if f, _ := core.FieldOfAddr(u.X); f == fld {
							loads = append(loads, u)
						}
					}
				})
				for _, ld := range loads {
					fa := ld.X.(*ssa.FieldAddr)
					n++
					r.Func(fk(fn))
					var late ssa.Instruction
					for _, st := range core.StoresToField(fn, fld) {
						fa2, ok := st.Addr.(*ssa.FieldAddr)
						if !ok || fa2.X != fa.X {
							continue
						}
						if found, _ := core.PathAvoiding(fn, st, func(in ssa.Instruction) bool { return in == ssa.Instruction(ld) }, nil, nil); found {
							late = st
						}
					}
					r.Check(late == nil, "C08.6-snapshot-before-change", fmt.Sprintf("%s: snapshot of %s compared later is taken before the field is modified", fk(fn), fld.Name()), c.pos(ld), "",
						"the 'old' value is captured after the record was already modified"+posOf(c, late)+": the change is not seen as a change, is acknowledged and cached but never written to the store")
				}
			}
		}
	}
	r.Check(n >= 2, "C08.6-snapshot-before-change", "old-value snapshots compared with the current mode", "-", fmt.Sprintf("%d", n), "fewer than two snapshot comparisons found: anchor lost")
}

func collectLeaves(v ssa.Value, f func(ssa.Value)) {
	seen := map[ssa.Value]bool{}
	var walk func(x ssa.Value, d int)
	walk = func(x ssa.Value, d int) {
		if x == nil || seen[x] || d > 8 {
			return
		}
		seen[x] = true
		switch y := x.(type) {
		case *ssa.Phi:
			for _, e := range y.Edges {
				walk(e, d+1)
			}
		case *ssa.UnOp:
			if al, ok := y.X.(*ssa.Alloc); ok && y.Op == token.MUL && al.Referrers() != nil {
				for _, ref := range *al.Referrers() {
					if st, ok := ref.(*ssa.Store); ok && st.Addr == ssa.Value(al) {
						walk(st.Val, d+1)
					}
				}
				return
			}
			f(x)
		default:
			f(x)
		}
	}
	walk(v, 0)
}

// checkLoaderRecordsFromOneRow (C08): a perUserData literal built from a stored subscription takes
// all its subscription-derived fields from the same subscription value.
func (c *Ctx) checkLoaderRecordsFromOneRow() {
	r := c.R
	pudT := c.P.NamedType("server", "perUserData")
	subT := c.P.NamedType("server/store/types", "Subscription")
	n := 0
	perFn := map[*ssa.Function]int{}
	for _, fn := range c.P.ModFuncs {
		if !core.InPkg(fn, "server") {
			continue
		}
		core.AllInstrs(fn, func(in ssa.Instruction) {
			al, ok := in.(*ssa.Alloc)
			if !ok {
				return
			}
			if pt, ok := al.Type().(*types.Pointer); !ok || !types.Identical(pt.Elem(), pudT) {
				return
			}
			var bases []ssa.Value
			var names []string
			for f, v := range literalFields(al) {
				sf, base := core.LoadedField(core.Strip(v))
				if sf == nil || base == nil {
					continue
				}
				bt := base.Type()
				if p, ok := bt.(*types.Pointer); ok {
					bt = p.Elem()
				}
				if !types.Identical(bt, subT) {
					continue
				}
				bases = append(bases, base)
				names = append(names, f+"<-"+sf.Name())
			}
			if len(bases) < 2 {
				return
			}
			n++
			perFn[fn]++
			r.Func(fk(fn))
			same := true
			for _, b := range bases[1:] {
				if !sameValue(b, bases[0], 0) {
					same = false
				}
			}
			r.Check(same, "C08.4b-record-from-one-row", fmt.Sprintf("%s: perUserData literal #%d takes its fields from one subscription", fk(fn), perFn[fn]), c.pos(al), fmt.Sprintf("%v", sortedStrings(names)),
				fmt.Sprintf("a cached per-user record mixes fields of two different stored subscriptions (%v): after a reload the cache answers with another user's marks", sortedStrings(names)))
		})
	}
	r.Check(n >= 2, "C08.4b-record-from-one-row", "perUserData literals filled from a stored subscription", "-", fmt.Sprintf("%d", n), "fewer than two: anchor lost")
}

// checkRemovedSenderDegraded (C09): the mode the note handler tests for the sender is degraded for
// a removed user: the tested value is a phi with ModeInvalid/ModeNone on the `deleted` edge, or the
// sinks are behind `!deleted` of the sender's record.
func (c *Ctx) checkRemovedSenderDegraded(handler *ssa.Function) {
	r := c.R
	deletedF := c.E().pudField("deleted")
	isWriter := c.E().modeMethod("IsWriter")
	isReader := c.E().modeMethod("IsReader")
	inv := c.konst("server/store/types", "ModeInvalid")
	none := c.konst("server/store/types", "ModeNone")
	n := 0
	c.withCallees(handler, 2, func(owner *ssa.Function, in ssa.Instruction, _ ssa.Instruction) {
		call, ok := in.(*ssa.Call)
		if !ok {
			return
		}
		f := core.CalleeOf(&call.Call)
		if f != isWriter && f != isReader {
			return
		}
		recv := core.Strip(call.Call.Args[0])
		// only tests of the sender's mode as computed in the handler (directly or handed to a predicate)
		switch x := recv.(type) {
		case *ssa.Parameter:
			if x.Parent() != handler {
				return
			}
		case ssa.Instruction:
			if x.Parent() != handler {
				return
			}
		default:
			return
		}
		n++
		okDeg := false
		if phi, isPhi := recv.(*ssa.Phi); isPhi {
			for i, e := range phi.Edges {
				if !(core.IsConstOf(inv)(e) || core.IsConstOf(none)(e)) {
					continue
				}
				// the constant arrives on an edge dominated by the `deleted` true edge
				pred := phi.Block().Preds[i]
				pe, _ := core.PassEdges(phi.Parent(), core.BoolGuard("deleted", core.IsFieldLoad(deletedF), true))
				for e2 := range pe {
					tgt := e2.From.Succs[e2.Idx]
					if tgt == pred || tgt.Dominates(pred) || (tgt == phi.Block() && e2.From == pred) {
						okDeg = true
					}
				}
			}
		}
		if !okDeg {
			g := core.BoolGuard("!deleted", core.IsFieldLoad(deletedF), false)
			if ok2, cnt := core.GuardedBy(owner, call, g); ok2 && cnt[0] > 0 {
				okDeg = true
			}
		}
		r.Check(okDeg, "C09.3c-removed-sender-degraded", fmt.Sprintf("%s: %s tested on a mode that is invalid for a removed user #%d", fk(owner), f.Name(), n), c.pos(call), "",
			"the permission of a removed (soft-deleted) p2p participant is taken from the record's want&given: their notes still move marks and are relayed")
	})
	r.Check(n >= 2, "C09.3c-removed-sender-degraded", "permission tests in the note handler", "-", fmt.Sprintf("%d", n), "fewer than two: anchor lost")
}

// checkOfflineInfoSkipsOrigin (C09): {info} copies routed to the users' `me` topics carry the
// originating session id in SkipSid (a value derived from a parameter), and the note handler passes
// the requesting session's sid.
func (c *Ctx) checkOfflineInfoSkipsOrigin() {
	r := c.R
	routeSrv := c.field("server", "Hub", "routeSrv")
	infoF := c.field("server", "ServerComMessage", "Info")
	skipF := c.field("server", "ServerComMessage", "SkipSid")
	sidF := c.E().sessionField("sid")
	n := 0
	for _, fn := range c.P.ModFuncs {
		if !core.InPkg(fn, "server") {
			continue
		}
		for _, s := range chanSends(fn, core.IsFieldLoad(routeSrv)) {
			al, ok := core.Strip(s.Val).(*ssa.Alloc)
			if !ok {
				continue
			}
			fields := literalFields(al)
			if v, has := fields[infoF.Name()]; !has || core.IsNil(v) {
				continue
			}
			n++
			r.Func(fk(fn))
			sk, has := fields[skipF.Name()]
			var p *ssa.Parameter
			if has {
				p, _ = core.Strip(sk).(*ssa.Parameter)
			}
			okSites := p != nil
			if p != nil {
				idx := -1
				for i, q := range fn.Params {
					if q == p {
						idx = i
					}
				}
				for _, cs := range c.callersOf(fn) {
					args := cs.Site.Common().Args
					if idx < 0 || idx >= len(args) {
						okSites = false
						continue
					}
					// a server-initiated notification (call timeout) has no originating session: ""
					if !derivesAny(args[idx], core.IsFieldLoad(sidF)) && !core.IsConstString("")(args[idx]) {
						okSites = false
					}
				}
			}
			r.Check(okSites, "C09.4b-offline-info-skips-origin", fk(fn)+": {info} routed to `me` carries SkipSid = the originating session", c.pos(s.Instr), "",
				"the read/recv/typing notification forwarded through the users' me topics no longer names the originating session: the sender's own session is notified of its own note")
		}
	}
	r.Check(n >= 1, "C09.4b-offline-info-skips-origin", "{info} sends on Hub.routeSrv", "-", fmt.Sprintf("%d", n), "none found: anchor lost")
}

// checkNoLostUpdate (C10/C08): a copy of a perUser record taken by lookup is written back before
// any call that may itself write Topic.perUser (the callee's write would be overwritten by the
// stale copy).
func (c *Ctx) checkNoLostUpdate() {
	r := c.R
	perUser := c.E().topicField("perUser")
	// functions that (transitively, through static and resolved calls) update or delete Topic.perUser
	// (restricted to functions that change a record's online counter and write it back: the counter
	// is what a stale copy silently destroys; writes of other users' records keyed differently, like
	// the previous owner's in an ownership transfer, are not lost updates)
	writes := map[*ssa.Function]bool{}
	online := c.E().pudField("online")
	for _, fn := range c.P.ModFuncs {
		if !core.InPkg(fn, "server") {
			continue
		}
		updates, counter := false, len(core.StoresToField(fn, online)) > 0
		core.AllInstrs(fn, func(in ssa.Instruction) {
			if x, ok := in.(*ssa.MapUpdate); ok && core.IsFieldLoad(perUser)(x.Map) {
				updates = true
			}
		})
		if updates && counter {
			writes[fn] = true
		}
	}
	cg := c.P.CallGraph()
	for changed := true; changed; {
		changed = false
		for fn, node := range cg.Nodes {
			if fn == nil || writes[fn] || !core.InPkg(fn, "server") {
				continue
			}
			for _, e := range node.Out {
				if _, isGo := e.Site.(*ssa.Go); isGo {
					continue
				}
				if writes[e.Callee.Func] {
					writes[fn] = true
					changed = true
					break
				}
			}
		}
	}
	n := 0
	for _, fn := range c.P.ModFuncs {
		if !core.InPkg(fn, "server") || !isPtrToNamedRecv(fn, "Topic") {
			continue
		}
		core.AllInstrs(fn, func(in ssa.Instruction) {
			mu, ok := in.(*ssa.MapUpdate)
			if !ok || !core.IsFieldLoad(perUser)(mu.Map) {
				return
			}
			ld, ok := mu.Value.(*ssa.UnOp)
			if !ok {
				return
			}
			al, ok := ld.X.(*ssa.Alloc)
			if !ok || al.Referrers() == nil {
				return
			}
			// the copy was filled by a lookup of the same map
			var lookups []ssa.Instruction
			for _, ref := range *al.Referrers() {
				st, ok := ref.(*ssa.Store)
				if !ok || st.Addr != ssa.Value(al) {
					continue
				}
				v := core.Strip(st.Val)
				if ex, ok := v.(*ssa.Extract); ok {
					v = ex.Tuple
				}
				if lk, ok := v.(*ssa.Lookup); ok && core.IsFieldLoad(perUser)(lk.X) {
					lookups = append(lookups, st)
				}
			}
			if len(lookups) == 0 {
				return
			}
			n++
			r.Func(fk(fn))
			var culprit ssa.Instruction
			for _, lk := range lookups {
				isWriterCall := func(x ssa.Instruction) bool {
					ci, ok := x.(ssa.CallInstruction)
					if !ok {
						return false
					}
					if _, isGo := x.(*ssa.Go); isGo {
						return false
					}
					if _, isDefer := x.(*ssa.Defer); isDefer {
						return false
					}
					if sc := ci.Common().StaticCallee(); sc != nil {
						return writes[sc] && sc != fn
					}
					return false
				}
				// a path lookup -> writer call -> write-back, with no fresh lookup in between
				found, w := core.PathAvoiding(fn, lk, isWriterCall, func(x ssa.Instruction) bool { return x == ssa.Instruction(mu) }, nil)
				if found {
					if f2, _ := core.PathAvoiding(fn, w, func(x ssa.Instruction) bool { return x == ssa.Instruction(mu) }, func(x ssa.Instruction) bool {
						for _, l2 := range lookups {
							if x == l2 {
								return true
							}
						}
						return false
					}, nil); f2 {
						culprit = w
					}
				}
			}
			r.Check(culprit == nil, "C10.3c-no-stale-write-back", fmt.Sprintf("%s: perUser copy written back before any call that updates Topic.perUser #%s", fk(fn), ordinalOf(fn, mu)), c.pos(mu), "",
				"a stale copy of a per-user record is written back after a call that may have changed the record"+posOf(c, culprit)+": the callee's change (for example the online counter of a detached session) is lost")
		})
	}
	r.Check(n >= 5, "C10.3c-no-stale-write-back", "read-modify-write sequences on Topic.perUser", "-", fmt.Sprintf("%d", n), "fewer than five: anchor lost")
}

func ordinalOf(fn *ssa.Function, target ssa.Instruction) string {
	n := 0
	out := "?"
	core.AllInstrs(fn, func(in ssa.Instruction) {
		if _, ok := in.(*ssa.MapUpdate); ok {
			n++
			if in == target {
				out = fmt.Sprint(n)
			}
		}
	})
	return out
}
