package rules

import (
	"fmt"
	"go/constant"
	"go/token"
	"go/types"

	"golang.org/x/tools/go/ssa"

	"verifchk/core"
)

// Rules added after the second round of seeded changes (DESIGN §9.3).

// reachUnder: is `sink` reachable from the entry of fn when the truth of some condition atoms is
// fixed by assume? (A finite decision table over recognisable atoms; nothing is executed.)
func reachUnder(fn *ssa.Function, sink ssa.Instruction, assume func(core.CondAtom) (bool, bool)) bool {
	return reachFromUnder(fn, nil, sink, assume)
}

// reachFromUnder: the same, for paths that start in the block of `from` (nil = entry).
func reachFromUnder(fn *ssa.Function, from ssa.Instruction, sink ssa.Instruction, assume func(core.CondAtom) (bool, bool)) bool {
	saved := core.AssumeFn
	core.AssumeFn = assume
	cut := core.AssumedCuts(fn)
	core.AssumeFn = saved
	var starts []*ssa.BasicBlock
	if from != nil {
		starts = []*ssa.BasicBlock{from.Block()}
	}
	return core.ReachBlocks(fn, starts, cut)[sink.Block()]
}

// boolAtoms builds an assumption from value predicates: atom i (a boolean SSA value) has truth
// vals[i]; a comparison `x == y` / `x != y` of two such booleans (or constants) is decided too.
func boolAtoms(preds []core.VPred, vals []bool, seen []int) func(core.CondAtom) (bool, bool) {
	valueOf := func(v ssa.Value) (bool, bool) {
		if k, ok := core.Strip(v).(*ssa.Const); ok && k.Value != nil && k.Value.Kind() == constant.Bool {
			return true, constant.BoolVal(k.Value)
		}
		for i, p := range preds {
			if p(v) {
				seen[i]++
				return true, vals[i]
			}
		}
		return false, false
	}
	return func(a core.CondAtom) (bool, bool) {
		switch a.Op {
		case token.ILLEGAL:
			return valueOf(a.Val)
		case token.EQL:
			k1, v1 := valueOf(a.X)
			k2, v2 := valueOf(a.Y)
			if k1 && k2 {
				return true, v1 == v2
			}
		}
		return false, false
	}
}

// checkRehashDecision (C01): on a cluster rehash the hub stops exactly the topics whose placement
// changed: reachable(topicUnreg(.., StopRehashing)) <=> Topic.isProxy != isRemoteTopic(name).
func (c *Ctx) checkRehashDecision() {
	r := c.R
	unreg := c.method("server", "Hub", "topicUnreg")
	rehash := c.konst("server", "StopRehashing")
	isProxyF := c.E().topicField("isProxy")
	isRemote := c.method("server", "Cluster", "isRemoteTopic")
	r.Floor("C01.6-rehash-stops-moved-topics", 1)
	for _, fn := range c.funcsCalling(unreg, "server") {
		for _, site := range core.CallsTo(fn, unreg) {
			args := core.CallArgs(site.Common())
			if !core.IsConstOf(rehash)(args[len(args)-1]) {
				continue
			}
			r.Func(fk(fn))
			preds := []core.VPred{core.IsFieldLoad(isProxyF), core.IsCallTo(isRemote)}
			var bad []string
			seenTotal := []int{0, 0}
			for _, p := range []bool{false, true} {
				for _, rm := range []bool{false, true} {
					seen := []int{0, 0}
					got := reachUnder(fn, site.(ssa.Instruction), boolAtoms(preds, []bool{p, rm}, seen))
					seenTotal[0] += seen[0]
					seenTotal[1] += seen[1]
					if got != (p != rm) {
						bad = append(bad, fmt.Sprintf("isProxy=%v remote=%v: stopped=%v", p, rm, got))
					}
				}
			}
			r.Check(len(bad) == 0 && seenTotal[0] > 0 && seenTotal[1] > 0, "C01.6-rehash-stops-moved-topics", fk(fn)+": topicUnreg(StopRehashing) <=> isProxy != isRemoteTopic(name)", c.pos(site), "decision table over the two placement facts",
				fmt.Sprintf("after a rehash a topic whose placement changed keeps running here, or one that did not move is stopped (%v): two instances of one topic can issue the same ids", bad))
		}
	}
}

// checkAdapterSeqId (C01): every database adapter's TopicUpdateOnMessage hands the message's own
// SeqId to its driver call (the stored high-water mark is the id that was issued, not a counter of
// its own).
func (c *Ctx) checkAdapterSeqId() {
	r := c.R
	seq := c.field("server/store/types", "Message", "SeqId")
	n := 0
	for _, fn := range c.P.ModFuncs {
		if fn.Name() != "TopicUpdateOnMessage" || fn.Signature.Recv() == nil || fn.Pkg == nil {
			continue
		}
		rel := fn.Pkg.Pkg.Path()
		if len(rel) < len(core.ModPath)+11 || rel[len(core.ModPath):len(core.ModPath)+11] != "/server/db/" {
			continue
		}
		n++
		r.Func(fk(fn))
		uses := false
		core.AllInstrs(fn, func(in ssa.Instruction) {
			// a read of Message.SeqId whose value is used (as a statement argument, map value, ...)
			var v ssa.Value
			switch x := in.(type) {
			case *ssa.FieldAddr:
				if f, _ := core.FieldOfAddr(x); f == seq {
					v = x
				}
			case *ssa.Field:
				if f, _ := core.LoadedField(x); f == seq {
					v = x
				}
			}
			if v != nil && v.Referrers() != nil && len(*v.Referrers()) > 0 {
				uses = true
			}
		})
		r.Check(uses, "C01.4c-adapter-stores-issued-id", fk(fn)+": driver call receives msg.SeqId", c.P.Pos(fn.Pos()), "", "the adapter's high-water-mark update does not use the message's SeqId: after a failed insert the stored mark runs ahead of (or behind) the ids actually issued")
	}
	r.Check(n >= 2, "C01.4c-adapter-stores-issued-id", "database adapters implementing TopicUpdateOnMessage", "-", fmt.Sprintf("%d adapters", n), "fewer than two adapters found: anchor lost")
}

// checkPauseBeforeStoreDelete (C03/C14): the hub deletes a live topic from the store only after
// marking it paused; a failed delete un-pauses it.
func (c *Ctx) checkPauseBeforeStoreDelete() {
	r := c.R
	del := c.E().storeIface("TopicsPersistenceInterface", "Delete")
	markPaused := c.method("server", "Topic", "markPaused")
	topicGet := c.method("server", "Hub", "topicGet")
	r.Floor("C14.4b-pause-before-store-delete", 1)
	isPause := func(want string) func(ssa.Instruction) bool {
		return func(in ssa.Instruction) bool {
			call, ok := in.(*ssa.Call)
			if !ok || core.CalleeOf(&call.Call) != markPaused {
				return false
			}
			k, ok := call.Call.Args[len(call.Call.Args)-1].(*ssa.Const)
			return ok && k.Value != nil && k.Value.String() == want
		}
	}
	for _, fn := range c.funcsCalling(del, "server") {
		// a helper that was handed the live topic (the online case moved into a function of its own):
		// it receives a *Topic and pauses it
		handedLive := false
		if len(core.CallsTo(fn, topicGet)) == 0 && len(core.CallsTo(fn, markPaused)) > 0 {
			for _, p := range fn.Params {
				if isPtrToNamed(p.Type(), "Topic") {
					handedLive = true
				}
			}
		}
		if !handedLive && (len(core.CallsTo(fn, topicGet)) == 0 || len(core.CallsTo(fn, markPaused)) == 0 && !isPtrToNamedRecv(fn, "Hub")) {
			continue // offline deletions (no live topic involved)
		}
		for _, site := range core.CallsTo(fn, del) {
			// only the deletion of a topic that was found live: behind topicGet(..) != nil
			gLive := core.NilGuard("topicGet()!=nil", core.IsCallTo(topicGet), false)
			if ok, cnt := core.GuardedBy(fn, site.(ssa.Instruction), gLive); !handedLive && (!ok || cnt[0] == 0) {
				continue
			}
			r.Func(fk(fn))
			found, _ := core.PathAvoiding(fn, nil, func(in ssa.Instruction) bool { return in == site.(ssa.Instruction) }, isPause("true"), nil)
			r.Check(!found, "C14.4b-pause-before-store-delete", fk(fn)+": store.Topics.Delete of a live topic only after markPaused(true)", c.pos(site), "", "a live topic keeps accepting requests (publishes are saved and acknowledged) while its rows are being deleted from the store")
			fe := core.FailEdges(fn, successGuard(site))
			miss, _ := core.PathFromEdgeAvoiding(fn, fe, core.IsReturn, isPause("false"), nil)
			r.Check(!miss && len(fe) > 0, "C14.4b-pause-before-store-delete", fk(fn)+": a failed delete un-pauses the topic", c.pos(site), "", "after a failed store delete the topic stays paused forever")
		}
	}
}

// checkOfflineOwnership (C06): the hub's offline set-sub path changes a stored subscription only
// when the requested mode and the stored one agree on the O bit (no ownership change offline).
func (c *Ctx) checkOfflineOwnership() {
	r := c.R
	isOwner := c.E().modeMethod("IsOwner")
	subWant := c.field("server/store/types", "Subscription", "ModeWant")
	upd := c.E().storeIface("SubsPersistenceInterface", "Update")
	r.Floor("C06.7-no-offline-ownership-change", 1)
	for _, fn := range c.funcsCalling(upd, "server") {
		if fn.Signature.Recv() != nil || len(c.parsedModeCells(fn)) != 1 {
			continue // topic methods are decided by C06.1-3; this is the hub's offline handler
		}
		ld := isLoadOfCell(c.parsedModeCells(fn)[0])
		preds := []core.VPred{core.IsCallTo(isOwner, ld), core.IsCallTo(isOwner, core.IsFieldLoad(subWant))}
		var parse ssa.Instruction
		for _, ci := range core.CallsTo(fn, c.method("server/store/types", "AccessMode", "UnmarshalText")) {
			parse = ci.(ssa.Instruction)
		}
		for _, site := range core.CallsTo(fn, upd) {
			r.Func(fk(fn))
			var bad []string
			seenTotal := []int{0, 0}
			anyReach := false
			for _, a := range []bool{false, true} {
				for _, b := range []bool{false, true} {
					seen := []int{0, 0}
					// paths through the parse of an explicit mode
					got := reachFromUnder(fn, parse, site.(ssa.Instruction), boolAtoms(preds, []bool{a, b}, seen))
					seenTotal[0] += seen[0]
					seenTotal[1] += seen[1]
					if got && a != b {
						bad = append(bad, fmt.Sprintf("requested O=%v stored O=%v reaches the update", a, b))
					}
					if got && a == b {
						anyReach = true
					}
				}
			}
			r.Check(len(bad) == 0 && anyReach && seenTotal[0] > 0 && seenTotal[1] > 0, "C06.7-no-offline-ownership-change", fk(fn)+": Subs.Update only when requested and stored mode agree on O", c.pos(site), "decision table over the two IsOwner tests",
				fmt.Sprintf("ownership can be dropped or acquired through the offline path, which neither updates the topic's owner nor checks the owner rules (%v)", bad))
		}
	}
}

var _ = types.Universe

// checkMessageCopyIsDeep (C02): ServerComMessage.copy gives every payload pointer field whose type
// has its own copy method a fresh copy (a call of that method on the source's field), never the
// source's pointer: the fan-out rewrites Topic/From per recipient on the copy.
func (c *Ctx) checkMessageCopyIsDeep() {
	r := c.R
	cp := c.ssaMethod("server", "ServerComMessage", "copy")
	r.Func(fk(cp))
	scm := c.P.NamedType("server", "ServerComMessage")
	st := scm.Underlying().(*types.Struct)
	n := 0
	for i := 0; i < st.NumFields(); i++ {
		f := st.Field(i)
		pt, ok := f.Type().(*types.Pointer)
		if !ok {
			continue
		}
		named, ok := pt.Elem().(*types.Named)
		if !ok {
			continue
		}
		var copyM *types.Func
		for j := 0; j < named.NumMethods(); j++ {
			if named.Method(j).Name() == "copy" {
				copyM = named.Method(j)
			}
		}
		if copyM == nil {
			continue // session pointer etc.: shared by design
		}
		n++
		stores := core.StoresToField(cp, f)
		// ... or in a helper the copy is handed to (`dst.unsharePayload()`, `dst.replacePayloads(src)`)
		subst := map[ssa.Value]ssa.Value{}
		core.AllInstrs(cp, func(in ssa.Instruction) {
			if call, ok := in.(*ssa.Call); ok {
				if g := call.Call.StaticCallee(); g != nil && core.InModule(g) && g != cp && isPtrToNamedRecv(g, "ServerComMessage") {
					stores = append(stores, core.StoresToField(g, f)...)
					for i, p := range g.Params {
						if i < len(call.Call.Args) {
							subst[p] = call.Call.Args[i]
						}
					}
				}
			}
		})
		good := len(stores) > 0
		for _, s := range stores {
			v := s.Val
			if a, ok := subst[core.Strip(v)]; ok {
				v = a // the copy was made by the caller and handed to the helper
			}
			if !core.IsCallTo(copyM, core.IsFieldLoad(f))(v) {
				good = false
			}
		}
		r.Check(good, "C02.4c-per-recipient-payload", fmt.Sprintf("%s: dst.%s = src.%s.copy()", fk(cp), f.Name(), f.Name()), c.P.Pos(cp.Pos()), "",
			"the per-recipient copy shares the payload with the original: the recipient-specific topic name / blanked author of one recipient is seen by the others")
	}
	r.Check(n >= 3, "C02.4c-per-recipient-payload", "payload fields with a copy method", "-", fmt.Sprintf("%d fields", n), "fewer than three copyable payload fields: anchor lost")
}

// checkEvictionDetachesAll (C02/C14): in a loop over Topic.sessions that removes sessions of one
// user, every iteration passes Topic.remSession (no session is skipped before the removal).
func (c *Ctx) checkEvictionDetachesAll() {
	r := c.R
	sessionsF := c.E().topicField("sessions")
	rem := c.method("server", "Topic", "remSession")
	n := 0
	for _, fn := range c.funcsCalling(rem, "server") {
		var rng *ssa.Range
		core.AllInstrs(fn, func(in ssa.Instruction) {
			if rg, ok := in.(*ssa.Range); ok && core.IsFieldLoad(sessionsF)(rg.X) {
				rng = rg
			}
		})
		if rng == nil {
			continue
		}
		var remCall ssa.Instruction
		for _, ci := range core.CallsTo(fn, rem) {
			args := core.CallArgs(ci.Common())
			if len(args) >= 2 && isRangeKey(args[1]) {
				remCall = ci.(ssa.Instruction)
			}
		}
		if remCall == nil {
			continue
		}
		n++
		r.Func(fk(fn))
		back := loopBackEdges(fn)
		// from the start of an iteration (the successor of the Next block on the "has element" edge)
		var starts map[core.Edge]bool = map[core.Edge]bool{}
		for _, b := range fn.Blocks {
			for _, in := range b.Instrs {
				if nx, ok := in.(*ssa.Next); ok && nx.Iter == ssa.Value(rng) {
					if _, isIf := b.Instrs[len(b.Instrs)-1].(*ssa.If); isIf {
						starts[core.Edge{From: b, Idx: 0}] = true
					}
				}
			}
		}
		// target: taking a back edge (the end of the iteration) without having called remSession
		skipped := false
		for e := range back {
			// reachability of the back edge's source block while avoiding remCall
			src := e.From
			found, _ := core.PathFromEdgeAvoiding(fn, starts, func(in ssa.Instruction) bool { return in.Block() == src && in == src.Instrs[len(src.Instrs)-1] }, func(in ssa.Instruction) bool { return in == remCall }, nil)
			if found {
				skipped = true
			}
		}
		r.Check(!skipped && len(starts) > 0 && len(back) > 0, "C14.5c-eviction-covers-every-session", fk(fn)+": every iteration over Topic.sessions passes remSession", c.pos(remCall), "",
			"a session can be skipped before it is removed from the topic: a session of a removed user stays attached and keeps receiving messages")
	}
	r.Check(n >= 1, "C14.5c-eviction-covers-every-session", "loops over Topic.sessions removing a user's sessions", "-", fmt.Sprintf("%d", n), "no eviction loop found: anchor lost")
}

// checkGetOptsAgreement (C04): every handler taking a *MsgGetOpts receives, at all of its call
// sites, the same field of the request's MsgGetQuery, and no two handlers share a field (sibling
// agreement between the {get} and the {sub get=...} dispatch).
func (c *Ctx) checkGetOptsAgreement() {
	r := c.R
	optsT := c.P.NamedType("server", "MsgGetOpts")
	queryT := c.P.NamedType("server", "MsgGetQuery")
	byField := map[string][]string{}
	n := 0
	for _, fn := range c.P.ModFuncs {
		if !core.InPkg(fn, "server") || !isPtrToNamedRecv(fn, "Topic") {
			continue
		}
		idx := -1
		for i, p := range fn.Params {
			if pt, ok := p.Type().(*types.Pointer); ok && types.Identical(pt.Elem(), optsT) {
				idx = i
			}
		}
		callers := c.callersOf(fn)
		if idx < 0 || len(callers) == 0 {
			continue
		}
		fields := map[string]bool{}
		undecided := false
		for _, cs := range callers {
			args := cs.Site.Common().Args
			if idx >= len(args) {
				undecided = true
				continue
			}
			f, base := core.LoadedField(core.Strip(args[idx]))
			if f == nil || base == nil {
				undecided = true
				continue
			}
			if bt, ok := base.Type().(*types.Pointer); !ok || !types.Identical(bt.Elem(), queryT) {
				undecided = true
				continue
			}
			fields[f.Name()] = true
		}
		if undecided && len(fields) == 0 {
			continue // options built elsewhere (not one of the dispatch siblings)
		}
		n++
		r.Func(fk(fn))
		var fs []string
		for f := range fields {
			fs = append(fs, f)
			byField[f] = append(byField[f], fn.Name())
		}
		r.Check(len(fields) == 1 && !undecided, "C04.5-get-options-agree", fmt.Sprintf("%s: every call site passes the same MsgGetQuery field", fk(fn)), c.P.Pos(fn.Pos()), fmt.Sprintf("%v", sortedStrings(fs)),
			fmt.Sprintf("the handler is given different query sections at different call sites (%v): a {sub get=...} request is answered from the options of another section", sortedStrings(fs)))
	}
	for f, hs := range byField {
		r.Check(len(hs) == 1, "C04.5-get-options-agree", "MsgGetQuery."+f+" feeds one handler", "-", "", fmt.Sprintf("the same query section is handed to several handlers: %v", sortedStrings(hs)))
	}
	r.Check(n >= 3, "C04.5-get-options-agree", "handlers taking *MsgGetOpts", "-", fmt.Sprintf("%d", n), "fewer than three: anchor lost")
}

// checkClipExact (C04): in the delete handler the upper bound of a range is replaced by lastID+1
// only behind `lastID < HiId` (an id equal to lastID is a legitimate exclusive upper bound).
func (c *Ctx) checkClipExact() {
	r := c.R
	dl := c.E().storeIface("MessagesPersistenceInterface", "DeleteList")
	lastID := c.E().topicField("lastID")
	hiF := c.field("server", "MsgDelRange", "HiId")
	n := 0
	for _, sfn := range c.funcsCalling(dl, "server") {
		isClip := func(in ssa.Instruction) bool {
			b, ok := in.(*ssa.BinOp)
			return ok && core.IsBinOp(token.ADD, core.IsFieldLoad(lastID), core.IsConstInt(1), true)(b) && flowsToRangeBound(b, hiF)
		}
		// the handler may have been split into phases: the nearest function up the chain of sole
		// callers whose region contains the clip
		fn := c.climbUntil(sfn, func(root *ssa.Function) bool { return c.regionHas(root, isClip) })
		c.withCallees(fn, 2, func(owner *ssa.Function, in ssa.Instruction, _ ssa.Instruction) {
			b, ok := in.(*ssa.BinOp)
			if !ok || !core.IsBinOp(token.ADD, core.IsFieldLoad(lastID), core.IsConstInt(1), true)(b) {
				return
			}
			// only the clip: the value must flow into a range bound (a store to HiId, a phi, or a Range literal), not into the message id
			if !flowsToRangeBound(b, hiF) {
				return
			}
			n++
			r.Func(fk(owner))
			g := core.LessGuard("lastID<HiId", core.IsFieldLoad(lastID), func(v ssa.Value) bool {
				return core.Derives(core.Strip(v), core.IsFieldLoad(hiF), false)
			}, true)
			ok2, cnt := core.GuardedBy(owner, b, g)
			r.Check(ok2 && cnt[0] > 0, "C04.2d-clip-exact", fk(owner)+": HiId := lastID+1 only when lastID < HiId", c.pos(b), "", "the upper bound of a delete range is replaced although it does not exceed the last id: the message with the last id is deleted by a range that excludes it")
		})
	}
	r.Check(n >= 1, "C04.2d-clip-exact", "clip of the delete range's upper bound found", "-", fmt.Sprintf("%d", n), "no `lastID+1` clip in the delete handler: anchor lost")
}

func flowsToRangeBound(v ssa.Value, hiF *types.Var) bool {
	seen := map[ssa.Value]bool{}
	var walk func(x ssa.Value, d int) bool
	walk = func(x ssa.Value, d int) bool {
		if x == nil || d > 6 || seen[x] || x.Referrers() == nil {
			return false
		}
		seen[x] = true
		for _, ref := range *x.Referrers() {
			switch y := ref.(type) {
			case *ssa.Store:
				if f, _ := core.FieldOfAddr(y.Addr); f != nil && (f == hiF || f.Name() == "Hi") {
					return true
				}
			case *ssa.Phi:
				if walk(y, d+1) {
					return true
				}
			case *ssa.BinOp:
				// count += hi - low
				if y.Op == token.SUB || y.Op == token.EQL {
					if walk(y, d+1) {
						return true
					}
				}
			}
		}
		return false
	}
	return walk(v, 0)
}

// checkDeltaSides (C05): the function that renders permission-change notifications takes old/new
// want and given modes as parameters; which parameter carries which side is read off the call
// sites (the argument derives from a modeWant / modeGiven field). presParams.dWant may then depend
// only on want-side parameters and dGiven only on given-side parameters.
func (c *Ctx) checkDeltaSides() {
	r := c.R
	wantFs := []*types.Var{c.E().pudField("modeWant"), c.field("server/store/types", "Subscription", "ModeWant")}
	givenFs := []*types.Var{c.E().pudField("modeGiven"), c.field("server/store/types", "Subscription", "ModeGiven")}
	isAny := func(fs []*types.Var) core.VPred {
		return func(v ssa.Value) bool {
			for _, f := range fs {
				if core.IsFieldLoad(f)(v) {
					return true
				}
			}
			return false
		}
	}
	dWant, dGiven := c.field("server", "presParams", "dWant"), c.field("server", "presParams", "dGiven")
	n := 0
	for _, fn := range c.P.ModFuncs {
		if !core.InPkg(fn, "server") {
			continue
		}
		sw, sg := core.StoresToField(fn, dWant), core.StoresToField(fn, dGiven)
		if len(sw) == 0 || len(sg) == 0 {
			continue
		}
		// the stores may sit in a constructor of the notification parameters that receives the two
		// texts: the renderer is then the function that computes them (the constructor's only caller)
		holder := fn
		valueOf := func(st *ssa.Store) ssa.Value {
			v := c.rootValue(st.Val)
			if in, ok := v.(ssa.Instruction); ok && in.Parent() != holder {
				fn = in.Parent()
			} else if p, ok := v.(*ssa.Parameter); ok && p.Parent() != holder {
				fn = p.Parent()
			}
			return v
		}
		for _, st := range append(append([]*ssa.Store{}, sw...), sg...) {
			valueOf(st)
		}
		// sides of the mode parameters
		side := map[*ssa.Parameter]string{}
		for i, p := range fn.Params {
			if !isModeType(p.Type()) {
				continue
			}
			w, g := 0, 0
			var wSites, gSites []ssa.CallInstruction
			for _, cs := range c.callersOf(fn) {
				args := cs.Site.Common().Args
				if i >= len(args) {
					continue
				}
				isW, isG := derivesAny(args[i], isAny(wantFs)), derivesAny(args[i], isAny(givenFs))
				if isW && !isG {
					w++
					wSites = append(wSites, cs.Site)
				}
				if isG && !isW {
					g++
					gSites = append(gSites, cs.Site)
				}
			}
			switch {
			case w > 0 && g == 0:
				side[p] = "want"
			case g > 0 && w == 0:
				side[p] = "given"
			case w > g:
				// the call sites disagree: the minority passes the other side for this parameter
				side[p] = "want"
				for _, s := range gSites {
					r.Fail("C05.4d-delta-sides", fmt.Sprintf("%s: call at %s passes a want-side mode for parameter %s", fk(fn), fk(s.Parent()), p.Name()), c.pos(s),
						"this call site passes a given-side mode where every other call site passes the want side: the notification's deltas are computed against swapped baselines")
				}
			case g > w:
				side[p] = "given"
				for _, s := range wSites {
					r.Fail("C05.4d-delta-sides", fmt.Sprintf("%s: call at %s passes a given-side mode for parameter %s", fk(fn), fk(s.Parent()), p.Name()), c.pos(s),
						"this call site passes a want-side mode where every other call site passes the given side: the notification's deltas are computed against swapped baselines")
				}
			}
		}
		if len(side) < 2 {
			continue
		}
		n++
		r.Func(fk(fn))
		check := func(stores []*ssa.Store, want string, fld string) {
			for _, st := range stores {
				bad := ""
				for p, s := range side {
					if s != want && derivesAny(valueOf(st), func(v ssa.Value) bool { return v == ssa.Value(p) }) {
						bad = p.Name()
					}
				}
				r.Check(bad == "", "C05.4d-delta-sides", fmt.Sprintf("%s: presParams.%s depends only on %s-side parameters #%s", fk(fn), fld, want, retOrdinalOfStore(fn, st)), c.pos(st), "",
					fmt.Sprintf("the %s notification is computed from parameter %s, which carries the other side at every call site", fld, bad))
			}
		}
		check(sw, "want", "dWant")
		check(sg, "given", "dGiven")
	}
	r.Check(n >= 1, "C05.4d-delta-sides", "renderer of dWant/dGiven with side-typed parameters", "-", fmt.Sprintf("%d", n), "no such function: anchor lost")
}

// checkSelfGrantShapes (C07): in the self-subscription handler a user raises their own grant
// (`given |= X`) only as owner (X = the requested mode, behind IsOwner of the grant) or as group
// admin with X stripped of the hard-delete bit.
func (c *Ctx) checkSelfGrantShapes() {
	r := c.R
	self, _ := c.subHandlers()
	pudGiven := c.E().pudField("modeGiven")
	isOwner := c.E().modeMethod("IsOwner")
	isAdmin := c.E().modeMethod("IsAdmin")
	modeDelete := c.konst("server/store/types", "ModeDelete")
	modes := c.requestedModes(self)
	if len(modes) != 1 {
		return
	}
	ld := modes[0]
	n := 0
	checkRaise := func(owner *ssa.Function, outer ssa.Instruction, st *ssa.Store, val ssa.Value, at ssa.Instruction) {
		b, ok := core.Strip(val).(*ssa.BinOp)
		if !ok || b.Op != token.OR {
			return
		}
		var x ssa.Value
		if core.IsFieldLoad(pudGiven)(b.X) {
			x = b.Y
		} else if core.IsFieldLoad(pudGiven)(b.Y) {
			x = b.X
		}
		if x == nil {
			return
		}
		n++
		r.Func(fk(owner))
		construct := fmt.Sprintf("%s: grant |= ... #%d", fk(owner), n)
		gO := core.BoolGuard("grant.IsOwner()", core.IsCallTo(isOwner, core.IsFieldLoad(pudGiven)), true)
		gA := core.BoolGuard("grant.IsAdmin()", core.IsCallTo(isAdmin, core.IsFieldLoad(pudGiven)), true)
		guarded := func(g core.Guard) bool {
			ok, cnt := core.GuardedBy(owner, at, g)
			if (!ok || cnt[0] == 0) && owner != self {
				ok, cnt = core.GuardedBy(self, outer, g)
			}
			return ok && cnt[0] > 0
		}
		xs := core.Strip(x)
		switch {
		case ld(xs):
			r.Check(guarded(gO), "C07.8-self-grant-shapes", construct+" [whole requested mode: owner only]", c.pos(st), "", "a subscriber who is not the owner can raise their own grant to whatever they request")
		case clearsBit(xs, modeDelete) && func() bool { bb := xs.(*ssa.BinOp); return ld(bb.X) || ld(bb.Y) }():
			r.Check(guarded(gA) || guarded(gO), "C07.8-self-grant-shapes", construct+" [requested mode without D: admin]", c.pos(st), "", "a subscriber without admin rights can raise their own grant")
		default:
			r.Fail("C07.8-self-grant-shapes", construct, c.pos(st), "the user's own grant is raised by a value that is neither the requested mode (owner) nor the requested mode without the delete bit (admin)")
		}
	}
	c.withCallees(self, 2, func(owner *ssa.Function, in ssa.Instruction, outer ssa.Instruction) {
		st, ok := in.(*ssa.Store)
		if !ok {
			return
		}
		if f, _ := core.FieldOfAddr(st.Addr); f != pudGiven {
			return
		}
		// the raise may be computed in a local first (`newGiven |= x; ...; rec.modeGiven = newGiven`)
		for _, vs := range virtualStores(owner, pudGiven) {
			if vs.St == st {
				checkRaise(owner, outer, st, vs.Val, vs.At)
			}
		}
	})
	r.Check(n >= 2, "C07.8-self-grant-shapes", "self-raise sites found", "-", fmt.Sprintf("%d", n), "fewer than two `grant |= ...` sites in the self-subscription handler: anchor lost")
}

// clearsBit: v is `x &^ K` or `x & M` with M & K == 0.
func clearsBit(v ssa.Value, k *types.Const) bool {
	b, ok := v.(*ssa.BinOp)
	if !ok {
		return false
	}
	switch b.Op {
	case token.AND_NOT:
		return core.IsConstOf(k)(b.Y)
	case token.AND:
		for _, side := range []ssa.Value{b.X, b.Y} {
			if kc, ok := side.(*ssa.Const); ok && kc.Value != nil {
				if constant.Sign(constant.BinaryOp(constant.ToInt(kc.Value), token.AND, k.Val())) == 0 {
					return true
				}
			}
		}
	}
	return false
}

// checkMaskAfterParse (C07): in the functions that apply the p2p mask, a client-supplied mode
// parsed straight into a subscription's ModeGiven/ModeWant is masked before the subscription
// reaches the store.
func (c *Ctx) checkMaskAfterParse() {
	r := c.R
	um := c.method("server/store/types", "AccessMode", "UnmarshalText")
	cp2p := c.konst("server/store/types", "ModeCP2P")
	n := 0
	for _, fn := range c.funcsCalling(um, "server") {
		for _, ci := range core.CallsTo(fn, um) {
			fa, ok := core.CallArgs(ci.Common())[0].(*ssa.FieldAddr)
			if !ok {
				continue
			}
			f, base := core.FieldOfAddr(fa)
			if f == nil || (f.Name() != "ModeGiven" && f.Name() != "ModeWant") {
				continue
			}
			n++
			r.Func(fk(fn))
			isMaskStore := func(in ssa.Instruction) bool {
				st, ok := in.(*ssa.Store)
				if !ok {
					return false
				}
				f2, b2 := core.FieldOfAddr(st.Addr)
				if f2 != f || !sameValue(b2, base, 0) {
					return false
				}
				return derivesAny(st.Val, core.IsConstOf(cp2p))
			}
			isSink := func(in ssa.Instruction) bool {
				_, ok := c.isStoreCall(in)
				return ok
			}
			found, w := core.PathAvoiding(fn, ci.(ssa.Instruction), isSink, isMaskStore, nil)
			r.Check(!found, "C07.5c-mask-after-parse", fmt.Sprintf("%s: %s parsed from the request is masked before the store call", fk(fn), f.Name()), c.pos(ci), "",
				"a client-supplied p2p mode reaches the store without the J|R|W|P|A mask and the forced approve bit"+posOf(c, w))
		}
	}
	r.Check(n >= 1, "C07.5c-mask-after-parse", "modes parsed into a subscription field", "-", fmt.Sprintf("%d", n), "no UnmarshalText into Subscription.ModeGiven/ModeWant: anchor lost")
}

// checkSnapshotBeforeChange (C08): the handlers decide which subscription attributes to persist by
// comparing the record's current mode with a snapshot (`if pud.modeGiven != oldGiven`). The
// snapshot must be taken before any modification of that field: no store to the field reaches the
// snapshot load.
func (c *Ctx) checkSnapshotBeforeChange() {
	r := c.R
	n := 0
	for _, fld := range []*types.Var{c.E().pudField("modeGiven"), c.E().pudField("modeWant")} {
		for _, fn := range c.P.ModFuncs {
			if !core.InPkg(fn, "server") || !isPtrToNamedRecv(fn, "Topic") || len(c.subsUpdateSites(fn)) == 0 {
				continue
			}
			done := map[ssa.Value]bool{}
			for _, b := range fn.Blocks {
				ifi, ok := b.Instrs[len(b.Instrs)-1].(*ssa.If)
				if !ok {
					continue
				}
				a := core.NormCond(ifi.Cond)
				if a.Op != token.EQL {
					continue
				}
				var snap ssa.Value
				if core.IsFieldLoad(fld)(a.X) && !core.IsFieldLoad(fld)(a.Y) {
					snap = a.Y
				} else if core.IsFieldLoad(fld)(a.Y) && !core.IsFieldLoad(fld)(a.X) {
					snap = a.X
				}
				if snap == nil || done[snap] {
					continue
				}
				done[snap] = true
				// snapshot loads: leaves of snap that are loads of the same field of a local record
				var loads []*ssa.UnOp
				collectLeaves(snap, func(v ssa.Value) {
					if u, ok := v.(*ssa.UnOp); ok && u.Op == token.MUL {
						if f, _ := core.FieldOfAddr(u.X); f == fld {
							loads = append(loads, u)
						}
					}
				})
				for _, ld := range loads {
					fa := ld.X.(*ssa.FieldAddr)
					n++
					r.Func(fk(fn))
					var late ssa.Instruction
					for _, st := range core.StoresToField(fn, fld) {
						fa2, ok := st.Addr.(*ssa.FieldAddr)
						if !ok || fa2.X != fa.X {
							continue
						}
						if found, _ := core.PathAvoiding(fn, st, func(in ssa.Instruction) bool { return in == ssa.Instruction(ld) }, nil, nil); found {
							late = st
						}
					}
					r.Check(late == nil, "C08.6-snapshot-before-change", fmt.Sprintf("%s: snapshot of %s compared later is taken before the field is modified", fk(fn), fld.Name()), c.pos(ld), "",
						"the 'old' value is captured after the record was already modified"+posOf(c, late)+": the change is not seen as a change, is acknowledged and cached but never written to the store")
				}
			}
		}
	}
	r.Check(n >= 2, "C08.6-snapshot-before-change", "old-value snapshots compared with the current mode", "-", fmt.Sprintf("%d", n), "fewer than two snapshot comparisons found: anchor lost")
}

func collectLeaves(v ssa.Value, f func(ssa.Value)) {
	seen := map[ssa.Value]bool{}
	var walk func(x ssa.Value, d int)
	walk = func(x ssa.Value, d int) {
		if x == nil || seen[x] || d > 8 {
			return
		}
		seen[x] = true
		switch y := x.(type) {
		case *ssa.Phi:
			for _, e := range y.Edges {
				walk(e, d+1)
			}
		case *ssa.UnOp:
			if al, ok := y.X.(*ssa.Alloc); ok && y.Op == token.MUL && al.Referrers() != nil {
				for _, ref := range *al.Referrers() {
					if st, ok := ref.(*ssa.Store); ok && st.Addr == ssa.Value(al) {
						walk(st.Val, d+1)
					}
				}
				return
			}
			f(x)
		default:
			f(x)
		}
	}
	walk(v, 0)
}

// checkLoaderRecordsFromOneRow (C08): a perUserData literal built from a stored subscription takes
// all its subscription-derived fields from the same subscription value.
func (c *Ctx) checkLoaderRecordsFromOneRow() {
	r := c.R
	pudT := c.P.NamedType("server", "perUserData")
	subT := c.P.NamedType("server/store/types", "Subscription")
	n := 0
	perFn := map[*ssa.Function]int{}
	for _, fn := range c.P.ModFuncs {
		if !core.InPkg(fn, "server") {
			continue
		}
		core.AllInstrs(fn, func(in ssa.Instruction) {
			al, ok := in.(*ssa.Alloc)
			if !ok {
				return
			}
			if pt, ok := al.Type().(*types.Pointer); !ok || !types.Identical(pt.Elem(), pudT) {
				return
			}
			var bases []ssa.Value
			var names []string
			for f, v := range literalFields(al) {
				sf, base := core.LoadedField(core.Strip(v))
				if sf == nil || base == nil {
					continue
				}
				bt := base.Type()
				if p, ok := bt.(*types.Pointer); ok {
					bt = p.Elem()
				}
				if !types.Identical(bt, subT) {
					continue
				}
				bases = append(bases, base)
				names = append(names, f+"<-"+sf.Name())
			}
			if len(bases) < 2 {
				return
			}
			n++
			perFn[fn]++
			r.Func(fk(fn))
			same := true
			for _, b := range bases[1:] {
				if !sameValue(b, bases[0], 0) {
					same = false
				}
			}
			r.Check(same, "C08.4b-record-from-one-row", fmt.Sprintf("%s: perUserData literal #%d takes its fields from one subscription", fk(fn), perFn[fn]), c.pos(al), fmt.Sprintf("%v", sortedStrings(names)),
				fmt.Sprintf("a cached per-user record mixes fields of two different stored subscriptions (%v): after a reload the cache answers with another user's marks", sortedStrings(names)))
		})
	}
	r.Check(n >= 2, "C08.4b-record-from-one-row", "perUserData literals filled from a stored subscription", "-", fmt.Sprintf("%d", n), "fewer than two: anchor lost")
}

// checkRemovedSenderDegraded (C09): the mode the note handler tests for the sender is degraded for
// a removed user: the tested value is a phi with ModeInvalid/ModeNone on the `deleted` edge, or the
// sinks are behind `!deleted` of the sender's record.
func (c *Ctx) checkRemovedSenderDegraded(handler *ssa.Function) {
	r := c.R
	deletedF := c.E().pudField("deleted")
	isWriter := c.E().modeMethod("IsWriter")
	isReader := c.E().modeMethod("IsReader")
	inv := c.konst("server/store/types", "ModeInvalid")
	none := c.konst("server/store/types", "ModeNone")
	n := 0
	c.withCallees(handler, 2, func(owner *ssa.Function, in ssa.Instruction, _ ssa.Instruction) {
		call, ok := in.(*ssa.Call)
		if !ok {
			return
		}
		f := core.CalleeOf(&call.Call)
		if f != isWriter && f != isReader {
			return
		}
		recv := core.Strip(call.Call.Args[0])
		// only tests of the sender's mode as computed in the handler (directly or handed to a predicate)
		switch x := recv.(type) {
		case *ssa.Parameter:
			if x.Parent() != handler {
				return
			}
		case ssa.Instruction:
			if x.Parent() != handler {
				return
			}
		default:
			return
		}
		n++
		okDeg := false
		if phi, isPhi := recv.(*ssa.Phi); isPhi {
			for i, e := range phi.Edges {
				if !(core.IsConstOf(inv)(e) || core.IsConstOf(none)(e)) {
					continue
				}
				// the constant arrives on an edge dominated by the `deleted` true edge
				pred := phi.Block().Preds[i]
				pe, _ := core.PassEdges(phi.Parent(), core.BoolGuard("deleted", core.IsFieldLoad(deletedF), true))
				for e2 := range pe {
					tgt := e2.From.Succs[e2.Idx]
					if tgt == pred || tgt.Dominates(pred) || (tgt == phi.Block() && e2.From == pred) {
						okDeg = true
					}
				}
			}
		}
		if acc, isCall := recv.(*ssa.Call); isCall && !okDeg {
			// an accessor of the record (`pud.activeMode()`): every return that yields the record's modes
			// is behind !deleted, the others return the invalid / empty constant
			if g := acc.Call.StaticCallee(); g != nil && core.InModule(g) && len(g.Blocks) > 0 {
				good, nRet := true, 0
				gNotDel := core.BoolGuard("!deleted", core.IsFieldLoad(deletedF), false)
				core.AllInstrs(g, func(x ssa.Instruction) {
					ret, ok := x.(*ssa.Return)
					if !ok || len(ret.Results) != 1 {
						return
					}
					nRet++
					if core.IsConstOf(inv)(ret.Results[0]) || core.IsConstOf(none)(ret.Results[0]) {
						return
					}
					core.NoLift = true
					ok2, cnt := core.GuardedBy(g, ret, gNotDel)
					core.NoLift = false
					if !ok2 || cnt[0] == 0 {
						good = false
					}
				})
				okDeg = good && nRet > 0
			}
		}
		if !okDeg {
			g := core.BoolGuard("!deleted", core.IsFieldLoad(deletedF), false)
			if ok2, cnt := core.GuardedBy(owner, call, g); ok2 && cnt[0] > 0 {
				okDeg = true
			}
		}
		r.Check(okDeg, "C09.3c-removed-sender-degraded", fmt.Sprintf("%s: %s tested on a mode that is invalid for a removed user #%d", fk(owner), f.Name(), n), c.pos(call), "",
			"the permission of a removed (soft-deleted) p2p participant is taken from the record's want&given: their notes still move marks and are relayed")
	})
	r.Check(n >= 2, "C09.3c-removed-sender-degraded", "permission tests in the note handler", "-", fmt.Sprintf("%d", n), "fewer than two: anchor lost")
}

// checkOfflineInfoSkipsOrigin (C09): {info} copies routed to the users' `me` topics carry the
// originating session id in SkipSid (a value derived from a parameter), and the note handler passes
// the requesting session's sid.
func (c *Ctx) checkOfflineInfoSkipsOrigin() {
	r := c.R
	routeSrv := c.field("server", "Hub", "routeSrv")
	infoF := c.field("server", "ServerComMessage", "Info")
	skipF := c.field("server", "ServerComMessage", "SkipSid")
	sidF := c.E().sessionField("sid")
	n := 0
	for _, fn := range c.P.ModFuncs {
		if !core.InPkg(fn, "server") {
			continue
		}
		for _, s := range chanSends(fn, core.IsFieldLoad(routeSrv)) {
			al, ok := core.Strip(s.Val).(*ssa.Alloc)
			if !ok {
				continue
			}
			fields := literalFields(al)
			if v, has := fields[infoF.Name()]; !has || core.IsNil(v) {
				continue
			}
			n++
			r.Func(fk(fn))
			sk, has := fields[skipF.Name()]
			var p *ssa.Parameter
			if has {
				p, _ = core.Strip(sk).(*ssa.Parameter)
			}
			okSites := p != nil
			if p != nil {
				idx := -1
				for i, q := range fn.Params {
					if q == p {
						idx = i
					}
				}
				for _, cs := range c.callersOf(fn) {
					args := cs.Site.Common().Args
					if idx < 0 || idx >= len(args) {
						okSites = false
						continue
					}
					// a server-initiated notification (call timeout) has no originating session: ""
					if !derivesAny(args[idx], core.IsFieldLoad(sidF)) && !core.IsConstString("")(args[idx]) {
						okSites = false
					}
				}
			}
			r.Check(okSites, "C09.4b-offline-info-skips-origin", fk(fn)+": {info} routed to `me` carries SkipSid = the originating session", c.pos(s.Instr), "",
				"the read/recv/typing notification forwarded through the users' me topics no longer names the originating session: the sender's own session is notified of its own note")
		}
	}
	r.Check(n >= 1, "C09.4b-offline-info-skips-origin", "{info} sends on Hub.routeSrv", "-", fmt.Sprintf("%d", n), "none found: anchor lost")
}

// checkNoLostUpdate (C10/C08): a copy of a perUser record taken by lookup is written back before
// any call that may itself write Topic.perUser (the callee's write would be overwritten by the
// stale copy).
func (c *Ctx) checkNoLostUpdate() {
	r := c.R
	perUser := c.E().topicField("perUser")
	// functions that (transitively, through static and resolved calls) update or delete Topic.perUser
	// (restricted to functions that change a record's online counter and write it back: the counter
	// is what a stale copy silently destroys; writes of other users' records keyed differently, like
	// the previous owner's in an ownership transfer, are not lost updates)
	writes := map[*ssa.Function]bool{}
	online := c.E().pudField("online")
	for _, fn := range c.P.ModFuncs {
		if !core.InPkg(fn, "server") {
			continue
		}
		updates, counter := false, len(core.StoresToField(fn, online)) > 0
		core.AllInstrs(fn, func(in ssa.Instruction) {
			if x, ok := in.(*ssa.MapUpdate); ok && core.IsFieldLoad(perUser)(x.Map) {
				updates = true
			}
		})
		if updates && counter {
			writes[fn] = true
		}
	}
	cg := c.P.CallGraph()
	for changed := true; changed; {
		changed = false
		for fn, node := range cg.Nodes {
			if fn == nil || writes[fn] || !core.InPkg(fn, "server") {
				continue
			}
			for _, e := range node.Out {
				if _, isGo := e.Site.(*ssa.Go); isGo {
					continue
				}
				if writes[e.Callee.Func] {
					writes[fn] = true
					changed = true
					break
				}
			}
		}
	}
	n := 0
	for _, fn := range c.P.ModFuncs {
		if !core.InPkg(fn, "server") || !isPtrToNamedRecv(fn, "Topic") {
			continue
		}
		core.AllInstrs(fn, func(in ssa.Instruction) {
			mu, ok := in.(*ssa.MapUpdate)
			if !ok || !core.IsFieldLoad(perUser)(mu.Map) {
				return
			}
			ld, ok := mu.Value.(*ssa.UnOp)
			if !ok {
				return
			}
			al, ok := ld.X.(*ssa.Alloc)
			if !ok || al.Referrers() == nil {
				return
			}
			// the copy was filled by a lookup of the same map
			var lookups []ssa.Instruction
			for _, ref := range *al.Referrers() {
				st, ok := ref.(*ssa.Store)
				if !ok || st.Addr != ssa.Value(al) {
					continue
				}
				v := core.Strip(st.Val)
				if ex, ok := v.(*ssa.Extract); ok {
					v = ex.Tuple
				}
				if lk, ok := v.(*ssa.Lookup); ok && core.IsFieldLoad(perUser)(lk.X) {
					lookups = append(lookups, st)
				}
			}
			if len(lookups) == 0 {
				return
			}
			n++
			r.Func(fk(fn))
			var culprit ssa.Instruction
			for _, lk := range lookups {
				isWriterCall := func(x ssa.Instruction) bool {
					ci, ok := x.(ssa.CallInstruction)
					if !ok {
						return false
					}
					if _, isGo := x.(*ssa.Go); isGo {
						return false
					}
					if _, isDefer := x.(*ssa.Defer); isDefer {
						return false
					}
					if sc := ci.Common().StaticCallee(); sc != nil {
						return writes[sc] && sc != fn
					}
					return false
				}
				// a path lookup -> writer call -> write-back, with no fresh lookup in between
				found, w := core.PathAvoiding(fn, lk, isWriterCall, func(x ssa.Instruction) bool { return x == ssa.Instruction(mu) }, nil)
				if found {
					if f2, _ := core.PathAvoiding(fn, w, func(x ssa.Instruction) bool { return x == ssa.Instruction(mu) }, func(x ssa.Instruction) bool {
						for _, l2 := range lookups {
							if x == l2 {
								return true
							}
						}
						return false
					}, nil); f2 {
						culprit = w
					}
				}
			}
			r.Check(culprit == nil, "C10.3c-no-stale-write-back", fmt.Sprintf("%s: perUser copy written back before any call that updates Topic.perUser #%s", fk(fn), ordinalOf(fn, mu)), c.pos(mu), "",
				"a stale copy of a per-user record is written back after a call that may have changed the record"+posOf(c, culprit)+": the callee's change (for example the online counter of a detached session) is lost")
		})
	}
	r.Check(n >= 5, "C10.3c-no-stale-write-back", "read-modify-write sequences on Topic.perUser", "-", fmt.Sprintf("%d", n), "fewer than five: anchor lost")
}

func ordinalOf(fn *ssa.Function, target ssa.Instruction) string {
	n := 0
	out := "?"
	core.AllInstrs(fn, func(in ssa.Instruction) {
		if _, ok := in.(*ssa.MapUpdate); ok {
			n++
			if in == target {
				out = fmt.Sprint(n)
			}
		}
	})
	return out
}

// checkCacheKeyAgreement (C12): inside the reset-code authenticator every persistent-cache call of
// one function addresses the same key value (get, bump and delete of one entry).
func (c *Ctx) checkCacheKeyAgreement() {
	r := c.R
	fn := c.ssaMethod("server/auth/code", "authenticator", "Authenticate")
	r.Func(fk(fn))
	var keys []ssa.Value
	var sites []ssa.Instruction
	for _, m := range []string{"Get", "Upsert", "Delete"} {
		f := c.E().storeIface("PersistentCacheInterface", m)
		for _, ci := range core.CallsTo(fn, f) {
			keys = append(keys, core.CallArgs(ci.Common())[1])
			sites = append(sites, ci.(ssa.Instruction))
		}
	}
	same := len(keys) >= 3
	var at ssa.Instruction
	for i := 1; i < len(keys); i++ {
		if !sameValue(keys[i], keys[0], 0) {
			same = false
			at = sites[i]
		}
	}
	r.Check(same, "C12.3c-one-cache-key", fk(fn)+": Get, Upsert and Delete address one key value", c.P.Pos(fn.Pos()), fmt.Sprintf("%d calls", len(keys)),
		"the cache entry is read under one key and deleted/updated under another"+posOf(c, at)+": an accepted code is not removed (replay) or wrong guesses are not counted")
}

// checkTokenDecodeOffsets (C12): when the token layout is decoded field by field from byte slices
// (instead of binary.Read of the whole struct), each field is read at its packed offset.
func (c *Ctx) checkTokenDecodeOffsets() {
	r := c.R
	fn := c.ssaMethod("server/auth/token", "authenticator", "Authenticate")
	layout := c.P.NamedType("server/auth/token", "tokenLayout")
	st := layout.Underlying().(*types.Struct)
	sizes := types.SizesFor("gc", "amd64")
	off := map[string]int64{}
	var o int64
	for i := 0; i < st.NumFields(); i++ {
		off[st.Field(i).Name()] = o
		o += sizes.Sizeof(st.Field(i).Type())
	}
	n := 0
	okAll := true
	detail := ""
	core.AllInstrs(fn, func(in ssa.Instruction) {
		s, ok := in.(*ssa.Store)
		if !ok {
			return
		}
		f, base := core.FieldOfAddr(s.Addr)
		if f == nil || base == nil {
			return
		}
		bt := base.Type()
		if p, ok := bt.(*types.Pointer); ok {
			bt = p.Elem()
		}
		if !types.Identical(bt, layout) {
			return
		}
		// value decoded from a slice of the token parameter: find the slice's low bound
		var sl *ssa.Slice
		collectLeavesThroughCalls(s.Val, func(v ssa.Value) {
			if x, ok := v.(*ssa.Slice); ok {
				sl = x
			}
		})
		if sl == nil {
			return
		}
		n++
		lo := int64(0)
		if sl.Low != nil {
			k, ok := core.ConstIntValue(sl.Low)
			if !ok {
				okAll = false
				detail = "non-constant offset for " + f.Name()
				return
			}
			lo = k
		}
		if lo != off[f.Name()] {
			okAll = false
			detail = fmt.Sprintf("field %s is decoded from offset %d, its offset in the signed layout is %d", f.Name(), lo, off[f.Name()])
		}
	})
	if n == 0 {
		r.OK("C12.1e-decode-offsets", fk(fn)+": layout decoded as a whole (binary.Read)", c.P.Pos(fn.Pos()), "no field-by-field decoding")
		return
	}
	r.Check(okAll, "C12.1e-decode-offsets", fk(fn)+": every field decoded at its offset in the signed layout", c.P.Pos(fn.Pos()), fmt.Sprintf("%d fields", n), "the token's fields are read from the wrong bytes: "+detail)
}

func collectLeavesThroughCalls(v ssa.Value, f func(ssa.Value)) {
	seen := map[ssa.Value]bool{}
	var walk func(x ssa.Value, d int)
	walk = func(x ssa.Value, d int) {
		if x == nil || seen[x] || d > 8 {
			return
		}
		seen[x] = true
		f(x)
		switch y := x.(type) {
		case *ssa.Call:
			for _, a := range y.Call.Args {
				walk(a, d+1)
			}
		case *ssa.Convert:
			walk(y.X, d+1)
		case *ssa.ChangeType:
			walk(y.X, d+1)
		case *ssa.BinOp:
			walk(y.X, d+1)
			walk(y.Y, d+1)
		case *ssa.Phi:
			for _, e := range y.Edges {
				walk(e, d+1)
			}
		}
	}
	walk(v, 0)
}

// checkValidatorInitialised (C13): a credential validator obtained from the registry is used
// (Request/Check/ResetSecret) only behind IsInitialized() == true: compiled-in validators that are
// not enabled in the configuration are zero values.
func (c *Ctx) checkValidatorInitialised() {
	r := c.R
	getV := c.E().storeIface("PersistentStorageInterface", "GetValidator")
	n := 0
	for _, fn := range c.funcsCalling(getV, "server") {
		for _, gc := range core.CallsTo(fn, getV) {
			gcall, ok := gc.(*ssa.Call)
			if !ok {
				continue
			}
			isV := func(v ssa.Value) bool {
				return core.Derives(v, func(x ssa.Value) bool { return x == ssa.Value(gcall) }, false)
			}
			core.AllInstrs(fn, func(in ssa.Instruction) {
				call, ok := in.(*ssa.Call)
				if !ok || !call.Call.IsInvoke() || !isV(call.Call.Value) {
					return
				}
				// Request is the operation that needs the validator's configuration (templates, sender);
				// the other operations work on stored state only
				if call.Call.Method.Name() != "Request" {
					return
				}
				n++
				r.Func(fk(fn))
				g := core.Guard{Name: "IsInitialized()", Match: func(a core.CondAtom) (bool, bool) {
					if a.Op != token.ILLEGAL {
						return false, false
					}
					cc, ok := a.Val.(*ssa.Call)
					if !ok || !cc.Call.IsInvoke() || cc.Call.Method.Name() != "IsInitialized" || !isV(cc.Call.Value) {
						return false, false
					}
					return true, true
				}}
				ok2, cnt := core.GuardedBy(fn, call, g)
				r.Check(ok2 && cnt[0] > 0, "C13.2c-validator-initialised", fmt.Sprintf("%s: Validator.%s behind IsInitialized()", fk(fn), call.Call.Method.Name()), c.pos(call), "",
					"a compiled-in but unconfigured credential validator (zero value) is used: nil dereference on a client-chosen method name")
			})
		}
	}
	r.Check(n >= 1, "C13.2c-validator-initialised", "Validator.Request on validators taken from the registry", "-", fmt.Sprintf("%d", n), "none found: anchor lost")
}

// checkCleanupOrder (C14): the session clean-up waits for its in-flight requests before it walks
// its subscription table (an attach still in flight would otherwise never be detached).
func (c *Ctx) checkCleanupOrder() {
	r := c.R
	wait := c.method("server", "boundedWaitGroup", "Wait")
	unsubAll := c.method("server", "Session", "unsubAll")
	n := 0
	for _, fn := range c.funcsCalling(unsubAll, "server") {
		ws := core.CallsTo(fn, wait)
		if len(ws) == 0 {
			continue
		}
		for _, u := range core.CallsTo(fn, unsubAll) {
			n++
			r.Func(fk(fn))
			found, _ := core.PathAvoiding(fn, nil, func(in ssa.Instruction) bool { return in == u.(ssa.Instruction) }, func(in ssa.Instruction) bool {
				for _, w := range ws {
					if in == w.(ssa.Instruction) {
						return true
					}
				}
				return false
			}, nil)
			r.Check(!found, "C14.7-cleanup-waits-first", fk(fn)+": inflightReqs.Wait() before unsubAll()", c.pos(u), "",
				"the terminating session detaches from its topics before its in-flight requests are done: a subscribe that completes afterwards leaves the dead session attached")
		}
	}
	r.Check(n >= 1, "C14.7-cleanup-waits-first", "clean-up function (Wait and unsubAll)", "-", fmt.Sprintf("%d", n), "not found: anchor lost")
}

// checkEndingOrigin (C15): the `from` argument of the call-ending function is the acting user of a
// client request the caller received, or "" (server-initiated: timeout, detach); never a value the
// caller made up, because "" is how the ending is classified as a disconnect.
func (c *Ctx) checkEndingOrigin(clearers []fieldAccess) {
	r := c.R
	asUser := c.field("server", "ClientComMessage", "AsUser")
	n := 0
	seen := map[*ssa.Function]bool{}
	for _, a := range clearers {
		// the ending function: the one that clears the slot, or - when the clearing was moved into a
		// helper of it - the nearest function up the chain of sole callers that is told who ended the call
		fn := c.climbUntil(a.Fn, func(R *ssa.Function) bool {
			for _, p := range R.Params {
				if b, ok := p.Type().Underlying().(*types.Basic); ok && b.Kind() == types.String {
					return true
				}
			}
			return false
		})
		if seen[fn] || len(fn.Params) < 2 {
			continue
		}
		seen[fn] = true
		idx := -1
		for i, p := range fn.Params {
			if b, ok := p.Type().Underlying().(*types.Basic); ok && b.Kind() == types.String {
				idx = i
				break
			}
		}
		if idx < 0 {
			continue
		}
		for _, cs := range c.callersOf(fn) {
			args := cs.Site.Common().Args
			if idx >= len(args) {
				continue
			}
			n++
			r.Func(fk(cs.Caller))
			v := core.Strip(args[idx])
			ok := core.IsConstString("")(v)
			if f, base := core.LoadedField(v); f == asUser && base != nil {
				if _, isParam := core.Strip(base).(*ssa.Parameter); isParam {
					ok = true
				}
			}
			r.Check(ok, "C15.3c-ending-origin", fmt.Sprintf("%s -> %s: `from` is the request's acting user or empty", fk(cs.Caller), fn.Name()), c.pos(cs.Site), "",
				"a server-initiated ending (timeout, party detached) is attributed to a user: it is published as a hang-up (finished/missed) instead of disconnected")
		}
	}
	r.Check(n >= 2, "C15.3c-ending-origin", "call sites of the call-ending function", "-", fmt.Sprintf("%d", n), "fewer than two: anchor lost")
}

// checkVoteRepliesDistinct (C17): every asynchronous vote request gets its own reply object: the
// reply argument of callAsync is allocated inside the loop over the nodes (per iteration).
func (c *Ctx) checkVoteRepliesDistinct() {
	r := c.R
	callAsync := c.method("server", "ClusterNode", "callAsync")
	respT := c.P.NamedType("server", "ClusterVoteResponse")
	n := 0
	for _, fn := range c.funcsCalling(callAsync, "server") {
		back := loopBackEdges(fn)
		for _, ci := range core.CallsTo(fn, callAsync) {
			args := core.CallArgs(ci.Common())
			var reply *ssa.Alloc
			for _, a := range args {
				if al, ok := core.Strip(a).(*ssa.Alloc); ok {
					if pt, ok := al.Type().(*types.Pointer); ok && types.Identical(pt.Elem(), respT) {
						reply = al
					}
				}
			}
			if reply == nil {
				continue
			}
			n++
			r.Func(fk(fn))
			// the call is in a loop; the allocation must be inside the same loop: from the allocation the
			// call is reachable without a back edge, and the allocation lies on a cycle (reachable from itself)
			inLoop := false
			found, _ := core.PathAvoiding(fn, reply, func(in ssa.Instruction) bool { return in == ssa.Instruction(reply) }, nil, nil)
			if found {
				inLoop = true
			}
			callInLoop, _ := core.PathAvoiding(fn, ci.(ssa.Instruction), func(in ssa.Instruction) bool { return in == ci.(ssa.Instruction) }, nil, nil)
			r.Check(!callInLoop || inLoop, "C17.3d-vote-replies-distinct", fk(fn)+": each Cluster.Vote request decodes into its own reply object", c.pos(ci), "",
				"all vote requests share one reply object: a granted vote decoded earlier makes later refusals read as granted (gob does not reset zero fields)")
			_ = back
		}
	}
	r.Check(n >= 1, "C17.3d-vote-replies-distinct", "asynchronous vote requests", "-", fmt.Sprintf("%d", n), "not found: anchor lost")
}

// checkActiveNodesExact (C17): a node is listed as active exactly while its failure count is below
// the limit: the append to the rebuilt list is behind `failCount < nodeFailCountLimit`.
func (c *Ctx) checkActiveNodesExact() {
	r := c.R
	failCount := c.field("server", "ClusterNode", "failCount")
	limit := c.field("server", "clusterFailover", "nodeFailCountLimit")
	nameF := c.field("server", "ClusterNode", "name")
	n := 0
	for _, fn := range c.P.ModFuncs {
		if !core.InPkg(fn, "server") || len(core.StoresToField(fn, c.field("server", "clusterFailover", "activeNodes"))) == 0 || !c.readsField(fn, failCount) {
			continue // the initial list (all configured nodes) is built without failure counts
		}
		core.AllInstrs(fn, func(in ssa.Instruction) {
			// the node's name placed into the argument list of append(activeNodes, ...)
			st, ok := in.(*ssa.Store)
			if !ok || !core.IsFieldLoad(nameF)(st.Val) {
				return
			}
			if _, isElem := st.Addr.(*ssa.IndexAddr); !isElem {
				return
			}
			n++
			r.Func(fk(fn))
			g := core.LessGuard("failCount<limit", core.IsFieldLoad(failCount), core.IsFieldLoad(limit), true)
			ok2, cnt := core.GuardedBy(fn, st, g)
			r.Check(ok2 && cnt[0] > 0, "C17.4b-active-nodes-exact", fk(fn)+": node appended to activeNodes only while failCount < nodeFailCountLimit", c.pos(st), "",
				"a node that reached the failure limit is still listed as active: the partition test and the ring keep counting a dead node")
		})
	}
	r.Check(n >= 1, "C17.4b-active-nodes-exact", "rebuild of the active node list", "-", fmt.Sprintf("%d", n), "not found: anchor lost")
}

// checkChannelSpellingInverse (C20): GrpToChn and ChnToGrp rewrite exactly one occurrence of the
// prefix, with swapped arguments (mutually inverse on names the prefix test accepts).
func (c *Ctx) checkChannelSpellingInverse() {
	r := c.R
	type rep struct {
		from, to string
		n        int64
		ok       bool
	}
	get := func(name string) rep {
		fn := c.ssaFn("server/store/types", name)
		r.Func(fk(fn))
		var out rep
		core.AllInstrs(fn, func(in ssa.Instruction) {
			call, ok := in.(*ssa.Call)
			if !ok {
				return
			}
			switch calleeFullName(call) {
			case "strings.Replace":
				a := call.Call.Args
				f, ok1 := constString(a[1])
				t, ok2 := constString(a[2])
				k, ok3 := core.ConstIntValue(a[3])
				out = rep{f, t, k, ok1 && ok2 && ok3}
			case "strings.ReplaceAll":
				a := call.Call.Args
				f, ok1 := constString(a[1])
				t, ok2 := constString(a[2])
				out = rep{f, t, -1, ok1 && ok2}
			}
		})
		return out
	}
	g2c, c2g := get("GrpToChn"), get("ChnToGrp")
	if !g2c.ok && !c2g.ok {
		// not written with strings.Replace: the prefix arithmetic is not decided here
		r.Info("C20.4b-channel-spelling", "GrpToChn / ChnToGrp", "-", "not implemented with strings.Replace; not decided")
		return
	}
	ok := g2c.ok && c2g.ok && g2c.n == 1 && c2g.n == 1 && g2c.from == c2g.to && g2c.to == c2g.from && g2c.from != g2c.to
	r.Check(ok, "C20.4b-channel-spelling", "GrpToChn and ChnToGrp replace the prefix once, with swapped arguments", "-", fmt.Sprintf("%q<->%q", g2c.from, g2c.to),
		fmt.Sprintf("the two spellings are not inverse: GrpToChn replaces %q by %q (n=%d), ChnToGrp replaces %q by %q (n=%d)", g2c.from, g2c.to, g2c.n, c2g.from, c2g.to, c2g.n))
}

func constString(v ssa.Value) (string, bool) {
	k, ok := core.Strip(v).(*ssa.Const)
	if !ok || k.Value == nil || k.Value.Kind() != constant.String {
		return "", false
	}
	return constant.StringVal(k.Value), true
}

// checkForcedDownloadUnderMime (C16): with any one of the active-content tests of the MIME type
// assumed true, every path to http.ServeContent passes Header().Set("Content-Disposition",
// "attachment") - whatever the request's query parameters say.
func (c *Ctx) checkForcedDownloadUnderMime() {
	r := c.R
	download := c.method("server/media", "Handler", "Download")
	n := 0
	for _, fn := range c.funcsCalling(download, "server") {
		if !isHTTPHandler(fn) {
			continue
		}
		var serve, set ssa.Instruction
		var tests []*ssa.Call
		c.withCallees(fn, 2, func(owner *ssa.Function, in ssa.Instruction, outer ssa.Instruction) {
			call, ok := in.(*ssa.Call)
			if !ok {
				return
			}
			switch calleeFullName(call) {
			case "net/http.ServeContent":
				serve = outer
			case "(net/http.Header).Set":
				if core.IsConstString("Content-Disposition")(call.Call.Args[1]) {
					set = outer
				}
			case "strings.Contains", "strings.HasPrefix":
				if f, _ := core.LoadedField(core.Strip(call.Call.Args[0])); f != nil && f.Name() == "MimeType" && owner == fn {
					tests = append(tests, call)
				}
			}
		})
		if serve == nil || set == nil || len(tests) == 0 {
			continue // tests inside an extracted predicate: decided by C16.3 (census) only
		}
		r.Func(fk(fn))
		for i, tcall := range tests {
			n++
			tcall := tcall
			saved := core.AssumeFn
			core.AssumeFn = func(a core.CondAtom) (bool, bool) {
				if a.Op == token.ILLEGAL && a.Val == ssa.Value(tcall) {
					return true, true
				}
				return false, false
			}
			cut := core.AssumedCuts(fn)
			// the assumption is about the file (its MIME type passes the test), so every path from the
			// entry counts, also those that never evaluate the test; conditions that are materialised
			// booleans (`asAttachment := a || b || ...`) are resolved under the assumption
			for e := range core.PhiCutsFrom(fn, nil, cut) {
				cut[e] = true
			}
			core.AssumeFn = saved
			found, _ := core.PathAvoiding(fn, nil, func(in ssa.Instruction) bool { return in == serve }, func(in ssa.Instruction) bool { return in == set }, cut)
			r.Check(!found, "C16.3b-forced-download-holds", fmt.Sprintf("%s: active-content test #%d true => Content-Disposition: attachment before ServeContent", fk(fn), i+1), c.pos(tcall), "",
				"content of an active type (html, xml, text, application) can be served inline: a request parameter or another branch bypasses the forced download")
		}
	}
	if n == 0 {
		r.Info("C16.3b-forced-download-holds", "MIME tests in the download handler", "-", "tests are not in the handler itself; not decided by this rule")
	}
}

// checkAvatarLinkOnlyWithDesc (C16): the topic's avatar attachments are (re)linked only when a
// description update was accepted (the update map is not empty): linking replaces the existing link.
func (c *Ctx) checkAvatarLinkOnlyWithDesc() {
	r := c.R
	link := c.E().storeIface("FilePersistenceInterface", "LinkAttachments")
	topicsUpdate := c.E().storeIface("TopicsPersistenceInterface", "Update")
	n := 0
	for _, lfn := range c.funcsCalling(link, "server") {
		// the handler: the Topic method that (itself, in a function literal or in a helper only it
		// calls) both links and updates the topic
		fn := c.climbUntil(lfn, func(R *ssa.Function) bool {
			return isPtrToNamedRecv(R, "Topic") && len(c.regionCallsTo(R, topicsUpdate)) > 0
		})
		if !isPtrToNamedRecv(fn, "Topic") || len(c.regionCallsTo(fn, topicsUpdate)) == 0 {
			continue
		}
		// the update map handed to Topics.Update
		var maps []ssa.Value
		for _, u := range c.regionCallsTo(fn, topicsUpdate) {
			args := core.CallArgs(u.Common())
			maps = append(maps, core.Strip(args[len(args)-1]))
			// the store phase in a helper that receives the map: the map at the helper's call site
			maps = append(maps, core.Strip(c.rootValue(args[len(args)-1])))
		}
		for _, l := range core.CallsTo(lfn, link) {
			n++
			r.Func(fk(fn))
			g := core.Guard{Name: "len(update)>0", Match: func(a core.CondAtom) (bool, bool) {
				isLen := func(v ssa.Value) bool {
					call, ok := core.Strip(v).(*ssa.Call)
					if !ok {
						return false
					}
					b, ok := call.Call.Value.(*ssa.Builtin)
					if !ok || b.Name() != "len" {
						return false
					}
					for _, m := range maps {
						if sameValue(call.Call.Args[0], m, 0) {
							return true
						}
					}
					return false
				}
				// 0 < len(m)
				if a.Op == token.LSS && core.IsConstInt(0)(a.X) && isLen(a.Y) {
					return true, true
				}
				// len(m) == 0
				if a.Op == token.EQL && ((isLen(a.X) && core.IsConstInt(0)(a.Y)) || (isLen(a.Y) && core.IsConstInt(0)(a.X))) {
					return true, false
				}
				return false, false
			}}
			ok, cnt := core.GuardedBy(lfn, l.(ssa.Instruction), g)
			r.Check(ok && cnt[0] > 0, "C16.5d-avatar-link-with-description", fk(fn)+": Files.LinkAttachments only when the description update is not empty", c.pos(l), "",
				"a request that changes nothing in the topic's description still replaces the topic's attachment links: the real avatar is unlinked and later garbage-collected")
		}
	}
	r.Check(n >= 1, "C16.5d-avatar-link-with-description", "avatar linking in the description handler", "-", fmt.Sprintf("%d", n), "not found: anchor lost")
}

// checkDerefOfNullableResult (C13): `*f(x)` - the result of a module function is dereferenced at
// once. With the facts known about the arguments at the call site assumed for the parameters, no
// return of f may yield a possibly nil pointer.
func (c *Ctx) checkDerefOfNullableResult() {
	r := c.R
	n := 0
	for _, fn := range c.P.ModFuncs {
		if !core.InPkg(fn, "server") && !core.InPkg(fn, "server/store") {
			continue
		}
		type site struct {
			ld   *ssa.UnOp
			call *ssa.Call
		}
		var sites []site
		core.AllInstrs(fn, func(in ssa.Instruction) {
			ld, ok := in.(*ssa.UnOp)
			if !ok || ld.Op != token.MUL {
				return
			}
			call, ok := ld.X.(*ssa.Call)
			if !ok || call.Call.IsInvoke() {
				return
			}
			callee := call.Call.StaticCallee()
			if callee == nil || !core.InModule(callee) || callee.Signature.Results().Len() != 1 {
				return
			}
			if _, isPtr := callee.Signature.Results().At(0).Type().Underlying().(*types.Pointer); !isPtr {
				return
			}
			sites = append(sites, site{ld, call})
		})
		if len(sites) == 0 {
			continue
		}
		// facts about the arguments at each call site
		argNonNil := map[*ssa.Call][]bool{}
		seenCall := map[*ssa.Call]bool{}
		checkedLoad := map[*ssa.UnOp]bool{} // the load is reached only with the result known non-nil
		seenLoad := map[*ssa.UnOp]bool{}
		core.NilWalk(fn, nil, nil, nil, func(in ssa.Instruction, f core.NilFacts) {
			if ld, ok := in.(*ssa.UnOp); ok {
				for _, s := range sites {
					if s.ld == ld {
						k, nl := core.Nilness(ld.X, f)
						good := k && !nl
						if !seenLoad[ld] {
							seenLoad[ld] = true
							checkedLoad[ld] = good
						} else {
							checkedLoad[ld] = checkedLoad[ld] && good
						}
					}
				}
				return
			}
			call, ok := in.(*ssa.Call)
			if !ok {
				return
			}
			isSite := false
			for _, s := range sites {
				if s.call == call {
					isSite = true
				}
			}
			if !isSite {
				return
			}
			cur := make([]bool, len(call.Call.Args))
			for i, a := range call.Call.Args {
				k, nl := core.Nilness(a, f)
				cur[i] = (k && !nl) || isPbSliceElem(a)
			}
			if !seenCall[call] {
				seenCall[call] = true
				argNonNil[call] = cur
				return
			}
			for i := range cur {
				argNonNil[call][i] = argNonNil[call][i] && cur[i]
			}
		})
		for _, s := range sites {
			callee := s.call.Call.StaticCallee()
			n++
			r.Func(fk(fn))
			if checkedLoad[s.ld] {
				r.OK("C13.2d-deref-of-nullable-result", fmt.Sprintf("%s: *%s(...) #%s", fk(fn), callee.Name(), ordinalOfLoad(fn, s.ld)), c.pos(s.ld), "result tested for nil before the dereference")
				continue
			}
			facts := core.NilFacts{}
			for i, p := range callee.Params {
				if i < len(argNonNil[s.call]) && argNonNil[s.call][i] {
					facts[p] = false
				}
			}
			var bad ssa.Instruction
			res := core.NilWalkEntryWith(callee, facts, nil, nil, func(in ssa.Instruction, f core.NilFacts) {
				ret, ok := in.(*ssa.Return)
				if !ok {
					return
				}
				if k, nl := core.Nilness(ret.Results[0], f); !(k && !nl) {
					bad = ret
				}
			})
			if why, ok := derefExceptions[fn.Name()+"/"+callee.Name()]; ok && bad != nil {
				r.OK("C13.2d-deref-of-nullable-result", fmt.Sprintf("%s: *%s(...) #%s [exception]", fk(fn), callee.Name(), ordinalOfLoad(fn, s.ld)), c.pos(s.ld), why)
				continue
			}
			r.Check(bad == nil && !res.Overflow, "C13.2d-deref-of-nullable-result", fmt.Sprintf("%s: *%s(...) #%s", fk(fn), callee.Name(), ordinalOfLoad(fn, s.ld)), c.pos(s.ld), "",
				fmt.Sprintf("the result of %s is dereferenced at once although it can be nil%s: a request that makes it return nil crashes the goroutine", callee.Name(), posOf(c, bad)))
		}
	}
	r.Check(n >= 1, "C13.2d-deref-of-nullable-result", "immediate dereferences of call results", "-", fmt.Sprintf("%d", n), "none found: anchor lost")
}

func ordinalOfLoad(fn *ssa.Function, target *ssa.UnOp) string {
	n := 0
	out := "?"
	core.AllInstrs(fn, func(in ssa.Instruction) {
		if u, ok := in.(*ssa.UnOp); ok && u.Op == token.MUL {
			if _, isCall := u.X.(*ssa.Call); isCall {
				n++
				if u == target {
					out = fmt.Sprint(n)
				}
			}
		}
	})
	return out
}

// derefExceptions: reviewed `*f(x)` sites whose input is not client-controlled.
var derefExceptions = map[string]string{
	"pbSubSliceDeserialize/int64ToTime": "decodes the FindSubs response of a configured plug-in (server-side extension), not a client request; a plug-in sending updated_at=0 would crash here - outside the property's quantifier (client input)",
}

// isPbSliceElem: an element of a slice of pointers to protobuf messages (range value or indexed
// load). Trusted: protobuf unmarshalling never produces nil elements in a repeated message field.
func isPbSliceElem(v ssa.Value) bool {
	pt, ok := v.Type().(*types.Pointer)
	if !ok {
		return false
	}
	n, ok := pt.Elem().(*types.Named)
	if !ok || n.Obj().Pkg() == nil || n.Obj().Pkg().Name() != "pbx" {
		return false
	}
	switch x := v.(type) {
	case *ssa.Extract:
		_, isNext := x.Tuple.(*ssa.Next)
		return isNext
	case *ssa.UnOp:
		_, isIdx := x.X.(*ssa.IndexAddr)
		return isIdx && x.Op == token.MUL
	}
	return false
}

// checkNormalizeHalfOpen (C04): RangeSorter.Normalize merges sorted half-open ranges [Low, Hi)
// (Hi == 0: the single id Low) in place and returns a re-slice of its receiver. Structural necessary
// conditions of "the result covers exactly the union":
//
//	(e) whenever the kept-slot index is advanced, the current element is copied into the new slot
//	    before the next iteration (otherwise, once an entry was merged away, a later disjoint range is
//	    replaced by a stale one);
//	(f) the test that merges the current entry into the kept one compares the kept Hi with the
//	    current Low without an offset (Hi is exclusive: `Hi+1 >= Low` swallows the id Hi);
//	(g) when the kept range is extended, a single-id entry (Hi == 0) counts as [Low, Low+1): the
//	    function tests the current entry's Hi against 0 and the value stored into the kept Hi derives
//	    from the current Low as well.
func (c *Ctx) checkNormalizeHalfOpen() {
	r := c.R
	fn := c.ssaMethod("server/store/types", "RangeSorter", "Normalize")
	r.Func(fk(fn))
	lowF := c.field("server/store/types", "Range", "Low")
	hiF := c.field("server/store/types", "Range", "Hi")
	if len(fn.Params) == 0 {
		r.Fail("C04.2e-normalise-compacts", fk(fn)+": receiver", "-", "no receiver: undecided")
		return
	}
	rs := fn.Params[0]
	// element access: field of rs[idx]
	elemField := func(v ssa.Value) (*types.Var, ssa.Value) {
		u, ok := core.Strip(v).(*ssa.UnOp)
		if !ok || u.Op != token.MUL {
			return nil, nil
		}
		fa, ok := u.X.(*ssa.FieldAddr)
		if !ok {
			return nil, nil
		}
		ia, ok := fa.X.(*ssa.IndexAddr)
		if !ok || ia.X != ssa.Value(rs) {
			return nil, nil
		}
		f, _ := core.FieldOfAddr(fa)
		return f, ia.Index
	}
	// the kept-slot index: the phi whose value + 1 bounds the returned re-slice
	var kept *ssa.Phi
	core.AllInstrs(fn, func(in ssa.Instruction) {
		sl, ok := in.(*ssa.Slice)
		if !ok || sl.X != ssa.Value(rs) || sl.High == nil {
			return
		}
		if b, ok := sl.High.(*ssa.BinOp); ok && b.Op == token.ADD && core.IsConstInt(1)(b.Y) {
			if p, ok := b.X.(*ssa.Phi); ok {
				kept = p
			}
		}
	})
	if kept == nil {
		// not an in-place compaction (for instance the result is appended to a new slice): (e) does not apply
		r.Info("C04.2e-normalise-compacts", fk(fn)+": in-place compaction", c.P.Pos(fn.Pos()), "the result is not a re-slice of the receiver bounded by a kept-slot index; rule (e) not applicable")
	} else {
		// increments of the kept index that flow back into it
		n := 0
		core.AllInstrs(fn, func(in ssa.Instruction) {
			inc, ok := in.(*ssa.BinOp)
			if !ok || inc.Op != token.ADD || inc.X != ssa.Value(kept) || !core.IsConstInt(1)(inc.Y) {
				return
			}
			if !core.Derives(kept, func(v ssa.Value) bool { return v == ssa.Value(inc) }, false) {
				return // the bound of the final re-slice, not an advance
			}
			n++
			isCopy := func(x ssa.Instruction) bool {
				st, ok := x.(*ssa.Store)
				if !ok {
					return false
				}
				ia, ok := st.Addr.(*ssa.IndexAddr)
				if !ok || ia.X != ssa.Value(rs) || ia.Index != ssa.Value(inc) {
					return false
				}
				ld, ok := core.Strip(st.Val).(*ssa.UnOp)
				if !ok || ld.Op != token.MUL {
					return false
				}
				src, ok := ld.X.(*ssa.IndexAddr)
				return ok && src.X == ssa.Value(rs) && src.Index != ssa.Value(inc) && src.Index != ssa.Value(kept)
			}
			atHeader := func(x ssa.Instruction) bool { return x.Block() == kept.Block() || core.IsReturn(x) }
			miss, _ := core.PathAvoiding(fn, inc, atHeader, isCopy, nil)
			r.Check(!miss, "C04.2e-normalise-compacts", fmt.Sprintf("%s: kept slot advanced #%d => current element copied into it", fk(fn), n), c.pos(inc), "",
				"the kept-slot index is advanced without copying the current range into the new slot: after an entry was merged away, a later disjoint range is replaced by a stale one and its ids are silently dropped from the delete request / the deletion log")
		})
		r.Check(n >= 1, "C04.2e-normalise-compacts", fk(fn)+": advances of the kept slot found", "-", fmt.Sprintf("%d", n), "no advance of the kept-slot index found: anchor lost")
	}
	// (f) comparisons of a Hi with a Low of another element
	nCmp := 0
	core.AllInstrs(fn, func(in ssa.Instruction) {
		b, ok := in.(*ssa.BinOp)
		if !ok {
			return
		}
		switch b.Op {
		case token.LSS, token.LEQ, token.GTR, token.GEQ:
		default:
			return
		}
		side := func(v ssa.Value) (f *types.Var, idx ssa.Value, offset bool) {
			if f, idx := elemField(v); f != nil {
				return f, idx, false
			}
			if a, ok := core.Strip(v).(*ssa.BinOp); ok && (a.Op == token.ADD || a.Op == token.SUB) {
				if f, idx := elemField(a.X); f != nil {
					if _, isK := a.Y.(*ssa.Const); isK {
						return f, idx, true
					}
				}
			}
			return nil, nil, false
		}
		fx, ix, ox := side(b.X)
		fy, iy, oy := side(b.Y)
		if fx == nil || fy == nil || ix == iy {
			return
		}
		if !((fx == hiF && fy == lowF) || (fx == lowF && fy == hiF)) {
			return
		}
		nCmp++
		a := core.NormCond(b)
		// with Hi exclusive the entries overlap or touch iff !(keptHi < curLow)
		shapeOK := !ox && !oy && a.Op == token.LSS
		if shapeOK {
			fX, _ := elemField(a.X)
			shapeOK = fX == hiF // Hi < Low (negated or not: both branches exist)
		}
		r.Check(shapeOK, "C04.2f-merge-test-half-open", fmt.Sprintf("%s: merge test #%d compares kept Hi with next Low without an offset", fk(fn), nCmp), c.pos(b), "",
			"the merge test adds an offset to an exclusive bound (or compares the wrong way round): two ranges that leave a gap of one id are merged and that id is deleted / reported although nobody asked for it")
	})
	r.Check(nCmp >= 1, "C04.2f-merge-test-half-open", fk(fn)+": merge test found", "-", fmt.Sprintf("%d", nCmp), "no comparison of a range's Hi with another range's Low: anchor lost")
	// (g) stores into a kept Hi
	nSt := 0
	core.AllInstrs(fn, func(in ssa.Instruction) {
		st, ok := in.(*ssa.Store)
		if !ok {
			return
		}
		fa, ok := st.Addr.(*ssa.FieldAddr)
		if !ok {
			return
		}
		if f, _ := core.FieldOfAddr(fa); f != hiF {
			return
		}
		ia, ok := fa.X.(*ssa.IndexAddr)
		if !ok || ia.X != ssa.Value(rs) {
			return
		}
		nSt++
		fromHi := derivesAny(st.Val, func(v ssa.Value) bool { f, idx := elemField(v); return f == hiF && idx != ia.Index })
		// ... the end of a single-id entry is its Low + 1 (half-open), not its Low
		fromLow := derivesAny(st.Val, func(v ssa.Value) bool {
			b, ok := v.(*ssa.BinOp)
			if !ok || b.Op != token.ADD {
				return false
			}
			for _, pr := range [][2]ssa.Value{{b.X, b.Y}, {b.Y, b.X}} {
				f, idx := elemField(pr[0])
				k, isK := core.Strip(pr[1]).(*ssa.Const)
				if f == lowF && idx != ia.Index && isK && k.Value != nil && k.Value.ExactString() == "1" {
					return true
				}
			}
			return false
		})
		r.Check(fromHi && fromLow, "C04.2g-single-id-widened", fmt.Sprintf("%s: kept Hi extended #%d from the next entry's Hi, or Low+1 for a single id", fk(fn), nSt), c.pos(st), "",
			"when the kept range is extended the next entry's Hi is taken as it is: a single-id entry (Hi == 0) that starts at the kept range's end is consumed without extending it and its id is lost")
		// (h) the kept range only grows: the store is behind `kept.Hi < new value` (or takes a max)
		grows := false
		if call, isCall := core.Strip(st.Val).(*ssa.Call); isCall {
			if b, isB := call.Call.Value.(*ssa.Builtin); isB && b.Name() == "max" {
				grows = true
			}
		}
		if !grows {
			g := core.Guard{Name: "kept.Hi < new", Match: func(a core.CondAtom) (bool, bool) {
				if a.Op != token.LSS {
					return false, false
				}
				fX, iX := elemField(a.X)
				if fX == hiF && iX == ia.Index && core.Strip(a.Y) == core.Strip(st.Val) {
					return true, true
				}
				// written the other way round: new > kept.Hi normalises to kept.Hi < new as well; new <= kept.Hi is the negation
				return false, false
			}}
			saved := core.NoLift
			core.NoLift = true
			okG, cnt := core.GuardedBy(fn, st, g)
			core.NoLift = saved
			grows = okG && cnt[0] > 0
		}
		r.Check(grows, "C04.2h-kept-range-only-grows", fmt.Sprintf("%s: kept Hi extended #%d only when the next entry ends later", fk(fn), nSt), c.pos(st), "",
			"the kept range's Hi is overwritten without the test that the next entry ends later: a range nested inside the kept one pulls its upper bound down and the ids above it drop out of the deletion")
	})
	r.Check(nSt >= 1, "C04.2g-single-id-widened", fk(fn)+": extension of the kept range found", "-", fmt.Sprintf("%d", nSt), "no store into the kept range's Hi: anchor lost")
}
