package rules

import (
	"fmt"

	"golang.org/x/tools/go/ssa"

	"verifchk/core"
)

func init() { register("C09", checkC09) }

func checkC09(c *Ctx) {
	r := c.R
	r.Explanation = "Structural necessary conditions of forward-only, bounded read/recv marks: (1) in the {note} handler every store of the note's sequence number into perUserData.readID (recvID) is cut off unless the very comparison `cached readID (recvID) < note.SeqId` passed, and every mark store is cut off unless `note.SeqId <= Topic.lastID`; recvID is raised to readID only behind `recvID < readID`; (2) census of every writer of readID/recvID in the module with roles {note handler, publisher's own marks = lastID after the increment, reset to 0 on undelete, loaders from stored subscription, fresh literals}; (3) permission filters: from the typing branch the relay is cut off without IsWriter and !isReadOnly, the mark update and relay are cut off without IsReader or IsWriter of the sender's effective mode (ModeInvalid for removed users); invalid notes are dropped without any effect; (4) {info} fan-out: only to readers, never to channel readers, typing notes never to the typist, never to the skipped session; per-recipient copy with the recipient's own topic name; (5) reported marks are clamped: recv = max(recv, read)."
	r.NotDecided = []string{"0 <= read <= recv <= last as an invariant over all histories (value-level)", "the session's pre-validation arithmetic"}
	r.Trusted = []string{"go/types, go/ssa"}

	readID, recvID := c.E().pudField("readID"), c.E().pudField("recvID")
	lastID := c.E().topicField("lastID")
	noteSeq := c.field("server", "MsgClientNote", "SeqId")
	isSeq := core.IsFieldLoad(noteSeq)

	// the note handler: the Topic method that stores Note.SeqId into readID/recvID
	var handler *ssa.Function
	for _, a := range append(c.censusField(readID), c.censusField(recvID)...) {
		if a.Kind == "store" && isSeq(a.Instr.(*ssa.Store).Val) {
			handler = a.Fn
		}
	}
	if handler == nil {
		c.lost("note handler (function storing MsgClientNote.SeqId into perUserData.readID/recvID)")
	}
	r.Func(fk(handler))

	r.Floor("C09.1-marks-monotone", 4)
	gLast := core.LessGuard("lastID<SeqId", core.IsFieldLoad(lastID), isSeq, false)
	for _, st := range core.StoresToField(handler, readID) {
		construct := fk(handler) + ": readID = " + valDesc(st.Val, noteSeq.Name())
		if isSeq(st.Val) {
			g := core.LessGuard("readID<SeqId", core.IsFieldLoad(readID), isSeq, true)
			ok, cnt := core.GuardedBy(handler, st, g)
			r.Check(ok && cnt[0] > 0, "C09.1-marks-monotone", construct, c.pos(st), "behind cached readID < note.SeqId", "the read mark can be set to a value not above the current one (moves backwards / duplicate accepted)")
		} else {
			r.Fail("C09.1-marks-monotone", construct, c.pos(st), "read mark assigned from something other than the note's sequence number in the note handler")
		}
		ok, cnt := core.GuardedBy(handler, st, gLast)
		r.Check(ok && cnt[0] > 0, "C09.1b-marks-bounded", construct, c.pos(st), "behind note.SeqId <= lastID", "a mark beyond the last message id can be stored")
	}
	for _, st := range core.StoresToField(handler, recvID) {
		construct := fk(handler) + ": recvID = " + valDesc(st.Val, noteSeq.Name())
		switch {
		case isSeq(st.Val):
			g := core.LessGuard("recvID<SeqId", core.IsFieldLoad(recvID), isSeq, true)
			ok, cnt := core.GuardedBy(handler, st, g)
			r.Check(ok && cnt[0] > 0, "C09.1-marks-monotone", construct, c.pos(st), "behind cached recvID < note.SeqId", "the received mark can be set to a value not above the current one (the guard compares a different mark or is missing)")
		case core.IsFieldLoad(readID)(st.Val):
			g := core.LessGuard("recvID<readID", core.IsFieldLoad(recvID), core.IsFieldLoad(readID), true)
			ok, cnt := core.GuardedBy(handler, st, g)
			r.Check(ok && cnt[0] > 0, "C09.1-marks-monotone", construct+" #"+retOrdinalOfStore(handler, st), c.pos(st), "received dragged up to read only when it is below it", "recvID is overwritten with readID without the recvID < readID test")
		default:
			r.Fail("C09.1-marks-monotone", construct, c.pos(st), "received mark assigned from an unexpected value in the note handler")
		}
		ok, cnt := core.GuardedBy(handler, st, gLast)
		r.Check(ok && cnt[0] > 0, "C09.1b-marks-bounded", construct+" #"+retOrdinalOfStore(handler, st), c.pos(st), "behind note.SeqId <= lastID", "a mark beyond the last message id can be stored")
	}

	// (2) writers census
	r.Floor("C09.2-mark-writers", 6)
	subRead := c.field("server/store/types", "Subscription", "ReadSeqId")
	subRecv := c.field("server/store/types", "Subscription", "RecvSeqId")
	for _, fld := range []string{"readID", "recvID"} {
		fv := c.E().pudField(fld)
		for _, a := range c.censusField(fv) {
			if a.Kind != "store" {
				continue
			}
			st := a.Instr.(*ssa.Store)
			construct := fmt.Sprintf("%s: store perUserData.%s", fk(a.Fn), fld)
			role := ""
			switch {
			case a.Fn == handler:
				role = "note handler (decided above)"
			case core.IsFieldLoad(lastID)(st.Val):
				role = "publisher's own marks = Topic.lastID"
			case core.IsConstInt(0)(st.Val):
				role = "reset to 0"
			case core.Derives(st.Val, core.Or(core.IsFieldLoad(subRead), core.IsFieldLoad(subRecv)), true):
				role = "loaded from the stored subscription"
			case core.IsFieldLoad(readID)(st.Val) || core.IsFieldLoad(recvID)(st.Val):
				role = "copy of a cached mark"
			}
			r.Func(fk(a.Fn))
			r.Check(role != "", "C09.2-mark-writers", construct+" ["+role+"]", c.pos(st), "", "a read/received mark is written with a value that is neither a validated note, the new message id, zero, nor the stored mark: "+st.Val.String())
		}
	}

	// (3) permission filters in the note handler
	c.checkNotePermissions(handler)

	// (4) fan-out
	fo := c.checkFanoutCommon("C09.4")
	c.checkFanoutInfo("C09.4", fo)

	// (5) reporting clamp: wherever RecvSeqId of a description is set from cached marks it is max(recv, read)
	c.checkReportClamp()
}

func valDesc(v ssa.Value, seqName string) string {
	if f, _ := core.LoadedField(core.Strip(v)); f != nil {
		return f.Name()
	}
	return v.Name()
}

func retOrdinalOfStore(fn *ssa.Function, st *ssa.Store) string {
	n := 0
	for _, b := range fn.Blocks {
		for _, in := range b.Instrs {
			if s, ok := in.(*ssa.Store); ok {
				f1, _ := core.FieldOfAddr(s.Addr)
				f2, _ := core.FieldOfAddr(st.Addr)
				if f1 != nil && f1 == f2 {
					n++
					if s == st {
						return fmt.Sprint(n)
					}
				}
			}
		}
	}
	return "?"
}

func (c *Ctx) checkNotePermissions(handler *ssa.Function) {
	r := c.R
	isWriter := c.E().modeMethod("IsWriter")
	isReader := c.E().modeMethod("IsReader")
	readonly := c.method("server", "Topic", "isReadOnly")
	inactive := c.method("server", "Topic", "isInactive")
	whatF := c.field("server", "MsgClientNote", "What")
	subsUpdate := c.E().storeIface("SubsPersistenceInterface", "Update")
	fo := c.findFanout()
	// sinks: the mark update and the relay
	var sinks []ssa.Instruction
	for _, s := range core.CallsTo(handler, subsUpdate) {
		sinks = append(sinks, s.(ssa.Instruction))
	}
	var relay []ssa.Instruction
	core.AllInstrs(handler, func(in ssa.Instruction) {
		if call, ok := in.(*ssa.Call); ok && call.Call.StaticCallee() == fo.fn {
			relay = append(relay, in)
		}
	})
	sinks = append(sinks, relay...)
	r.Floor("C09.3-note-permissions", 3)
	// the mode tested is want&given of the sender's record, degraded to ModeInvalid for removed users
	modeOK := func(v ssa.Value) bool { return c.isEffMode()(v) || c.isIntersection(v, 0) }
	gW := core.BoolGuard("IsWriter(mode)", core.IsCallTo(isWriter, modeOK), true)
	gR := core.BoolGuard("IsReader(mode)", core.IsCallTo(isReader, modeOK), true)
	for _, s := range sinks {
		construct := fk(handler) + ": " + describeCall(s)
		ok2, c2 := core.GuardedBy(handler, s, core.BoolGuard("!isInactive", core.IsCallTo(inactive), false))
		r.Check(ok2 && c2[0] > 0, "C09.3-note-permissions", construct+" / topic active", c.pos(s), "", "notes are processed on a paused/deleted topic")
	}
	// the read / recv (and typing) cases of the dispatch on Note.What lead straight to the permission
	// test of the sender's effective mode, whose refusal edge is silent (C09.3b)
	for what, g := range map[string]core.Guard{"read": gR, "recv": gR, "kp": gW, "kpa": gW, "kpv": gW} {
		gWhat := core.EqGuard("What==\""+what+"\"", core.IsFieldLoad(whatF), core.IsConstString(what), true)
		edges, cnt := core.PassEdges(handler, gWhat)
		okCase := false
		for e := range edges {
			b := e.From.Succs[e.Idx]
			for hops := 0; hops < 2 && b != nil; hops++ {
				if ifi, isIf := b.Instrs[len(b.Instrs)-1].(*ssa.If); isIf {
					if m, _ := g.Match(core.NormCond(ifi.Cond)); m {
						okCase = true
					}
					break
				}
				if len(b.Succs) != 1 {
					break
				}
				b = b.Succs[0]
			}
		}
		r.Check(okCase && cnt[0] > 0, "C09.3-note-permissions", fk(handler)+": case \""+what+"\" tests the sender's effective permission first", c.P.Pos(handler.Pos()), "",
			"a "+what+" note is processed without first testing the sender's effective read/write permission (ModeInvalid for removed users)")
	}
	// typing branch: relay needs W and a writable topic
	for _, kp := range []string{"kp"} {
		gKp := core.EqGuard("What==\""+kp+"\"", core.IsFieldLoad(whatF), core.IsConstString(kp), true)
		edges, cnt := core.PassEdges(handler, gKp)
		if cnt[0] == 0 {
			r.Fail("C09.3-note-permissions", fk(handler)+": typing branch", "-", "no test of Note.What against \"kp\": undecided")
			continue
		}
		for _, s := range relay {
			cutW, _ := core.PassEdges(handler, gW)
			found, _ := core.PathFromEdgeAvoiding(handler, edges, func(in ssa.Instruction) bool { return in == s }, nil, cutW)
			r.Check(!found, "C09.3-note-permissions", fk(handler)+": typing relay needs W", c.pos(s), "", "typing notifications are relayed from a user without write permission")
			cutRO, _ := core.PassEdges(handler, core.BoolGuard("!isReadOnly", core.IsCallTo(readonly), false))
			found2, _ := core.PathFromEdgeAvoiding(handler, edges, func(in ssa.Instruction) bool { return in == s }, nil, cutRO)
			r.Check(!found2, "C09.3-note-permissions", fk(handler)+": typing relay needs a writable topic", c.pos(s), "", "typing notifications are relayed in a read-only topic")
		}
	}
	// every drop edge is silent and effect-free
	drop := core.FailEdges(handler, gW, gR)
	if bad := c.effectFreeFrom(handler, drop, nil); bad != nil {
		r.Fail("C09.3b-invalid-note-dropped-silently", fk(handler)+": permission-denied edges", c.pos(bad), "effect after a note was refused: "+bad.String())
	} else {
		r.OK("C09.3b-invalid-note-dropped-silently", fk(handler)+": permission-denied edges", c.P.Pos(handler.Pos()), "nothing but return after a refused note")
	}
}

func (c *Ctx) checkReportClamp() {
	r := c.R
	recvOut := c.field("server", "MsgTopicDesc", "RecvSeqId")
	readID, recvID := c.E().pudField("readID"), c.E().pudField("recvID")
	n := 0
	for _, fn := range c.P.ModFuncs {
		if !core.InPkg(fn, "server") {
			continue
		}
		for _, st := range core.StoresToField(fn, recvOut) {
			// value: max(recvID, readID) either through the builtin or a phi of the two loads
			v := core.Strip(st.Val)
			if !core.Derives(v, core.Or(core.IsFieldLoad(recvID), core.IsFieldLoad(readID)), false) && !isMaxOf(v, recvID, readID) {
				continue // set from a stored subscription elsewhere: not a cached-mark report
			}
			n++
			r.Func(fk(fn))
			ok := isMaxOf(v, recvID, readID)
			r.Check(ok, "C09.5-report-clamp", fk(fn)+": desc.RecvSeqId = max(recvID, readID)", c.pos(st), "", "the reported received mark can be below the reported read mark")
		}
	}
	r.Floor("C09.5-report-clamp", 1)
	_ = n
}

func isMaxOf(v ssa.Value, a, b interface{}) bool {
	call, ok := v.(*ssa.Call)
	if !ok || len(call.Call.Args) != 2 {
		return false
	}
	if bi, ok := call.Call.Value.(*ssa.Builtin); ok {
		return bi.Name() == "max"
	}
	// the repository's own max(a, b int): summarised structurally - two returns, each of a
	// parameter, the first behind `b < a`
	fn := call.Call.StaticCallee()
	if fn == nil || fn.Name() != "max" || len(fn.Params) != 2 {
		return false
	}
	okShape := true
	nRet := 0
	core.AllInstrs(fn, func(in ssa.Instruction) {
		ret, isRet := in.(*ssa.Return)
		if !isRet {
			return
		}
		nRet++
		p, isP := ret.Results[0].(*ssa.Parameter)
		if !isP {
			okShape = false
			return
		}
		other := fn.Params[0]
		if p == fn.Params[0] {
			other = fn.Params[1]
		}
		// returning p must happen on the edge where other < p, or on the complementary edge of `p < other`
		g1 := core.LessGuard("other<p", func(x ssa.Value) bool { return x == ssa.Value(other) }, func(x ssa.Value) bool { return x == ssa.Value(p) }, true)
		g2 := core.LessGuard("!(p<other)", func(x ssa.Value) bool { return x == ssa.Value(p) }, func(x ssa.Value) bool { return x == ssa.Value(other) }, false)
		if ok1, _ := core.GuardedBy(fn, ret, g1, g2); !ok1 {
			okShape = false
		}
	})
	return okShape && nRet == 2
}

// firstPassEdges: pass edges of the guard at the matching Ifs that are not dominated by another
// matching If (the first test on each path).
func firstPassEdges(fn *ssa.Function, g core.Guard) (map[core.Edge]bool, []int) {
	all, cnt := core.PassEdges(fn, g)
	out := map[core.Edge]bool{}
	for e := range all {
		dominated := false
		for o := range all {
			if o.From != e.From && o.From.Dominates(e.From) {
				dominated = true
			}
		}
		if !dominated {
			out[e] = true
		}
	}
	return out, cnt
}
