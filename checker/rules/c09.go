package rules

import (
	"fmt"
	"go/constant"
	"go/token"
	"go/types"
	"strings"

	"golang.org/x/tools/go/ssa"

	"verifchk/core"
)

func init() { register("C09", checkC09) }

func checkC09(c *Ctx) {
	r := c.R
	r.Explanation = "Structural necessary conditions of forward-only, bounded read/recv marks: (1) in the {note} handler every store of the note's sequence number into perUserData.readID (recvID) is cut off unless the very comparison `cached readID (recvID) < note.SeqId` passed, and every mark store is cut off unless `note.SeqId <= Topic.lastID`; recvID is raised to readID only behind `recvID < readID`; (2) census of every writer of readID/recvID in the module with roles {note handler, publisher's own marks = lastID after the increment, reset to 0 on undelete, loaders from stored subscription, fresh literals}; (3) permission filters: from the typing branch the relay is cut off without IsWriter and !isReadOnly, the mark update and relay are cut off without IsReader or IsWriter of the sender's effective mode (ModeInvalid for removed users); invalid notes are dropped without any effect; (4) {info} fan-out: only to readers, never to channel readers, typing notes never to the typist, never to the skipped session; per-recipient copy with the recipient's own topic name; (5) reported marks are clamped: recv = max(recv, read)."
	r.NotDecided = []string{"0 <= read <= recv <= last as an invariant over all histories (value-level)", "the session's pre-validation arithmetic"}
	r.Trusted = []string{"go/types, go/ssa"}

	readID, recvID := c.E().pudField("readID"), c.E().pudField("recvID")
	lastID := c.E().topicField("lastID")
	noteSeq := c.field("server", "MsgClientNote", "SeqId")
	isSeq := core.IsFieldLoad(noteSeq)

	// the note handler: the Topic method that stores Note.SeqId into readID/recvID; the stores may
	// sit in an extracted helper that receives the sequence number as a parameter
	var handler *ssa.Function
	type markerT struct {
		fn   *ssa.Function
		site ssa.CallInstruction // its call in the handler (nil: the handler itself)
	}
	var markers []markerT
	addMarker := func(fn *ssa.Function, site ssa.CallInstruction) {
		for _, m := range markers {
			if m.fn == fn {
				return
			}
		}
		markers = append(markers, markerT{fn, site})
	}
	for _, a := range append(c.censusField(readID), c.censusField(recvID)...) {
		if a.Kind != "store" {
			continue
		}
		v := a.Instr.(*ssa.Store).Val
		if isSeq(v) {
			handler = a.Fn
			addMarker(a.Fn, nil)
			continue
		}
		// the new marks computed in locals and written once: a phi with the sequence number among its values
		if _, isPhi := v.(*ssa.Phi); isPhi && core.Derives(v, isSeq, false) {
			handler = a.Fn
			addMarker(a.Fn, nil)
			continue
		}
		// a helper (for instance a method of the record) that receives the sequence number
		p, ok := core.Strip(v).(*ssa.Parameter)
		if !ok {
			continue
		}
		idx := -1
		for i, q := range a.Fn.Params {
			if q == p {
				idx = i
			}
		}
		callers := c.callersOf(a.Fn)
		if idx < 0 || len(callers) != 1 {
			continue
		}
		if args := callers[0].Site.Common().Args; idx < len(args) && isSeq(args[idx]) {
			if handler == nil {
				handler = callers[0].Caller
			}
			addMarker(a.Fn, callers[0].Site)
		}
	}
	if handler == nil {
		c.lost("note handler (function storing MsgClientNote.SeqId into perUserData.readID/recvID)")
	}
	r.Func(fk(handler))
	isMarker := func(fn *ssa.Function) bool {
		for _, m := range markers {
			if m.fn == fn {
				return true
			}
		}
		return false
	}
	r.Floor("C09.1-marks-monotone", 3)
	gLast := core.LessGuard("lastID<SeqId", core.IsFieldLoad(lastID), isSeq, false)
	nRecv := 0
	for _, mk := range markers {
		marker, markSite := mk.fn, mk.site
		if markSite != nil {
			r.Func(fk(marker))
			subst := map[ssa.Value]ssa.Value{}
			for i, p := range marker.Params {
				if i < len(markSite.Common().Args) {
					subst[p] = markSite.Common().Args[i]
				}
			}
			core.ParamSubst = subst
		}
		// guarded: behind the guard inside the function holding the store, or - for an extracted helper -
		// the helper's call in the handler is behind it
		guarded := func(st ssa.Instruction, g core.Guard) (bool, []int) {
			ok, cnt := core.GuardedBy(marker, st, g)
			if (!ok || cnt[0] == 0) && markSite != nil {
				saved := core.ParamSubst
				core.ParamSubst = nil
				ok, cnt = core.GuardedBy(markSite.Parent(), markSite.(ssa.Instruction), g)
				core.ParamSubst = saved
			}
			return ok, cnt
		}
		for _, vs := range virtualStores(marker, readID) {
			st := vs.St
			construct := fk(marker) + ": readID = " + valDesc(vs.Val, noteSeq.Name())
			if isSeq(vs.Val) {
				g := core.LessGuard("readID<SeqId", core.IsFieldLoad(readID), isSeq, true)
				ok, cnt := guarded(vs.At, g)
				r.Check(ok && cnt[0] > 0, "C09.1-marks-monotone", construct, c.pos(st), "behind cached readID < note.SeqId", "the read mark can be set to a value not above the current one (moves backwards / duplicate accepted)")
			} else {
				r.Fail("C09.1-marks-monotone", construct, c.pos(st), "read mark assigned from something other than the note's sequence number in the note handler")
			}
			ok, cnt := guarded(vs.At, gLast)
			r.Check(ok && cnt[0] > 0, "C09.1b-marks-bounded", construct, c.pos(st), "behind note.SeqId <= lastID", "a mark beyond the last message id can be stored")
		}
		for _, vs := range virtualStores(marker, recvID) {
			st := vs.St
			nRecv++
			construct := fk(marker) + ": recvID = " + valDesc(vs.Val, noteSeq.Name())
			switch {
			case isSeq(vs.Val):
				g := core.LessGuard("recvID<SeqId", core.IsFieldLoad(recvID), isSeq, true)
				ok, cnt := guarded(vs.At, g)
				r.Check(ok && cnt[0] > 0, "C09.1-marks-monotone", construct, c.pos(st), "behind cached recvID < note.SeqId", "the received mark can be set to a value not above the current one (the guard compares a different mark or is missing)")
			case core.IsFieldLoad(readID)(vs.Val):
				// the received mark compared is the cached one or the one just taken from the note
				g := core.LessGuard("recvID<readID", core.Or(core.IsFieldLoad(recvID), isSeq), core.IsFieldLoad(readID), true)
				ok, cnt := guarded(vs.At, g)
				r.Check(ok && cnt[0] > 0, "C09.1-marks-monotone", fmt.Sprintf("%s #%d", construct, nRecv), c.pos(st), "received dragged up to read only when it is below it", "recvID is overwritten with readID without the recvID < readID test")
			default:
				r.Fail("C09.1-marks-monotone", construct, c.pos(st), "received mark assigned from an unexpected value in the note handler")
			}
			ok, cnt := guarded(vs.At, gLast)
			r.Check(ok && cnt[0] > 0, "C09.1b-marks-bounded", fmt.Sprintf("%s #%d", construct, nRecv), c.pos(st), "behind note.SeqId <= lastID", "a mark beyond the last message id can be stored")
		}
		core.ParamSubst = nil
	}

	// (2) writers census
	r.Floor("C09.2-mark-writers", 6)
	subRead := c.field("server/store/types", "Subscription", "ReadSeqId")
	subRecv := c.field("server/store/types", "Subscription", "RecvSeqId")
	for _, fld := range []string{"readID", "recvID"} {
		fv := c.E().pudField(fld)
		for _, a := range c.censusField(fv) {
			if a.Kind != "store" {
				continue
			}
			st := a.Instr.(*ssa.Store)
			construct := fmt.Sprintf("%s: store perUserData.%s", fk(a.Fn), fld)
			role := ""
			switch {
			case a.Fn == handler || isMarker(a.Fn):
				role = "note handler (decided above)"
			case core.IsFieldLoad(lastID)(st.Val) || storedIntoField(a.Fn, lastID, st.Val):
				role = "publisher's own marks = Topic.lastID"
			case core.IsFieldLoad(lastID)(c.rootValue(st.Val)):
				role = "publisher's own marks = Topic.lastID (through a method of the record)"
			case core.IsConstInt(0)(st.Val):
				role = "reset to 0"
			case core.Derives(st.Val, core.Or(core.IsFieldLoad(subRead), core.IsFieldLoad(subRecv)), true):
				role = "loaded from the stored subscription"
			case core.IsFieldLoad(readID)(st.Val) || core.IsFieldLoad(recvID)(st.Val):
				role = "copy of a cached mark"
			}
			r.Func(fk(a.Fn))
			r.Check(role != "", "C09.2-mark-writers", construct+" ["+role+"]", c.pos(st), "", "a read/received mark is written with a value that is neither a validated note, the new message id, zero, nor the stored mark: "+st.Val.String())
		}
	}

	// (3) permission filters in the note handler
	c.checkNotePermissions(handler)
	c.checkRemovedSenderDegraded(handler)
	c.checkOfflineInfoSkipsOrigin()
	c.checkOfflineInfoReaders()
	c.checkPublisherMarksAfterSave()
	// of the module-wide intersection census only the predicates this property depends on: read
	// and recv receipts need R, typing needs W, the offline relay needs P
	c.R.Scoped(func(rule, construct string) bool {
		return strings.HasPrefix(construct, "IsReader()") || strings.HasPrefix(construct, "IsWriter()") || strings.HasPrefix(construct, "IsPresencer()")
	}, c.checkIntersect)

	// (4) fan-out
	fo := c.checkFanoutCommon("C09.4")
	c.checkFanoutInfo("C09.4", fo)

	// (5) reporting clamp: wherever RecvSeqId of a description is set from cached marks it is max(recv, read)
	c.checkReportClamp()
	c.checkStoredMarksReportedClamped()
	// each recipient gets its own copy of the {info} payload (it is renamed per recipient)
	c.R.Scoped(func(rule, construct string) bool { return strings.Contains(construct, "Info") }, c.checkMessageCopyIsDeep)
}

func valDesc(v ssa.Value, seqName string) string {
	if f, _ := core.LoadedField(core.Strip(v)); f != nil {
		return f.Name()
	}
	return v.Name()
}

func retOrdinalOfStore(fn *ssa.Function, st *ssa.Store) string {
	n := 0
	for _, b := range fn.Blocks {
		for _, in := range b.Instrs {
			if s, ok := in.(*ssa.Store); ok {
				f1, _ := core.FieldOfAddr(s.Addr)
				f2, _ := core.FieldOfAddr(st.Addr)
				if f1 != nil && f1 == f2 {
					n++
					if s == st {
						return fmt.Sprint(n)
					}
				}
			}
		}
	}
	return "?"
}

func (c *Ctx) checkNotePermissions(handler *ssa.Function) {
	r := c.R
	isWriter := c.E().modeMethod("IsWriter")
	isReader := c.E().modeMethod("IsReader")
	readonly := c.method("server", "Topic", "isReadOnly")
	inactive := c.method("server", "Topic", "isInactive")
	whatF := c.field("server", "MsgClientNote", "What")
	subsUpdate := c.E().storeIface("SubsPersistenceInterface", "Update")
	fo := c.findFanout()
	// sinks: the mark update and the relay
	var sinks []ssa.Instruction
	for _, s := range core.CallsTo(handler, subsUpdate) {
		sinks = append(sinks, s.(ssa.Instruction))
	}
	var relay []ssa.Instruction
	core.AllInstrs(handler, func(in ssa.Instruction) {
		if call, ok := in.(*ssa.Call); ok && call.Call.StaticCallee() == fo.fn {
			relay = append(relay, in)
		}
	})
	sinks = append(sinks, relay...)
	r.Floor("C09.3-note-permissions", 3)
	// the mode tested is want&given of the sender's record, degraded to ModeInvalid for removed users
	modeOK := func(v ssa.Value) bool { return c.isEffMode()(v) || c.isIntersection(v, 0) }
	gW := core.BoolGuard("IsWriter(mode)", core.IsCallTo(isWriter, modeOK), true)
	gR := core.BoolGuard("IsReader(mode)", core.IsCallTo(isReader, modeOK), true)
	for _, s := range sinks {
		construct := fk(handler) + ": " + describeCall(s)
		ok2, c2 := core.GuardedBy(handler, s, core.BoolGuard("!isInactive", core.IsCallTo(inactive), false))
		r.Check(ok2 && c2[0] > 0, "C09.3-note-permissions", construct+" / topic active", c.pos(s), "", "notes are processed on a paused/deleted topic")
	}
	// for each note kind: with Note.What fixed to that kind (every comparison of Note.What with a
	// constant has a determined outcome, also inside an extracted predicate), the sinks are cut off
	// once the pass edges of the required permission are removed
	gRW := core.BoolGuard("!isReadOnly", core.IsCallTo(readonly), false)
	type need struct {
		name string
		g    core.Guard
		msg  string
	}
	kinds := []struct {
		what  string
		sinks []ssa.Instruction
		needs []need
	}{
		{"read", sinks, []need{{"IsReader(sender's want&given)", gR, "a read note is processed for a sender without read permission"}}},
		{"recv", sinks, []need{{"IsReader(sender's want&given)", gR, "a recv note is processed for a sender without read permission"}}},
		{"kp", relay, []need{{"IsWriter(sender's want&given)", gW, "typing notifications are relayed from a user without write permission"}, {"topic writable", gRW, "typing notifications are relayed in a read-only topic"}}},
		{"kpa", relay, []need{{"IsWriter(sender's want&given)", gW, "audio-recording notifications are relayed from a user without write permission"}, {"topic writable", gRW, "recording notifications are relayed in a read-only topic"}}},
		{"kpv", relay, []need{{"IsWriter(sender's want&given)", gW, "video-recording notifications are relayed from a user without write permission"}, {"topic writable", gRW, "recording notifications are relayed in a read-only topic"}}},
	}
	nWhat := 0
	for _, k := range kinds {
		what := k.what
		core.AssumeFn = func(a core.CondAtom) (bool, bool) {
			if a.Op != token.EQL {
				return false, false
			}
			var other ssa.Value
			if core.IsFieldLoad(whatF)(a.X) {
				other = a.Y
			} else if core.IsFieldLoad(whatF)(a.Y) {
				other = a.X
			}
			if other == nil {
				return false, false
			}
			kc, ok := core.Strip(other).(*ssa.Const)
			if !ok || kc.Value == nil || kc.Value.Kind() != constant.String {
				return false, false
			}
			nWhat++
			return true, constant.StringVal(kc.Value) == what
		}
		for _, nd := range k.needs {
			cut, cnt := core.PassEdges(handler, nd.g)
			for e := range core.AssumedCuts(handler) {
				cut[e] = true
			}
			reach := core.ReachBlocks(handler, nil, cut)
			for _, s := range k.sinks {
				r.Check(!reach[s.Block()] && cnt[0] > 0, "C09.3-note-permissions", fmt.Sprintf("%s: {note %s} -> %s needs %s", fk(handler), what, describeCall(s), nd.name), c.pos(s), "", nd.msg)
			}
		}
		core.AssumeFn = nil
	}
	r.Check(nWhat > 0 && len(relay) > 0, "C09.3-note-permissions", fk(handler)+": dispatch on Note.What", c.P.Pos(handler.Pos()), "", "no comparison of Note.What with a constant found: undecided")
	// every drop edge is silent and effect-free
	drop := core.FailEdges(handler, gW, gR)
	if bad := c.effectFreeFrom(handler, drop, nil); bad != nil {
		r.Fail("C09.3b-invalid-note-dropped-silently", fk(handler)+": permission-denied edges", c.pos(bad), "effect after a note was refused: "+bad.String())
	} else {
		r.OK("C09.3b-invalid-note-dropped-silently", fk(handler)+": permission-denied edges", c.P.Pos(handler.Pos()), "nothing but return after a refused note")
	}
}

func (c *Ctx) checkReportClamp() {
	r := c.R
	recvOut := c.field("server", "MsgTopicDesc", "RecvSeqId")
	readID, recvID := c.E().pudField("readID"), c.E().pudField("recvID")
	n := 0
	for _, fn := range c.P.ModFuncs {
		if !core.InPkg(fn, "server") {
			continue
		}
		for _, st := range core.StoresToField(fn, recvOut) {
			// value: max(recvID, readID) either through the builtin or a phi of the two loads
			v := core.Strip(st.Val)
			if !core.Derives(v, core.Or(core.IsFieldLoad(recvID), core.IsFieldLoad(readID)), false) && !isMaxOf(v, recvID, readID) {
				continue // set from a stored subscription elsewhere: not a cached-mark report
			}
			n++
			r.Func(fk(fn))
			ok := isMaxOf(v, recvID, readID)
			r.Check(ok, "C09.5-report-clamp", fk(fn)+": desc.RecvSeqId = max(recvID, readID)", c.pos(st), "", "the reported received mark can be below the reported read mark")
		}
	}
	r.Floor("C09.5-report-clamp", 1)
	_ = n
}

func isMaxOf(v ssa.Value, a, b interface{}) bool {
	call, ok := v.(*ssa.Call)
	if !ok || len(call.Call.Args) != 2 {
		return false
	}
	if bi, ok := call.Call.Value.(*ssa.Builtin); ok {
		return bi.Name() == "max"
	}
	// the repository's own max(a, b int): summarised structurally - two returns, each of a
	// parameter, the first behind `b < a`
	fn := call.Call.StaticCallee()
	if fn == nil || fn.Name() != "max" || len(fn.Params) != 2 {
		return false
	}
	okShape := true
	nRet := 0
	core.AllInstrs(fn, func(in ssa.Instruction) {
		ret, isRet := in.(*ssa.Return)
		if !isRet {
			return
		}
		nRet++
		p, isP := ret.Results[0].(*ssa.Parameter)
		if !isP {
			okShape = false
			return
		}
		other := fn.Params[0]
		if p == fn.Params[0] {
			other = fn.Params[1]
		}
		// returning p must happen on the edge where other < p, or on the complementary edge of `p < other`
		g1 := core.LessGuard("other<p", func(x ssa.Value) bool { return x == ssa.Value(other) }, func(x ssa.Value) bool { return x == ssa.Value(p) }, true)
		g2 := core.LessGuard("!(p<other)", func(x ssa.Value) bool { return x == ssa.Value(p) }, func(x ssa.Value) bool { return x == ssa.Value(other) }, false)
		if ok1, _ := core.GuardedBy(fn, ret, g1, g2); !ok1 {
			okShape = false
		}
	})
	return okShape && nRet == 2
}

// firstPassEdges: pass edges of the guard at the matching Ifs that are not dominated by another
// matching If (the first test on each path).
func firstPassEdges(fn *ssa.Function, g core.Guard) (map[core.Edge]bool, []int) {
	all, cnt := core.PassEdges(fn, g)
	out := map[core.Edge]bool{}
	for e := range all {
		dominated := false
		for o := range all {
			if o.From != e.From && o.From.Dominates(e.From) {
				dominated = true
			}
		}
		if !dominated {
			out[e] = true
		}
	}
	return out, cnt
}

// storedIntoField: the same SSA value is stored into field f somewhere in fn (`seq := lastID+1;
// ...; lastID = seq; readID = seq`).
func storedIntoField(fn *ssa.Function, f *types.Var, v ssa.Value) bool {
	for _, st := range core.StoresToField(fn, f) {
		if core.Strip(st.Val) == core.Strip(v) {
			return true
		}
	}
	return false
}
