package rules

import (
	"fmt"
	"go/constant"
	"go/token"
	"go/types"
	"os"
	"strings"

	"golang.org/x/tools/go/ssa"

	"verifchk/core"
)

// Rules added after the review of the changes the third round left undetected: two of them have a
// structural necessary condition.

// backEdges: every edge p->b where b dominates p (any loop form).
func backEdges(fn *ssa.Function) map[core.Edge]bool {
	out := map[core.Edge]bool{}
	for _, b := range fn.Blocks {
		for i, s := range b.Succs {
			if s.Dominates(b) {
				out[core.Edge{From: b, Idx: i}] = true
			}
		}
	}
	return out
}

// checkNeverDropped: the notice sent on the given channel field is the only thing that makes the
// receiver act, so it must not be droppable: every send on that channel is a blocking send (a plain
// send statement or a select without default).
//   - Session.detach (C14): a topic that removed a session tells the session; the notice is what
//     removes the topic from Session.subs.
//   - Hub.rehash (C17): after the ring changed the hub must unload the topics that moved to another
//     node; nothing resends the signal.
func (c *Ctx) checkNeverDropped(rule, typ, field, consequence string) {
	r := c.R
	chF := c.field("server", typ, field)
	if chF == nil {
		return
	}
	isCh := core.IsFieldLoad(chF)
	for _, fn := range c.P.ModFuncs {
		if !core.InPkg(fn, "server") {
			continue
		}
		core.AllInstrs(fn, func(in ssa.Instruction) {
			construct := fmt.Sprintf("%s: send on %s.%s", fk(fn), typ, field)
			switch x := in.(type) {
			case *ssa.Send:
				if isCh(x.Chan) {
					if k := countSame(r, rule, construct); k > 0 {
						construct = fmt.Sprintf("%s #%d", construct, k+1)
					}
					r.Func(fk(fn))
					r.OK(rule, construct, c.pos(x), "blocking send")
				}
			case *ssa.Select:
				for _, st := range x.States {
					if st.Dir == types.SendOnly && isCh(st.Chan) {
						if k := countSame(r, rule, construct); k > 0 {
							construct = fmt.Sprintf("%s #%d", construct, k+1)
						}
						r.Func(fk(fn))
						r.Check(x.Blocking, rule, construct, c.pos(x), "select without default",
							"the notice is sent in a select with a default branch: when the receiver is busy it is dropped; "+consequence)
					}
				}
			}
		})
	}
	r.Floor(rule, 1)
}

func (c *Ctx) checkDetachNeverDropped() {
	c.checkNeverDropped("C14.5d-detach-never-dropped", "Session", "detach",
		"the topic has already forgotten the session and Session.subs keeps the topic for ever")
}

// checkCredentialValidatedOnlyOnSuccess (C11): a credential counts as validated (and the account
// leaves the "credentials pending" state, which is what lets a login complete) only when the
// validator's Check succeeded: assuming the error of Check non-nil, nothing is recorded (no map
// update, no append) within the same iteration.
func (c *Ctx) checkCredentialValidatedOnlyOnSuccess() {
	r := c.R
	check := c.method("server/validate", "Validator", "Check")
	if check == nil {
		c.lost("method validate.Validator.Check")
		return
	}
	r.Floor("C11.4d-credential-recorded-only-when-check-passed", 1)
	for _, fn := range c.P.ModFuncs {
		if !core.InPkg(fn, "server") {
			continue
		}
		for _, site := range core.CallsTo(fn, check) {
			callV, ok := site.(*ssa.Call)
			if !ok {
				continue
			}
			r.Func(fk(fn))
			var errV ssa.Value
			if refs := callV.Referrers(); refs != nil {
				for _, ref := range *refs {
					if ex, ok := ref.(*ssa.Extract); ok && ex.Index == errIndex(site.Common().Signature()) {
						errV = ex
					}
				}
			}
			construct := fk(fn) + ": nothing recorded after a failed Validator.Check"
			if errV == nil {
				r.Fail("C11.4d-credential-recorded-only-when-check-passed", construct, c.pos(site), "the error of Validator.Check is not used")
				continue
			}
			var bad ssa.Instruction
			wr := core.NilWalkAfterWith(fn, callV, core.NilFacts{errV: false, core.ResultFact(callV, errIndex(site.Common().Signature())): false}, backEdges(fn), nil, func(in ssa.Instruction, _ core.NilFacts) {
				if bad != nil {
					return
				}
				switch x := in.(type) {
				case *ssa.MapUpdate:
					bad = x
				case *ssa.Call:
					if b, ok := x.Call.Value.(*ssa.Builtin); ok && b.Name() == "append" {
						bad = x
					}
				}
			})
			r.Check(bad == nil && !wr.Overflow, "C11.4d-credential-recorded-only-when-check-passed", construct, c.pos(site),
				"every path with a failed check returns or goes to the next credential",
				"with the check failed the iteration goes on and records the credential as validated"+posOf(c, bad))
		}
	}
}

// checkRangeHiExclusive (C04): a delete range is half-open, [Low, Hi): every database adapter must
// treat Range.Hi as exclusive when it turns the ranges of a DelMessage into a query. Three forms
// are decided, wherever a load of Range.Hi flows (in the adapter's methods and their closures):
//   - an index loop bounded by Hi uses a strict comparison (`i < r.Hi`);
//   - a query operator keyed by a constant string in a map literal is "$lt" for Hi and "$lte" only
//     for Hi-1;
//   - a RethinkDB Between whose upper key is built from Hi is not right-closed (unless from Hi-1).
//
// Tests of the range's shape (`Hi == 0`, `Hi <= Low`) and counts (`Hi - Low`) are not bounds.
func (c *Ctx) checkRangeHiExclusive() {
	r := c.R
	const rule = "C04.5c-range-upper-bound-exclusive"
	hiF := c.field("server/store/types", "Range", "Hi")
	lowF := c.field("server/store/types", "Range", "Low")
	if hiF == nil || lowF == nil {
		c.lost("fields types.Range.Low/Hi")
		return
	}
	n := 0
	for _, rel := range []string{"server/db/mysql", "server/db/postgres", "server/db/mongodb", "server/db/rethinkdb"} {
		for _, fn := range c.P.ModFuncs {
			if !core.InPkg(fn, rel) {
				continue
			}
			// constant right bounds of Between options set in this function
			closed := false
			core.AllInstrs(fn, func(in ssa.Instruction) {
				if st, ok := in.(*ssa.Store); ok {
					if f, _ := core.FieldOfAddr(st.Addr); f != nil && f.Name() == "RightBound" {
						if k, ok := core.Strip(st.Val).(*ssa.Const); ok && k.Value != nil && k.Value.ExactString() == `"closed"` {
							closed = true
						}
					}
				}
			})
			seen := map[ssa.Value]bool{}
			var follow func(v ssa.Value, incl bool, origin ssa.Value, d int)
			report := func(ok bool, at ssa.Instruction, what, bad string) {
				n++
				r.Func(fk(fn))
				r.Check(ok, rule, fk(fn)+": "+what, c.pos(at), "exclusive", bad)
			}
			follow = func(v ssa.Value, incl bool, origin ssa.Value, d int) {
				if d > 8 || seen[v] || v.Referrers() == nil {
					return
				}
				seen[v] = true
				for _, ref := range *v.Referrers() {
					switch x := ref.(type) {
					case *ssa.ChangeType:
						follow(x, incl, origin, d+1)
					case *ssa.Convert:
						follow(x, incl, origin, d+1)
					case *ssa.MakeInterface:
						follow(x, incl, origin, d+1)
					case *ssa.Slice:
						follow(x, incl, origin, d+1)
					case *ssa.BinOp:
						other := x.Y
						left := true
						if x.Y == v {
							other, left = x.X, false
						}
						switch x.Op {
						case token.SUB:
							if k, ok := other.(*ssa.Const); ok && left && k.Value != nil && k.Value.ExactString() == "1" {
								follow(x, true, origin, d+1)
							}
						case token.LSS, token.LEQ, token.GTR, token.GEQ:
							if _, isK := other.(*ssa.Const); isK {
								continue // shape test
							}
							if f, _ := core.LoadedField(core.Strip(other)); f == lowF {
								continue // shape test Hi <= Low
							}
							inclusive := (x.Op == token.LEQ && !left) || (x.Op == token.GEQ && left)
							strict := (x.Op == token.LSS && !left) || (x.Op == token.GTR && left)
							if !inclusive && !strict {
								continue
							}
							report(strict != incl, x, "loop bounded by Range.Hi",
								"the loop over a delete range includes its upper bound: one id outside the requested half-open range [low, hi) is deleted")
						}
					case *ssa.MapUpdate:
						if x.Value != v {
							continue
						}
						if k, ok := x.Key.(*ssa.Const); ok && k.Value != nil {
							op := k.Value.ExactString()
							switch op {
							case `"$lte"`:
								report(incl, x, "query operator applied to Range.Hi", "the filter uses $lte on the exclusive upper bound: one id outside the requested half-open range [low, hi) is deleted")
							case `"$lt"`:
								report(!incl, x, "query operator applied to Range.Hi", "the filter uses $lt on hi-1: the last id of the range is not deleted")
							}
						}
					case *ssa.Store:
						// element of an array literal: follow the array
						if ia, ok := x.Addr.(*ssa.IndexAddr); ok && x.Val == v {
							follow(ia.X, incl, origin, d+1)
						}
					case *ssa.Call:
						if x.Call.IsInvoke() {
							continue
						}
						if cal := core.CalleeOf(&x.Call); cal != nil && cal.Name() == "Between" {
							// upper key is the second argument (after the receiver)
							for i, a := range x.Call.Args {
								if a == v && i == 2 {
									report(!closed || incl, x, "Between with an upper key from Range.Hi", "the index range is right-closed on the exclusive upper bound: one id outside the requested half-open range [low, hi) is deleted")
								}
							}
						}
					}
				}
			}
			core.AllInstrs(fn, func(in ssa.Instruction) {
				v, ok := in.(ssa.Value)
				if !ok {
					return
				}
				if f, _ := core.LoadedField(v); f == hiF {
					follow(v, false, v, 0)
				}
			})
		}
	}
	r.Check(n >= 6, rule, "uses of Range.Hi as a bound in the four adapters", "-", "", "fewer than six bound uses of Range.Hi found in the adapters: anchor lost")
}

// checkCachedMapsNotMutatedInPlace (C08): the free-form attributes mirrored in a live topic
// (Topic.public, Topic.trusted, perUserData.private ... : every field of static type `any` of the
// topic and of its per-user records) change only by assignment after the store accepted the new
// value. The maps behind them must therefore never be written in place: a value loaded from such
// a field does not reach a map update or a delete, directly or through the parameters of module
// functions (summary `mutatesParam`, which follows type assertions, lookups of nested maps, range
// values and calls). Entries keyed by a session id (the search topic's per-connection query) are
// not stored attributes and are exempt.
func (c *Ctx) checkCachedMapsNotMutatedInPlace() {
	r := c.R
	const rule = "C08.1d-cached-maps-not-mutated-in-place"
	fields := map[*types.Var]bool{}
	for _, tn := range []string{"Topic", "perUserData"} {
		nt := c.P.NamedType("server", tn)
		if nt == nil {
			c.lost("type server." + tn)
			return
		}
		st, _ := nt.Underlying().(*types.Struct)
		for i := 0; st != nil && i < st.NumFields(); i++ {
			if it, ok := st.Field(i).Type().Underlying().(*types.Interface); ok && it.Empty() {
				fields[st.Field(i)] = true
			}
		}
	}
	r.Check(len(fields) >= 3, rule, "free-form attributes of Topic and perUserData", "-", "", "fewer than three fields of type any: anchor lost")
	// an entry keyed by a session id is per-connection state (the search topic's query), which the
	// store never holds: not a mirrored attribute
	sidF := c.E().sessionField("sid")
	perSession := func(k ssa.Value) bool {
		f, _ := core.LoadedField(core.Strip(k))
		return f != nil && f == sidF
	}
	type pk struct {
		fn *ssa.Function
		i  int
	}
	memo := map[pk]int{} // 1 in progress / no, 2 yes
	var mutatesParam func(fn *ssa.Function, i int) bool
	// derivedMutation: does a value derived from root reach a map write in fn?
	var derivedMutation func(fn *ssa.Function, root ssa.Value) ssa.Instruction
	derivedMutation = func(fn *ssa.Function, root ssa.Value) ssa.Instruction {
		seen := map[ssa.Value]bool{}
		var hit ssa.Instruction
		var walk func(v ssa.Value, d int)
		walk = func(v ssa.Value, d int) {
			if hit != nil || seen[v] || d > 12 || v.Referrers() == nil {
				return
			}
			seen[v] = true
			for _, ref := range *v.Referrers() {
				if hit != nil {
					return
				}
				switch x := ref.(type) {
				case *ssa.TypeAssert:
					walk(x, d+1)
				case *ssa.Extract:
					// comma-ok forms: the value is component 0; range: key 1, value 2
					if _, isNext := x.Tuple.(*ssa.Next); isNext {
						if x.Index == 2 {
							walk(x, d+1)
						}
					} else if x.Index == 0 {
						walk(x, d+1)
					}
				case *ssa.ChangeType:
					walk(x, d+1)
				case *ssa.ChangeInterface:
					walk(x, d+1)
				case *ssa.MakeInterface:
					walk(x, d+1)
				case *ssa.Phi:
					walk(x, d+1)
				case *ssa.Lookup:
					if x.X == v {
						walk(x, d+1)
					}
				case *ssa.Range:
					walk(x, d+1)
				case *ssa.Next:
					walk(x, d+1)
				case *ssa.MapUpdate:
					if x.Map == v && !perSession(x.Key) {
						hit = x
					}
				case *ssa.Call:
					if b, ok := x.Call.Value.(*ssa.Builtin); ok {
						if b.Name() == "delete" && len(x.Call.Args) > 1 && x.Call.Args[0] == v && !perSession(x.Call.Args[1]) {
							hit = x
						}
						continue
					}
					g := x.Call.StaticCallee()
					if g == nil || len(g.Blocks) == 0 || !core.InModule(g) {
						continue
					}
					for j, a := range x.Call.Args {
						if a == v && j < len(g.Params) && mutatesParam(g, j) {
							hit = x
						}
					}
				}
			}
		}
		walk(root, 0)
		return hit
	}
	mutatesParam = func(fn *ssa.Function, i int) bool {
		k := pk{fn, i}
		if s, ok := memo[k]; ok {
			return s == 2
		}
		memo[k] = 1
		if i < len(fn.Params) && derivedMutation(fn, fn.Params[i]) != nil {
			memo[k] = 2
			return true
		}
		return false
	}
	n := 0
	for _, fn := range c.P.ModFuncs {
		if !core.InPkg(fn, "server") {
			continue
		}
		core.AllInstrs(fn, func(in ssa.Instruction) {
			v, ok := in.(ssa.Value)
			if !ok {
				return
			}
			f, _ := core.LoadedField(v)
			if f == nil || !fields[f] {
				return
			}
			n++
			hit := derivedMutation(fn, v)
			if hit == nil {
				return
			}
			r.Func(fk(fn))
			r.Fail(rule, fk(fn)+": cached "+f.Name()+" handed to code that writes the map", c.pos(in),
				"the map cached in the live topic is modified in place"+posOf(c, hit)+" before the store accepted the change: when the store write fails the cache already shows the new value")
		})
	}
	r.Check(n >= 5, rule, "loads of the free-form attributes examined", "-", "", "fewer than five loads: anchor lost")
}

// checkP2PRecordsAgree (C08): the per-user record of a p2p participant (the records that get a
// topicName) is built at several places of the topic loader - both subscriptions found, one found
// and one re-created, none found. Whatever the place, the answer to {get desc} is read from the
// same fields, so every such record must carry the same free-form attributes (the fields of static
// type `any`: public, trusted, private): a loader that leaves one out answers differently before
// and after the topic is unloaded and loaded again.
func (c *Ctx) checkP2PRecordsAgree() {
	r := c.R
	const rule = "C08.4d-p2p-records-carry-same-attributes"
	pudT := c.P.NamedType("server", "perUserData")
	nameF := c.E().pudField("topicName")
	if pudT == nil || nameF == nil {
		c.lost("type server.perUserData / field topicName")
		return
	}
	st, _ := pudT.Underlying().(*types.Struct)
	free := map[*types.Var]bool{}
	for i := 0; st != nil && i < st.NumFields(); i++ {
		if it, ok := st.Field(i).Type().Underlying().(*types.Interface); ok && it.Empty() {
			free[st.Field(i)] = true
		}
	}
	type build struct {
		fn    *ssa.Function
		al    *ssa.Alloc
		attrs map[string]bool
	}
	var builds []build
	union := map[string]bool{}
	for _, fn := range c.P.ModFuncs {
		if !core.InPkg(fn, "server") {
			continue
		}
		core.AllInstrs(fn, func(in ssa.Instruction) {
			al, ok := in.(*ssa.Alloc)
			if !ok || al.Referrers() == nil {
				return
			}
			pt, ok := al.Type().(*types.Pointer)
			if !ok || !types.Identical(pt.Elem(), pudT) {
				return
			}
			isP2P := false
			attrs := map[string]bool{}
			for _, ref := range *al.Referrers() {
				fa, ok := ref.(*ssa.FieldAddr)
				if !ok || fa.Referrers() == nil {
					continue
				}
				f, _ := core.FieldOfAddr(fa)
				stored := false
				for _, r2 := range *fa.Referrers() {
					if s, ok := r2.(*ssa.Store); ok && s.Addr == ssa.Value(fa) {
						stored = true
					}
				}
				if !stored || f == nil {
					continue
				}
				if f == nameF {
					isP2P = true
				}
				if free[f] {
					attrs[f.Name()] = true
				}
			}
			if !isP2P {
				return
			}
			// the record may start as the result of a constructor (`pud := perUserDataFromSub(sub)`):
			// the fields the constructor's literal sets count too
			for _, ref := range *al.Referrers() {
				st, ok := ref.(*ssa.Store)
				if !ok || st.Addr != ssa.Value(al) {
					continue
				}
				call, ok := st.Val.(*ssa.Call)
				if !ok {
					continue
				}
				g := call.Call.StaticCallee()
				if g == nil || !core.InModule(g) {
					continue
				}
				core.AllInstrs(g, func(x ssa.Instruction) {
					a2, ok := x.(*ssa.Alloc)
					if !ok || a2.Referrers() == nil {
						return
					}
					if pt2, ok := a2.Type().(*types.Pointer); !ok || !types.Identical(pt2.Elem(), pudT) {
						return
					}
					for _, r3 := range *a2.Referrers() {
						if fa, ok := r3.(*ssa.FieldAddr); ok && fa.Referrers() != nil {
							f, _ := core.FieldOfAddr(fa)
							for _, r4 := range *fa.Referrers() {
								if s4, ok := r4.(*ssa.Store); ok && s4.Addr == ssa.Value(fa) && f != nil && free[f] {
									attrs[f.Name()] = true
								}
							}
						}
					}
				})
			}
			builds = append(builds, build{fn, al, attrs})
			for a := range attrs {
				union[a] = true
			}
		})
	}
	ord := map[*ssa.Function]int{}
	for _, b := range builds {
		r.Func(fk(b.fn))
		ord[b.fn]++
		var missing []string
		for a := range union {
			if !b.attrs[a] {
				missing = append(missing, a)
			}
		}
		sortStrings(missing)
		r.Check(len(missing) == 0, rule, fmt.Sprintf("%s: p2p participant record #%d", fk(b.fn), ord[b.fn]), c.pos(b.al), "",
			fmt.Sprintf("this record of a p2p participant is built without %v, which the other builders of such records load: {get desc} answers differently depending on how the topic was brought into memory", missing))
	}
	r.Check(len(builds) >= 1, rule, "builders of p2p participant records", "-", fmt.Sprintf("%d", len(builds)), "none: anchor lost")
}

// checkCtrlParamsDynamicType (C20): MsgServerCtrl.Params has static type `any`; the JSON encoder
// renders whatever is in it, the protobuf converter renders only the dynamic types it asserts
// (pbServCtrlSerialize: `ctrl.Params.(T)`), anything else is silently dropped from the gRPC
// rendering of the reply. Every value stored into the field (directly or through `any`-typed
// parameters, followed to the call sites) must therefore have one of the asserted types. A reply
// that its own function hands to a json.Encoder (the long-poll handshake) never reaches the
// converter and is exempt.
func (c *Ctx) checkCtrlParamsDynamicType() {
	r := c.R
	const rule = "C20.1d-ctrl-params-dynamic-type"
	paramsF := c.field("server", "MsgServerCtrl", "Params")
	conv := c.ssaFn("server", "pbServCtrlSerialize")
	if paramsF == nil || conv == nil {
		return
	}
	var accepted []types.Type
	var scanConv func(fn *ssa.Function, isParams func(ssa.Value) bool, d int)
	scanConv = func(fn *ssa.Function, isParams func(ssa.Value) bool, d int) {
		core.AllInstrs(fn, func(in ssa.Instruction) {
			switch x := in.(type) {
			case *ssa.TypeAssert:
				if isParams(x.X) {
					accepted = append(accepted, x.AssertedType)
				}
			case *ssa.Call:
				// the value handed to a helper that does the conversion
				g := x.Call.StaticCallee()
				if g == nil || !core.InModule(g) || len(g.Blocks) == 0 || d >= 2 {
					return
				}
				for i, a := range x.Call.Args {
					if isParams(a) && i < len(g.Params) {
						p := g.Params[i]
						scanConv(g, func(v ssa.Value) bool { return v == ssa.Value(p) }, d+1)
					}
				}
			}
		})
	}
	scanConv(conv, func(v ssa.Value) bool { return core.IsFieldLoad(paramsF)(v) }, 0)
	r.Func(fk(conv))
	if !r.Check(len(accepted) > 0, rule, "types asserted on ctrl.Params by pbServCtrlSerialize", "-", fmt.Sprintf("%v", accepted), "no type assertion on ctrl.Params found in the converter: anchor lost") {
		return
	}
	ok := func(t types.Type) bool {
		for _, a := range accepted {
			if types.Identical(a, t) {
				return true
			}
		}
		return false
	}
	isJSONEncode := func(call *ssa.Call) bool {
		cal := core.CalleeOf(&call.Call)
		return cal != nil && cal.Name() == "Encode" && cal.Pkg() != nil && cal.Pkg().Path() == "encoding/json"
	}
	// the places where a concrete value is boxed into the `any` that ends up in ctrl.Params: the
	// boxing instruction and, when it was passed down through `any`-typed parameters, the call in
	// the boxing function through which it left (the call whose result is the reply)
	type origin struct {
		mi  *ssa.MakeInterface
		top ssa.CallInstruction
	}
	var dyn func(v ssa.Value, d int, seen map[ssa.Value]bool) (os []origin, unknown bool)
	dyn = func(v ssa.Value, d int, seen map[ssa.Value]bool) ([]origin, bool) {
		for {
			if ci, ok := v.(*ssa.ChangeInterface); ok {
				v = ci.X
				continue
			}
			break
		}
		if seen[v] || d > 5 {
			return nil, false
		}
		seen[v] = true
		switch x := v.(type) {
		case *ssa.MakeInterface:
			return []origin{{mi: x}}, false
		case *ssa.Const:
			if x.Value == nil {
				return nil, false // nil interface: nothing to render
			}
		case *ssa.UnOp:
			// a local variable of type any kept in memory: every value stored into it
			if al, ok := x.X.(*ssa.Alloc); ok && x.Op == token.MUL && al.Referrers() != nil {
				var out []origin
				unk := false
				for _, ref := range *al.Referrers() {
					if st, ok := ref.(*ssa.Store); ok && st.Addr == ssa.Value(al) {
						t, u := dyn(st.Val, d+1, seen)
						out = append(out, t...)
						unk = unk || u
					} else if _, isLoad := ref.(*ssa.UnOp); !isLoad {
						if _, isDbg := ref.(*ssa.DebugRef); !isDbg {
							unk = true
						}
					}
				}
				return out, unk
			}
		case *ssa.Phi:
			var out []origin
			unk := false
			for _, e := range x.Edges {
				t, u := dyn(e, d+1, seen)
				out = append(out, t...)
				unk = unk || u
			}
			return out, unk
		case *ssa.Parameter:
			fn := x.Parent()
			idx := -1
			for i, p := range fn.Params {
				if p == x {
					idx = i
				}
			}
			cs := c.callersOf(fn)
			if idx < 0 || len(cs) == 0 {
				return nil, true
			}
			var out []origin
			unk := false
			for _, s := range cs {
				args := s.Site.Common().Args
				if s.Site.Common().IsInvoke() || idx >= len(args) {
					unk = true
					continue
				}
				t, u := dyn(args[idx], d+1, seen)
				for _, o := range t {
					if o.top == nil || o.mi.Parent() == s.Caller {
						o.top = s.Site
					}
					out = append(out, o)
				}
				unk = unk || u
			}
			return out, unk
		}
		return nil, true
	}
	// does the value only go to functions that write it out through a json.Encoder?
	jsonOnlyParam := func(g *ssa.Function, i int) bool {
		if g == nil || i >= len(g.Params) || g.Params[i].Referrers() == nil {
			return false
		}
		for _, ref := range *g.Params[i].Referrers() {
			if mi, ok := ref.(*ssa.MakeInterface); ok && mi.Referrers() != nil {
				for _, r2 := range *mi.Referrers() {
					if call, ok := r2.(*ssa.Call); ok && isJSONEncode(call) {
						return true
					}
				}
			}
		}
		return false
	}
	writtenAsJSON := func(msg ssa.Value) bool {
		if msg == nil || msg.Referrers() == nil {
			return false
		}
		any := false
		for _, ref := range *msg.Referrers() {
			switch x := ref.(type) {
			case *ssa.DebugRef:
			case *ssa.MakeInterface:
				if x.Referrers() != nil {
					for _, r2 := range *x.Referrers() {
						if call, ok := r2.(*ssa.Call); ok && isJSONEncode(call) {
							any = true
						}
					}
				}
			case *ssa.Call:
				g := x.Call.StaticCallee()
				okc := false
				for i, a := range x.Call.Args {
					if a == msg && jsonOnlyParam(g, i) {
						okc = true
					}
				}
				if !okc {
					return false
				}
				any = true
			case *ssa.FieldAddr, *ssa.UnOp:
			default:
				return false
			}
		}
		return any
	}
	n := 0
	reported := map[*ssa.MakeInterface]bool{}
	for _, fn := range c.P.ModFuncs {
		if !core.InPkg(fn, "server") || fn == conv {
			continue
		}
		for _, st := range core.StoresToField(fn, paramsF) {
			n++
			r.Func(fk(fn))
			// the message the field belongs to, when it is a local of this function
			var owner ssa.Value
			if fa, ok := st.Addr.(*ssa.FieldAddr); ok {
				root := fa.X
				for i := 0; i < 6; i++ {
					root = core.Strip(root)
					if ld, ok := root.(*ssa.UnOp); ok && ld.Op == token.MUL {
						root = ld.X
					} else if f2, ok := root.(*ssa.FieldAddr); ok {
						root = f2.X
					} else {
						break
					}
				}
				owner = root
			}
			os, unknown := dyn(st.Val, 0, map[ssa.Value]bool{})
			if unknown {
				construct := fk(fn) + ": value stored in ctrl.Params"
				if k := countSame(r, rule, construct); k > 0 {
					construct = fmt.Sprintf("%s #%d", construct, k+1)
				}
				r.Info(rule, construct, c.pos(st), "a value of unknown origin can be stored (not decided)")
			}
			for _, o := range os {
				if reported[o.mi] {
					continue
				}
				reported[o.mi] = true
				of := o.mi.Parent()
				construct := fmt.Sprintf("%s: %s passed as ctrl.Params", fk(of), types.TypeString(o.mi.X.Type(), nil))
				if k := countSame(r, rule, construct); k > 0 {
					construct = fmt.Sprintf("%s #%d", construct, k+1)
				}
				if ok(o.mi.X.Type()) {
					r.OK(rule, construct, c.pos(o.mi), "a type the converter renders")
					continue
				}
				var msg ssa.Value
				if o.top != nil {
					msg, _ = o.top.(*ssa.Call)
				} else {
					msg = owner
				}
				if writtenAsJSON(msg) {
					r.Info(rule, construct, c.pos(o.mi), "exempt: the reply is written out through a json.Encoder by the function that builds it (HTTP response)")
					continue
				}
				r.Fail(rule, construct, c.pos(o.mi),
					"pbServCtrlSerialize converts only "+fmt.Sprint(accepted)+": the parameters of this reply are dropped from its gRPC rendering while JSON clients receive them")
			}
		}
	}
	r.Check(n >= 5, rule, "stores to ctrl.Params examined", "-", fmt.Sprintf("%d", n), "fewer than five: anchor lost")
}

// checkUpdateKeysIndependent (C08, C03): an update handed to the store is assembled key by key,
// each key behind the test "this attribute changed". The tests are independent: a request that
// changes two attributes must persist both. Structurally: for any two constant keys written into
// the same update map of a Subs.Update / Topics.Update / Users.Update call, one write can be
// reached from the other (they are not alternatives of one switch / if-else chain) - unless the two
// writes are alternatives for the *same* key set (both branches write the same keys).
func (c *Ctx) checkUpdateKeysIndependent() {
	r := c.R
	const rule = "C08.3b-update-keys-independent"
	n := 0
	for _, fn := range c.P.ModFuncs {
		if !core.InPkg(fn, "server") {
			continue
		}
		for _, w := range c.storeWriteSinks(fn) {
			call, ok := w.(*ssa.Call)
			if !ok {
				continue
			}
			f, _ := c.isStoreCall(call)
			if f == nil || f.Name() != "Update" {
				continue
			}
			for _, a := range core.CallArgs(&call.Call) {
				mm, ok := core.Strip(a).(*ssa.MakeMap)
				if !ok || mm.Referrers() == nil {
					continue
				}
				type kw struct {
					key string
					mu  *ssa.MapUpdate
				}
				var ws []kw
				for _, ref := range *mm.Referrers() {
					if mu, ok := ref.(*ssa.MapUpdate); ok && mu.Map == ssa.Value(mm) {
						if k, ok := core.Strip(mu.Key).(*ssa.Const); ok && k.Value != nil && k.Value.Kind() == constant.String {
							ws = append(ws, kw{constant.StringVal(k.Value), mu})
						}
					}
				}
				if len(ws) < 2 {
					continue
				}
				reach := func(x, y *ssa.MapUpdate) bool {
					if x.Block() == y.Block() {
						return true
					}
					seen := map[*ssa.BasicBlock]bool{}
					var dfs func(b *ssa.BasicBlock) bool
					dfs = func(b *ssa.BasicBlock) bool {
						if b == y.Block() {
							return true
						}
						if seen[b] {
							return false
						}
						seen[b] = true
						for _, s := range b.Succs {
							if dfs(s) {
								return true
							}
						}
						return false
					}
					for _, s := range x.Block().Succs {
						if dfs(s) {
							return true
						}
					}
					return false
				}
				// keys written in a block (alternatives that write the same keys are one decision)
				blockKeys := map[*ssa.BasicBlock]map[string]bool{}
				for _, x := range ws {
					if blockKeys[x.mu.Block()] == nil {
						blockKeys[x.mu.Block()] = map[string]bool{}
					}
					blockKeys[x.mu.Block()][x.key] = true
				}
				n++
				r.Func(fk(fn))
				var bad []string
				for i := 0; i < len(ws); i++ {
					for j := i + 1; j < len(ws); j++ {
						x, y := ws[i], ws[j]
						if x.key == y.key || reach(x.mu, y.mu) || reach(y.mu, x.mu) {
							continue
						}
						// alternatives writing the same key sets
						if blockKeys[x.mu.Block()][y.key] && blockKeys[y.mu.Block()][x.key] {
							continue
						}
						bad = append(bad, x.key+"/"+y.key)
					}
				}
				sortStrings(bad)
				construct := fmt.Sprintf("%s: keys of the update given to %s", fk(fn), describeCall(call))
				if k := countSame(r, rule, construct); k > 0 {
					construct = fmt.Sprintf("%s #%d", construct, k+1)
				}
				r.Check(len(bad) == 0, rule, construct, c.pos(call), "",
					fmt.Sprintf("the attributes %v are written into the update as alternatives of one decision: a request that changes both persists only one, while the live topic and the reply show both (cache and store diverge, visible after a reload)", bad))
			}
		}
	}
	r.Check(n >= 3, rule, "update maps with two or more constant keys", "-", fmt.Sprintf("%d", n), "fewer than three: anchor lost")
}

// checkSavedTimestamp (C04): history returns a message with the timestamp it was published with:
// the message handed to Messages.Save carries, as its creation time, the same value that is put
// into the broadcast {data} (and the acknowledgement) - not whatever the store's clock says when
// the row is written (InitTimes fills only a zero CreatedAt).
func (c *Ctx) checkSavedTimestamp() {
	r := c.R
	const rule = "C04.1d-saved-with-publish-timestamp"
	save := c.E().storeIface("MessagesPersistenceInterface", "Save")
	n := 0
	for _, fn := range c.funcsCalling(save, "server") {
		for _, site := range core.CallsTo(fn, save) {
			args := core.CallArgs(site.Common())
			al, ok := core.Strip(args[1]).(*ssa.Alloc)
			// a constructor `newMessageRecord(..., postedAt, ...)` returning the literal: its parameters
			// stand for the arguments of the call
			var ctorCall *ssa.Call
			if !ok {
				if call, isCall := core.Strip(args[1]).(*ssa.Call); isCall {
					if g := call.Call.StaticCallee(); g != nil && core.InModule(g) && len(g.Blocks) > 0 {
						nret := 0
						core.AllInstrs(g, func(in ssa.Instruction) {
							if ret, isRet := in.(*ssa.Return); isRet && len(ret.Results) >= 1 {
								nret++
								if a, isA := core.Strip(ret.Results[0]).(*ssa.Alloc); isA {
									al, ctorCall = a, call
								}
							}
						})
						ok = nret == 1 && al != nil
					}
				}
			}
			n++
			r.Func(fk(fn))
			if !ok {
				r.Info(rule, fk(fn)+": saved CreatedAt is the broadcast Timestamp", c.pos(site), "the message handed to Save is neither a literal nor the result of a constructor returning one (not decided)")
				continue
			}
			// CreatedAt of the embedded header: &lit.ObjHeader.CreatedAt = v, or lit.ObjHeader = hdr
			var created ssa.Value
			var scan func(base ssa.Value, d int)
			scan = func(base ssa.Value, d int) {
				if d > 2 || base.Referrers() == nil {
					return
				}
				for _, ref := range *base.Referrers() {
					fa, ok := ref.(*ssa.FieldAddr)
					if !ok || fa.X != base || fa.Referrers() == nil {
						continue
					}
					f, _ := core.FieldOfAddr(fa)
					if f == nil {
						continue
					}
					switch f.Name() {
					case "CreatedAt":
						for _, r2 := range *fa.Referrers() {
							if st, ok := r2.(*ssa.Store); ok && st.Addr == ssa.Value(fa) {
								created = st.Val
							}
						}
					case "ObjHeader":
						scan(fa, d+1)
						for _, r2 := range *fa.Referrers() {
							if st, ok := r2.(*ssa.Store); ok && st.Addr == ssa.Value(fa) {
								if ld, ok := st.Val.(*ssa.UnOp); ok && ld.Op == token.MUL {
									scan(ld.X, d+1)
								}
							}
						}
					}
				}
			}
			scan(al, 0)
			if p, isP := core.Strip(created).(*ssa.Parameter); isP && created != nil && ctorCall != nil {
				for j, q := range p.Parent().Params {
					if q == p && j < len(ctorCall.Call.Args) {
						created = ctorCall.Call.Args[j]
					}
				}
			}
			var dataAlloc *ssa.Alloc
			c.regionInstrs(c.phaseRoot(fn), func(_ *ssa.Function, in ssa.Instruction) {
				if a, ok := in.(*ssa.Alloc); ok && isPtrToNamed(a.Type(), "MsgServerData") {
					dataAlloc = a
				}
			})
			construct := fk(fn) + ": saved CreatedAt is the broadcast Timestamp"
			if dataAlloc == nil {
				r.Info(rule, construct, c.pos(site), "no {data} literal in the saving function (not decided)")
				continue
			}
			ts := literalFields(dataAlloc)["Timestamp"]
			same := created != nil && ts != nil && (c.rootValue(created) == c.rootValue(ts) || c.sameCarrierField(created, ts) || sameFieldLoad(created, ts))
			r.Check(same, rule, construct, c.pos(site), "",
				"the stored message does not get the publish timestamp that recipients and the acknowledgement carry: history later shows a different time (the store's clock at write time)")
		}
	}
	r.Check(n >= 1, rule, "message literals handed to Messages.Save", "-", fmt.Sprintf("%d", n), "none: anchor lost")
}

// sameFieldLoad: two loads of the same field of the same base value.
func sameFieldLoad(a, b ssa.Value) bool {
	fa, ba := core.LoadedField(core.Strip(a))
	fb, bb := core.LoadedField(core.Strip(b))
	return fa != nil && fa == fb && ba != nil && core.Strip(ba) == core.Strip(bb)
}

// checkLoaderReadsLiveRows (C03, C07): a removed (soft-deleted) subscription keeps its modes in the
// store; the store offers two families of readers, GetSubs/GetUsers (live rows) and
// GetSubsAny/GetUsersAny (all rows, for "what changed since" listings). A function that fills
// Topic.perUser must use the first family: with the second, every removed member is back after a
// reload with the permissions (W included) they had when removed.
func (c *Ctx) checkLoaderReadsLiveRows(rule string) {
	r := c.R
	perUser := c.E().topicField("perUser")
	var anyReaders []*types.Func
	for _, n := range []string{"GetSubsAny", "GetUsersAny"} {
		if f := c.E().storeIface("TopicsPersistenceInterface", n); f != nil {
			anyReaders = append(anyReaders, f)
		}
	}
	live := []*types.Func{c.E().storeIface("TopicsPersistenceInterface", "GetSubs"), c.E().storeIface("TopicsPersistenceInterface", "GetUsers")}
	n := 0
	for _, fn := range c.P.ModFuncs {
		if !core.InPkg(fn, "server") || fn.Parent() != nil {
			continue
		}
		fills := false
		for _, g := range core.WithClosures(fn) {
			core.AllInstrs(g, func(in ssa.Instruction) {
				if mu, ok := in.(*ssa.MapUpdate); ok && core.IsFieldLoad(perUser)(mu.Map) {
					fills = true
				}
				// the filing of one row moved into a helper called per row (`t.cacheSubscriber(sub)`)
				if call, ok := in.(*ssa.Call); ok {
					if h := call.Call.StaticCallee(); h != nil && h != fn && core.InPkg(h, "server") && len(h.Blocks) > 0 && len(h.Blocks) <= 6 {
						core.AllInstrs(h, func(in2 ssa.Instruction) {
							if mu, ok := in2.(*ssa.MapUpdate); ok && core.IsFieldLoad(perUser)(mu.Map) {
								fills = true
							}
						})
					}
				}
			})
		}
		if !fills {
			continue
		}
		var reads, bad []ssa.CallInstruction
		for _, g := range core.WithClosures(fn) {
			for _, f := range live {
				reads = append(reads, core.CallsTo(g, f)...)
			}
			for _, f := range anyReaders {
				bad = append(bad, core.CallsTo(g, f)...)
			}
		}
		if len(reads)+len(bad) == 0 {
			continue
		}
		n++
		r.Func(fk(fn))
		var at ssa.Instruction
		if len(bad) > 0 {
			at = bad[0]
		} else {
			at = reads[0]
		}
		r.Check(len(bad) == 0, rule, fk(fn)+": subscriptions loaded into Topic.perUser are live rows", c.pos(at), "",
			"the function that fills Topic.perUser reads the subscriptions with a reader that also returns soft-deleted rows: removed members come back after a reload with their old permissions")
	}
	r.Check(n >= 2, rule, "loaders of Topic.perUser that read subscriptions from the store", "-", fmt.Sprintf("%d", n), "fewer than two: anchor lost")
}

// checkFndDefaultAccessNone (C07): the search topic admits only its own user: the default access
// the rest of the code derives for it (getDefaultAccess) is "none". Every return of a value other
// than the constant ModeNone is reachable only through a test that the category is one of the other
// categories.
func (c *Ctx) checkFndDefaultAccessNone() {
	r := c.R
	const rule = "C07.6b-search-topic-default-access-none"
	top := c.ssaFn("server", "getDefaultAccess")
	none := c.konst("server/store/types", "ModeNone")
	catT := c.P.NamedType("server/store/types", "TopicCat")
	if top == nil || none == nil || catT == nil {
		return
	}
	// getDefaultAccess and the helpers it delegates to (a return of the result of a module function
	// that takes the category)
	catParam := func(fn *ssa.Function) *ssa.Parameter {
		for _, p := range fn.Params {
			if types.Identical(p.Type(), catT) {
				return p
			}
		}
		return nil
	}
	fns := []*ssa.Function{top}
	seen := map[*ssa.Function]bool{top: true}
	for i := 0; i < len(fns) && i < 4; i++ {
		core.AllInstrs(fns[i], func(in ssa.Instruction) {
			ret, ok := in.(*ssa.Return)
			if !ok || len(ret.Results) != 1 {
				return
			}
			if call, ok := core.Strip(ret.Results[0]).(*ssa.Call); ok {
				if g := call.Call.StaticCallee(); g != nil && core.InModule(g) && len(g.Blocks) > 0 && catParam(g) != nil && !seen[g] {
					seen[g] = true
					fns = append(fns, g)
				}
			}
		})
	}
	n := 0
	for _, fn := range fns {
		catP := catParam(fn)
		if catP == nil {
			continue
		}
		r.Func(fk(fn))
		isCat := func(v ssa.Value) bool { return core.Strip(v) == ssa.Value(catP) }
		var gs []core.Guard
		for _, kn := range []string{"TopicCatMe", "TopicCatGrp", "TopicCatP2P", "TopicCatSys"} {
			if k := c.konst("server/store/types", kn); k != nil {
				gs = append(gs, core.EqGuard("cat=="+kn, isCat, core.IsConstOf(k), true))
			}
		}
		k := 0
		core.AllInstrs(fn, func(in ssa.Instruction) {
			ret, ok := in.(*ssa.Return)
			if !ok || len(ret.Results) != 1 || core.IsConstOf(none)(ret.Results[0]) {
				return
			}
			if call, ok := core.Strip(ret.Results[0]).(*ssa.Call); ok {
				if g := call.Call.StaticCallee(); g != nil && seen[g] {
					return // decided in the helper
				}
			}
			n++
			k++
			saved := core.NoLift
			core.NoLift = true
			g, _ := core.GuardedBy(fn, ret, gs...)
			core.NoLift = saved
			construct := fmt.Sprintf("%s: return of a mode other than N #%d", fk(fn), k)
			r.Check(g, rule, construct, c.pos(ret), "only for a me, group, p2p or sys topic",
				"a default access other than N can be returned for the search topic: another user's {sub} to the raw fndXXX name is admitted")
		})
	}
	r.Check(n >= 2, rule, "returns of getDefaultAccess examined", "-", fmt.Sprintf("%d", n), "fewer than two: anchor lost")
}

// checkPayloadFreshPerMessage (C10): a {pres}/{info} message built inside a loop - one message per
// recipient - gets a payload struct of its own. The receiving 'me' topic edits the payload in
// place (it strips the "+en"/"+dis" command from Pres.What) and on one node the hub hands pointers
// on, so a payload shared by the messages of one loop is changed for the later recipients by the
// first one. Structurally: when a ServerComMessage literal is allocated inside a cycle of the CFG,
// every payload pointer stored into it is allocated inside every such cycle too (no path from the
// message's allocation back to itself avoids the payload's allocation), or is the result of a call
// (a copy).
func (c *Ctx) checkPayloadFreshPerMessage() {
	r := c.R
	const rule = "C10.6-payload-fresh-per-recipient"
	scm := c.P.NamedType("server", "ServerComMessage")
	if scm == nil {
		c.lost("type server.ServerComMessage")
		return
	}
	payload := map[string]bool{"Pres": true, "Info": true, "Data": true, "Ctrl": true, "Meta": true}
	n := 0
	for _, fn := range c.P.ModFuncs {
		if !core.InPkg(fn, "server") {
			continue
		}
		core.AllInstrs(fn, func(in ssa.Instruction) {
			al, ok := in.(*ssa.Alloc)
			if !ok || al.Referrers() == nil {
				return
			}
			pt, ok := al.Type().(*types.Pointer)
			if !ok || !types.Identical(pt.Elem(), scm) {
				return
			}
			// cycles through the allocation
			ba := al.Block()
			cycleAvoiding := func(avoid *ssa.BasicBlock) bool {
				seen := map[*ssa.BasicBlock]bool{}
				var dfs func(b *ssa.BasicBlock) bool
				dfs = func(b *ssa.BasicBlock) bool {
					if b == ba {
						return true
					}
					if b == avoid || seen[b] {
						return false
					}
					seen[b] = true
					for _, s := range b.Succs {
						if dfs(s) {
							return true
						}
					}
					return false
				}
				for _, s := range ba.Succs {
					if dfs(s) {
						return true
					}
				}
				return false
			}
			if !cycleAvoiding(nil) {
				return // not in a loop
			}
			for _, ref := range *al.Referrers() {
				fa, ok := ref.(*ssa.FieldAddr)
				if !ok || fa.Referrers() == nil {
					continue
				}
				f, _ := core.FieldOfAddr(fa)
				if f == nil || !payload[f.Name()] {
					continue
				}
				for _, r2 := range *fa.Referrers() {
					st, ok := r2.(*ssa.Store)
					if !ok || st.Addr != ssa.Value(fa) {
						continue
					}
					v := st.Val
					if k, isK := v.(*ssa.Const); isK && k.Value == nil {
						continue
					}
					n++
					r.Func(fk(fn))
					construct := fmt.Sprintf("%s: %s of a message built per recipient", fk(fn), f.Name())
					if k := countSame(r, rule, construct); k > 0 {
						construct = fmt.Sprintf("%s #%d", construct, k+1)
					}
					okv := false
					detail := ""
					switch x := v.(type) {
					case *ssa.Alloc:
						okv = x.Block() == ba || !cycleAvoiding(x.Block())
						detail = "allocated once outside the loop"
					case *ssa.Call:
						okv = x.Block() == ba || !cycleAvoiding(x.Block())
						detail = "computed once outside the loop"
					default:
						// a parameter, a captured variable, a field: the same object for every message
						detail = "the same object for every message of the loop"
					}
					r.Check(okv, rule, construct, c.pos(st), "allocated in the same iteration",
						"the messages built in this loop share one payload struct ("+detail+"): a recipient that edits it (the 'me' topic strips the +en/+dis command from Pres.What) changes it for the recipients that follow")
				}
			}
		})
	}
	r.Check(n >= 3, rule, "payloads of messages built inside loops", "-", fmt.Sprintf("%d", n), "fewer than three: anchor lost")
}

// checkIntersectionPairsAreGenerations (C10, C05): a function that receives the modes before and
// after a change (oldWant, oldGiven, newWant, newGiven) decides on the effective permission of each
// generation, `old want & old given` and `new want & new given`. An intersection that mixes the
// generations (`oldWant & newGiven`) is not the effective permission of anything. Structurally: in
// a function with three or more AccessMode parameters the `&` of two mode parameters pairs them
// off - no parameter is intersected with two different partners.
func (c *Ctx) checkIntersectionPairsAreGenerations(rule string) {
	r := c.R
	am := c.P.NamedType("server/store/types", "AccessMode")
	if am == nil {
		c.lost("type types.AccessMode")
		return
	}
	n := 0
	for _, fn := range c.P.ModFuncs {
		if !core.InPkg(fn, "server") || fn.Parent() != nil {
			continue
		}
		var mps []*ssa.Parameter
		for _, p := range fn.Params {
			if types.Identical(p.Type(), am) {
				mps = append(mps, p)
			}
		}
		if len(mps) < 3 {
			continue
		}
		isMP := func(v ssa.Value) *ssa.Parameter {
			p, _ := core.Strip(v).(*ssa.Parameter)
			for _, q := range mps {
				if q == p {
					return q
				}
			}
			return nil
		}
		partners := map[*ssa.Parameter]map[*ssa.Parameter]ssa.Instruction{}
		for _, g := range core.WithClosures(fn) {
			core.AllInstrs(g, func(in ssa.Instruction) {
				b, ok := in.(*ssa.BinOp)
				if !ok || b.Op != token.AND {
					return
				}
				x, y := isMP(b.X), isMP(b.Y)
				if x == nil || y == nil || x == y {
					return
				}
				for _, pr := range [][2]*ssa.Parameter{{x, y}, {y, x}} {
					if partners[pr[0]] == nil {
						partners[pr[0]] = map[*ssa.Parameter]ssa.Instruction{}
					}
					if partners[pr[0]][pr[1]] == nil {
						partners[pr[0]][pr[1]] = in
					}
				}
			})
		}
		if len(partners) == 0 {
			continue
		}
		n++
		r.Func(fk(fn))
		for _, p := range mps {
			ps := partners[p]
			if len(ps) == 0 {
				continue
			}
			var names []string
			var at ssa.Instruction
			for q, in := range ps {
				names = append(names, q.Name())
				at = in
			}
			sortStrings(names)
			r.Check(len(ps) == 1, rule, fmt.Sprintf("%s: %s is intersected with one partner", fk(fn), p.Name()), c.pos(at), "& "+names[0],
				fmt.Sprintf("%s is intersected with %v: one of these mixes the modes before and after the change, which is the effective permission of neither", p.Name(), names))
		}
	}
	r.Check(n >= 1, rule, "functions receiving both generations of a pair of modes", "-", fmt.Sprintf("%d", n), "none: anchor lost")
}

// checkChannelPushNotDropped (C02): channel readers are reached through the channel's broadcast
// address (Receipt.Channel), not through Receipt.To; a push receipt for a channel topic therefore
// is never "nobody to notify". Structurally, in every function that sets Receipt.Channel: with
// Topic.isChan true, no path from the entry reaches a return of a nil receipt without having passed
// the assignment of the channel address (the address is set before the nothing-to-do exit is
// decided).
func (c *Ctx) checkChannelPushNotDropped() {
	r := c.R
	const rule = "C02.5c-channel-push-not-dropped"
	chanF := c.field("server/push", "Receipt", "Channel")
	isChanF := c.E().topicField("isChan")
	if chanF == nil || isChanF == nil {
		return
	}
	n := 0
	for _, fn := range c.P.ModFuncs {
		if !core.InPkg(fn, "server") || fn.Parent() != nil {
			continue
		}
		stores := core.StoresToField(fn, chanF)
		if len(stores) == 0 {
			continue
		}
		isStore := func(in ssa.Instruction) bool {
			for _, s := range stores {
				if ssa.Instruction(s) == in {
					return true
				}
			}
			return false
		}
		cut, _ := core.PassEdges(fn, core.BoolGuard("!t.isChan", core.IsFieldLoad(isChanF), false))
		var nilRets []*ssa.Return
		core.AllInstrs(fn, func(in ssa.Instruction) {
			if ret, ok := in.(*ssa.Return); ok && len(ret.Results) >= 1 && core.IsNil(ret.Results[0]) {
				nilRets = append(nilRets, ret)
			}
		})
		n++
		r.Func(fk(fn))
		bad := false
		var where ssa.Instruction
		for _, ret := range nilRets {
			if found, _ := core.PathAvoiding(fn, nil, func(in ssa.Instruction) bool { return in == ssa.Instruction(ret) }, isStore, cut); found {
				bad, where = true, ret
			}
		}
		r.Check(!bad, rule, fk(fn)+": no nil receipt for a channel before its address is set", c.pos(stores[0]), "",
			"for a channel topic the function can return 'nobody to notify'"+posOf(c, where)+" before the channel address is assigned: a channel whose regular subscribers are muted or absent sends no push to its readers")
	}
	r.Check(n >= 1, rule, "functions that set Receipt.Channel", "-", fmt.Sprintf("%d", n), "none: anchor lost")
}

// checkLockReleasedOnEveryPath (C14): request bookkeeping never blocks a session or a topic for
// ever: a mutex taken in a function is released by that function on every path to a return -
// by an Unlock/RUnlock of the same mutex on the path or by a deferred one registered on the path.
// Decided for every sync.Mutex / sync.RWMutex Lock/RLock call in package server whose function also
// contains a matching unlock (a lock handed over to another function is listed, not decided).
func (c *Ctx) checkLockReleasedOnEveryPath() {
	r := c.R
	const rule = "C14.2d-lock-released-on-every-path"
	lockKind := func(call *ssa.CallCommon) (string, ssa.Value) {
		f := core.CalleeOf(call)
		if f == nil || f.Pkg() == nil || f.Pkg().Path() != "sync" || len(call.Args) == 0 {
			return "", nil
		}
		recv := f.Type().(*types.Signature).Recv()
		if recv == nil {
			return "", nil
		}
		switch f.Name() {
		case "Lock", "RLock", "Unlock", "RUnlock":
			return f.Name(), call.Args[0]
		}
		return "", nil
	}
	n := 0
	for _, fn := range c.P.ModFuncs {
		if !core.InPkg(fn, "server") {
			continue
		}
		core.AllInstrs(fn, func(in ssa.Instruction) {
			call, ok := in.(*ssa.Call)
			if !ok {
				return
			}
			kind, mu := lockKind(&call.Call)
			if kind != "Lock" && kind != "RLock" {
				return
			}
			want := "Unlock"
			if kind == "RLock" {
				want = "RUnlock"
			}
			releases := func(x ssa.Instruction) bool {
				switch y := x.(type) {
				case *ssa.Call:
					k, m := lockKind(&y.Call)
					return k == want && sameValue(m, mu, 0)
				case *ssa.Defer:
					k, m := lockKind(&y.Call)
					if k == want && sameValue(m, mu, 0) {
						return true
					}
					// defer func() { ...; mu.Unlock() }()
					if g := y.Call.StaticCallee(); g != nil && g.Parent() == fn {
						found := false
						core.AllInstrs(g, func(z ssa.Instruction) {
							if zc, ok := z.(*ssa.Call); ok {
								if k2, m2 := lockKind(&zc.Call); k2 == want && sameValue(m2, mu, 0) {
									found = true
								}
							}
						})
						return found
					}
				}
				return false
			}
			has := false
			core.AllInstrs(fn, func(x ssa.Instruction) {
				if releases(x) {
					has = true
				}
			})
			f, _ := core.FieldOfAddr(core.Strip(mu))
			name := "mutex"
			if f != nil {
				name = f.Name()
			}
			construct := fmt.Sprintf("%s: %s.%s() released on every path", fk(fn), name, kind)
			if k := countSame(r, rule, construct); k > 0 {
				construct = fmt.Sprintf("%s #%d", construct, k+1)
			}
			if !has {
				r.Info(rule, construct, c.pos(call), "no matching "+want+" in this function: the lock is handed over (not decided)")
				return
			}
			n++
			r.Func(fk(fn))
			found, where := core.PathAvoiding(fn, call, func(x ssa.Instruction) bool { _, isRet := x.(*ssa.Return); return isRet }, releases, nil)
			r.Check(!found, rule, construct, c.pos(call), "",
				"a path from the "+kind+"() to a return"+posOf(c, where)+" passes no "+want+"(): the next goroutine that needs the mutex (the topic's own, for Session.subsLock) blocks for ever")
		})
	}
	r.Check(n >= 15, rule, "Lock/RLock calls with a matching unlock in the same function", "-", fmt.Sprintf("%d", n), "fewer than fifteen: anchor lost")
}

// checkNoNestedTransaction (C18): an operation that runs in a transaction does not call, while it
// is open, another adapter operation that opens (and commits) a transaction of its own: that part
// would survive the outer rollback. Decided over the static calls of every transactional function
// of the SQL adapters and its function literals.
func (c *Ctx) checkNoNestedTransaction() {
	r := c.R
	const rule = "C18.2b-no-nested-transaction"
	n := 0
	for _, rel := range []string{"server/db/mysql", "server/db/postgres"} {
		opens := map[*ssa.Function]bool{}
		for _, fn := range c.P.ModFuncs {
			if core.InPkg(fn, rel) && len(findTxBegins(fn)) > 0 {
				opens[core.TopFunc(fn)] = true
			}
		}
		// functions that reach an opener through static calls (two levels)
		reach := map[*ssa.Function]bool{}
		for f := range opens {
			reach[f] = true
		}
		for i := 0; i < 2; i++ {
			for _, fn := range c.P.ModFuncs {
				if !core.InPkg(fn, rel) || reach[core.TopFunc(fn)] {
					continue
				}
				core.AllInstrs(fn, func(in ssa.Instruction) {
					if ci, ok := in.(ssa.CallInstruction); ok {
						if g := ci.Common().StaticCallee(); g != nil && reach[core.TopFunc(g)] {
							reach[core.TopFunc(fn)] = true
						}
					}
				})
			}
		}
		for top := range opens {
			n++
			r.Func(fk(top))
			var bad ssa.Instruction
			badName := ""
			for _, g := range core.WithClosures(top) {
				begins := findTxBegins(top)
				core.AllInstrs(g, func(in ssa.Instruction) {
					ci, ok := in.(ssa.CallInstruction)
					if !ok || bad != nil {
						return
					}
					cal := ci.Common().StaticCallee()
					if cal == nil || core.TopFunc(cal) == top || !reach[core.TopFunc(cal)] {
						return
					}
					// only calls that can happen while the transaction is open: after a Begin of this function
					after := g != top
					for _, b := range begins {
						if b.call.Block() == in.Block() || b.call.Block().Dominates(in.Block()) {
							after = true
						}
					}
					if after {
						bad, badName = in, fk(cal)
					}
				})
			}
			r.Check(bad == nil, rule, fk(top)+": no other transaction is opened while this one is open", c.P.Pos(top.Pos()), "",
				"calls "+badName+posOf(c, bad)+", which opens and commits a transaction of its own: that part of the operation is not undone when this transaction is rolled back")
		}
	}
	r.Check(n >= 30, rule, "transactional functions examined", "-", fmt.Sprintf("%d", n), "fewer than thirty: anchor lost")
}

// checkCommitErrorReported (C18): a failed Commit means nothing was written: the caller must learn
// of it. The error result of every Commit in the SQL adapters is returned, tested, or stored into
// a variable that is returned - and when the Commit sits in a deferred function literal, that
// variable must be a named result of the enclosing function (a deferred literal runs after the
// values of unnamed results were fixed).
func (c *Ctx) checkCommitErrorReported() {
	r := c.R
	const rule = "C18.1c-commit-error-reported"
	n := 0
	for _, rel := range []string{"server/db/mysql", "server/db/postgres"} {
		for _, fn := range c.P.ModFuncs {
			if !core.InPkg(fn, rel) {
				continue
			}
			core.AllInstrs(fn, func(in ssa.Instruction) {
				ci, ok := in.(ssa.CallInstruction)
				if !ok {
					return
				}
				f := core.CalleeOf(ci.Common())
				if f == nil || f.Name() != "Commit" {
					return
				}
				args := core.CallArgs(ci.Common())
				if len(args) == 0 || !hasMethods(args[0].Type(), "Commit", "Rollback") {
					return
				}
				n++
				r.Func(fk(fn))
				construct := fk(fn) + ": error of Commit is reported"
				if k := countSame(r, rule, construct); k > 0 {
					construct = fmt.Sprintf("%s #%d", construct, k+1)
				}
				v, isVal := in.(*ssa.Call)
				if !isVal {
					r.Fail(rule, construct, c.pos(in), "Commit is deferred or run as a goroutine: its error cannot be reported")
					return
				}
				deferred := false
				if p := fn.Parent(); p != nil {
					core.AllInstrs(p, func(x ssa.Instruction) {
						if d, ok := x.(*ssa.Defer); ok && d.Call.StaticCallee() == fn {
							deferred = true
						}
						if d, ok := x.(*ssa.Defer); ok {
							if mc, ok := d.Call.Value.(*ssa.MakeClosure); ok && mc.Fn == ssa.Value(fn) {
								deferred = true
							}
						}
					})
				}
				good, why := false, "the result is dropped"
				if v.Referrers() != nil {
					for _, ref := range *v.Referrers() {
						switch x := ref.(type) {
						case *ssa.Return:
							good = true
						case *ssa.BinOp, *ssa.If:
							good = true
						case *ssa.Phi:
							good = true // merged with other errors that are returned/tested (C18.3 decides those)
						case *ssa.Store:
							cell := x.Addr
							if fv, ok := cell.(*ssa.FreeVar); ok {
								if b := core.FreeVarBinding(fv); b != nil {
									cell = b
								}
							}
							al, ok := cell.(*ssa.Alloc)
							if !ok {
								continue
							}
							owner := al.Parent()
							// loads of the cell that are operands of returns of the owner
							inAll, inSome := true, false
							core.AllInstrs(owner, func(y ssa.Instruction) {
								ret, ok := y.(*ssa.Return)
								if !ok {
									return
								}
								has := false
								for _, res := range ret.Results {
									if ld, ok := res.(*ssa.UnOp); ok && ld.Op == token.MUL && ld.X == ssa.Value(al) {
										has = true
									}
								}
								if has {
									inSome = true
								} else {
									inAll = false
								}
							})
							if deferred {
								if inAll && inSome {
									good = true
								} else {
									why = "the Commit runs in a deferred function literal and stores its error into a variable that is not a named result: the function has already fixed what it returns"
								}
							} else if inSome || cellTested(al) {
								good = true
							}
						}
					}
				}
				r.Check(good, rule, construct, c.pos(in), "", why+": a failed commit (deadline expired, connection lost, serialisation conflict) is reported as success although nothing was written")
			})
		}
	}
	r.Check(n >= 40, rule, "Commit calls examined", "-", fmt.Sprintf("%d", n), "fewer than forty: anchor lost")
}

// cellTested: some load of the cell is compared or branched on.
func cellTested(al *ssa.Alloc) bool {
	if al.Referrers() == nil {
		return false
	}
	for _, ref := range *al.Referrers() {
		ld, ok := ref.(*ssa.UnOp)
		if !ok || ld.Referrers() == nil {
			continue
		}
		for _, r2 := range *ld.Referrers() {
			switch r2.(type) {
			case *ssa.BinOp, *ssa.If, *ssa.Return:
				return true
			}
		}
	}
	return false
}

// checkCompletionChannelSignalled (C13, C14): a function that is handed a channel to report
// completion on (it sends on a channel-typed parameter somewhere) reports on every path: with the
// parameter non-nil, no path from the entry reaches a return without a send on it (or without
// handing it on: passed to a call, stored, captured by a function literal). The waiting side
// (a session's read loop in replyDelUser, the shutdown sequence) otherwise waits for ever.
func (c *Ctx) checkCompletionChannelSignalled(rule string) {
	r := c.R
	n := 0
	for _, fn := range c.P.ModFuncs {
		if !core.InPkg(fn, "server") || fn.Parent() != nil {
			continue
		}
		for _, p := range fn.Params {
			ch, ok := p.Type().Underlying().(*types.Chan)
			if !ok || ch.Dir() == types.RecvOnly {
				continue
			}
			isP := func(v ssa.Value) bool { return core.Strip(v) == ssa.Value(p) }
			sends := false
			core.AllInstrs(fn, func(in ssa.Instruction) {
				if s, ok := in.(*ssa.Send); ok && isP(s.Chan) {
					sends = true
				}
				if s, ok := in.(*ssa.Select); ok {
					for _, st := range s.States {
						if st.Dir == types.SendOnly && isP(st.Chan) {
							sends = true
						}
					}
				}
			})
			if !sends {
				continue
			}
			n++
			r.Func(fk(fn))
			discharges := func(in ssa.Instruction) bool {
				switch x := in.(type) {
				case *ssa.Send:
					return isP(x.Chan)
				case *ssa.Select:
					for _, st := range x.States {
						if st.Dir == types.SendOnly && isP(st.Chan) {
							return true
						}
					}
				case *ssa.Store:
					return isP(x.Val)
				case *ssa.MakeClosure:
					for _, b := range x.Bindings {
						if isP(b) {
							return true
						}
					}
				case ssa.CallInstruction:
					for _, a := range x.Common().Args {
						if isP(a) {
							return true
						}
					}
				}
				return false
			}
			cut, _ := core.PassEdges(fn, core.NilGuard(p.Name()+"==nil", func(v ssa.Value) bool { return isP(v) }, true))
			found, where := core.PathAvoiding(fn, nil, func(in ssa.Instruction) bool { _, isRet := in.(*ssa.Return); return isRet }, discharges, cut)
			r.Check(!found, rule, fmt.Sprintf("%s: completion is reported on %s on every path", fk(fn), p.Name()), c.P.Pos(fn.Pos()), "",
				"a path to a return"+posOf(c, where)+" reports nothing on the completion channel although one was given: whoever waits for it (the session's read loop in {del user}, the shutdown sequence) waits for ever")
		}
	}
	r.Check(n >= 1, rule, "functions that report completion on a channel parameter", "-", fmt.Sprintf("%d", n), "none: anchor lost")
}

// checkResultNotReallocated (C20): a converter that assembles its result from optional parts
// allocates the result lazily (`if msg == nil { msg = &T{} }`) before each part. An allocation
// that can follow another allocation of the result without that test throws the parts decoded so far
// away (a request with both parts present loses one of them on the gRPC path only). Structurally,
// for every function of package server that returns *T and allocates T more than once: an
// allocation reachable from another one is reachable only through `x == nil` on a value of type *T.
func (c *Ctx) checkResultNotReallocated() {
	r := c.R
	const rule = "C20.1e-result-not-reallocated"
	n := 0
	for _, fn := range c.P.ModFuncs {
		if !core.InPkg(fn, "server") || fn.Parent() != nil || fn.Signature.Results().Len() != 1 {
			continue
		}
		rt, ok := fn.Signature.Results().At(0).Type().(*types.Pointer)
		if !ok {
			continue
		}
		if _, isStruct := rt.Elem().Underlying().(*types.Struct); !isStruct {
			continue
		}
		// allocations that flow to the result (directly or through phis)
		flows := map[ssa.Value]bool{}
		var mark func(v ssa.Value, d int)
		mark = func(v ssa.Value, d int) {
			if flows[v] || d > 6 {
				return
			}
			flows[v] = true
			if phi, ok := v.(*ssa.Phi); ok {
				for _, e := range phi.Edges {
					mark(e, d+1)
				}
			}
		}
		core.AllInstrs(fn, func(in ssa.Instruction) {
			if ret, ok := in.(*ssa.Return); ok && len(ret.Results) == 1 {
				mark(ret.Results[0], 0)
			}
		})
		var allocs []*ssa.Alloc
		core.AllInstrs(fn, func(in ssa.Instruction) {
			if al, ok := in.(*ssa.Alloc); ok && al.Heap && flows[al] && types.Identical(al.Type(), rt) {
				allocs = append(allocs, al)
			}
		})
		if len(allocs) < 2 {
			continue
		}
		n++
		r.Func(fk(fn))
		reach := func(a, b *ssa.BasicBlock) bool {
			seen := map[*ssa.BasicBlock]bool{}
			var dfs func(x *ssa.BasicBlock) bool
			dfs = func(x *ssa.BasicBlock) bool {
				if x == b {
					return true
				}
				if seen[x] {
					return false
				}
				seen[x] = true
				for _, s := range x.Succs {
					if dfs(s) {
						return true
					}
				}
				return false
			}
			for _, s := range a.Succs {
				if dfs(s) {
					return true
				}
			}
			return false
		}
		g := core.NilGuard("result==nil", func(v ssa.Value) bool { return types.Identical(v.Type(), rt) }, true)
		for i, a2 := range allocs {
			follows := false
			for _, a1 := range allocs {
				if a1 != a2 && (reach(a1.Block(), a2.Block())) {
					follows = true
				}
			}
			if !follows {
				continue
			}
			saved := core.NoLift
			core.NoLift = true
			ok, cnt := core.GuardedBy(fn, a2, g)
			core.NoLift = saved
			r.Check(ok && cnt[0] > 0, rule, fmt.Sprintf("%s: allocation #%d of the result happens only while it is still nil", fk(fn), i+1), c.pos(a2), "",
				"the result is allocated again after an earlier part may already have been decoded into it: a message that carries both parts loses the earlier one (on this path only; the JSON path keeps both)")
		}
	}
	if n == 0 {
		r.Info(rule, "converters that allocate their result lazily", "-", "none on this tree (nothing to decide)")
	}
}

// checkAcceptRecordedAfterPublished (C15): an accepted call is a call whose acceptance was
// published (the replacement message was saved): the callee becomes a party and the acceptance
// time is set only after saveAndBroadcastMessage succeeded. If the record is made first and the
// write fails, the call is "accepted" with two parties and no published acceptance.
func (c *Ctx) checkAcceptRecordedAfterPublished() {
	r := c.R
	const rule = "C15.1d-accept-recorded-after-published"
	partiesF := c.field("server", "videoCall", "parties")
	acceptedF := c.field("server", "videoCall", "acceptedAt")
	save := c.method("server", "Topic", "saveAndBroadcastMessage")
	if partiesF == nil || acceptedF == nil || save == nil {
		return
	}
	// publishers: saveAndBroadcastMessage and the helpers that wrap it (return its error)
	pub := map[*ssa.Function]bool{}
	if f := c.P.SSAFunc(save); f != nil {
		pub[f] = true
	}
	for i := 0; i < 2; i++ {
		for _, g := range c.P.ModFuncs {
			if !core.InPkg(g, "server") || pub[g] || g.Signature.Results().Len() == 0 || errIndex(g.Signature) < 0 {
				continue
			}
			core.AllInstrs(g, func(in ssa.Instruction) {
				if ci, ok := in.(ssa.CallInstruction); ok {
					if cal := ci.Common().StaticCallee(); cal != nil && pub[cal] {
						pub[g] = true
					}
				}
			})
		}
	}
	n := 0
	for _, fn := range c.P.ModFuncs {
		if !core.InPkg(fn, "server") || pub[fn] {
			continue
		}
		var saves []ssa.CallInstruction
		core.AllInstrs(fn, func(in ssa.Instruction) {
			if ci, ok := in.(*ssa.Call); ok {
				if cal := ci.Call.StaticCallee(); cal != nil && pub[cal] {
					saves = append(saves, ci)
				}
			}
		})
		if len(saves) == 0 {
			continue
		}
		var sinks []ssa.Instruction
		core.AllInstrs(fn, func(in ssa.Instruction) {
			switch x := in.(type) {
			case *ssa.MapUpdate:
				if core.IsFieldLoad(partiesF)(x.Map) {
					sinks = append(sinks, in)
				}
			case *ssa.Store:
				if f, _ := core.FieldOfAddr(x.Addr); f == acceptedF {
					sinks = append(sinks, in)
				}
			case *ssa.Call:
				// the party added through a method of the call record (`t.currentCall.addParty(sess, uid, false)`)
				if h := x.Call.StaticCallee(); h != nil && h != fn && core.InPkg(h, "server") && len(h.Blocks) > 0 && len(h.Blocks) <= 3 {
					adds := false
					core.AllInstrs(h, func(in2 ssa.Instruction) {
						if mu, ok := in2.(*ssa.MapUpdate); ok && core.IsFieldLoad(partiesF)(mu.Map) {
							adds = true
						}
					})
					if adds {
						sinks = append(sinks, in)
					}
				}
			}
		})
		for i, s := range sinks {
			n++
			r.Func(fk(fn))
			ok := false
			for _, sv := range saves {
				if c.afterSuccessOf(fn, sv, s) {
					ok = true
				}
			}
			r.Check(ok, rule, fmt.Sprintf("%s: call record update #%d after the acceptance was saved", fk(fn), i+1), c.pos(s), "",
				"the callee is recorded as a party / the call as accepted before the replacement message is saved: when that write fails the call stays accepted with nothing published, the establishment timer is stopped and the topic is busy for ever")
		}
	}
	r.Check(n >= 2, rule, "updates of the call record in functions that publish", "-", fmt.Sprintf("%d", n), "fewer than two: anchor lost")
}

// checkScalarCodecPairs (C20): two small codec pairs whose halves must agree.
//   - base32 spelling of an id: Uid.String32 lower-cases the standard (upper-case alphabet) encoding;
//     ParseUid32 must undo that (strings.ToUpper) before it decodes with the same alphabet, or every
//     id whose spelling contains a letter decodes to the zero id.
//   - timestamps on the wire are milliseconds: timeToInt64 divides nanoseconds by 1e6, int64ToTime
//     must scale the sub-second remainder back by 1e6 (or use time.UnixMilli): passing milliseconds
//     where time.Unix expects nanoseconds moves every timestamp received over gRPC by up to 999 ms.
func (c *Ctx) checkScalarCodecPairs() {
	r := c.R
	callsNamed := func(fn *ssa.Function, pkg, name string) []*ssa.Call {
		var out []*ssa.Call
		if fn == nil {
			return nil
		}
		core.AllInstrs(fn, func(in ssa.Instruction) {
			if call, ok := in.(*ssa.Call); ok {
				if f := core.CalleeOf(&call.Call); f != nil && f.Name() == name && f.Pkg() != nil && f.Pkg().Path() == pkg {
					out = append(out, call)
				}
			}
		})
		return out
	}
	// (1) base32
	enc := c.ssaMethod("server/store/types", "Uid", "String32")
	dec := c.ssaFn("server/store/types", "ParseUid32")
	if enc != nil && dec != nil {
		r.Func(fk(enc))
		r.Func(fk(dec))
		lower := len(callsNamed(enc, "strings", "ToLower")) > 0
		upperE := len(callsNamed(enc, "strings", "ToUpper")) > 0
		decodes := callsNamed(dec, "encoding/base32", "DecodeString")
		// or in a decoding helper of ParseUid32 (`data, ok := decodeBase32(s)`)
		core.AllInstrs(dec, func(in ssa.Instruction) {
			if call, ok := in.(*ssa.Call); ok {
				if g := call.Call.StaticCallee(); g != nil && g != dec && core.InModule(g) && len(g.Blocks) > 0 {
					decodes = append(decodes, callsNamed(g, "encoding/base32", "DecodeString")...)
				}
			}
		})
		okPair := true
		why := ""
		if lower && !upperE {
			// the decoder's input must pass through ToUpper
			okPair = false
			why = "String32 lower-cases the encoding, ParseUid32 decodes with the upper-case alphabet without upper-casing its input"
			for _, d := range decodes {
				args := core.CallArgs(&d.Call)
				for _, a := range args {
					if call, isCall := core.Strip(a).(*ssa.Call); isCall {
						if f := core.CalleeOf(&call.Call); f != nil && f.Name() == "ToUpper" {
							okPair = true
						}
					}
				}
			}
		}
		r.Check(okPair && len(decodes) > 0, "C20.4e-base32-case-agreement", "Uid.String32 / ParseUid32 agree on the case of the base32 spelling", c.P.Pos(dec.Pos()), "",
			why+": ParseUid32(uid.String32()) is the zero id for every id whose spelling contains a letter")
	}
	// (2) milliseconds
	toT := c.ssaFn("server", "int64ToTime")
	fromT := c.ssaFn("server", "timeToInt64")
	if toT != nil && fromT != nil {
		r.Func(fk(toT))
		good := len(callsNamed(toT, "time", "UnixMilli")) > 0
		var at ssa.Instruction
		for _, u := range callsNamed(toT, "time", "Unix") {
			at = u
			if len(u.Call.Args) == 2 {
				if b, ok := core.Strip(u.Call.Args[1]).(*ssa.BinOp); ok && b.Op == token.MUL {
					for _, side := range []ssa.Value{b.X, b.Y} {
						if k, isK := core.Strip(side).(*ssa.Const); isK && k.Value != nil && k.Value.ExactString() == "1000000" {
							good = true
						}
					}
				}
			}
		}
		pos := c.P.Pos(toT.Pos())
		if at != nil {
			pos = c.pos(at)
		}
		r.Check(good, "C20.2c-millisecond-timestamps-inverse", "int64ToTime scales the sub-second part of a millisecond timestamp to nanoseconds", pos, "",
			"time.Unix receives the millisecond remainder as nanoseconds: a timestamp received over gRPC (if-modified-since, created/updated/touched) differs by up to 999 ms from the same timestamp received as JSON")
	}
}

// checkTopicRepliesAnswer (C13): the per-part handlers of {get}/{set}/{del} on a live topic
// (methods of Topic named reply*, which receive the session and the request) answer on every path:
// each path from entry to a return passes a reply (queueOut) or a hand-off that owes one, store
// failures aside (the same path analysis as for the session-level handlers, one level further down).
func (c *Ctx) checkTopicRepliesAnswer() {
	r := c.R
	const rule = "C13.3f-topic-part-handlers-reply"
	ra := c.newReplyAnalysis()
	ra.initExempt = true
	n := 0
	for _, fn := range c.P.ModFuncs {
		if !core.InPkg(fn, "server") || fn.Parent() != nil || !isPtrToNamedRecv(fn, "Topic") || !strings.HasPrefix(fn.Name(), "reply") {
			continue
		}
		if !takesRequest(fn) {
			continue
		}
		n++
		r.Func(fk(fn))
		ok := ra.always(fn)
		detail := ""
		if !ok {
			detail = "a path from entry to the return at " + c.pos(ra.witness[fn]) + " passes neither a reply (queueOut) nor a hand-off to a consumer that owes one: the request id is never answered"
			if culprit := ra.firstNonReplyingCallee(fn); culprit != "" {
				detail += "; " + culprit
			}
		}
		r.Check(ok, rule, fk(fn)+": every path answers", c.P.Pos(fn.Pos()), "", detail)
	}
	if os.Getenv("VERIF_DEBUG") != "" {
		for fn, st := range ra.errMemo {
			if st == 3 {
				found, w := core.PathAvoiding(fn, nil, func(in ssa.Instruction) bool {
					ret, ok := in.(*ssa.Return)
					return ok && errIndex(fn.Signature) >= 0 && !core.IsNil(ret.Results[errIndex(fn.Signature)])
				}, ra.isReplyInstr, ra.cuts(fn))
				fmt.Printf("DEBUG errsilent: %s found=%v witness %s\n", fk(fn), found, posOf(c, w))
			}
		}
	}
	r.Check(n >= 8, rule, "reply* methods of Topic examined", "-", fmt.Sprintf("%d", n), "fewer than eight: anchor lost")
}

// checkReplyWrappersEchoId (C13): the `XxxReply(msg *ClientComMessage, ...)` wrappers build the
// answer to a request from the request itself: the constructor they call receives the request's id
// as its id and the name by which the client addressed the topic as its topic - in that order (both
// are strings; a transposed pair compiles and answers another id).
func (c *Ctx) checkReplyWrappersEchoId() {
	r := c.R
	const rule = "C13.4b-reply-wrappers-echo-id"
	idF := c.field("server", "ClientComMessage", "Id")
	origF := c.field("server", "ClientComMessage", "Original")
	if idF == nil || origF == nil {
		return
	}
	isStr := func(t types.Type) bool {
		b, ok := t.Underlying().(*types.Basic)
		return ok && b.Kind() == types.String
	}
	n := 0
	for _, fn := range c.P.ModFuncs {
		if !core.InPkg(fn, "server") || fn.Parent() != nil || takesRequest(fn) || fn.Signature.Recv() != nil {
			continue
		}
		// a reply constructor (returns *ServerComMessage) that takes the request
		hasReq := false
		var reqP *ssa.Parameter
		for _, p := range fn.Params {
			if isPtrToNamed(p.Type(), "ClientComMessage") {
				hasReq, reqP = true, p
			}
		}
		if !hasReq || fn.Signature.Results().Len() != 1 || !isPtrToNamed(fn.Signature.Results().At(0).Type(), "ServerComMessage") {
			continue
		}
		core.AllInstrs(fn, func(in ssa.Instruction) {
			call, ok := in.(*ssa.Call)
			if !ok {
				return
			}
			g := call.Call.StaticCallee()
			if g == nil || !core.InPkg(g, "server") || g.Signature.Params().Len() < 2 || !isStr(g.Signature.Params().At(0).Type()) || !isStr(g.Signature.Params().At(1).Type()) {
				return
			}
			if g.Signature.Results().Len() != 1 || !isPtrToNamed(g.Signature.Results().At(0).Type(), "ServerComMessage") {
				return
			}
			fromReq := func(v ssa.Value, f *types.Var) bool {
				g2, base := core.LoadedField(core.Strip(v))
				return g2 == f && base != nil && core.Strip(base) == ssa.Value(reqP)
			}
			a0, a1 := call.Call.Args[0], call.Call.Args[1]
			// only wrappers that take both from the request
			if !(fromReq(a0, idF) || fromReq(a0, origF)) || !(fromReq(a1, idF) || fromReq(a1, origF)) {
				return
			}
			n++
			r.Func(fk(fn))
			r.Check(fromReq(a0, idF) && fromReq(a1, origF), rule, fk(fn)+": id and topic of the reply are the request's id and addressed name", c.pos(call), "",
				"the wrapper hands the request's id and the addressed topic name to the constructor in the wrong order: the reply carries the topic name as its id, so the client never sees an answer to its request")
		})
	}
	r.Check(n >= 10, rule, "reply wrappers examined", "-", fmt.Sprintf("%d", n), "fewer than ten: anchor lost")
}

// checkNoRefusalAfterSave (C15): a refused invitation leaves no trace: once saveAndBroadcastMessage
// succeeded for a request (the message is stored, numbered, acknowledged and delivered), the
// function does not go on to refuse that request (no 4xx/5xx reply constructor is reachable from the
// success edge of the save). The busy test therefore comes before the save.
func (c *Ctx) checkNoRefusalAfterSave() {
	r := c.R
	const rule = "C15.1e-no-refusal-after-save"
	save := c.method("server", "Topic", "saveAndBroadcastMessage")
	neg := c.replyCtorsByCode(400, 600)
	if save == nil || len(neg) == 0 {
		c.lost("saveAndBroadcastMessage / negative reply constructors")
		return
	}
	// publishers: saveAndBroadcastMessage and the helpers that wrap it (and return its error)
	pub := map[*ssa.Function]bool{}
	if f := c.P.SSAFunc(save); f != nil {
		pub[f] = true
	}
	for i := 0; i < 2; i++ {
		for _, g := range c.P.ModFuncs {
			if !core.InPkg(g, "server") || pub[g] || g.Signature.Results().Len() == 0 || errIndex(g.Signature) < 0 {
				continue
			}
			core.AllInstrs(g, func(in ssa.Instruction) {
				if ci, ok := in.(ssa.CallInstruction); ok {
					if cal := ci.Common().StaticCallee(); cal != nil && pub[cal] {
						pub[g] = true
					}
				}
			})
		}
	}
	n := 0
	for _, fn := range c.P.ModFuncs {
		if !core.InPkg(fn, "server") {
			continue
		}
		var sites []ssa.CallInstruction
		core.AllInstrs(fn, func(in ssa.Instruction) {
			if ci, ok := in.(*ssa.Call); ok {
				if cal := ci.Call.StaticCallee(); cal != nil && pub[cal] {
					sites = append(sites, ci)
				}
			}
		})
		for _, site := range sites {
			n++
			r.Func(fk(fn))
			pe, cnt := core.PassEdges(fn, successGuard(site))
			isNeg := func(in ssa.Instruction) bool {
				call, ok := in.(*ssa.Call)
				if !ok {
					return false
				}
				cal := call.Call.StaticCallee()
				return cal != nil && neg[cal]
			}
			var found bool
			var w ssa.Instruction
			if cnt[0] > 0 {
				found, w = core.PathFromEdgeAvoiding(fn, pe, isNeg, nil, nil)
			} else {
				found, w = core.PathAvoiding(fn, site.(ssa.Instruction), isNeg, nil, nil)
			}
			construct := fk(fn) + ": no refusal once the message was saved"
			if k := countSame(r, rule, construct); k > 0 {
				construct = fmt.Sprintf("%s #%d", construct, k+1)
			}
			r.Check(!found, rule, construct, c.pos(site), "",
				"after the message was saved and broadcast the request can still be refused"+posOf(c, w)+": the refused request has left a stored, numbered and delivered message behind (for a call: a second invitation answered busy and published all the same)")
		}
	}
	r.Check(n >= 2, rule, "calls of saveAndBroadcastMessage examined", "-", fmt.Sprintf("%d", n), "fewer than two: anchor lost")
}

// checkAvatarLinkedAfterWrite (C16): the avatar of a topic or account is re-linked (which unlinks
// the previous upload, making it collectable) only after the description that refers to it was
// written: on the paths where Users.Update / Topics.Update failed, Files.LinkAttachments is not
// reached.
func (c *Ctx) checkAvatarLinkedAfterWrite() {
	r := c.R
	const rule = "C16.5e-avatar-linked-after-write"
	link := c.E().storeIface("FilePersistenceInterface", "LinkAttachments")
	upds := []*types.Func{c.E().storeIface("UsersPersistenceInterface", "Update"), c.E().storeIface("TopicsPersistenceInterface", "Update")}
	n := 0
	for _, fn := range c.funcsCalling(link, "server") {
		links := core.CallsTo(fn, link)
		for _, u := range upds {
			for _, site := range core.CallsTo(fn, u) {
				call, ok := site.(*ssa.Call)
				if !ok {
					continue
				}
				ei := errIndex(call.Call.Signature())
				if ei < 0 {
					continue
				}
				n++
				r.Func(fk(fn))
				facts := core.NilFacts{}
				if errV := errValue(call, ei); errV != nil {
					facts[errV] = false
				}
				facts[core.ResultFact(call, ei)] = false
				reached := false
				res := core.NilWalkAfterWith(fn, call, facts, nil, nil, func(in ssa.Instruction, _ core.NilFacts) {
					for _, l := range links {
						if in == l.(ssa.Instruction) {
							reached = true
						}
					}
				})
				construct := fmt.Sprintf("%s: no avatar link after a failed %s", fk(fn), describeCall(call))
				r.Check(!reached && !res.Overflow, rule, construct, c.pos(call), "",
					"the new avatar is linked (and the previous one unlinked, so that the garbage collector may remove it) although the description update failed: the topic keeps showing an avatar that is about to be deleted")
			}
		}
	}
	if n == 0 {
		r.Info(rule, "description updates followed by an avatar link", "-", "none on this tree")
	}
}

// checkLocalCopyWrittenBack (C08, C03, C02): Topic.perUser holds records by value; a handler works
// on a local copy and writes it back. A field of the copy changed *after* the last write-back on
// some path never reaches the live topic: the store, the reply and the notifications show the new
// value, the topic keeps deciding on the old one. For every local record that is written back
// somewhere in the function: from every store into one of its fields, every path to a return passes
// a write-back of that record (store failures and error returns aside: on those nothing is to be
// kept).
func (c *Ctx) checkLocalCopyWrittenBack(rule string, only map[string]bool) {
	r := c.R
	pudT := c.P.NamedType("server", "perUserData")
	perUser := c.E().topicField("perUser")
	if pudT == nil || perUser == nil {
		return
	}
	n := 0
	for _, fn := range c.P.ModFuncs {
		if !core.InPkg(fn, "server") || fn.Parent() != nil {
			continue
		}
		cut := c.storeFailEdges(fn)
		core.AllInstrs(fn, func(in ssa.Instruction) {
			al, ok := in.(*ssa.Alloc)
			if !ok || al.Referrers() == nil {
				return
			}
			if pt, ok := al.Type().(*types.Pointer); !ok || !types.Identical(pt.Elem(), pudT) {
				return
			}
			// write-backs: t.perUser[k] = *al
			isWB := func(x ssa.Instruction) bool {
				mu, ok := x.(*ssa.MapUpdate)
				if !ok || !core.IsFieldLoad(perUser)(mu.Map) {
					return false
				}
				ld, ok := mu.Value.(*ssa.UnOp)
				return ok && ld.Op == token.MUL && ld.X == ssa.Value(al)
			}
			hasWB := false
			core.AllInstrs(fn, func(x ssa.Instruction) {
				if isWB(x) {
					hasWB = true
				}
			})
			if !hasWB {
				return
			}
			// a whole-record store (re-read from the map, fresh literal) starts a new copy
			isOKEnd := func(x ssa.Instruction) bool {
				if isWB(x) {
					return true
				}
				// the copy is replaced as a whole (re-read): what was stored is abandoned by design
				if s2, ok := x.(*ssa.Store); ok && s2.Addr == ssa.Value(al) {
					return true
				}
				return false
			}
			isSuccRet := func(x ssa.Instruction) bool {
				ret, ok := x.(*ssa.Return)
				if !ok {
					return false
				}
				if ei := errIndex(fn.Signature); ei >= 0 && ei < len(ret.Results) {
					if k, isK := ret.Results[ei].(*ssa.Const); !isK || k.Value != nil {
						return false // an error return: nothing is to be kept
					}
				}
				return true
			}
			var badFields []string
			var where ssa.Instruction
			var first ssa.Instruction
			for _, ref := range *al.Referrers() {
				fa, ok := ref.(*ssa.FieldAddr)
				if !ok || fa.Referrers() == nil {
					continue
				}
				f, _ := core.FieldOfAddr(fa)
				for _, r2 := range *fa.Referrers() {
					st, ok := r2.(*ssa.Store)
					if !ok || st.Addr != ssa.Value(fa) {
						continue
					}
					if only != nil && (f == nil || !only[f.Name()]) {
						continue
					}
					n++
					if found, w := core.PathAvoiding(fn, st, isSuccRet, isOKEnd, cut); found {
						name := "?"
						if f != nil {
							name = f.Name()
						}
						dup := false
						for _, b := range badFields {
							if b == name {
								dup = true
							}
						}
						if !dup {
							badFields = append(badFields, name)
						}
						if where == nil {
							where, first = w, st
						}
					}
				}
			}
			r.Func(fk(fn))
			sortStrings(badFields)
			construct := fmt.Sprintf("%s: changes of the local per-user record are written back", fk(fn))
			if k := countSame(r, rule, construct); k > 0 {
				construct = fmt.Sprintf("%s #%d", construct, k+1)
			}
			pos := c.pos(al)
			if first != nil {
				pos = c.pos(first)
			}
			r.Check(len(badFields) == 0, rule, construct, pos, "",
				fmt.Sprintf("%v set on the local copy reach a success return%s without a write-back to Topic.perUser: the live topic keeps the old value while the store, the reply and the notifications carry the new one", badFields, posOf(c, where)))
		})
	}
	r.Check(n >= 4, rule, "field stores into local copies of per-user records", "-", fmt.Sprintf("%d", n), "fewer than four: anchor lost")
}

// checkNoticeOldSideIsSnapshot (C05, C08): a change notice carries the textual difference between
// the modes before and after; trackers apply it. The "before" arguments of Topic.notifySubChange
// (the first two of its four AccessMode parameters) must be what the record held before the handler
// touched it: where such an argument is read from a field of a local record, no store to that field
// of that record reaches the read. Otherwise old equals new, the difference is empty and the other
// sessions and the cluster proxy keep the previous modes.
func (c *Ctx) checkNoticeOldSideIsSnapshot(rule string) {
	r := c.R
	nsc := c.ssaMethod("server", "Topic", "notifySubChange")
	am := c.P.NamedType("server/store/types", "AccessMode")
	if nsc == nil || am == nil {
		return
	}
	var modeIdx []int
	for i, p := range nsc.Params {
		if types.Identical(p.Type(), am) {
			modeIdx = append(modeIdx, i)
		}
	}
	if len(modeIdx) != 4 {
		c.lost("notifySubChange with four AccessMode parameters")
		return
	}
	flds := map[*types.Var]bool{c.E().pudField("modeGiven"): true, c.E().pudField("modeWant"): true}
	n := 0
	for _, cs := range c.callersOf(nsc) {
		call, ok := cs.Site.(*ssa.Call)
		if !ok || call.Call.StaticCallee() != nsc {
			continue
		}
		fn := cs.Caller
		for _, ai := range modeIdx[:2] {
			if ai >= len(call.Call.Args) {
				continue
			}
			var loads []*ssa.UnOp
			collectLeaves(call.Call.Args[ai], func(v ssa.Value) {
				if u, ok := v.(*ssa.UnOp); ok && u.Op == token.MUL {
					if f, _ := core.FieldOfAddr(u.X); f != nil && flds[f] {
						if fa, ok := u.X.(*ssa.FieldAddr); ok {
							if _, isLocal := fa.X.(*ssa.Alloc); isLocal {
								loads = append(loads, u)
							}
						}
					}
				}
			})
			for _, ld := range loads {
				fa := ld.X.(*ssa.FieldAddr)
				f, _ := core.FieldOfAddr(fa)
				n++
				r.Func(fk(fn))
				var late ssa.Instruction
				for _, st := range core.StoresToField(fn, f) {
					fa2, ok := st.Addr.(*ssa.FieldAddr)
					if !ok || fa2.X != fa.X {
						continue
					}
					if found, _ := core.PathAvoiding(fn, st, func(in ssa.Instruction) bool { return in == ssa.Instruction(ld) }, nil, nil); found {
						late = st
					}
				}
				construct := fmt.Sprintf("%s: 'before' %s handed to notifySubChange is read before the record is modified", fk(fn), f.Name())
				if k := countSame(r, rule, construct); k > 0 {
					construct = fmt.Sprintf("%s #%d", construct, k+1)
				}
				r.Check(late == nil, rule, construct, c.pos(ld), "",
					"the 'before' mode is read after the record was already modified"+posOf(c, late)+": the notice carries an empty difference, the user's other sessions and the cluster proxy keep the previous modes")
			}
		}
	}
	if n == 0 {
		r.Info(rule, "'before' arguments of notifySubChange read from local records", "-", "none on this tree")
	}
}

// checkTokenMacCoversFields (C12): every field of the token layout that the authenticator copies
// into the returned record (uid, level, features, ...) or tests (serial, expiry) is covered by the
// MAC: the data handed to encoding/binary.Write on the way to the hash is the whole layout, or,
// field by field, includes each such field. A field read but not signed can be rewritten by the
// holder of any genuine token.
func (c *Ctx) checkTokenMacCoversFields() {
	r := c.R
	const rule = "C12.1g-mac-covers-every-field-used"
	auth := c.ssaMethod("server/auth/token", "authenticator", "Authenticate")
	lay := c.P.NamedType("server/auth/token", "tokenLayout")
	if auth == nil || lay == nil {
		return
	}
	st, _ := lay.Underlying().(*types.Struct)
	r.Func(fk(auth))
	// fields of the layout read in Authenticate (outside calls that take the whole layout)
	used := map[string]bool{}
	core.AllInstrs(auth, func(in ssa.Instruction) {
		if f, base := core.LoadedField(valueOf(in)); f != nil && base != nil {
			for i := 0; st != nil && i < st.NumFields(); i++ {
				if st.Field(i) == f {
					used[f.Name()] = true
				}
			}
		}
	})
	// what is written with binary.Write in Authenticate and the helpers it hands the layout to
	whole := false
	truncated := false
	signed := map[string]bool{}
	seen := map[*ssa.Function]bool{}
	var scan func(fn *ssa.Function, d int)
	scan = func(fn *ssa.Function, d int) {
		if fn == nil || seen[fn] || d > 2 || len(fn.Blocks) == 0 {
			return
		}
		seen[fn] = true
		core.AllInstrs(fn, func(in ssa.Instruction) {
			call, ok := in.(*ssa.Call)
			if !ok {
				return
			}
			if f := core.CalleeOf(&call.Call); f != nil && f.Name() == "Write" && f.Pkg() != nil && f.Pkg().Path() == "encoding/binary" && len(call.Call.Args) == 3 {
				data := call.Call.Args[2]
				if mi, isMI := data.(*ssa.MakeInterface); isMI {
					data = mi.X
				}
				t := data.Type()
				if p, isP := t.(*types.Pointer); isP {
					t = p.Elem()
				}
				if types.Identical(t, lay) {
					whole = true
					return
				}
				if f2, _ := core.LoadedField(core.Strip(data)); f2 != nil {
					signed[f2.Name()] = true
				}
				return
			}
			// the serialised layout reaches the hash in full: a hash.Write of a proper sub-slice of the
			// buffer (`buf.Bytes()[:signedSize]`) leaves the tail unsigned
			if call.Call.IsInvoke() && call.Call.Method.Name() == "Write" && len(call.Call.Args) == 1 {
				if sl, isSl := call.Call.Args[0].(*ssa.Slice); isSl && (sl.High != nil || sl.Low != nil) {
					truncated = true
				}
			}
			if g := call.Call.StaticCallee(); g != nil && core.InModule(g) {
				for _, a := range call.Call.Args {
					t := a.Type()
					if p, isP := t.(*types.Pointer); isP {
						t = p.Elem()
					}
					if types.Identical(t, lay) {
						scan(g, d+1)
					}
				}
			}
		})
	}
	scan(auth, 0)
	var missing []string
	if !whole {
		for f := range used {
			if !signed[f] {
				missing = append(missing, f)
			}
		}
	}
	sortStrings(missing)
	r.Check(len(used) >= 3, rule, "fields of the token layout read by Authenticate", "-", fmt.Sprintf("%d", len(used)), "fewer than three: anchor lost")
	if truncated {
		missing = append(missing, "(the hash is fed a sub-slice of the serialised layout)")
	}
	r.Check(!truncated && (whole || (len(signed) > 0 && len(missing) == 0)), rule, fk(auth)+": the MAC is computed over every field that is used", c.P.Pos(auth.Pos()), "",
		fmt.Sprintf("the fields %v of a token are read but not part of the data the MAC is computed over: they can be altered on a genuine token without invalidating it", missing))
}

func valueOf(in ssa.Instruction) ssa.Value {
	if v, ok := in.(ssa.Value); ok {
		return v
	}
	return nil
}

// checkChannelNameNormalised (C02): in a channel-enabled group every recipient is shown the topic
// under the name by which *it* addresses it (grpXXX for subscribers, chnXXX for channel readers),
// whatever name the publisher used. In the function that fixes a broadcast copy up for a recipient:
// with Topic.isChan true, the category "group" and a {data} payload present, no path from the entry
// reaches a return without assigning Data.Topic.
func (c *Ctx) checkChannelNameNormalised() {
	r := c.R
	const rule = "C02.3b-channel-name-normalised-for-every-recipient"
	fn := c.ssaMethod("server", "Topic", "prepareBroadcastableMessage")
	dataTopic := c.field("server", "MsgServerData", "Topic")
	dataF := c.field("server", "ServerComMessage", "Data")
	isChanF := c.E().topicField("isChan")
	catF := c.E().topicField("cat")
	grp := c.konst("server/store/types", "TopicCatGrp")
	p2p := c.konst("server/store/types", "TopicCatP2P")
	if fn == nil || dataTopic == nil || dataF == nil || isChanF == nil || catF == nil {
		return
	}
	r.Func(fk(fn))
	cut, _ := core.PassEdges(fn,
		core.BoolGuard("!t.isChan", core.IsFieldLoad(isChanF), false),
		core.NilGuard("msg.Data==nil", core.IsFieldLoad(dataF), true),
		core.EqGuard("t.cat!=Grp", core.IsFieldLoad(catF), core.IsConstOf(grp), false),
		core.EqGuard("t.cat==P2P", core.IsFieldLoad(catF), core.IsConstOf(p2p), true))
	stores := core.StoresToField(fn, dataTopic)
	isStore := func(in ssa.Instruction) bool {
		for _, s := range stores {
			if ssa.Instruction(s) == in {
				return true
			}
		}
		// a helper that does the renaming
		if call, ok := in.(*ssa.Call); ok {
			if g := call.Call.StaticCallee(); g != nil && core.InModule(g) && len(core.StoresToField(g, dataTopic)) > 0 {
				return true
			}
		}
		return false
	}
	found, w := core.PathAvoiding(fn, nil, core.IsReturn, isStore, cut)
	r.Check(!found && len(stores) > 0 || (!found && len(stores) == 0 && hasCallStoring(fn, dataTopic)), rule, fk(fn)+": Data.Topic assigned for every recipient of a channel-enabled group", c.P.Pos(fn.Pos()), "",
		"for a channel-enabled group a {data} copy can leave the function"+posOf(c, w)+" with the topic name the publisher used: a subscriber is shown chnXXX (or a reader grpXXX) instead of the name it addresses the topic by")
}

func hasCallStoring(fn *ssa.Function, f *types.Var) bool {
	found := false
	core.AllInstrs(fn, func(in ssa.Instruction) {
		if call, ok := in.(*ssa.Call); ok {
			if g := call.Call.StaticCallee(); g != nil && core.InModule(g) && len(core.StoresToField(g, f)) > 0 {
				found = true
			}
		}
	})
	return found
}

// checkStoredMarksReportedClamped (C09): the store can hold a received mark below the read mark (a
// {note read} moves the cached received mark along, but only ReadSeqId is written - the note
// handler's tests pin that). Wherever a stored subscription's marks are reported to a client
// (MsgTopicSub.RecvSeqId from Subscription.RecvSeqId) the received mark is therefore reported as
// max(recv, read), as get.desc already does for the cached marks.
func (c *Ctx) checkStoredMarksReportedClamped() {
	r := c.R
	const rule = "C09.5b-stored-marks-reported-clamped"
	out := c.field("server", "MsgTopicSub", "RecvSeqId")
	recvS := c.field("server/store/types", "Subscription", "RecvSeqId")
	readS := c.field("server/store/types", "Subscription", "ReadSeqId")
	if out == nil || recvS == nil || readS == nil {
		return
	}
	n := 0
	for _, fn := range c.P.ModFuncs {
		if !core.InPkg(fn, "server") {
			continue
		}
		for _, st := range core.StoresToField(fn, out) {
			v := core.Strip(st.Val)
			// the marks computed by a helper (`read, recv := reportedMarks(sub)`): what the helper returns
			if ex, ok := v.(*ssa.Extract); ok {
				if call, ok := ex.Tuple.(*ssa.Call); ok {
					if g := call.Call.StaticCallee(); g != nil && core.InModule(g) && len(g.Blocks) > 0 {
						var rv ssa.Value
						nret := 0
						core.AllInstrs(g, func(in ssa.Instruction) {
							if ret, ok := in.(*ssa.Return); ok && ex.Index < len(ret.Results) {
								nret++
								rv = ret.Results[ex.Index]
							}
						})
						if nret == 1 && rv != nil {
							v = core.Strip(rv)
						}
					}
				}
			}
			if !core.Derives(v, core.IsFieldLoad(recvS), false) && !isMaxOf(v, recvS, readS) {
				continue // not a report of stored marks (a converter, a literal)
			}
			n++
			r.Func(fk(fn))
			construct := fk(fn) + ": reported RecvSeqId = max(stored recv, stored read)"
			if k := countSame(r, rule, construct); k > 0 {
				construct = fmt.Sprintf("%s #%d", construct, k+1)
			}
			r.Check(isMaxOf(v, recvS, readS), rule, construct, c.pos(st), "",
				"the stored received mark is reported as it is: after a {note read} (which stores only the read mark) the client is told read > recv")
		}
	}
	r.Check(n >= 2, rule, "reports of stored marks", "-", fmt.Sprintf("%d", n), "fewer than two: anchor lost")
}

// checkTxHelpersUseTheTx (C18): a helper that is handed the open transaction (a parameter whose
// type has Commit and Rollback) issues its statements on it: it makes no call on a value that can
// open transactions itself (the connection pool: a type with a Begin* method) - such a statement
// is committed on its own and survives the rollback of the operation it belongs to.
func (c *Ctx) checkTxHelpersUseTheTx() {
	r := c.R
	const rule = "C18.2c-helpers-use-the-transaction"
	isPool := func(t types.Type) bool {
		ms := types.NewMethodSet(t)
		for i := 0; i < ms.Len(); i++ {
			if strings.HasPrefix(ms.At(i).Obj().Name(), "Begin") {
				return true
			}
		}
		return false
	}
	n := 0
	for _, rel := range []string{"server/db/mysql", "server/db/postgres"} {
		for _, fn := range c.P.ModFuncs {
			if !core.InPkg(fn, rel) || fn.Parent() != nil {
				continue
			}
			hasTx := false
			for _, p := range fn.Params {
				if hasMethods(p.Type(), "Commit", "Rollback") && !isPool(p.Type()) {
					hasTx = true
				}
			}
			if !hasTx {
				continue
			}
			n++
			r.Func(fk(fn))
			var bad ssa.Instruction
			for _, g := range core.WithClosures(fn) {
				core.AllInstrs(g, func(in ssa.Instruction) {
					ci, ok := in.(ssa.CallInstruction)
					if !ok || bad != nil {
						return
					}
					args := core.CallArgs(ci.Common())
					if len(args) == 0 {
						return
					}
					f := core.CalleeOf(ci.Common())
					if f == nil || f.Type().(*types.Signature).Recv() == nil {
						return
					}
					if isPool(args[0].Type()) && !hasMethods(args[0].Type(), "Commit", "Rollback") {
						bad = in
					}
				})
			}
			r.Check(bad == nil, rule, fk(fn)+": statements go through the transaction it was given", c.P.Pos(fn.Pos()), "",
				"a statement is issued on the connection pool"+posOf(c, bad)+" inside a helper of a transactional operation: it is committed at once and stays when the operation is rolled back")
		}
	}
	r.Check(n >= 5, rule, "helpers receiving a transaction", "-", fmt.Sprintf("%d", n), "fewer than five: anchor lost")
}

// checkReplyGoesToItsRequest (C13): `m.sess.queueOut(XxxReply(m2, ...))` - the reply built from a
// request is queued on that request's own session: m and m2 are the same message. (In a loop that
// drains pending requests a reply built from the wrong variable reaches the right session with
// another request's id.)
func (c *Ctx) checkReplyGoesToItsRequest() {
	r := c.R
	const rule = "C13.4c-reply-goes-to-its-request"
	sessF := c.field("server", "ClientComMessage", "sess")
	queueOut := c.method("server", "Session", "queueOut")
	if sessF == nil || queueOut == nil {
		return
	}
	n := 0
	for _, fn := range c.P.ModFuncs {
		if !core.InPkg(fn, "server") {
			continue
		}
		for _, q := range core.CallsTo(fn, queueOut) {
			args := core.CallArgs(q.Common())
			if len(args) != 2 {
				continue
			}
			f, base := core.LoadedField(core.Strip(args[0]))
			if f != sessF || base == nil {
				continue
			}
			rc, ok := core.Strip(args[1]).(*ssa.Call)
			if !ok {
				continue
			}
			g := rc.Call.StaticCallee()
			if g == nil || !core.InPkg(g, "server") || !isPtrToNamed(rc.Type(), "ServerComMessage") {
				continue
			}
			var req ssa.Value
			for i, p := range g.Params {
				if isPtrToNamed(p.Type(), "ClientComMessage") && i < len(rc.Call.Args) {
					req = rc.Call.Args[i]
				}
			}
			if req == nil {
				continue
			}
			n++
			r.Func(fk(fn))
			construct := fmt.Sprintf("%s: %s is queued on the session of the request it answers", fk(fn), g.Name())
			if k := countSame(r, rule, construct); k > 0 {
				construct = fmt.Sprintf("%s #%d", construct, k+1)
			}
			r.Check(sameValue(base, req, 0), rule, construct, c.pos(q), "",
				"the reply is built from one request and queued on the session of another: the session receives an answer carrying a different request's id and topic")
		}
	}
	r.Check(n >= 10, rule, "replies queued on a request's session", "-", fmt.Sprintf("%d", n), "fewer than ten: anchor lost")
}

// checkOnlineCountedWithAttach (C10): the per-user online counter counts attached foreground
// sessions: it is incremented only where the session is attached (every path to the increment
// passes Topic.addSession).
func (c *Ctx) checkOnlineCountedWithAttach() {
	r := c.R
	const rule = "C10.3d-online-counted-with-attach"
	onlineF := c.E().pudField("online")
	addSession := c.method("server", "Topic", "addSession")
	if onlineF == nil || addSession == nil {
		return
	}
	n := 0
	for _, fn := range c.funcsCalling(addSession, "server") {
		isAttach := func(in ssa.Instruction) bool {
			call, ok := in.(*ssa.Call)
			return ok && core.CalleeOf(&call.Call) == addSession
		}
		// the increments: `pud.online++` here, or a call of a helper that adds to the counter (with a
		// delta that is not a negative constant)
		var incs []ssa.Instruction
		for _, st := range core.StoresToField(fn, onlineF) {
			if b, ok := core.Strip(st.Val).(*ssa.BinOp); ok && b.Op == token.ADD {
				incs = append(incs, st)
			}
		}
		core.AllInstrs(fn, func(in ssa.Instruction) {
			call, ok := in.(*ssa.Call)
			if !ok {
				return
			}
			g := call.Call.StaticCallee()
			if g == nil || g == fn || !core.InModule(g) || len(g.Blocks) == 0 {
				return
			}
			adds := false
			for _, st := range core.StoresToField(g, onlineF) {
				if b, ok := core.Strip(st.Val).(*ssa.BinOp); ok && b.Op == token.ADD {
					adds = true
				}
			}
			if !adds {
				return
			}
			for _, a := range call.Call.Args {
				if k, ok := a.(*ssa.Const); ok && k.Value != nil && k.Value.Kind() == constant.Int && constant.Sign(k.Value) < 0 {
					return
				}
			}
			incs = append(incs, in)
		})
		for _, st := range incs {
			st := st
			n++
			r.Func(fk(fn))
			found, _ := core.PathAvoiding(fn, nil, func(in ssa.Instruction) bool { return in == st }, isAttach, nil)
			construct := fk(fn) + ": online++ only after the session was attached"
			if k := countSame(r, rule, construct); k > 0 {
				construct = fmt.Sprintf("%s #%d", construct, k+1)
			}
			r.Check(!found, rule, construct, c.pos(st), "",
				"the online counter is incremented on a path on which the session is not attached to the topic (a refused or self-banning {sub}): the count stays one too high, so the others are never told 'off'")
		}
	}
	r.Check(n >= 1, rule, "increments of the online counter next to an attach", "-", fmt.Sprintf("%d", n), "none: anchor lost")
}

// checkP2PNameExactLength (C20): a p2p topic name is "p2p" + exactly the unpadded base64 of 16
// bytes; text of any other length is not a name of the pair it happens to start with. The decoding
// in ParseP2P (the reads of the two ids) is reachable only through an equality test of the length
// of the text with a constant.
func (c *Ctx) checkP2PNameExactLength() {
	r := c.R
	const rule = "C20.4f-p2p-name-exact-length"
	fn := c.ssaFn("server/store/types", "ParseP2P")
	if fn == nil {
		return
	}
	r.Func(fk(fn))
	g := core.Guard{Name: "len(text)==const", Match: func(a core.CondAtom) (bool, bool) {
		if a.Op != token.EQL {
			return false, false
		}
		isLen := func(v ssa.Value) bool {
			call, ok := core.Strip(v).(*ssa.Call)
			if !ok {
				return false
			}
			b, ok := call.Call.Value.(*ssa.Builtin)
			return ok && b.Name() == "len"
		}
		isK := func(v ssa.Value) bool { _, ok := core.Strip(v).(*ssa.Const); return ok }
		if (isLen(a.X) && isK(a.Y)) || (isLen(a.Y) && isK(a.X)) {
			return true, true
		}
		return false, false
	}}
	n := 0
	core.AllInstrs(fn, func(in ssa.Instruction) {
		call, ok := in.(*ssa.Call)
		if !ok {
			return
		}
		f := core.CalleeOf(&call.Call)
		if f == nil || f.Name() != "Uint64" {
			return
		}
		n++
		saved := core.NoLift
		core.NoLift = true
		okG, cnt := core.GuardedBy(fn, call, g)
		core.NoLift = saved
		r.Check(okG && cnt[0] > 0, rule, fmt.Sprintf("%s: id #%d read only from text of the exact length", fk(fn), n), c.pos(call), "",
			"the two ids are read from text whose length is not tested for equality with the length of a p2p name: a longer string decodes to the same pair as the canonical name")
	})
	r.Check(n >= 2, rule, "reads of the two ids in ParseP2P", "-", fmt.Sprintf("%d", n), "fewer than two: anchor lost")
}

// checkReportedErrorNotOverwritten (C13): a function that merges the errors of several validation
// steps into one variable and reports it (`if a { err = f() }; if b { err = g() }; return err`)
// must not lose the error of an earlier step when a later step runs: a malformed field would be
// answered as if it were well formed. Structurally, for every error result of a call in package
// server that is never tested directly (it only flows into merges): no path from the call to an
// exit of the function lets the value die unused - at every merge the value either travels on, or
// has been tested, returned, stored or passed before.
func (c *Ctx) checkReportedErrorNotOverwritten() {
	r := c.R
	const rule = "C13.4d-validation-error-not-overwritten"
	errT := types.Universe.Lookup("error").Type()
	n := 0
	for _, fn := range c.P.ModFuncs {
		if !core.InPkg(fn, "server") && os.Getenv("VERIF_ALLPKG") == "" {
			continue
		}
		for _, b := range fn.Blocks {
			for i, in := range b.Instrs {
				var e ssa.Value
				switch x := in.(type) {
				case *ssa.Call:
					if types.Identical(x.Type(), errT) {
						e = x
					}
				case *ssa.Extract:
					if _, isCall := x.Tuple.(*ssa.Call); isCall && types.Identical(x.Type(), errT) {
						e = x
					}
				}
				if e == nil || e.Referrers() == nil {
					continue
				}
				nphi, other := 0, 0
				for _, ref := range *e.Referrers() {
					switch ref.(type) {
					case *ssa.Phi:
						nphi++
					case *ssa.DebugRef:
					default:
						other++
					}
				}
				if nphi == 0 || other > 0 {
					continue
				}
				n++
				r.Func(fk(fn))
				lost := errorDiesUnused(b, i+1, e)
				if lost != nil && c.errorNilWhereItDies(fn, e, lost) {
					lost = nil
				}
				callee := "call"
				if cv, ok := e.(*ssa.Call); ok {
					if f := core.CalleeOf(&cv.Call); f != nil {
						callee = f.Name()
					}
				} else if ex, ok := e.(*ssa.Extract); ok {
					if f := core.CalleeOf(&ex.Tuple.(*ssa.Call).Call); f != nil {
						callee = f.Name()
					}
				}
				detail := ""
				if lost != nil {
					detail = "the error of this step is merged into a variable that a later step overwrites" + posOf(c, lost) + " before anything looked at it: the failure of the earlier step is reported as success"
				}
				r.Check(lost == nil, rule, fmt.Sprintf("%s: merged error of %s reaches a test or the caller on every path", fk(fn), callee), c.pos(in), "", detail)
			}
		}
	}
	r.Info(rule, "merged error results examined", "-", fmt.Sprintf("%d", n))
}

// errorDiesUnused: starting behind instruction idx of block b with the value cur, is there a path
// to a return on which cur (or the merge it flowed into) is never used? Returns the instruction
// at which the value is dead (the return, or the first instruction of the block where a merge
// replaces it), nil when every path uses it.
func errorDiesUnused(b *ssa.BasicBlock, idx int, cur ssa.Value) ssa.Instruction {
	type st struct {
		b   *ssa.BasicBlock
		cur ssa.Value
	}
	seen := map[st]bool{}
	var walk func(b *ssa.BasicBlock, idx int, cur ssa.Value) ssa.Instruction
	uses := func(in ssa.Instruction, v ssa.Value) bool {
		for _, op := range in.Operands(nil) {
			if op != nil && *op == v {
				return true
			}
		}
		return false
	}
	walk = func(b *ssa.BasicBlock, idx int, cur ssa.Value) ssa.Instruction {
		for _, in := range b.Instrs[idx:] {
			if _, isPhi := in.(*ssa.Phi); isPhi {
				continue
			}
			if _, isDbg := in.(*ssa.DebugRef); isDbg {
				continue
			}
			if uses(in, cur) {
				return nil
			}
			switch in.(type) {
			case *ssa.Return:
				return in
			case *ssa.Panic:
				return nil
			}
		}
		for _, s := range b.Succs {
			k := -1
			for j, p := range s.Preds {
				if p == b {
					k = j
				}
			}
			next := cur
			dead, translated := false, false
			var by ssa.Instruction
			for _, in := range s.Instrs {
				phi, ok := in.(*ssa.Phi)
				if !ok {
					break
				}
				if k < 0 || k >= len(phi.Edges) {
					continue
				}
				if phi.Edges[k] == cur {
					next = phi
					dead, translated = false, false
					break
				}
				// the merge of the same variable takes another value on this edge: the variable was
				// reassigned on the way here
				carries := false
				for _, e := range phi.Edges {
					if e == cur {
						carries = true
					}
				}
				if carries {
					if known, isNil := errorsNewNonNil(phi.Edges[k]); known && !isNil {
						translated = true // replaced by an error made on the spot: still a failure
					} else if g, isG := loadedGlobal(phi.Edges[k]); isG && g != nil {
						translated = true // a package-level sentinel error
					} else {
						dead = true
						by, _ = phi.Edges[k].(ssa.Instruction)
					}
				}
			}
			if translated {
				continue
			}
			if dead {
				if by != nil {
					return by
				}
				return s.Instrs[0]
			}
			key := st{s, next}
			if seen[key] {
				continue
			}
			seen[key] = true
			if w := walk(s, 0, next); w != nil {
				return w
			}
		}
		return nil
	}
	return walk(b, idx, cur)
}

// loadedGlobal: v is a load of a package-level variable.
func loadedGlobal(v ssa.Value) (*ssa.Global, bool) {
	if u, ok := v.(*ssa.UnOp); ok && u.Op == token.MUL {
		if g, ok := u.X.(*ssa.Global); ok {
			return g, true
		}
	}
	return nil, false
}

// checkReaderRowUnderChannelName (C08): a channel reader's subscription row is stored under the
// channel spelling of the topic name (chnXXX), a subscriber's under grpXXX. In a Topic method that
// knows whether the request came in through the channel name (a value derived from
// verifyChannelAccess), a write of the acting user's own subscription row (Subs.Update /
// Subs.Delete keyed by the user of the request) that addresses the row by the bare Topic.name is
// reachable only when the request did not come in through the channel name (or the user's cached
// record is not a channel reader's).
func (c *Ctx) checkReaderRowUnderChannelName() {
	r := c.R
	const rule = "C08.1f-reader-row-under-channel-name"
	verify := c.method("server", "Topic", "verifyChannelAccess")
	parseUid := c.fn("server/store/types", "ParseUserId")
	asUserF := c.field("server", "ClientComMessage", "AsUser")
	nameF := c.E().topicField("name")
	pudChan := c.E().pudField("isChan")
	if verify == nil || parseUid == nil || asUserF == nil || nameF == nil {
		return
	}
	var isFlag func(fn *ssa.Function, v ssa.Value, d int) bool
	isFlag = func(fn *ssa.Function, v ssa.Value, d int) bool {
		v = core.Strip(v)
		if d > 4 {
			return false
		}
		switch x := v.(type) {
		case *ssa.Extract:
			call, ok := x.Tuple.(*ssa.Call)
			return ok && x.Index == 0 && core.CalleeOf(&call.Call) == verify
		case *ssa.Phi:
			n := 0
			for _, e := range x.Edges {
				if _, isK := core.Strip(e).(*ssa.Const); isK {
					continue
				}
				if !isFlag(fn, e, d+1) {
					return false
				}
				n++
			}
			return n > 0
		case *ssa.Parameter:
			return c.paramAtCallers(fn, x, func(caller *ssa.Function, arg ssa.Value) bool { return isFlag(caller, arg, d+1) })
		}
		return false
	}
	var isActing func(fn *ssa.Function, v ssa.Value, d int) bool
	isActing = func(fn *ssa.Function, v ssa.Value, d int) bool {
		v = core.Strip(v)
		if d > 4 {
			return false
		}
		switch x := v.(type) {
		case *ssa.Call:
			return core.CalleeOf(&x.Call) == parseUid && len(x.Call.Args) == 1 && core.IsFieldLoad(asUserF)(x.Call.Args[0])
		case *ssa.Phi:
			// `var asUid types.Uid; if msg.init { asUid = types.ParseUserId(msg.AsUser) }`
			n := 0
			for _, e := range x.Edges {
				if _, isK := core.Strip(e).(*ssa.Const); isK {
					continue
				}
				if !isActing(fn, e, d+1) {
					return false
				}
				n++
			}
			return n > 0
		case *ssa.Parameter:
			return c.paramAtCallers(fn, x, func(caller *ssa.Function, arg ssa.Value) bool { return isActing(caller, arg, d+1) })
		}
		return false
	}
	n, cand := 0, 0
	for _, fn := range c.P.ModFuncs {
		if !core.InPkg(fn, "server") || fn.Parent() != nil || !isPtrToNamedRecv(fn, "Topic") {
			continue
		}
		for _, sink := range c.storeWriteSinks(fn) {
			call, ok := sink.(*ssa.Call)
			if !ok {
				continue
			}
			f, _ := c.isStoreCall(sink)
			recv, _ := call.Call.Value.Type().(*types.Named)
			if f == nil || recv == nil || !strings.HasPrefix(recv.Obj().Name(), "Subs") || (f.Name() != "Update" && f.Name() != "Delete") {
				continue
			}
			args := call.Call.Args
			if len(args) < 2 || !isActing(fn, args[1], 0) {
				continue
			}
			cand++
			// does this function know how the request was addressed?
			flag := func(v ssa.Value) bool { return isFlag(fn, v, 0) }
			knows := false
			for _, p := range fn.Params {
				if flag(p) {
					knows = true
				}
			}
			core.AllInstrs(fn, func(in ssa.Instruction) {
				if v, ok := in.(ssa.Value); ok && !knows {
					if _, isEx := v.(*ssa.Extract); isEx && flag(v) {
						knows = true
					}
				}
			})
			if !core.IsFieldLoad(nameF)(args[0]) {
				// the name is computed (a choice between the two spellings): the channel spelling is chosen
				// by how the request was addressed or by the user's cached record - not by a property of
				// the topic, which is the same for subscribers and readers (C08.1g)
				c.checkChannelSpellingChosenPerUser(fn, call, f.Name(), args[0], knows, flag, pudChan)
				continue
			}
			if !knows {
				continue
			}
			n++
			r.Func(fk(fn))
			saved := core.NoLift
			core.NoLift = true
			okG, cnt := core.GuardedBy(fn, call, core.BoolGuard("!asChan", flag, false))
			if !(okG && cnt[0] > 0) && pudChan != nil {
				// or: the cached record of the user is not a channel reader's
				okG, cnt = core.GuardedBy(fn, call, core.BoolGuard("!pud.isChan", core.IsFieldLoad(pudChan), false))
			}
			core.NoLift = saved
			construct := fmt.Sprintf("%s: Subs.%s of the acting user's row under Topic.name only for a request not addressed to the channel", fk(fn), f.Name())
			if k := countSame(r, rule, construct); k > 0 {
				construct = fmt.Sprintf("%s #%d", construct, k+1)
			}
			r.Check(okG && cnt[0] > 0, rule, construct, c.pos(call), "",
				"the acting user's subscription row is addressed by the group spelling of the topic name although the request may have come in through the channel name: a channel reader's row lives under chnXXX, the write is acknowledged and lands nowhere (or on the wrong row)")
		}
	}
	r.Check(c.nSpelling >= 1, "C08.1g-channel-spelling-chosen-per-user", "writes of the acting user's row under a computed name", "-", fmt.Sprintf("%d", c.nSpelling), "none: anchor lost")
	r.Check(cand >= 3, rule, "writes of the acting user's own subscription row in Topic methods", "-", fmt.Sprintf("%d (%d under the bare Topic.name)", cand, n), "fewer than three: anchor lost")
}

// paramAtCallers: pred holds for the argument bound to parameter p at every call site of fn (and
// there is at least one).
func (c *Ctx) paramAtCallers(fn *ssa.Function, p *ssa.Parameter, pred func(caller *ssa.Function, arg ssa.Value) bool) bool {
	idx := -1
	for i, q := range fn.Params {
		if q == p {
			idx = i
		}
	}
	callers := c.callersOf(fn)
	if idx < 0 || len(callers) == 0 {
		return false
	}
	for _, cs := range callers {
		args := cs.Site.Common().Args
		if cs.Site.Common().IsInvoke() || idx >= len(args) {
			return false
		}
		if !pred(cs.Caller, args[idx]) {
			return false
		}
	}
	return true
}

// errorNilWhereItDies: e is the error result of a module function that returns it together with
// another result (`tags, resp, err := validate(...)`), and the place where e is overwritten is
// reached only when that other result is nil - while the function never returns a possibly
// non-nil error together with a possibly nil value of that result (err != nil implies resp != nil):
// there is no error to lose there.
func (c *Ctx) errorNilWhereItDies(fn *ssa.Function, e ssa.Value, at ssa.Instruction) bool {
	ex, ok := e.(*ssa.Extract)
	if !ok {
		return false
	}
	call, ok := ex.Tuple.(*ssa.Call)
	if !ok {
		return false
	}
	g := call.Call.StaticCallee()
	if g == nil || !core.InModule(g) || len(g.Blocks) == 0 || call.Referrers() == nil {
		return false
	}
	for _, ref := range *call.Referrers() {
		sib, ok := ref.(*ssa.Extract)
		if !ok || sib.Index == ex.Index {
			continue
		}
		switch sib.Type().Underlying().(type) {
		case *types.Pointer, *types.Interface, *types.Map, *types.Slice:
		default:
			continue
		}
		implies := true
		core.AllInstrs(g, func(in ssa.Instruction) {
			ret, isRet := in.(*ssa.Return)
			if !isRet || len(ret.Results) <= ex.Index || len(ret.Results) <= sib.Index {
				return
			}
			if core.IsNil(core.Strip(ret.Results[ex.Index])) {
				return
			}
			if !nonNilish(ret.Results[sib.Index], 0) {
				implies = false
			}
		})
		if !implies {
			continue
		}
		saved := core.NoLift
		core.NoLift = true
		okG, cnt := core.GuardedBy(fn, at, core.NilGuard("sibling result == nil", func(v ssa.Value) bool { return v == ssa.Value(sib) }, true))
		core.NoLift = saved
		if okG && cnt[0] > 0 {
			return true
		}
	}
	return false
}

// nonNilish: v is syntactically a fresh or addressed object, or the result of a module function
// that only returns such.
func nonNilish(v ssa.Value, d int) bool {
	switch x := core.Strip(v).(type) {
	case *ssa.Alloc, *ssa.MakeInterface, *ssa.MakeMap, *ssa.MakeSlice, *ssa.MakeClosure, *ssa.FieldAddr, *ssa.IndexAddr, *ssa.Global, *ssa.Function:
		return true
	case *ssa.Phi:
		if d > 3 {
			return false
		}
		for _, e := range x.Edges {
			if !nonNilish(e, d+1) {
				return false
			}
		}
		return len(x.Edges) > 0
	case *ssa.Call:
		if known, isNil := errorsNewNonNil(x); known && !isNil {
			return true
		}
		g := x.Call.StaticCallee()
		if g == nil || !core.InModule(g) || len(g.Blocks) == 0 || d > 2 || g.Signature.Results().Len() != 1 {
			return false
		}
		all, n := true, 0
		core.AllInstrs(g, func(in ssa.Instruction) {
			if ret, ok := in.(*ssa.Return); ok && len(ret.Results) == 1 {
				n++
				if !nonNilish(ret.Results[0], d+1) {
					all = false
				}
			}
		})
		return all && n > 0
	}
	return false
}

// checkDraftySpanBounds (C13): message content is rendered into push previews (drafty.PlainText /
// Preview, in a goroutine without recover). The positions of a style come from the client; a span
// is kept for rendering (appended to the span list of toTree) only behind all three range tests:
// start >= -1, end <= length of the text, and end >= start - the last one is what catches
// at+len wrapping around (the end is computed by an addition of two client-supplied integers).
// The tests may sit in toTree itself or in the converter it calls (then the span is kept only
// behind the converter's success).
func (c *Ctx) checkDraftySpanBounds() {
	r := c.R
	const rule = "C13.6-drafty-span-bounds"
	toTree := c.ssaFn("server/drafty", "toTree")
	atF := c.field("server/drafty", "span", "at")
	endF := c.field("server/drafty", "span", "end")
	if toTree == nil || atF == nil || endF == nil {
		return
	}
	// the conversion loop may have been split off toTree (`spansFromStyles(doc, textLen)`): the function
	// examined is the one (toTree or a helper it calls) that files fresh spans
	filesFresh := func(g *ssa.Function) bool {
		found := false
		core.AllInstrs(g, func(in ssa.Instruction) {
			if st, ok := in.(*ssa.Store); ok {
				_, isIdx := st.Addr.(*ssa.IndexAddr)
				a, fresh := st.Val.(*ssa.Alloc)
				if isIdx && fresh {
					if pt, ok := a.Type().(*types.Pointer); ok {
						if nm, ok := pt.Elem().(*types.Named); ok && nm.Obj().Name() == "span" {
							found = true
						}
					}
				}
			}
		})
		return found
	}
	if !filesFresh(toTree) {
		core.AllInstrs(toTree, func(in ssa.Instruction) {
			if call, ok := in.(*ssa.Call); ok {
				if g := call.Call.StaticCallee(); g != nil && core.InPkg(g, "server/drafty") && len(g.Blocks) > 0 && filesFresh(g) {
					toTree = g
				}
			}
		})
	}
	r.Func(fk(toTree))
	// (the loads as written: the walker's value forwarding would resolve them to the client's style)
	rawLoad := func(f *types.Var) core.VPred {
		return func(v ssa.Value) bool {
			g, _ := core.LoadedField(v)
			return g != nil && g == f
		}
	}
	isAt, isEnd := rawLoad(atF), rawLoad(endF)
	isSpanPtr := func(t types.Type) bool {
		p, ok := t.(*types.Pointer)
		if !ok {
			return false
		}
		n, ok := p.Elem().(*types.Named)
		return ok && n.Obj().Name() == "span"
	}
	// the sinks: stores of a *span into a slice element (what `append(spans, &s)` compiles to) and
	// calls of append with a []*span
	var sinks []ssa.Instruction
	core.AllInstrs(toTree, func(in ssa.Instruction) {
		if st, ok := in.(*ssa.Store); ok && isSpanPtr(st.Val.Type()) {
			_, isIdx := st.Addr.(*ssa.IndexAddr)
			_, fresh := st.Val.(*ssa.Alloc) // the span built from the client's style, not one re-filed later
			if isIdx && fresh {
				sinks = append(sinks, in)
			}
		}
	})
	guards := []struct {
		name string
		g    core.Guard
		why  string
	}{
		{"start >= -1", core.LessGuard("at < -1", isAt, core.IsConstInt(-1), false), "a span starting before -1 is kept"},
		{"end <= length of the text in graphemes", core.LessGuard("len < end", func(v ssa.Value) bool {
			// the length the renderer slices by (graphemes.length()), not the byte length of the string
			isGcLen := func(x ssa.Value) bool {
				call, ok := x.(*ssa.Call)
				return ok && call.Call.StaticCallee() != nil && core.InModule(call.Call.StaticCallee())
			}
			if isGcLen(v) {
				return true
			}
			// handed in by the caller (`spansFromStyles(doc, textLen)`)
			if p, ok := v.(*ssa.Parameter); ok {
				return c.paramAtCallers(p.Parent(), p, func(_ *ssa.Function, arg ssa.Value) bool { return isGcLen(arg) })
			}
			return false
		}, isEnd, false), "a span ending beyond the text (counted in graphemes, as the renderer slices it) is kept"},
		{"end >= start (no wrap-around of at+len)", core.Guard{Name: "end < at", Match: func(a core.CondAtom) (bool, bool) {
			if a.Op != token.LSS {
				return false, false
			}
			if isEnd(a.X) && isAt(a.Y) {
				return true, false
			}
			// or the addition is tested before it is made: `at > MaxInt - len`
			for _, side := range []ssa.Value{a.X, a.Y} {
				if b, ok := core.Strip(side).(*ssa.BinOp); ok && b.Op == token.SUB {
					if _, isK := core.Strip(b.X).(*ssa.Const); isK {
						return true, side == a.X // (MaxInt - len) < at must be false; at < (MaxInt-len)... is the pass side when true
					}
				}
			}
			return false, false
		}}, "the end of a span is at+len of two client-supplied integers and can wrap around: a negative end passes the upper range test and the renderer slices the text out of range (panic in the push goroutine)"},
	}
	// the converter(s) called in toTree whose success the sink depends on
	var convs []*ssa.Call
	core.AllInstrs(toTree, func(in ssa.Instruction) {
		if call, ok := in.(*ssa.Call); ok {
			if g := call.Call.StaticCallee(); g != nil && core.InPkg(g, "server/drafty") && errIndex(g.Signature) >= 0 && len(g.Blocks) > 0 {
				convs = append(convs, call)
			}
		}
	})
	n := 0
	for _, sink := range sinks {
		n++
		for _, gd := range guards {
			saved := core.NoLift
			core.NoLift = true
			ok, cnt := core.GuardedBy(toTree, sink, gd.g)
			if !(ok && cnt[0] > 0) {
				// in the converter: every success return behind the test, and the sink behind its success
				for _, cv := range convs {
					g := cv.Call.StaticCallee()
					ei := errIndex(g.Signature)
					all, k := true, 0
					core.AllInstrs(g, func(in ssa.Instruction) {
						ret, isRet := in.(*ssa.Return)
						if !isRet || !core.IsNil(core.Strip(ret.Results[ei])) {
							return
						}
						k++
						o2, c2 := core.GuardedBy(g, ret, gd.g)
						if !(o2 && c2[0] > 0) {
							all = false
						}
					})
					if all && k > 0 {
						o3, c3 := core.GuardedBy(toTree, sink, successGuard(cv))
						if o3 && c3[0] > 0 {
							ok, cnt = true, []int{1}
						}
					}
				}
			}
			core.NoLift = saved
			r.Check(ok && cnt[0] > 0, rule, fmt.Sprintf("%s: span kept only behind %s", fk(toTree), gd.name), c.pos(sink), "", gd.why)
		}
	}
	r.Check(n >= 1, rule, "spans kept by toTree", "-", fmt.Sprintf("%d", n), "none: anchor lost")
	// the entity a style refers to: the client's key indexes the entity list only behind 0 <= key < len
	keyF := c.field("server/drafty", "span", "key")
	if keyF == nil {
		return
	}
	isKey := rawLoad(keyF)
	isLen := func(v ssa.Value) bool {
		call, ok := v.(*ssa.Call)
		if !ok {
			return false
		}
		b, ok := call.Call.Value.(*ssa.Builtin)
		return ok && b.Name() == "len"
	}
	k := 0
	core.AllInstrs(toTree, func(in ssa.Instruction) {
		ia, ok := in.(*ssa.IndexAddr)
		if !ok || !isKey(ia.Index) {
			return
		}
		k++
		saved := core.NoLift
		core.NoLift = true
		okHi, cHi := core.GuardedBy(toTree, ia, core.LessGuard("key < len(ent)", isKey, isLen, true))
		okLo, cLo := core.GuardedBy(toTree, ia, core.LessGuard("key < 0", isKey, core.IsConstInt(0), false))
		core.NoLift = saved
		construct := fmt.Sprintf("%s: entity list indexed by the style's key only behind 0 <= key < len #%d", fk(toTree), k)
		r.Check(okHi && cHi[0] > 0 && okLo && cLo[0] > 0, rule, construct, c.pos(ia), "",
			"the entity list is indexed by a client-supplied key that is not tested against both ends of the list: index out of range in the push goroutine")
	})
	r.Check(k >= 1, rule, "entity lookups by key in toTree", "-", fmt.Sprintf("%d", k), "none: anchor lost")
}

// checkCompoundCommandsComparedByHead (C10): presence commands travel as "status+command"
// ("on+en", "off+dis", "?unkn+en"); a function that is handed such a compound by one of its callers
// must not decide on the status by comparing the whole string with the bare status: the compound
// would take the other branch (an "on+en" that does not solicit the contacts' status). For every
// string parameter of a function in package server that receives a constant containing '+' at some
// call site: no equality test of the parameter itself with a constant K such that a caller passes
// "K+...".
func (c *Ctx) checkCompoundCommandsComparedByHead() {
	r := c.R
	const rule = "C10.4c-compound-command-compared-by-head"
	n := 0
	for _, fn := range c.P.ModFuncs {
		if !core.InPkg(fn, "server") || fn.Parent() != nil {
			continue
		}
		for idx, p := range fn.Params {
			if b, ok := p.Type().Underlying().(*types.Basic); !ok || b.Kind() != types.String {
				continue
			}
			heads := map[string]string{} // head -> one compound constant with that head
			for _, cs := range c.callersOf(fn) {
				args := cs.Site.Common().Args
				if cs.Site.Common().IsInvoke() || idx >= len(args) {
					continue
				}
				k, ok := args[idx].(*ssa.Const)
				if !ok || k.Value == nil || k.Value.Kind() != constant.String {
					continue
				}
				s := constant.StringVal(k.Value)
				if i := strings.Index(s, "+"); i > 0 {
					heads[s[:i]] = s
				}
			}
			if len(heads) == 0 {
				continue
			}
			n++
			r.Func(fk(fn))
			var bad ssa.Instruction
			var badK string
			core.AllInstrs(fn, func(in ssa.Instruction) {
				b, ok := in.(*ssa.BinOp)
				if !ok || (b.Op != token.EQL && b.Op != token.NEQ) || bad != nil {
					return
				}
				for _, pr := range [][2]ssa.Value{{b.X, b.Y}, {b.Y, b.X}} {
					if pr[0] != ssa.Value(p) {
						continue
					}
					k, ok := pr[1].(*ssa.Const)
					if !ok || k.Value == nil || k.Value.Kind() != constant.String {
						continue
					}
					if _, hit := heads[constant.StringVal(k.Value)]; hit {
						bad, badK = in, constant.StringVal(k.Value)
					}
				}
			})
			detail := ""
			if bad != nil {
				detail = fmt.Sprintf("%s is compared as a whole with %q, but a caller passes %q: the compound takes the other branch (its status part is ignored)", p.Name(), badK, heads[badK])
			}
			pos := c.P.Pos(fn.Pos())
			if bad != nil {
				pos = c.pos(bad)
			}
			r.Check(bad == nil, rule, fmt.Sprintf("%s: %s decided by its status part", fk(fn), p.Name()), pos, "", detail)
		}
	}
	r.Check(n >= 1, rule, "functions handed a compound presence command", "-", fmt.Sprintf("%d", n), "none: anchor lost")
}

// checkSuspensionVisitsEveryTopic (C03): a suspended account's topics are made read-only by a
// callback handed to Range over the hub's topic registry. Range stops at the first callback that
// returns false; the callback that marks topics read-only therefore returns only the constant true
// (a `return false` for a topic of somebody else ends the walk and leaves the user's remaining
// topics writable).
func (c *Ctx) checkSuspensionVisitsEveryTopic() {
	r := c.R
	const rule = "C03.8-suspension-visits-every-topic"
	mark := c.method("server", "Topic", "markReadOnly")
	if mark == nil {
		return
	}
	n := 0
	for _, fn := range c.P.ModFuncs {
		if !core.InPkg(fn, "server") || fn.Parent() == nil {
			continue
		}
		calls := false
		core.AllInstrs(fn, func(in ssa.Instruction) {
			if call, ok := in.(*ssa.Call); ok && core.CalleeOf(&call.Call) == mark {
				calls = true
			}
		})
		if !calls || fn.Signature.Results().Len() != 1 {
			continue
		}
		if b, ok := fn.Signature.Results().At(0).Type().Underlying().(*types.Basic); !ok || b.Kind() != types.Bool {
			continue
		}
		// handed to a Range
		toRange := false
		core.AllInstrs(fn.Parent(), func(in ssa.Instruction) {
			call, ok := in.(*ssa.Call)
			if !ok {
				return
			}
			f := core.CalleeOf(&call.Call)
			if f == nil || f.Name() != "Range" {
				return
			}
			for _, a := range call.Call.Args {
				if mc, ok := a.(*ssa.MakeClosure); ok && mc.Fn == ssa.Value(fn) {
					toRange = true
				}
				if a == ssa.Value(fn) {
					toRange = true
				}
			}
		})
		if !toRange {
			continue
		}
		n++
		r.Func(fk(fn))
		var bad ssa.Instruction
		core.AllInstrs(fn, func(in ssa.Instruction) {
			if ret, ok := in.(*ssa.Return); ok && bad == nil {
				k, isK := ret.Results[0].(*ssa.Const)
				if !isK || k.Value == nil || !constant.BoolVal(k.Value) {
					bad = in
				}
			}
		})
		pos := c.P.Pos(fn.Pos())
		if bad != nil {
			pos = c.pos(bad)
		}
		r.Check(bad == nil, rule, fk(fn)+": the callback that marks topics read-only never stops the walk", pos, "",
			"the Range callback can return false: the walk over the hub's topics ends there and the remaining topics of the suspended user stay writable")
	}
	r.Check(n >= 1, rule, "Range callbacks that mark topics read-only", "-", fmt.Sprintf("%d", n), "none: anchor lost")
	c.checkSuspensionCoversOwnedTopics()
}

// checkSuspensionCoversOwnedTopics (C03): a suspended user's own group topics reject publishes: in
// the function that marks topics read-only, the test `topic.owner == uid` (a) leads to markReadOnly
// on its true edge without a further condition and (b) is reached for a topic that is not p2p (it
// is not nested under the p2p test - `p2p && (member || owner)` never marks a group).
func (c *Ctx) checkSuspensionCoversOwnedTopics() {
	r := c.R
	const rule = "C03.8b-suspension-covers-owned-topics"
	mark := c.method("server", "Topic", "markReadOnly")
	ownerF := c.E().topicField("owner")
	catF := c.E().topicField("cat")
	p2p := c.konst("server/store/types", "TopicCatP2P")
	if mark == nil || ownerF == nil || catF == nil || p2p == nil {
		return
	}
	n := 0
	for _, fn := range c.P.ModFuncs {
		if !core.InPkg(fn, "server") {
			continue
		}
		isMark := func(in ssa.Instruction) bool {
			call, ok := in.(*ssa.Call)
			return ok && core.CalleeOf(&call.Call) == mark
		}
		has := false
		core.AllInstrs(fn, func(in ssa.Instruction) {
			if isMark(in) {
				has = true
			}
		})
		// or a selection predicate of the marking function (`if topic.stateFollowsUser(uid) { topic.markReadOnly(..) }`)
		predicate := false
		if !has && fn.Signature.Results().Len() == 1 {
			if b, ok := fn.Signature.Results().At(0).Type().Underlying().(*types.Basic); ok && b.Kind() == types.Bool {
				for _, cs := range c.callersOf(fn) {
					marks := false
					core.AllInstrs(cs.Caller, func(in ssa.Instruction) {
						if isMark(in) {
							marks = true
						}
					})
					if marks {
						predicate = true
					}
				}
			}
		}
		if !has && !predicate {
			continue
		}
		gOwner := core.EqGuard("topic.owner==uid", core.IsFieldLoad(ownerF), func(v ssa.Value) bool {
			nm, ok := v.Type().(*types.Named)
			return ok && nm.Obj().Name() == "Uid"
		}, true)
		pass, cnt := core.GuardEdges(fn, gOwner)
		// a predicate may return the comparison itself (`return t.owner == uid`)
		var ownerRets []ssa.Instruction
		core.AllInstrs(fn, func(in ssa.Instruction) {
			ret, ok := in.(*ssa.Return)
			if !ok || len(ret.Results) != 1 {
				return
			}
			var has func(v ssa.Value, d int) bool
			has = func(v ssa.Value, d int) bool {
				switch x := v.(type) {
				case *ssa.BinOp:
					return x.Op == token.EQL && (core.IsFieldLoad(ownerF)(x.X) || core.IsFieldLoad(ownerF)(x.Y))
				case *ssa.Phi:
					if d < 3 {
						for _, e := range x.Edges {
							if has(e, d+1) {
								return true
							}
						}
					}
				}
				return false
			}
			if has(ret.Results[0], 0) {
				ownerRets = append(ownerRets, in)
			}
		})
		if cnt[0] == 0 && len(ownerRets) == 0 {
			// the selection may sit in a predicate (`topic.stateFollowsUser(uid)`): examined there
			continue
		}
		n++
		r.Func(fk(fn))
		// (a) the owner edge reaches the marking
		if !predicate && cnt[0] > 0 {
			miss, w := core.PathFromEdgeAvoiding(fn, pass, core.IsReturn, isMark, nil)
			r.Check(!miss, rule, fk(fn)+": owner == uid leads to markReadOnly", c.P.Pos(fn.Pos()), "",
				"a topic owned by the suspended user can leave the function"+posOf(c, w)+" without being marked read-only")
		}
		// (b) the owner test is reached for a topic that is not p2p
		notP2P := core.FailEdges(fn, core.EqGuard("cat==P2P", core.IsFieldLoad(catF), core.IsConstOf(p2p), true))
		cut := map[core.Edge]bool{}
		p2pTrue, _ := core.GuardEdges(fn, core.EqGuard("cat==P2P", core.IsFieldLoad(catF), core.IsConstOf(p2p), true))
		for e := range p2pTrue {
			cut[e] = true
		}
		_ = notP2P
		isOwnerTest := func(in ssa.Instruction) bool {
			for _, o := range ownerRets {
				if o == in {
					return true
				}
			}
			ifi, ok := in.(*ssa.If)
			if !ok {
				return false
			}
			for e := range pass {
				if len(e.From.Instrs) > 0 && e.From.Instrs[len(e.From.Instrs)-1] == ssa.Instruction(ifi) {
					return true
				}
			}
			return false
		}
		reach, _ := core.PathAvoiding(fn, nil, isOwnerTest, nil, cut)
		r.Check(reach, rule, fk(fn)+": the owner test is reached for a topic that is not p2p", c.P.Pos(fn.Pos()), "",
			"the owner test is only reached on the p2p edge: a group topic owned by the suspended user is never marked read-only and keeps accepting publishes")
	}
	r.Check(n >= 1, rule, "functions that select the topics of a suspended user by owner", "-", fmt.Sprintf("%d", n), "none: anchor lost")
}

// checkAttachmentLoopVisitsEveryEntry (C16): the loops that turn the attachment URLs of a message
// into file ids (MediaHandler.GetIdFromUrl) skip an entry that is not a local upload and go on; they
// have no exit other than the end of the list - a `break` on the first foreign URL leaves the local
// files after it unlinked, and the garbage collector removes them although the message exists.
func (c *Ctx) checkAttachmentLoopVisitsEveryEntry() {
	r := c.R
	const rule = "C16.5f-attachment-loop-visits-every-entry"
	n := 0
	for _, fn := range c.P.ModFuncs {
		if !core.InPkg(fn, "server/store") && !core.InPkg(fn, "server") {
			continue
		}
		var calls []*ssa.Call
		core.AllInstrs(fn, func(in ssa.Instruction) {
			if call, ok := in.(*ssa.Call); ok && call.Call.IsInvoke() && call.Call.Method.Name() == "GetIdFromUrl" {
				calls = append(calls, call)
			}
		})
		for _, call := range calls {
			// the innermost loop around the call: header h with a back edge from a block that the call's block reaches
			var header *ssa.BasicBlock
			for e := range backEdges(fn) {
				h := e.From.Succs[e.Idx]
				if h.Dominates(call.Block()) && (header == nil || header.Dominates(h)) {
					header = h
				}
			}
			if header == nil {
				continue // not in a loop
			}
			// the loop body: blocks dominated by the header from which a back edge to it is reachable
			inLoop := map[*ssa.BasicBlock]bool{header: true}
			var mark func(b *ssa.BasicBlock)
			mark = func(b *ssa.BasicBlock) {
				if inLoop[b] || !header.Dominates(b) {
					return
				}
				inLoop[b] = true
				for _, p := range b.Preds {
					mark(p)
				}
			}
			for e := range backEdges(fn) {
				if e.From.Succs[e.Idx] == header {
					mark(e.From)
				}
			}
			n++
			r.Func(fk(fn))
			var bad *ssa.BasicBlock
			for b := range inLoop {
				if b == header {
					continue
				}
				for _, s := range b.Succs {
					if !inLoop[s] && (bad == nil || b.Index < bad.Index) {
						bad = b
					}
				}
			}
			pos := c.pos(call)
			if bad != nil && len(bad.Instrs) > 0 {
				pos = c.pos(bad.Instrs[len(bad.Instrs)-1])
			}
			construct := fmt.Sprintf("%s: the attachment loop ends only at the end of the list", fk(fn))
			if k := countSame(r, rule, construct); k > 0 {
				construct = fmt.Sprintf("%s #%d", construct, k+1)
			}
			r.Check(bad == nil, rule, construct, pos, "",
				"the loop over the attachments of a message can be left before the end of the list: local uploads listed after the entry that ends it are never linked to the message and are garbage-collected while the message exists")
		}
	}
	r.Check(n >= 1, rule, "attachment loops", "-", fmt.Sprintf("%d", n), "none: anchor lost")
}

// checkTagsNormalisedBeforeSort (C19): normalizeTags de-duplicates by comparing neighbours of the
// sorted list; the entries are therefore brought to their canonical spelling (trimmed, lower case)
// before the sort: no call of strings.ToLower / strings.TrimSpace is reachable from sort.Strings.
func (c *Ctx) checkTagsNormalisedBeforeSort() {
	r := c.R
	const rule = "C19.3b-tags-normalised-before-sort"
	fn := c.ssaFn("server", "normalizeTags")
	if fn == nil {
		return
	}
	r.Func(fk(fn))
	direct := func(g *ssa.Function) (sorts, folds []ssa.Instruction) {
		core.AllInstrs(g, func(in ssa.Instruction) {
			call, ok := in.(*ssa.Call)
			if !ok {
				return
			}
			switch calleeFullName(call) {
			case "sort.Strings", "slices.Sort":
				sorts = append(sorts, in)
			case "strings.ToLower", "strings.TrimSpace":
				folds = append(folds, in)
			}
		})
		return
	}
	// examine: in g, no fold is reachable from a sort. A call of a helper counts as a sort when the
	// helper sorts, and as a fold when it folds without sorting (a helper that does both - fold,
	// then sort - is examined itself and counts as the sort it ends with).
	nSort, nFold := 0, 0
	var examine func(g *ssa.Function, d int)
	examine = func(g *ssa.Function, d int) {
		sorts, folds := direct(g)
		nSort += len(sorts)
		nFold += len(folds)
		if d < 2 {
			core.AllInstrs(g, func(in ssa.Instruction) {
				call, ok := in.(*ssa.Call)
				if !ok {
					return
				}
				h := call.Call.StaticCallee()
				if h == nil || h == g || !core.InModule(h) || len(h.Blocks) == 0 {
					return
				}
				hs, hf := direct(h)
				switch {
				case len(hs) > 0:
					sorts = append(sorts, in)
					examine(h, d+1)
				case len(hf) > 0:
					folds = append(folds, in)
					nFold += len(hf)
				}
			})
		}
		isFold := func(in ssa.Instruction) bool {
			for _, f := range folds {
				if f == in {
					return true
				}
			}
			return false
		}
		for i, s := range sorts {
			found, w := core.PathAvoiding(g, s, isFold, nil, nil)
			r.Check(!found, rule, fmt.Sprintf("%s: no entry is re-spelled after sort #%d", fk(g), i+1), c.pos(s), "",
				"an entry is trimmed / lower-cased"+posOf(c, w)+" after the list was sorted: the neighbour comparison that removes duplicates runs over a list that is no longer sorted by the spelling it compares, so case or space variants of one tag survive")
		}
	}
	examine(fn, 0)
	r.Check(nSort >= 1 && nFold >= 1, rule, fk(fn)+": sorts the list and folds the entries", c.P.Pos(fn.Pos()), fmt.Sprintf("%d sort, %d fold", nSort, nFold), "anchor lost: no sort or no case/space folding in normalizeTags")
}

// checkValidatedOnlyWhenNothingMissing (C11): the token issued at login carries FeatureValidated
// only when no credential is missing - Session.login skips credential validation for a token with
// that bit. In onLogin the bit is or-ed into the features only where the list of missing
// credentials is empty.
func (c *Ctx) checkValidatedOnlyWhenNothingMissing() {
	r := c.R
	const rule = "C11.4e-validated-bit-only-when-nothing-missing"
	fn := c.ssaMethod("server", "Session", "onLogin")
	fv := c.konst("server/auth", "FeatureValidated")
	if fn == nil || fv == nil {
		return
	}
	r.Func(fk(fn))
	var missing *ssa.Parameter
	for _, p := range fn.Params {
		if sl, ok := p.Type().Underlying().(*types.Slice); ok {
			if b, ok := sl.Elem().Underlying().(*types.Basic); ok && b.Kind() == types.String {
				missing = p
			}
		}
	}
	if missing == nil {
		c.lost("[]string parameter of Session.onLogin (missing credentials)")
		return
	}
	lenMissing := isLenOf(func(v ssa.Value) bool { return core.Strip(v) == ssa.Value(missing) })
	g := core.Guard{Name: "len(missing)==0", Match: func(a core.CondAtom) (bool, bool) {
		switch a.Op {
		case token.LSS:
			if core.IsConstInt(0)(a.X) && lenMissing(a.Y) {
				return true, false // 0 < len(missing) must be false
			}
		case token.EQL:
			if (lenMissing(a.X) && core.IsConstInt(0)(a.Y)) || (lenMissing(a.Y) && core.IsConstInt(0)(a.X)) {
				return true, true
			}
		}
		return false, false
	}}
	n := 0
	core.AllInstrs(fn, func(in ssa.Instruction) {
		b, ok := in.(*ssa.BinOp)
		if !ok || b.Op != token.OR || !(core.IsConstOf(fv)(b.X) || core.IsConstOf(fv)(b.Y)) {
			return
		}
		n++
		saved := core.NoLift
		core.NoLift = true
		okG, cnt := core.GuardedBy(fn, b, g)
		core.NoLift = saved
		r.Check(okG && cnt[0] > 0, rule, fmt.Sprintf("%s: FeatureValidated set only with no credential missing #%d", fk(fn), n), c.pos(b), "",
			"the validated bit is put into the features although credentials may be missing: the token sent along with the 300 'validate credentials' reply logs in without validation")
	})
	r.Check(n >= 1, rule, "places where onLogin sets FeatureValidated", "-", fmt.Sprintf("%d", n), "none: anchor lost")
}

// checkDeltaReturnsOnlyChunks (C05): AccessMode.Delta renders a change as "+added-removed" and
// ApplyDelta undoes exactly that format ("" and "N" mean "no change" there). Delta therefore never
// returns a fixed word: each of its returns yields the assembled chunks or the empty string - a
// shortcut such as `return "N"` for "nothing left" is read back as "no change".
func (c *Ctx) checkDeltaReturnsOnlyChunks() {
	r := c.R
	const rule = "C05.4f-delta-returns-only-chunks"
	fn := c.ssaMethod("server/store/types", "AccessMode", "Delta")
	if fn == nil {
		return
	}
	r.Func(fk(fn))
	n := 0
	core.AllInstrs(fn, func(in ssa.Instruction) {
		ret, ok := in.(*ssa.Return)
		if !ok || len(ret.Results) != 1 {
			return
		}
		n++
		bad := ""
		// the value is "" or built from chunks that start with '+' or '-'
		var okv func(v ssa.Value, d int) bool
		okv = func(v ssa.Value, d int) bool {
			if d > 6 {
				return false
			}
			switch x := v.(type) {
			case *ssa.Const:
				if x.Value != nil && x.Value.Kind() == constant.String && constant.StringVal(x.Value) == "" {
					return true
				}
				bad = x.String()
				return false
			case *ssa.Phi:
				for _, e := range x.Edges {
					// `s = m.String(); if s != "" { s = "-" + s }`: the bare edge is the empty one
					signed := false
					for _, e2 := range x.Edges {
						if b, ok := e2.(*ssa.BinOp); ok && b.Op == token.ADD && b.Y == e {
							if k, ok := b.X.(*ssa.Const); ok && k.Value != nil && k.Value.Kind() == constant.String {
								if sg := constant.StringVal(k.Value); sg == "+" || sg == "-" {
									signed = true
								}
							}
						}
					}
					if signed {
						continue
					}
					if !okv(e, d+1) {
						return false
					}
				}
				return len(x.Edges) > 0
			case *ssa.BinOp:
				if x.Op != token.ADD {
					break
				}
				if k, ok := x.X.(*ssa.Const); ok && k.Value != nil && k.Value.Kind() == constant.String {
					if s := constant.StringVal(k.Value); s == "+" || s == "-" {
						return true // a chunk: sign + letters
					}
				}
				return okv(x.X, d+1) && okv(x.Y, d+1)
			}
			// a whole mode rendered as text (`ModeNone.String()`) is a word, not a chunk; anything else
			// (a strings.Builder, a helper) is taken as assembled
			if call, ok := v.(*ssa.Call); ok {
				if f := core.CalleeOf(&call.Call); f != nil {
					if sig, ok := f.Type().(*types.Signature); ok && sig.Recv() != nil && isModeType(sig.Recv().Type()) {
						bad = v.String()
						return false
					}
				}
			}
			return true
		}
		good := okv(ret.Results[0], 0)
		r.Check(good, rule, fmt.Sprintf("%s: return #%d yields the assembled chunks or \"\"", fk(fn), n), c.pos(ret), "",
			fmt.Sprintf("Delta can return %s, a word that is not a sequence of '+'/'-' chunks: ApplyDelta does not read it as the change it stands for, so applying the delta of (old, new) to old no longer gives new", bad))
	})
	r.Check(n >= 1, rule, "returns of AccessMode.Delta", "-", fmt.Sprintf("%d", n), "none: anchor lost")
}

// checkQueryBoundsOneToOne (C04): the bounds of a history or deletion-log query go to the store as
// the client gave them: QueryOpt.Since is filled from MsgGetOpts.SinceId and QueryOpt.Before from
// MsgGetOpts.BeforeId, never from the other one (an inverted range is empty; a helper that "fixes"
// it by swapping the bounds returns messages the query did not ask for).
func (c *Ctx) checkQueryBoundsOneToOne() {
	r := c.R
	const rule = "C04.1e-query-bounds-one-to-one"
	sinceQ := c.field("server/store/types", "QueryOpt", "Since")
	beforeQ := c.field("server/store/types", "QueryOpt", "Before")
	sinceR := c.field("server", "MsgGetOpts", "SinceId")
	beforeR := c.field("server", "MsgGetOpts", "BeforeId")
	if sinceQ == nil || beforeQ == nil || sinceR == nil || beforeR == nil {
		return
	}
	n := 0
	for _, fn := range c.P.ModFuncs {
		if !core.InPkg(fn, "server") {
			continue
		}
		for _, pr := range []struct {
			q, own, other *types.Var
		}{{sinceQ, sinceR, beforeR}, {beforeQ, beforeR, sinceR}} {
			for _, st := range core.StoresToField(fn, pr.q) {
				fromOwn := derivesAny(st.Val, core.IsFieldLoad(pr.own))
				fromOther := derivesAny(st.Val, core.IsFieldLoad(pr.other))
				if !fromOwn && !fromOther {
					continue // a constant or a value of the server's own
				}
				n++
				r.Func(fk(fn))
				construct := fmt.Sprintf("%s: QueryOpt.%s comes from the request's %s only", fk(fn), pr.q.Name(), pr.own.Name())
				if k := countSame(r, rule, construct); k > 0 {
					construct = fmt.Sprintf("%s #%d", construct, k+1)
				}
				r.Check(!fromOther, rule, construct, c.pos(st), "",
					fmt.Sprintf("QueryOpt.%s can take the value of the request's %s: the query handed to the store is not the range the client asked for (an inverted range must stay empty)", pr.q.Name(), pr.other.Name()))
			}
		}
	}
	r.Check(n >= 2, rule, "query bounds filled from the request", "-", fmt.Sprintf("%d", n), "fewer than two: anchor lost")
}

// checkFailureReplyCarriesTheFailure (C13): inside the failure branch of a step (`rec, err := f();
// if err != nil { ... }`) the reply built from an error (decodeStoreError*) is built from that
// step's error, or from an error that cannot be nil - not from a variable that the clean-up in the
// branch has reassigned (`if err = undo(); err != nil { log }` followed by decodeStoreError(err)):
// when the clean-up succeeds the failed request is answered 200.
func (c *Ctx) checkFailureReplyCarriesTheFailure() {
	r := c.R
	const rule = "C13.4e-failure-reply-carries-the-failure"
	errT := types.Universe.Lookup("error").Type()
	n := 0
	for _, fn := range c.P.ModFuncs {
		if !core.InPkg(fn, "server") {
			continue
		}
		core.AllInstrs(fn, func(in ssa.Instruction) {
			call, ok := in.(*ssa.Call)
			if !ok {
				return
			}
			g := call.Call.StaticCallee()
			if g == nil || !strings.HasPrefix(g.Name(), "decodeStoreError") || len(call.Call.Args) == 0 {
				return
			}
			arg := call.Call.Args[0]
			if !types.Identical(arg.Type(), errT) {
				return
			}
			// the failure branches this reply sits in: dominating `E != nil` tests taken on the non-nil edge
			var failed []ssa.Value
			for b := call.Block(); b != nil; b = b.Idom() {
				d := b.Idom()
				if d == nil || len(d.Instrs) == 0 {
					continue
				}
				ifi, isIf := d.Instrs[len(d.Instrs)-1].(*ssa.If)
				if !isIf {
					continue
				}
				a := core.NormCond(ifi.Cond)
				if a.Op != token.EQL {
					continue
				}
				var e ssa.Value
				switch {
				case core.IsNil(a.Y) && types.Identical(a.X.Type(), errT):
					e = a.X
				case core.IsNil(a.X) && types.Identical(a.Y.Type(), errT):
					e = a.Y
				}
				if e == nil {
					continue
				}
				// the edge on which e != nil: the true edge when the atom `e == nil` is negated
				idx := 1
				if a.Negated {
					idx = 0
				}
				if idx < len(d.Succs) && d.Succs[idx].Dominates(call.Block()) && len(d.Succs[idx].Preds) == 1 {
					failed = append(failed, e)
				}
			}
			if len(failed) == 0 {
				return
			}
			n++
			r.Func(fk(fn))
			ok2 := false
			for _, e := range failed {
				if arg == e {
					ok2 = true
				}
			}
			if known, isNil := errorsNewNonNil(arg); known && !isNil {
				ok2 = true
			}
			if _, isG := loadedGlobal(arg); isG {
				ok2 = true
			}
			if mi, isMI := arg.(*ssa.MakeInterface); isMI {
				_ = mi
				ok2 = true // a concrete error value (types.ErrPolicy and the like)
			}
			construct := fmt.Sprintf("%s: the reply in a failure branch is built from the failure", fk(fn))
			if k := countSame(r, rule, construct); k > 0 {
				construct = fmt.Sprintf("%s #%d", construct, k+1)
			}
			r.Check(ok2, rule, construct, c.pos(call), "",
				"the reply to a failed step is built from an error variable that was reassigned inside the failure branch (by the clean-up): when the clean-up succeeds the variable is nil and the failed request is answered 200")
		})
	}
	r.Check(n >= 3, rule, "error replies built inside failure branches", "-", fmt.Sprintf("%d", n), "fewer than three: anchor lost")
}

// checkParseAcsReadsWholeText (C05): "text with unknown letters is rejected" holds only if ParseAcs
// looks at every byte. It may leave its scanning loop early for 'N' (none cannot be combined with
// anything), but then nothing may follow: every path to the success return passes an edge on which a
// comparison `x < len(text)` is false - the loop's own exit, or an explicit "nothing follows" test.
func (c *Ctx) checkParseAcsReadsWholeText() {
	r := c.R
	const rule = "C05.1c-parse-reads-the-whole-text"
	fn := c.ssaFn("server/store/types", "ParseAcs")
	if fn == nil || len(fn.Params) == 0 {
		return
	}
	r.Func(fk(fn))
	text := fn.Params[0]
	isLenText := isLenOf(func(v ssa.Value) bool { return core.Strip(v) == ssa.Value(text) })
	// len(text) itself or a bound computed from it (`last := len(b) - 1`)
	isLen := func(v ssa.Value) bool { return isLenText(v) || derivesAny(v, isLenText) }
	g := core.LessGuard("x < len(text)", core.Any, isLen, false)
	ei := errIndex(fn.Signature)
	n := 0
	core.AllInstrs(fn, func(in ssa.Instruction) {
		ret, ok := in.(*ssa.Return)
		if !ok || ei < 0 || !core.IsNil(core.Strip(ret.Results[ei])) {
			return
		}
		n++
		saved := core.NoLift
		core.NoLift = true
		okG, cnt := core.GuardedBy(fn, ret, g)
		core.NoLift = saved
		r.Check(okG && cnt[0] > 0, rule, fmt.Sprintf("%s: success return #%d only with the whole text read", fk(fn), n), c.pos(ret), "",
			"the parser can return success while part of the text was not looked at (it leaves the scanning loop early without testing that nothing follows): letters or junk after that point are accepted silently")
		// "" must stay distinguishable from "N": the unset marker lies outside the permission bits, so the
		// parsed value is returned as accumulated - masking it (the callers mask after their unset test)
		// turns "no change" into "no access"
		masked := false
		if b, isB := ret.Results[0].(*ssa.BinOp); isB && b.Op == token.AND {
			_, kx := b.X.(*ssa.Const)
			_, ky := b.Y.(*ssa.Const)
			masked = kx || ky
		}
		r.Check(!masked, "C05.1d-parse-keeps-the-unset-marker", fmt.Sprintf("%s: success return #%d yields the accumulated value unmasked", fk(fn), n), c.pos(ret), "",
			"ParseAcs masks its result with a constant: the unset marker is lost, the empty string parses as 'N' and an absent mode resets the target to no access")
	})
	r.Check(n >= 1, rule, "success returns of ParseAcs", "-", fmt.Sprintf("%d", n), "none: anchor lost")
}

// checkRingKeyedByRoutableName (C17, C02): the ring is asked about names as they are routed -
// "usrXXX" for a user's own topics - on every node and at every site; a site that asks with the bare
// id (Uid.String()) hashes a different string and can place a user on another node than the sites
// that route the request. Every argument of Cluster.isRemoteTopic / Cluster.nodeForTopic / Ring.Get
// that is rendered from a Uid is rendered with Uid.UserId().
func (c *Ctx) checkRingKeyedByRoutableName(rule string) {
	r := c.R
	isRemote := c.method("server", "Cluster", "isRemoteTopic")
	nodeFor := c.method("server", "Cluster", "nodeForTopic")
	ringGet := c.method("server/ringhash", "Ring", "Get")
	userID := c.method("server/store/types", "Uid", "UserId")
	if isRemote == nil || nodeFor == nil || ringGet == nil || userID == nil {
		return
	}
	n := 0
	for _, fn := range c.P.ModFuncs {
		if !core.InPkg(fn, "server") {
			continue
		}
		core.AllInstrs(fn, func(in ssa.Instruction) {
			call, ok := in.(*ssa.Call)
			if !ok {
				return
			}
			f := core.CalleeOf(&call.Call)
			if f != isRemote && f != nodeFor && f != ringGet {
				return
			}
			args := call.Call.Args
			arg := args[len(args)-1]
			ac, isCall := core.Strip(arg).(*ssa.Call)
			if !isCall {
				return
			}
			g := core.CalleeOf(&ac.Call)
			if g == nil {
				return
			}
			sig, _ := g.Type().(*types.Signature)
			if sig == nil || sig.Recv() == nil {
				return
			}
			if nm, ok := sig.Recv().Type().(*types.Named); !ok || nm.Obj().Name() != "Uid" {
				return
			}
			n++
			r.Func(fk(fn))
			construct := fmt.Sprintf("%s: %s asked with the user's routable name", fk(fn), f.Name())
			if k := countSame(r, rule, construct); k > 0 {
				construct = fmt.Sprintf("%s #%d", construct, k+1)
			}
			r.Check(g == userID, rule, construct, c.pos(call), "",
				fmt.Sprintf("the ring is asked about a user with Uid.%s() while requests for that user are routed by Uid.UserId(): the two spellings hash to different nodes, so the local/remote decision disagrees with where the request goes", g.Name()))
		})
	}
	r.Check(n >= 5, rule, "ring lookups by a user's name", "-", fmt.Sprintf("%d", n), "fewer than five: anchor lost")
}

// checkCachedTagsAreStoredTags (C08): after a tag update the live topic holds the list that was
// written: the value assigned to Topic.tags in the function that writes a "Tags" key to the store
// is the value written under that key (the normalised list), not the request's raw list.
func (c *Ctx) checkCachedTagsAreStoredTags() {
	r := c.R
	const rule = "C08.3d-cached-tags-are-the-stored-tags"
	tagsF := c.E().topicField("tags")
	if tagsF == nil {
		return
	}
	n := 0
	for _, fn := range c.P.ModFuncs {
		if !core.InPkg(fn, "server") || fn.Parent() != nil || !isPtrToNamedRecv(fn, "Topic") {
			continue
		}
		stores := core.StoresToField(fn, tagsF)
		if len(stores) == 0 {
			continue
		}
		// the values written to the store under "Tags" in this function or a helper it calls
		var written []ssa.Value
		collect := func(g *ssa.Function) {
			for _, sink := range c.storeWriteSinks(g) {
				call, ok := sink.(*ssa.Call)
				if !ok {
					continue
				}
				for _, a := range call.Call.Args {
					for k, vs := range mapLiteralKeys(a) {
						if k == "Tags" {
							written = append(written, vs...)
						}
					}
				}
			}
		}
		collect(fn)
		core.AllInstrs(fn, func(in ssa.Instruction) {
			if call, ok := in.(*ssa.Call); ok {
				if g := call.Call.StaticCallee(); g != nil && g != fn && core.InPkg(g, "server") && len(g.Blocks) > 0 {
					before := len(written)
					collect(g)
					// a helper that receives the list: what is written is its parameter, i.e. the caller's argument
					for i := before; i < len(written); i++ {
						if p, isP := c.rootValue(written[i]).(*ssa.Parameter); isP && p.Parent() == g {
							for j, q := range g.Params {
								if q == p && j < len(call.Call.Args) {
									written[i] = call.Call.Args[j]
								}
							}
						}
					}
				}
			}
		})
		if len(written) == 0 {
			continue
		}
		for _, st := range stores {
			n++
			r.Func(fk(fn))
			ok := false
			for _, w := range written {
				if c.rootValue(st.Val) == c.rootValue(w) || sameValue(st.Val, w, 0) {
					ok = true
				}
			}
			construct := fmt.Sprintf("%s: Topic.tags takes the list that was written", fk(fn))
			if k := countSame(r, rule, construct); k > 0 {
				construct = fmt.Sprintf("%s #%d", construct, k+1)
			}
			r.Check(ok, rule, construct, c.pos(st), "",
				"the list cached in the live topic is not the list written to the store (e.g. the request's raw tags instead of the normalised ones): the live topic answers with tags the store does not hold until it is reloaded")
		}
	}
	r.Check(n >= 1, rule, "assignments of Topic.tags next to a store write of Tags", "-", fmt.Sprintf("%d", n), "none: anchor lost")
}

// checkLoaderCachesEveryRow (C08): the loader of a group topic files every subscription row the
// store returned into Topic.perUser - the live handlers keep banned or muted users' records, and a
// reloaded topic that skips some rows treats their owners as strangers. In the function that ranges
// over Topics.GetSubs, no iteration of the loop avoids the perUser update.
func (c *Ctx) checkLoaderCachesEveryRow() {
	r := c.R
	const rule = "C08.5-loader-caches-every-row"
	getSubs := c.E().storeIface("TopicsPersistenceInterface", "GetSubs")
	perUser := c.E().topicField("perUser")
	if getSubs == nil || perUser == nil {
		return
	}
	n := 0
	for _, fn := range c.funcsCalling(getSubs, "server") {
		if !isPtrToNamedRecv(fn, "Topic") {
			continue
		}
		isUpd := func(in ssa.Instruction) bool {
			if mu, ok := in.(*ssa.MapUpdate); ok && core.IsFieldLoad(perUser)(mu.Map) {
				return true
			}
			// a helper that files one row: it updates perUser on every path to its return
			if call, ok := in.(*ssa.Call); ok {
				if h := call.Call.StaticCallee(); h != nil && h != fn && core.InPkg(h, "server") && len(h.Blocks) > 0 {
					inner := func(i2 ssa.Instruction) bool {
						mu, ok := i2.(*ssa.MapUpdate)
						return ok && core.IsFieldLoad(perUser)(mu.Map)
					}
					has := false
					core.AllInstrs(h, func(i2 ssa.Instruction) {
						if inner(i2) {
							has = true
						}
					})
					if has {
						skip, _ := core.PathAvoiding(h, nil, core.IsReturn, inner, nil)
						return !skip
					}
				}
			}
			return false
		}
		var upd ssa.Instruction
		core.AllInstrs(fn, func(in ssa.Instruction) {
			if isUpd(in) && upd == nil {
				upd = in
			}
		})
		if upd == nil {
			continue
		}
		var header *ssa.BasicBlock
		be := backEdges(fn)
		for e := range be {
			h := e.From.Succs[e.Idx]
			if h.Dominates(upd.Block()) && (header == nil || header.Dominates(h)) {
				header = h
			}
		}
		if header == nil {
			continue
		}
		n++
		r.Func(fk(fn))
		// from the loop header, a path back to the header that avoids the update
		isBack := func(in ssa.Instruction) bool {
			b := in.Block()
			if len(b.Instrs) == 0 || b.Instrs[len(b.Instrs)-1] != in {
				return false
			}
			for i, s := range b.Succs {
				if s == header && be[core.Edge{From: b, Idx: i}] {
					return true
				}
			}
			return false
		}
		edges := map[core.Edge]bool{}
		for i, s := range header.Succs {
			if header.Dominates(s) && s != header {
				// the edge into the body (the other one leaves the loop)
				edges[core.Edge{From: header, Idx: i}] = true
			}
		}
		found, w := core.PathFromEdgeAvoiding(fn, edges, isBack, isUpd, nil)
		r.Check(!found, rule, fk(fn)+": every row returned by the store is filed into perUser", c.pos(upd), "",
			"an iteration of the loader's loop can go on to the next row"+posOf(c, w)+" without filing the current one: the reloaded topic has no record of a subscriber the store (and the topic before the reload) knows")
	}
	r.Check(n >= 1, rule, "loader loops", "-", fmt.Sprintf("%d", n), "none: anchor lost")
}

// checkOnlineKeyedBySubscribedUser (C10): the online counter belongs to the user a session is
// attached as (perSessionData.uid, the acting user of the request), which differs from the
// session's own uid for a root session acting for somebody. A counter step never takes the record
// of `sess.uid` unconditionally.
func (c *Ctx) checkOnlineKeyedBySubscribedUser() {
	r := c.R
	const rule = "C10.3e-online-keyed-by-subscribed-user"
	online := c.E().pudField("online")
	perUser := c.E().topicField("perUser")
	sessUid := c.E().sessionField("uid")
	if online == nil || perUser == nil || sessUid == nil {
		return
	}
	n := 0
	for _, fn := range c.P.ModFuncs {
		if !core.InPkg(fn, "server") || !isPtrToNamedRecv(fn, "Topic") {
			continue
		}
		steps := 0
		for _, st := range core.StoresToField(fn, online) {
			if b, ok := core.Strip(st.Val).(*ssa.BinOp); ok && (b.Op == token.ADD || b.Op == token.SUB) {
				steps++
			}
		}
		if steps == 0 {
			continue
		}
		core.AllInstrs(fn, func(in ssa.Instruction) {
			var key ssa.Value
			switch x := in.(type) {
			case *ssa.MapUpdate:
				if core.IsFieldLoad(perUser)(x.Map) {
					key = x.Key
				}
			case *ssa.Lookup:
				if core.IsFieldLoad(perUser)(x.X) {
					key = x.Index
				}
			}
			if key == nil {
				return
			}
			n++
			r.Func(fk(fn))
			// the key as written (a merge of alternatives is fine; a plain load of Session.uid is not)
			k := key
			for {
				if ct, ok := k.(*ssa.ChangeType); ok {
					k = ct.X
					continue
				}
				break
			}
			f, _ := core.LoadedField(k)
			// the step extracted into a helper that is handed the user (`t.addOnline(uid, +1)`): what the callers pass
			if p, isP := k.(*ssa.Parameter); isP {
				idx := -1
				for i, q := range fn.Params {
					if q == p {
						idx = i
					}
				}
				for _, cs := range c.callersOf(fn) {
					args := cs.Site.Common().Args
					if idx < 0 || cs.Site.Common().IsInvoke() || idx >= len(args) {
						continue
					}
					a := args[idx]
					if ct, ok := a.(*ssa.ChangeType); ok {
						a = ct.X
					}
					if g, _ := core.LoadedField(a); g == sessUid {
						f = sessUid
					}
				}
			}
			construct := fmt.Sprintf("%s: perUser record of the subscribed user", fk(fn))
			if kk := countSame(r, rule, construct); kk > 0 {
				construct = fmt.Sprintf("%s #%d", construct, kk+1)
			}
			r.Check(f != sessUid, rule, construct, c.pos(in), "",
				"a function that steps the online counter takes the record of the session's own uid: for a root session attached on behalf of another user the wrong user's counter moves (and a ghost record appears)")
		})
	}
	r.Check(n >= 1, rule, "perUser accesses in functions that step the online counter", "-", fmt.Sprintf("%d", n), "none: anchor lost")
}

// checkEnabledComesFromEnCommand (C10): a contact's record carries two flags, online and enabled;
// "enabled" is what the "+en" command sets. At every call of the constructor of such a record
// (the function that stores its parameters into perSubsData.online / .enabled) the argument bound
// to `enabled` is a constant or the test of the command against "en", and the argument bound to
// `online` is not that test (two adjacent bools are easily transposed).
func (c *Ctx) checkEnabledComesFromEnCommand() {
	r := c.R
	const rule = "C10.4d-enabled-comes-from-en-command"
	onF := c.field("server", "perSubsData", "online")
	enF := c.field("server", "perSubsData", "enabled")
	if onF == nil || enF == nil {
		return
	}
	isEnTest := func(v ssa.Value) bool {
		return derivesAny(v, func(x ssa.Value) bool {
			b, ok := x.(*ssa.BinOp)
			if !ok || (b.Op != token.EQL && b.Op != token.NEQ) {
				return false
			}
			for _, s := range []ssa.Value{b.X, b.Y} {
				if k, ok := s.(*ssa.Const); ok && k.Value != nil && k.Value.Kind() == constant.String && constant.StringVal(k.Value) == "en" {
					return true
				}
			}
			return false
		})
	}
	n := 0
	for _, g := range c.P.ModFuncs {
		if !core.InPkg(g, "server") || g.Parent() != nil {
			continue
		}
		paramOf := func(f *types.Var) int {
			for _, st := range core.StoresToField(g, f) {
				if p, ok := core.Strip(st.Val).(*ssa.Parameter); ok {
					for i, q := range g.Params {
						if q == p {
							return i
						}
					}
				}
			}
			// struct literal in a map update: the field value of the literal
			return -1
		}
		io, ie := paramOf(onF), paramOf(enF)
		if io < 0 || ie < 0 {
			continue
		}
		for _, cs := range c.callersOf(g) {
			args := cs.Site.Common().Args
			if cs.Site.Common().IsInvoke() || io >= len(args) || ie >= len(args) {
				continue
			}
			n++
			r.Func(fk(cs.Caller))
			_, enConst := args[ie].(*ssa.Const)
			okEn := enConst || isEnTest(args[ie]) || !isEnTest(args[io])
			okOn := !isEnTest(args[io])
			construct := fmt.Sprintf("%s -> %s: enabled from the \"en\" command, online from the status", fk(cs.Caller), g.Name())
			if k := countSame(r, rule, construct); k > 0 {
				construct = fmt.Sprintf("%s #%d", construct, k+1)
			}
			r.Check(okEn && okOn, rule, construct, c.pos(cs.Site), "",
				"the test of the command against \"en\" is bound to the record's online flag (and the status to its enabled flag): a contact introduced with ?none+en is stored as online and disabled, and its later 'on' is suppressed as no change")
		}
	}
	r.Check(n >= 1, rule, "calls of the contact-record constructor", "-", fmt.Sprintf("%d", n), "none: anchor lost")
}

// checkClientMapValuesAssertedSafely (C13): the values of the free-form maps of a message
// (`head`, and whatever else arrives as map[string]any) are whatever JSON the client sent; a
// single-value type assertion `v.(bool)` on one of them panics in a goroutine without recover.
// Every type assertion in package server whose operand comes out of a lookup in a message head
// (MsgClientPub.Head / MsgServerData.Head) is of the comma-ok form.
func (c *Ctx) checkClientMapValuesAssertedSafely() {
	r := c.R
	const rule = "C13.7-client-map-values-asserted-safely"
	isAnyMap := func(t types.Type) bool {
		m, ok := t.Underlying().(*types.Map)
		if !ok {
			return false
		}
		k, ok := m.Key().Underlying().(*types.Basic)
		if !ok || k.Kind() != types.String {
			return false
		}
		i, ok := m.Elem().Underlying().(*types.Interface)
		return ok && i.NumMethods() == 0
	}
	// the maps that carry the client's JSON: the head of a published message, as received and as relayed
	headPub := c.field("server", "MsgClientPub", "Head")
	headData := c.field("server", "MsgServerData", "Head")
	if headPub == nil || headData == nil {
		return
	}
	isHead := core.Or(core.IsFieldLoad(headPub), core.IsFieldLoad(headData))
	fromLookup := func(v ssa.Value) bool {
		return derivesAny(v, func(x ssa.Value) bool {
			l, ok := x.(*ssa.Lookup)
			return ok && isAnyMap(l.X.Type()) && derivesAny(l.X, isHead)
		})
	}
	n, safe := 0, 0
	for _, fn := range c.P.ModFuncs {
		if !core.InPkg(fn, "server") {
			continue
		}
		core.AllInstrs(fn, func(in ssa.Instruction) {
			ta, ok := in.(*ssa.TypeAssert)
			if !ok || !fromLookup(ta.X) {
				return
			}
			n++
			if ta.CommaOk {
				safe++
				return
			}
			r.Func(fk(fn))
			construct := fmt.Sprintf("%s: value of a free-form map asserted with the comma-ok form", fk(fn))
			if k := countSame(r, rule, construct); k > 0 {
				construct = fmt.Sprintf("%s #%d", construct, k+1)
			}
			r.Fail(rule, construct, c.pos(ta), "a value taken out of a map[string]any (client-supplied JSON such as a message head) is asserted to "+ta.AssertedType.String()+" without the comma-ok form: any other JSON type panics in a goroutine that has no recover")
		})
	}
	// anchor: the heads are read somewhere (the assertions themselves may sit in a closure or helper
	// that is handed the map, where the lookup is no longer tied to the field)
	reads := 0
	for _, fn := range c.P.ModFuncs {
		if !core.InPkg(fn, "server") {
			continue
		}
		core.AllInstrs(fn, func(in ssa.Instruction) {
			if v, ok := in.(ssa.Value); ok && isHead(v) {
				reads++
			}
		})
	}
	r.Check(reads >= 3, rule, "reads of a message head in package server", "-", fmt.Sprintf("%d reads, %d of %d assertions comma-ok", reads, safe, n), "fewer than three: anchor lost")
}

// checkCallTimerStoppedOnlyWhenSettled (C15): the establishment timer is what ends an unanswered
// call ("missed"). It is stopped only where the call is settled: every path to a Stop has recorded
// the acceptance (videoCall.acceptedAt), or every path from the Stop frees the call slot
// (Topic.currentCall = nil). A Stop placed before a step that can still fail leaves an unaccepted
// call without its timeout.
func (c *Ctx) checkCallTimerStoppedOnlyWhenSettled() {
	r := c.R
	const rule = "C15.3d-timer-stopped-only-when-settled"
	timerF := c.E().topicField("callEstablishmentTimer")
	curF := c.E().topicField("currentCall")
	accF := c.field("server", "videoCall", "acceptedAt")
	if timerF == nil || curF == nil || accF == nil {
		return
	}
	n := 0
	for _, fn := range c.P.ModFuncs {
		if !core.InPkg(fn, "server") {
			continue
		}
		if len(core.StoresToField(fn, timerF)) > 0 {
			continue // where the timer is created (and parked)
		}
		isAccept := func(in ssa.Instruction) bool {
			st, ok := in.(*ssa.Store)
			if !ok {
				return false
			}
			f, _ := core.FieldOfAddr(st.Addr)
			return f == accF
		}
		isFree := func(in ssa.Instruction) bool {
			st, ok := in.(*ssa.Store)
			if !ok {
				return false
			}
			f, _ := core.FieldOfAddr(st.Addr)
			return f == curF && core.IsNil(core.Strip(st.Val))
		}
		core.AllInstrs(fn, func(in ssa.Instruction) {
			call, ok := in.(*ssa.Call)
			if !ok || calleeFullName(call) != "(*time.Timer).Stop" || len(call.Call.Args) == 0 || !core.IsFieldLoad(timerF)(call.Call.Args[0]) {
				return
			}
			n++
			r.Func(fk(fn))
			unaccepted, _ := core.PathAvoiding(fn, nil, func(i2 ssa.Instruction) bool { return i2 == in }, isAccept, nil)
			notFreed, w := core.PathAvoiding(fn, in, core.IsReturn, isFree, nil)
			construct := fmt.Sprintf("%s: establishment timer stopped only when the call is settled", fk(fn))
			if k := countSame(r, rule, construct); k > 0 {
				construct = fmt.Sprintf("%s #%d", construct, k+1)
			}
			r.Check(!unaccepted || !notFreed, rule, construct, c.pos(in), "",
				"the timer is stopped on a path that has not recorded the acceptance, and the function can return"+posOf(c, w)+" without freeing the call slot: an unaccepted call is left without its timeout and the topic stays busy")
		})
	}
	r.Check(n >= 2, rule, "stops of the establishment timer", "-", fmt.Sprintf("%d", n), "fewer than two: anchor lost")
}

// checkFailureReturnCarriesTheFailure (C18): in the store layer, inside the failure branch of a
// step (`if err = adp.Step(); err != nil { ... }`) the error returned to the caller is that step's
// error (or one that cannot be nil), not a variable reassigned by the compensation in the branch
// (`if err = adp.Undo(); err != nil { log }; return nil, err`): when the compensation succeeds the
// caller is told the operation succeeded.
func (c *Ctx) checkFailureReturnCarriesTheFailure() {
	r := c.R
	const rule = "C18.5-failure-return-carries-the-failure"
	errT := types.Universe.Lookup("error").Type()
	n := 0
	for _, fn := range c.P.ModFuncs {
		if !core.InPkg(fn, "server/store") || fn.Parent() != nil {
			continue
		}
		ei := errIndex(fn.Signature)
		if ei < 0 {
			continue
		}
		core.AllInstrs(fn, func(in ssa.Instruction) {
			ret, ok := in.(*ssa.Return)
			if !ok {
				return
			}
			res := ret.Results[ei]
			var failed []ssa.Value
			for b := ret.Block(); b != nil; b = b.Idom() {
				d := b.Idom()
				if d == nil || len(d.Instrs) == 0 {
					continue
				}
				ifi, isIf := d.Instrs[len(d.Instrs)-1].(*ssa.If)
				if !isIf {
					continue
				}
				a := core.NormCond(ifi.Cond)
				if a.Op != token.EQL {
					continue
				}
				var e ssa.Value
				switch {
				case core.IsNil(a.Y) && types.Identical(a.X.Type(), errT):
					e = a.X
				case core.IsNil(a.X) && types.Identical(a.Y.Type(), errT):
					e = a.Y
				}
				if e == nil {
					continue
				}
				idx := 1
				if a.Negated {
					idx = 0
				}
				if idx < len(d.Succs) && d.Succs[idx].Dominates(ret.Block()) && len(d.Succs[idx].Preds) == 1 {
					failed = append(failed, e)
				}
			}
			if len(failed) == 0 {
				return
			}
			n++
			r.Func(fk(fn))
			ok2 := false
			for _, e := range failed {
				if res == e {
					ok2 = true
				}
			}
			if known, isNil := errorsNewNonNil(res); known && !isNil {
				ok2 = true
			}
			if _, isG := loadedGlobal(res); isG {
				ok2 = true
			}
			if _, isMI := res.(*ssa.MakeInterface); isMI {
				ok2 = true
			}
			// the innermost failure decides: returning the error of a nested failed step is fine too
			if _, isK := res.(*ssa.Const); isK && core.IsNil(res) {
				ok2 = false
			}
			construct := fmt.Sprintf("%s: a return inside a failure branch yields the failure", fk(fn))
			if k := countSame(r, rule, construct); k > 0 {
				construct = fmt.Sprintf("%s #%d", construct, k+1)
			}
			r.Check(ok2, rule, construct, c.pos(ret), "",
				"inside the failure branch of a step the function returns an error variable that the compensation reassigned (or nil): when the compensation succeeds the caller is told that the operation succeeded")
		})
	}
	r.Check(n >= 5, rule, "returns inside failure branches of the store layer", "-", fmt.Sprintf("%d", n), "fewer than five: anchor lost")
}

// checkParseP2PZeroOnError (C20): a malformed p2p name decodes to "no such id": every return of
// ParseP2P that may carry an error returns the zero id twice (callers that ignore the error get
// nothing to act on).
func (c *Ctx) checkParseP2PZeroOnError() {
	r := c.R
	const rule = "C20.4g-p2p-ids-zero-on-error"
	fn := c.ssaFn("server/store/types", "ParseP2P")
	if fn == nil {
		return
	}
	r.Func(fk(fn))
	ei := errIndex(fn.Signature)
	// the only non-zero ids are the ones read from the decoded bytes (binary Uint64): they must not
	// flow to a return whose error may be non-nil, unless that error is the decoder's own success-path
	// value (returned together with ids read behind the byte-count test)
	n := 0
	core.AllInstrs(fn, func(in ssa.Instruction) {
		ret, ok := in.(*ssa.Return)
		if !ok || ei < 0 {
			return
		}
		errV := ret.Results[ei]
		if core.IsNil(core.Strip(errV)) {
			return
		}
		known, isNil := errorsNewNonNil(core.Strip(errV))
		sure := known && !isNil
		if !sure {
			// a merge: does any edge carry a made error?
			if phi, ok := errV.(*ssa.Phi); ok {
				for _, e := range phi.Edges {
					if k, n2 := errorsNewNonNil(core.Strip(e)); k && !n2 {
						sure = true
					}
				}
			}
		}
		if !sure {
			return
		}
		n++
		bad := false
		for i, res := range ret.Results {
			if i == ei {
				continue
			}
			nonZero := derivesAny(res, func(x ssa.Value) bool {
				call, ok := x.(*ssa.Call)
				return ok && strings.HasSuffix(calleeFullName(call), "Uint64")
			})
			if nonZero {
				// a merge is fine when the id edge pairs with the nil-error edge; checked edge-wise
				rp, isP := res.(*ssa.Phi)
				ep, isEP := errV.(*ssa.Phi)
				if isP && isEP && rp.Block() == ep.Block() && len(rp.Edges) == len(ep.Edges) {
					for j := range rp.Edges {
						idEdge := derivesAny(rp.Edges[j], func(x ssa.Value) bool {
							call, ok := x.(*ssa.Call)
							return ok && strings.HasSuffix(calleeFullName(call), "Uint64")
						})
						if k, n2 := errorsNewNonNil(core.Strip(ep.Edges[j])); idEdge && k && !n2 {
							bad = true
						}
					}
				} else {
					bad = true
				}
			}
		}
		r.Check(!bad, rule, fmt.Sprintf("%s: error return #%d yields zero ids", fk(fn), n), c.pos(ret), "",
			"ParseP2P can return an error together with ids read from the (partially) decoded bytes: callers that ignore the error act on somebody's id")
	})
	r.Check(n >= 1, rule, "error returns of ParseP2P", "-", fmt.Sprintf("%d", n), "none: anchor lost")
}
