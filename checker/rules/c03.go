package rules

import (
	"fmt"
	"go/token"
	"go/types"
	"sort"

	"golang.org/x/tools/go/ssa"

	"verifchk/core"
)

func init() { register("C03", checkC03) }

// topicCatGuard: t.cat == <const> passes when equality == want.
func (c *Ctx) topicCatGuard(constName string, want bool) core.Guard {
	cat := c.E().topicField("cat")
	k := c.konst("server/store/types", constName)
	return core.EqGuard("Topic.cat=="+constName, core.IsFieldLoad(cat), core.IsConstOf(k), want)
}

// statusMaskOf summarises a `func (t *Topic) X() bool { return atomic.LoadInt32(&t.status)&K != 0 }`
// wrapper: returns K when the body has exactly that shape.
func (c *Ctx) statusMaskOf(fn *ssa.Function) (int64, bool) {
	status := c.E().topicField("status")
	var mask int64
	found := false
	bad := false
	core.AllInstrs(fn, func(in ssa.Instruction) {
		ret, ok := in.(*ssa.Return)
		if !ok || len(ret.Results) != 1 {
			return
		}
		// the test shared by the wrappers: `return t.statusHasAny(bits)` with a helper of the same shape
		if hc, isCall := ret.Results[0].(*ssa.Call); isCall {
			if g := hc.Call.StaticCallee(); g != nil && g != fn && core.InModule(g) && len(g.Blocks) > 0 {
				if pm, okm := c.statusMaskParamOf(g); okm && pm < len(hc.Call.Args) {
					if k, okk := core.ConstIntValue(hc.Call.Args[pm]); okk {
						mask = k
						found = true
						return
					}
				}
			}
			bad = true
			return
		}
		b, ok := ret.Results[0].(*ssa.BinOp)
		if !ok || b.Op != token.NEQ || !core.IsConstInt(0)(b.Y) {
			bad = true
			return
		}
		and, ok := b.X.(*ssa.BinOp)
		if !ok || and.Op != token.AND {
			bad = true
			return
		}
		call, ok := and.X.(*ssa.Call)
		if !ok {
			bad = true
			return
		}
		f := core.CalleeOf(&call.Call)
		if f == nil || f.FullName() != "sync/atomic.LoadInt32" {
			bad = true
			return
		}
		if g, _ := core.FieldOfAddr(call.Call.Args[0]); g != status {
			bad = true
			return
		}
		k, ok := core.ConstIntValue(and.Y)
		if !ok {
			bad = true
			return
		}
		mask = k
		found = true
	})
	return mask, found && !bad
}

// statusMaskParamOf: g returns `atomic.LoadInt32(&t.status) & <param> != 0`; the index of that
// parameter (among g.Params, receiver included).
func (c *Ctx) statusMaskParamOf(g *ssa.Function) (int, bool) {
	status := c.E().topicField("status")
	idx, ok := -1, true
	n := 0
	core.AllInstrs(g, func(in ssa.Instruction) {
		ret, isRet := in.(*ssa.Return)
		if !isRet || len(ret.Results) != 1 {
			return
		}
		n++
		b, isB := ret.Results[0].(*ssa.BinOp)
		if !isB || b.Op != token.NEQ || !core.IsConstInt(0)(b.Y) {
			ok = false
			return
		}
		and, isAnd := b.X.(*ssa.BinOp)
		if !isAnd || and.Op != token.AND {
			ok = false
			return
		}
		var load *ssa.Call
		var other ssa.Value
		if cl, isC := and.X.(*ssa.Call); isC {
			load, other = cl, and.Y
		} else if cl, isC := and.Y.(*ssa.Call); isC {
			load, other = cl, and.X
		}
		if load == nil {
			ok = false
			return
		}
		f := core.CalleeOf(&load.Call)
		if f == nil || f.FullName() != "sync/atomic.LoadInt32" {
			ok = false
			return
		}
		if fld, _ := core.FieldOfAddr(load.Call.Args[0]); fld != status {
			ok = false
			return
		}
		p, isP := core.Strip(other).(*ssa.Parameter)
		if !isP {
			ok = false
			return
		}
		for i, q := range g.Params {
			if q == p {
				idx = i
			}
		}
	})
	return idx, ok && n > 0 && idx >= 0
}

func (c *Ctx) constInt(rel, name string) int64 {
	k := c.konst(rel, name)
	v, _ := constantInt64(k)
	return v
}

func checkC03(c *Ctx) {
	r := c.R
	r.Explanation = "Structural necessary conditions of 'only effective writers can add a message': (1) every call of store.Messages.Save in package server is cut off from its function's entry once the pass edges of {IsWriter() on want&given of one perUser record, Topic.cat==TopicCatSys} are removed; the record is looked up in Topic.perUser with the asUid parameter; (2) only the publish handler and the call life-cycle functions call that function; (3) the publish handler reaches it only past isInactive()==false and isReadOnly()==false, whose bodies test the paused|deleted and read-only status bits; (4) the session hands a {pub} to a topic only when attached (getSub!=nil) or to the hub only for RcptTo==\"sys\"; (5) every denial edge is effect-free up to return (reply construction, queueOut, logging only); (6) constant algebra: self/search default modes contain no W; (7) the record the write check reads follows the store (after a successful Subs.Update of ModeWant/ModeGiven every success path rewrites Topic.perUser) and a session removed from a topic is always told (delSub/detachSession). Decides these clauses for all inputs; does not decide histories of permission changes."
	r.NotDecided = []string{"that perUser[asUid] reflects every earlier permission change (C06/C07/C08 rules)", "behaviour of the store behind the interface"}
	r.Trusted = []string{"go/types, go/ssa construction", "VTA call graph soundness for closures and interface dispatch"}

	save := c.E().storeIface("MessagesPersistenceInterface", "Save")
	perUser := c.E().topicField("perUser")
	isWriter := c.E().modeMethod("IsWriter")
	wantF, givenF := c.E().pudField("modeWant"), c.E().pudField("modeGiven")

	saveFns := c.funcsCalling(save, "server")
	r.Floor("C03.1-save-guarded-by-writer", 1)
	for _, fn := range saveFns {
		r.Func(fk(fn))
		for _, site := range core.CallsTo(fn, save) {
			r.CallSites++
			construct := fk(fn) + ": call store.Messages.Save"
			gW := core.BoolGuard("IsWriter(want&given)", core.IsCallTo(isWriter, c.isEffMode()), true)
			gSys := c.topicCatGuard("TopicCatSys", true)
			ok, counts := core.GuardedBy(fn, site, gW, gSys)
			if !ok {
				r.Fail("C03.1-save-guarded-by-writer", construct, c.pos(site),
					fmt.Sprintf("Messages.Save is reachable without passing IsWriter() on modeWant&modeGiven of one record or Topic.cat==TopicCatSys (guards matched: writer=%d sys=%d)", counts[0], counts[1]))
				continue
			}
			r.OK("C03.1-save-guarded-by-writer", construct, c.pos(site), "every path passes IsWriter(want&given)==true or cat==sys")

			// the record tested is perUser[asUid] with asUid a parameter of type Uid
			recOK := false
			root := c.phaseRoot(fn)
			visitW := func(in ssa.Instruction) {
				call, ok := in.(*ssa.Call)
				if !ok || core.CalleeOf(&call.Call) != isWriter {
					return
				}
				okm, base := effMode(core.CallArgs(&call.Call)[0], wantF, givenF)
				if !okm {
					return
				}
				if recordFromMapParam(base, perUser) || recordFromMapParam(c.recordRoot(base), perUser) {
					recOK = true
				}
			}
			c.withCallees(fn, 2, func(_ *ssa.Function, in ssa.Instruction, _ ssa.Instruction) { visitW(in) })
			if root != fn {
				c.regionInstrs(root, func(_ *ssa.Function, in ssa.Instruction) { visitW(in) })
			}
			r.Check(recOK, "C03.1b-record-is-perUser-of-author", construct, c.pos(site),
				"the tested record is Topic.perUser[<Uid parameter>]", "the record whose modes are tested is not Topic.perUser[<Uid parameter of the function>]")

			// (5) denial effect-free: fail edge of the writer guard
			var badW ssa.Instruction
			nFail := 0
			var regionFns []*ssa.Function
			for f := range c.regionOf(root) {
				regionFns = append(regionFns, f)
			}
			sort.Slice(regionFns, func(i, j int) bool { return fk(regionFns[i]) < fk(regionFns[j]) })
			for _, f := range regionFns {
				fe := core.FailEdges(f, gW)
				nFail += len(fe)
				if bad := c.effectFreeFrom(f, fe, nil); bad != nil && badW == nil {
					badW = bad
				}
			}
			if badW != nil {
				r.Fail("C03.5-denial-effect-free", construct+" / writer-denied edge", c.pos(badW), "an instruction with effects is reachable after the write-permission denial: "+badW.String())
			} else if nFail == 0 {
				// the test sits in a predicate shared with the sys exemption (`canPublishAs`): its false
				// outcome is the denial, decided with both guards
				var bad2 ssa.Instruction
				n2 := 0
				for _, f := range regionFns {
					pe, _ := core.GuardEdges(f, gW, gSys)
					for e := range pe {
						// only a branch on a summarised predicate call: the complement of a directly
						// matched `cat == sys` test is not a denial
						ifi := e.From.Instrs[len(e.From.Instrs)-1].(*ssa.If)
						a := core.NormCond(ifi.Cond)
						if _, isCall := core.Strip(a.Val).(*ssa.Call); a.Op != token.ILLEGAL || !isCall || gW.Name == "" {
							continue
						}
						if m, _ := gW.Match(a); m {
							continue
						}
						n2++
						fe := map[core.Edge]bool{{From: e.From, Idx: 1 - e.Idx}: true}
						if bad := c.effectFreeFrom(f, fe, nil); bad != nil && bad2 == nil {
							bad2 = bad
						}
					}
				}
				if bad2 != nil {
					r.Fail("C03.5-denial-effect-free", construct+" / writer-denied edge", c.pos(bad2), "an instruction with effects is reachable after the write-permission denial: "+bad2.String())
				} else {
					r.OK("C03.5-denial-effect-free", construct+" / writer-denied edge", c.pos(site), fmt.Sprintf("only reply/logging between denial and return (%d predicate edges)", n2))
				}
			} else {
				r.OK("C03.5-denial-effect-free", construct+" / writer-denied edge", c.pos(site), "only reply/logging between denial and return")
			}

			// the From of the stored message is the author parameter; Topic is Topic.name
			c.checkSavedMessageFields(fn, site)
		}

		// (2),(3) callers
		saveRoot := c.phaseRoot(fn)
		callers := c.callersOf(saveRoot)
		r.Floor("C03.2-who-may-save", 1)
		for _, cs := range callers {
			r.Func(fk(cs.Caller))
			construct := fk(cs.Caller) + " -> " + fk(saveRoot)
			lifecycle := c.isCallLifecycleFunc(cs.Caller)
			if !lifecycle {
				// an extracted "save the replacement message" helper: all of its callers are life-cycle functions
				up := c.callersOf(cs.Caller)
				lifecycle = len(up) > 0
				for _, u := range up {
					if !c.isCallLifecycleFunc(u.Caller) || c.readsField(u.Caller, c.field("server", "MsgClientPub", "Content")) {
						lifecycle = false
					}
				}
			}
			if !c.readsField(cs.Caller, c.field("server", "MsgClientPub", "Content")) && lifecycle {
				r.OK("C03.2-who-may-save", construct, c.pos(cs.Site), "call life-cycle function (touches Topic.currentCall, does not read client Pub.Content): server-authored replacement message")
				continue
			}
			// must be a handler of ClientComMessage that passes both status guards
			inactive := c.method("server", "Topic", "isInactive")
			readonly := c.method("server", "Topic", "isReadOnly")
			g1 := core.BoolGuard("isInactive()", core.IsCallTo(inactive), false)
			g2 := core.BoolGuard("isReadOnly()", core.IsCallTo(readonly), false)
			ok1, _ := core.GuardedBy(cs.Caller, cs.Site, g1)
			ok2, _ := core.GuardedBy(cs.Caller, cs.Site, g2)
			r.Check(ok1 && ok2, "C03.2-who-may-save", construct, c.pos(cs.Site),
				"caller reaches the save only past isInactive()==false and isReadOnly()==false",
				fmt.Sprintf("caller reaches the save function without status guards (inactive=%v readonly=%v)", ok1, ok2))
			if ok1 && ok2 {
				for gi, g := range []core.Guard{g1, g2} {
					fe := core.FailEdges(cs.Caller, g)
					name := []string{"inactive", "read-only"}[gi]
					if bad := c.effectFreeFrom(cs.Caller, fe, nil); bad != nil {
						r.Fail("C03.5-denial-effect-free", fk(cs.Caller)+" / "+name+" edge", c.pos(bad), "effect after denial: "+bad.String())
					} else {
						r.OK("C03.5-denial-effect-free", fk(cs.Caller)+" / "+name+" edge", c.pos(cs.Site), "only reply/logging between denial and return")
					}
				}
			}
		}
	}

	// (3b) status wrappers test the right bits
	r.Floor("C03.3-status-wrapper-bits", 2)
	{
		paused := c.constInt("server", "topicStatusPaused")
		deleted := c.constInt("server", "topicStatusMarkedDeleted")
		ro := c.constInt("server", "topicStatusReadOnly")
		fi := c.ssaMethod("server", "Topic", "isInactive")
		m, ok := c.statusMaskOf(fi)
		r.Check(ok && m&(paused|deleted) == paused|deleted, "C03.3-status-wrapper-bits", "Topic.isInactive", c.P.Pos(fi.Pos()),
			"returns atomic status & (paused|markedDeleted) != 0", fmt.Sprintf("does not test both the paused and marked-deleted bits of Topic.status (mask=%#x shape-ok=%v)", m, ok))
		fr := c.ssaMethod("server", "Topic", "isReadOnly")
		m, ok = c.statusMaskOf(fr)
		r.Check(ok && m&ro == ro, "C03.3-status-wrapper-bits", "Topic.isReadOnly", c.P.Pos(fr.Pos()),
			"returns atomic status & readOnly != 0", fmt.Sprintf("does not test the read-only bit (mask=%#x shape-ok=%v)", m, ok))
	}

	// (4) session side
	c.checkC03Session()
	c.checkPublishNeedsLogin()

	// (7) the write check reads the cached record and trusts the session's own attachment table:
	// both must follow the store / the topic (shared rule families of C08 and C14)
	c.checkCacheFollowsStore(map[string]bool{"ModeWant": true, "ModeGiven": true})
	c.checkAttachSymmetry()

	// (6) constants
	r.Floor("C03.6-const-modes", 1)
	mw := c.konst("server/store/types", "ModeWrite")
	self := c.konst("server/store/types", "ModeCSelf")
	r.Check(constAndIsZero(self, mw), "C03.6-const-modes", "ModeCSelf & ModeWrite == 0", c.P.Pos(self.Pos()), "self/search default access has no W", "ModeCSelf contains the write bit: me/fnd topics would accept publishes")
	c.checkPauseBeforeStoreDelete()
	// the read-only / paused flags the status guards test are updated without losing a concurrent update
	c.checkAtomicRMW()
	c.checkLoaderReadsLiveRows("C03.7-loader-reads-live-subscriptions")
	c.checkSuspensionVisitsEveryTopic()
	// every changed mode is persisted (the write gate after a reload decides on the stored modes)
	c.checkUpdateKeysIndependent()
	// the modes the write gate reads are the ones the handler decided on (not a stale copy)
	c.checkLocalCopyWrittenBack("C08.3c-local-copy-written-back", map[string]bool{"modeWant": true, "modeGiven": true, "deleted": true})
}

// recordFromMapParam: base is (an alloc holding / an extract of) a lookup in map field `m` keyed
// by a parameter of the enclosing function.
func recordFromMapParam(base ssa.Value, m *types.Var) bool {
	isLookup := func(v ssa.Value) bool {
		v = core.Strip(v)
		if ex, ok := v.(*ssa.Extract); ok {
			v = ex.Tuple
		}
		lk, ok := v.(*ssa.Lookup)
		if !ok {
			return false
		}
		if f, _ := core.LoadedField(lk.X); f != m {
			return false
		}
		_, isParam := core.Strip(lk.Index).(*ssa.Parameter)
		return isParam
	}
	if isLookup(base) {
		return true
	}
	if al, ok := core.Strip(base).(*ssa.Alloc); ok {
		n, good := 0, 0
		for _, ref := range *al.Referrers() {
			if st, ok := ref.(*ssa.Store); ok && st.Addr == al {
				n++
				if isLookup(st.Val) {
					good++
				}
			}
		}
		return n > 0 && n == good
	}
	return false
}

// isCallLifecycleFunc: function that reads or writes Topic.currentCall.
func (c *Ctx) isCallLifecycleFunc(fn *ssa.Function) bool {
	return c.readsField(fn, c.E().topicField("currentCall")) || c.readsFieldDeep(fn, c.E().topicField("currentCall"))
}

// readsField: fn takes the address of (reads or writes) struct field f.
// readsFieldDeep: fn or a module function it calls statically (two levels) reads the field.
func (c *Ctx) readsFieldDeep(fn *ssa.Function, f *types.Var) bool {
	found := false
	c.withCallees(fn, 2, func(_ *ssa.Function, in ssa.Instruction, _ ssa.Instruction) {
		switch x := in.(type) {
		case *ssa.FieldAddr:
			if g, _ := core.FieldOfAddr(x); g == f {
				found = true
			}
		case *ssa.Field:
			if g, _ := core.LoadedField(x); g == f {
				found = true
			}
		}
	})
	return found
}

func (c *Ctx) readsField(fn *ssa.Function, f *types.Var) bool {
	found := false
	core.AllInstrs(fn, func(in ssa.Instruction) {
		switch x := in.(type) {
		case *ssa.FieldAddr:
			if g, _ := core.FieldOfAddr(x); g == f {
				found = true
			}
		case *ssa.Field:
			if g, _ := core.LoadedField(x); g == f {
				found = true
			}
		}
	})
	return found
}

// checkSavedMessageFields: the types.Message literal passed to Save has From = <Uid param>.String(),
// Topic = Topic.name, SeqId = load(lastID)+1.
func (c *Ctx) checkSavedMessageFields(fn *ssa.Function, site ssa.CallInstruction) {
	r := c.R
	args := core.CallArgs(site.Common())
	if len(args) < 2 {
		return
	}
	construct := fk(fn) + ": types.Message passed to Save"
	fieldVal, ok := c.literalOf(args[1])
	if !ok {
		r.Info("C03.1c-saved-message-fields", construct, c.pos(site), "message argument is not a literal; fields not checked")
		return
	}
	uidString := c.method("server/store/types", "Uid", "String")
	name := c.E().topicField("name")
	lastID := c.E().topicField("lastID")
	fromOK := false
	if v, ok := fieldVal["From"]; ok {
		if call, ok := v.(*ssa.Call); ok && core.CalleeOf(&call.Call) == uidString {
			_, isParam := core.Strip(call.Call.Args[0]).(*ssa.Parameter)
			fromOK = isParam
		}
	}
	r.Check(fromOK, "C03.1c-saved-message-fields", construct+".From", c.pos(site), "From = <Uid parameter>.String()", "author recorded on the stored message is not the Uid parameter the permission check was made for")
	topicOK := false
	if v, ok := fieldVal["Topic"]; ok {
		topicOK = core.IsFieldLoad(name)(v)
	}
	r.Check(topicOK, "C03.1c-saved-message-fields", construct+".Topic", c.pos(site), "Topic = Topic.name", "stored message is not filed under the receiver topic's name")
	seqOK := false
	if v, ok := fieldVal["SeqId"]; ok {
		seqOK = core.IsBinOp(token.ADD, core.IsFieldLoad(lastID), core.IsConstInt(1), true)(v)
	}
	r.Check(seqOK, "C03.1c-saved-message-fields", construct+".SeqId", c.pos(site), "SeqId = Topic.lastID + 1", "stored message id is not Topic.lastID+1")
}

func (c *Ctx) checkC03Session() {
	r := c.R
	bcast := c.field("server", "Subscription", "broadcast")
	routeCli := c.field("server", "Hub", "routeCli")
	getSub := c.method("server", "Session", "getSub")
	rcpt := c.field("server", "ClientComMessage", "RcptTo")
	pubField := c.field("server", "ClientComMessage", "Pub")
	r.Floor("C03.4-session-handoff", 2)
	for _, fn := range c.P.ModFuncs {
		if !core.InPkg(fn, "server") {
			continue
		}
		// only functions that handle {pub}: they read ClientComMessage.Pub
		sendsB := chanSends(fn, core.IsFieldLoad(bcast))
		sendsR := chanSends(fn, core.IsFieldLoad(routeCli))
		if len(sendsB) == 0 && len(sendsR) == 0 {
			continue
		}
		if fn.Signature.Recv() == nil || !isPtrToNamed(fn.Signature.Recv().Type(), "Session") || !c.readsFieldDeep(fn, pubField) {
			continue
		}
		r.Func(fk(fn))
		for _, s := range sendsB {
			// the channel belongs to the value returned by getSub and the send is behind != nil
			g := core.NilGuard("getSub(..)!=nil", core.IsCallTo(getSub), false)
			ok, _ := core.GuardedByCorr(fn, s.At, g)
			_, base := core.LoadedField(core.Strip(s.Chan))
			fromGet := base != nil && core.IsCallTo(getSub)(base)
			r.Check(ok && fromGet, "C03.4-session-handoff", fk(fn)+": send on Subscription.broadcast", c.pos(s.Instr),
				"send is on the subscription returned by getSub and behind getSub(..)!=nil", "a {pub} is handed to a topic the session is not attached to")
		}
		for _, s := range sendsR {
			g := core.EqGuard("RcptTo==\"sys\"", core.IsFieldLoad(rcpt), core.IsConstString("sys"), true)
			ok, _ := core.GuardedByCorr(fn, s.At, g)
			r.Check(ok, "C03.4-session-handoff", fk(fn)+": send on Hub.routeCli", c.pos(s.Instr),
				"unattached publish is routed to the hub only for RcptTo==\"sys\"", "an unattached {pub} is routed through the hub for topics other than sys")
		}
	}
}

func isPtrToNamed(t types.Type, name string) bool {
	p, ok := t.(*types.Pointer)
	if !ok {
		return false
	}
	n, ok := p.Elem().(*types.Named)
	return ok && n.Obj().Name() == name
}
