package rules

import (
	"fmt"
	"go/constant"
	"go/token"
	"go/types"
	"sort"
	"strings"

	"golang.org/x/tools/go/ssa"

	"verifchk/core"
)

func init() { register("C20", checkC20) }

func checkC20(c *Ctx) {
	r := c.R
	r.Explanation = "Agreement between sibling encodings, decided on the shape of the code: (1) converter pairing: for every (Go struct, pbx message) pair the JSON<->protobuf converters build, the relation {pbx field <- Go field} extracted from the serialisers' struct literals equals the inverse of the relation {Go field <- pbx field/getter} extracted from the deserialisers' literals; pbx fields written but never read back, and Go fields read but never restored, are reported; (2) presence predicates: a deserialiser that returns nil for an all-empty message tests every value it later stores, not a subset; (3) enum tables: the string->enum and enum->string switches are mutual inverses; (4) identifier codec: Uid.UnmarshalText/UnmarshalBinary store through the receiver only behind the exact-length test and the decoded-byte-count test (invalid text leaves the zero id); the length constants equal the unpadded base64 length of 8 and 16 bytes; P2PName orders the two ids on both branches and returns \"\" for equal or zero ids; the grp/chn prefix tables of GrpToChn/ChnToGrp are inverse."
	r.NotDecided = []string{"round-trip and injectivity over all 2^64 ids and all strings (value-level)", "equality of JSON and protobuf renderings for `any`-typed payloads", "dynamic types reaching MsgServerCtrl.Params"}
	r.Trusted = []string{"go/types, go/ssa", "encoding/base64, encoding/binary"}

	c.checkConverterPairing()
	c.checkPresencePredicates()
	c.checkEnumTables()
	c.checkUidCodec()
	c.checkChannelSpellingInverse()
	c.checkIdSpellings()
	c.checkCtrlParamsDynamicType()
	c.checkResultNotReallocated()
	c.checkScalarCodecPairs()
	c.checkP2PNameExactLength()
	c.checkParseP2PZeroOnError()
	c.checkActingUserNotSession("C20.4d-p2p-name-of-acting-user", "p2p-name")
}

type fieldRef struct {
	typ   string // named struct type
	field string
}

func (f fieldRef) String() string { return f.typ + "." + f.field }

func namedStructOf(t types.Type) (string, *types.Struct, string) {
	if p, ok := t.(*types.Pointer); ok {
		t = p.Elem()
	}
	n, ok := t.(*types.Named)
	if !ok {
		return "", nil, ""
	}
	st, ok := n.Underlying().(*types.Struct)
	if !ok {
		return "", nil, ""
	}
	pk := ""
	if n.Obj().Pkg() != nil {
		pk = n.Obj().Pkg().Path()
	}
	return n.Obj().Name(), st, pk
}

// sourcesOf collects the struct fields (of types from package srcPkg) whose values flow into v:
// direct field loads and protobuf getters GetX().
func sourcesOf(v ssa.Value, srcPkg string, out map[fieldRef]bool, seen map[ssa.Value]bool, depth int) {
	if v == nil || depth > 10 || seen[v] {
		return
	}
	seen[v] = true
	switch x := v.(type) {
	case *ssa.UnOp:
		if fa, ok := x.X.(*ssa.FieldAddr); ok {
			name, st, pk := namedStructOf(fa.X.Type())
			if st != nil && pk == srcPkg {
				out[fieldRef{name, st.Field(fa.Field).Name()}] = true
				return
			}
		}
		sourcesOf(x.X, srcPkg, out, seen, depth+1)
	case *ssa.Field:
		name, st, pk := namedStructOf(x.X.Type())
		if st != nil && pk == srcPkg {
			out[fieldRef{name, st.Field(x.Field).Name()}] = true
			return
		}
		sourcesOf(x.X, srcPkg, out, seen, depth+1)
	case *ssa.Call:
		if f := core.CalleeOf(&x.Call); f != nil && strings.HasPrefix(f.Name(), "Get") {
			if sig, ok := f.Type().(*types.Signature); ok && sig.Recv() != nil {
				name, st, pk := namedStructOf(sig.Recv().Type())
				if st != nil && pk == srcPkg {
					out[fieldRef{name, strings.TrimPrefix(f.Name(), "Get")}] = true
					return
				}
			}
		}
		for _, a := range core.CallArgs(&x.Call) {
			sourcesOf(a, srcPkg, out, seen, depth+1)
		}
	case *ssa.Phi:
		for i, e := range x.Edges {
			sourcesOf(e, srcPkg, out, seen, depth+1)
			if _, isConst := e.(*ssa.Const); isConst {
				// value chosen by a switch: the switched-on expression is a (control) source
				pred := x.Block().Preds[i]
				for hops := 0; hops < 3 && pred != nil; hops++ {
					if len(pred.Preds) != 1 {
						break
					}
					p := pred.Preds[0]
					if ifi, ok := p.Instrs[len(p.Instrs)-1].(*ssa.If); ok {
						if b, ok := ifi.Cond.(*ssa.BinOp); ok {
							sourcesOf(b.X, srcPkg, out, seen, depth+1)
							sourcesOf(b.Y, srcPkg, out, seen, depth+1)
						}
						break
					}
					pred = p
				}
			}
		}
	case *ssa.Convert:
		sourcesOf(x.X, srcPkg, out, seen, depth+1)
	case *ssa.ChangeType:
		sourcesOf(x.X, srcPkg, out, seen, depth+1)
	case *ssa.MakeInterface:
		sourcesOf(x.X, srcPkg, out, seen, depth+1)
	case *ssa.TypeAssert:
		sourcesOf(x.X, srcPkg, out, seen, depth+1)
	case *ssa.Extract:
		sourcesOf(x.Tuple, srcPkg, out, seen, depth+1)
	case *ssa.BinOp:
		sourcesOf(x.X, srcPkg, out, seen, depth+1)
		sourcesOf(x.Y, srcPkg, out, seen, depth+1)
	case *ssa.Slice:
		sourcesOf(x.X, srcPkg, out, seen, depth+1)
	case *ssa.IndexAddr:
		sourcesOf(x.X, srcPkg, out, seen, depth+1)
	case *ssa.FieldAddr:
		name, st, pk := namedStructOf(x.X.Type())
		if st != nil && pk == srcPkg {
			out[fieldRef{name, st.Field(x.Field).Name()}] = true
		}
	}
}

func (c *Ctx) checkConverterPairing() {
	r := c.R
	srvPkg := core.ModPath + "/server"
	pbxPkg := core.ModPath + "/pbx"
	// relation S: pbx field <- server fields ; D: server field <- pbx fields
	S := map[fieldRef]map[fieldRef]bool{}
	D := map[fieldRef]map[fieldRef]bool{}
	where := map[fieldRef]string{}
	nFuncs := 0
	for _, fn := range c.P.ModFuncs {
		if !core.InPkg(fn, "server") {
			continue
		}
		file := c.P.Pos(fn.Pos())
		if !strings.Contains(file, "pbconverter.go") {
			continue
		}
		nFuncs++
		r.Func(fk(fn))
		core.AllInstrs(fn, func(in ssa.Instruction) {
			st, ok := in.(*ssa.Store)
			if !ok {
				return
			}
			fa, ok := st.Addr.(*ssa.FieldAddr)
			if !ok {
				return
			}
			name, stt, pk := namedStructOf(fa.X.Type())
			if stt == nil {
				return
			}
			dst := fieldRef{name, stt.Field(fa.Field).Name()}
			ctrl := func(srcPkg string, srcs map[fieldRef]bool) {
				// a constant stored inside a switch case: the switched-on expression is the source
				if _, isConst := st.Val.(*ssa.Const); !isConst {
					return
				}
				b := st.Block()
				for hops := 0; hops < 3 && b != nil; hops++ {
					if len(b.Preds) != 1 {
						return
					}
					p := b.Preds[0]
					if ifi, ok := p.Instrs[len(p.Instrs)-1].(*ssa.If); ok {
						if bo, ok := ifi.Cond.(*ssa.BinOp); ok {
							sourcesOf(bo.X, srcPkg, srcs, map[ssa.Value]bool{}, 0)
							sourcesOf(bo.Y, srcPkg, srcs, map[ssa.Value]bool{}, 0)
						}
						return
					}
					b = p
				}
			}
			switch pk {
			case pbxPkg:
				srcs := map[fieldRef]bool{}
				sourcesOf(st.Val, srvPkg, srcs, map[ssa.Value]bool{}, 0)
				ctrl(srvPkg, srcs)
				if len(srcs) > 0 {
					if S[dst] == nil {
						S[dst] = map[fieldRef]bool{}
						where[dst] = c.pos(st)
					}
					for s := range srcs {
						S[dst][s] = true
					}
				}
			case srvPkg:
				srcs := map[fieldRef]bool{}
				sourcesOf(st.Val, pbxPkg, srcs, map[ssa.Value]bool{}, 0)
				ctrl(pbxPkg, srcs)
				if len(srcs) > 0 {
					if D[dst] == nil {
						D[dst] = map[fieldRef]bool{}
						where[dst] = c.pos(st)
					}
					for s := range srcs {
						D[dst][s] = true
					}
				}
			}
		})
	}
	r.Extra["converter_functions"] = nFuncs
	r.Floor("C20.1-converter-pairing", 60)
	// compare only message pairs converted in both directions: a pbx type P and Go type G are a pair when
	// S has P.* <- G.* and D has G.* <- P.*
	pairsS := map[[2]string]bool{}
	for pf, srcs := range S {
		for g := range srcs {
			pairsS[[2]string{pf.typ, g.typ}] = true
		}
	}
	pairsD := map[[2]string]bool{}
	for gf, srcs := range D {
		for p := range srcs {
			pairsD[[2]string{p.typ, gf.typ}] = true
		}
	}
	var keys []fieldRef
	for pf := range S {
		keys = append(keys, pf)
	}
	sort.Slice(keys, func(i, j int) bool { return keys[i].String() < keys[j].String() })
	for _, pf := range keys {
		for g := range S[pf] {
			if !pairsD[[2]string{pf.typ, g.typ}] {
				continue // one-directional conversion (server -> client only or vice versa)
			}
			construct := fmt.Sprintf("pbx.%s <-> %s", pf, g)
			back := D[g] != nil && D[g][pf]
			r.Check(back, "C20.1-converter-pairing", construct, where[pf], "serialiser and deserialiser pair the same fields",
				fmt.Sprintf("the serialiser writes pbx.%s from %s but the deserialiser does not restore %s from pbx.%s: the field is lost or crossed when a message travels over gRPC", pf, g, g, pf))
		}
	}
	var dkeys []fieldRef
	for gf := range D {
		dkeys = append(dkeys, gf)
	}
	sort.Slice(dkeys, func(i, j int) bool { return dkeys[i].String() < dkeys[j].String() })
	for _, gf := range dkeys {
		for p := range D[gf] {
			if !pairsS[[2]string{p.typ, gf.typ}] {
				continue
			}
			back := S[p] != nil && S[p][gf]
			if back {
				continue // counted above
			}
			if gf.String() == "MsgClientExtra.AuthLevel" {
				// exception (one row): the serialiser (proxy -> master) sends the level already resolved by
				// the proxy's session (ClientComMessage.AuthLvl); the master re-reads it as extra.authlevel
				r.OK("C20.1-converter-pairing", fmt.Sprintf("%s <- pbx.%s (deserialiser only)", gf, p), where[gf], "exception: carries the resolved level ClientComMessage.AuthLvl")
				continue
			}
			r.Fail("C20.1-converter-pairing", fmt.Sprintf("%s <- pbx.%s (deserialiser only)", gf, p), where[gf],
				fmt.Sprintf("the deserialiser restores %s from pbx.%s but the serialiser does not write pbx.%s from %s", gf, p, p, gf))
		}
	}
}

// checkPresencePredicates: in a converter that returns nil when "everything is empty", every local
// that feeds the returned literal is part of the emptiness test.
func (c *Ctx) checkPresencePredicates() {
	r := c.R
	n := 0
	for _, fn := range c.P.ModFuncs {
		if !core.InPkg(fn, "server") || !strings.Contains(c.P.Pos(fn.Pos()), "pbconverter.go") || fn.Parent() != nil {
			continue
		}
		if fn.Signature.Results().Len() != 1 {
			continue
		}
		// shape: one literal alloc returned; also returns nil
		var lit *ssa.Alloc
		retNil := false
		core.AllInstrs(fn, func(in ssa.Instruction) {
			ret, ok := in.(*ssa.Return)
			if !ok {
				return
			}
			if core.IsNil(ret.Results[0]) {
				retNil = true
			} else if a, ok := ret.Results[0].(*ssa.Alloc); ok {
				lit = a
			}
		})
		if lit == nil || !retNil {
			continue
		}
		fields := literalFields(lit)
		// the nil tests that guard the literal
		tested := map[ssa.Value]bool{}
		nTests := 0
		for _, b := range fn.Blocks {
			ifi, ok := b.Instrs[len(b.Instrs)-1].(*ssa.If)
			if !ok {
				continue
			}
			a := core.NormCond(ifi.Cond)
			if a.Op != token.EQL || !(core.IsNil(a.X) || core.IsNil(a.Y)) {
				continue
			}
			v := a.X
			if core.IsNil(a.X) {
				v = a.Y
			}
			if _, isParam := v.(*ssa.Parameter); isParam {
				continue
			}
			// the test must separate "return nil" from "return the literal"
			eqIdx := 0
			if a.Negated {
				eqIdx = 1
			}
			nilReach := core.ReachBlocks(fn, []*ssa.BasicBlock{b.Succs[eqIdx]}, nil)
			setReach := core.ReachBlocks(fn, []*ssa.BasicBlock{b.Succs[1-eqIdx]}, nil)
			toNil, toLit := false, false
			for blk := range nilReach {
				if ret, ok := blk.Instrs[len(blk.Instrs)-1].(*ssa.Return); ok && core.IsNil(ret.Results[0]) {
					toNil = true
				}
			}
			for blk := range setReach {
				if ret, ok := blk.Instrs[len(blk.Instrs)-1].(*ssa.Return); ok && ret.Results[0] == ssa.Value(lit) {
					toLit = true
				}
			}
			if !toNil || !toLit {
				continue
			}
			tested[v] = true
			nTests++
		}
		if nTests < 2 || len(fn.Blocks) > 14 {
			continue // not a (small) presence-predicate converter
		}
		// every stored value whose root (through one conversion call) is a nillable local that has a
		// sibling tested must be tested too
		var missing []string
		var names []string
		for fname, v := range fields {
			root := v
			if call, ok := v.(*ssa.Call); ok && len(call.Call.Args) == 1 {
				root = call.Call.Args[0]
			}
			if !isNillableType(root.Type()) {
				continue
			}
			names = append(names, fname)
			isTested := false
			for tv := range tested {
				if sameValue(tv, root, 0) || sameValue(tv, v, 0) {
					isTested = true
				}
			}
			if !isTested {
				missing = append(missing, fname)
			}
		}
		if len(names) < 2 {
			continue
		}
		n++
		r.Func(fk(fn))
		sort.Strings(missing)
		r.Check(len(missing) == 0, "C20.2-presence-predicate", fk(fn)+": every optional part takes part in the emptiness test", c.P.Pos(fn.Pos()), "",
			fmt.Sprintf("a message carrying only %v is treated as empty and dropped, although these parts are converted when others are present", missing))
	}
	r.Floor("C20.2-presence-predicate", 1)
}

func isNillableType(t types.Type) bool {
	switch t.Underlying().(type) {
	case *types.Pointer, *types.Slice, *types.Map, *types.Interface:
		return true
	}
	return false
}

// enumTable extracts {case constant -> result constant} from a function `switch p { case K: out = V }`.
func enumTable(fn *ssa.Function) map[string]string {
	out := map[string]string{}
	// caseOf: the constant K such that block b is entered only through the equal edge of `x == K`
	caseOf := func(b *ssa.BasicBlock) *ssa.Const {
		for hops := 0; hops < 2 && b != nil; hops++ {
			if len(b.Preds) != 1 {
				return nil
			}
			p := b.Preds[0]
			if ifi, ok := p.Instrs[len(p.Instrs)-1].(*ssa.If); ok {
				a := core.NormCond(ifi.Cond)
				if a.Op != token.EQL {
					return nil
				}
				var kc *ssa.Const
				if x, ok := a.X.(*ssa.Const); ok {
					kc = x
				} else if y, ok := a.Y.(*ssa.Const); ok {
					kc = y
				}
				idx := 0
				if a.Negated {
					idx = 1
				}
				if kc != nil && kc.Value != nil && p.Succs[idx] == b {
					return kc
				}
				return nil
			}
			b = p
		}
		return nil
	}
	core.AllInstrs(fn, func(in ssa.Instruction) {
		ret, ok := in.(*ssa.Return)
		if !ok {
			return
		}
		// `case K: return V`
		if k, isK := ret.Results[0].(*ssa.Const); isK && k.Value != nil {
			if kc := caseOf(ret.Block()); kc != nil {
				out[kc.Value.ExactString()] = k.Value.ExactString()
			}
			return
		}
		phi, ok := ret.Results[0].(*ssa.Phi)
		if !ok {
			return
		}
		for i, e := range phi.Edges {
			k, ok := e.(*ssa.Const)
			if !ok || k.Value == nil {
				continue
			}
			pred := phi.Block().Preds[i]
			// find the If whose equal edge leads to pred
			for hops := 0; hops < 2 && pred != nil; hops++ {
				if len(pred.Preds) != 1 {
					break
				}
				p := pred.Preds[0]
				if ifi, ok := p.Instrs[len(p.Instrs)-1].(*ssa.If); ok {
					a := core.NormCond(ifi.Cond)
					if a.Op == token.EQL {
						var kc *ssa.Const
						if x, ok := a.X.(*ssa.Const); ok {
							kc = x
						} else if y, ok := a.Y.(*ssa.Const); ok {
							kc = y
						}
						idx := 0
						if a.Negated {
							idx = 1
						}
						if kc != nil && kc.Value != nil && p.Succs[idx] == pred {
							out[kc.Value.ExactString()] = k.Value.ExactString()
						}
					}
					break
				}
				pred = p
			}
		}
	})
	return out
}

func (c *Ctx) checkEnumTables() {
	r := c.R
	r.Floor("C20.3-enum-tables", 2)
	// pairs of package-level functions f: string -> E and g: E -> string in the converter file
	var ser, des []*ssa.Function
	for _, fn := range c.P.ModFuncs {
		if !core.InPkg(fn, "server") || fn.Parent() != nil || !strings.Contains(c.P.Pos(fn.Pos()), "pbconverter.go") {
			continue
		}
		sig := fn.Signature
		if sig.Params().Len() != 1 || sig.Results().Len() != 1 {
			continue
		}
		pt, rt := sig.Params().At(0).Type(), sig.Results().At(0).Type()
		isStr := func(t types.Type) bool { b, ok := t.(*types.Basic); return ok && b.Kind() == types.String }
		isEnum := func(t types.Type) bool {
			n, ok := t.(*types.Named)
			if !ok {
				return false
			}
			b, ok := n.Underlying().(*types.Basic)
			return ok && b.Info()&types.IsInteger != 0
		}
		if isStr(pt) && isEnum(rt) {
			ser = append(ser, fn)
		} else if isEnum(pt) && isStr(rt) {
			des = append(des, fn)
		}
	}
	for _, s := range ser {
		for _, d := range des {
			if !types.Identical(s.Signature.Results().At(0).Type(), d.Signature.Params().At(0).Type()) {
				continue
			}
			r.Func(fk(s))
			r.Func(fk(d))
			ts, td := enumTable(s), enumTable(d)
			var bad []string
			isZeroPair := func(k, v string) bool { return (k == `""` && v == "0") || (k == "0" && v == `""`) }
			for k, v := range ts {
				if isZeroPair(k, v) {
					continue
				}
				if td[v] != k {
					bad = append(bad, fmt.Sprintf("%s -> %s but %s -> %s", k, v, v, td[v]))
				}
			}
			for k, v := range td {
				if isZeroPair(k, v) {
					continue
				}
				if ts[v] != k {
					bad = append(bad, fmt.Sprintf("%s -> %s but %s -> %s", k, v, v, ts[v]))
				}
			}
			sort.Strings(bad)
			r.Check(len(bad) == 0 && len(ts) > 0, "C20.3-enum-tables", fmt.Sprintf("%s <-> %s", fk(s), fk(d)), c.P.Pos(s.Pos()),
				fmt.Sprintf("%d entries, mutual inverses", len(ts)), fmt.Sprintf("the two tables are not inverse: %v", bad))
		}
	}
}

func (c *Ctx) checkUidCodec() {
	r := c.R
	r.Floor("C20.4-id-codec", 6)
	// constants
	b64 := func(n int64) int64 { return (n*8 + 5) / 6 }
	for _, k := range []struct {
		name  string
		bytes int64
	}{{"uidBase64Unpadded", 8}, {"p2pBase64Unpadded", 16}} {
		kc := c.konst("server/store/types", k.name)
		v, _ := constantInt64(kc)
		r.Check(v == b64(k.bytes), "C20.4-id-codec", fmt.Sprintf("%s == unpadded base64 length of %d bytes", k.name, k.bytes), c.P.Pos(kc.Pos()), fmt.Sprintf("%d", v), fmt.Sprintf("constant is %d, expected %d", v, b64(k.bytes)))
	}
	// UnmarshalText: store through the receiver behind length equality and count >= 8
	ut := c.ssaMethod("server/store/types", "Uid", "UnmarshalText")
	r.Func(fk(ut))
	uidLen := c.konst("server/store/types", "uidBase64Unpadded")
	srcP := ut.Params[1]
	var stores []*ssa.Store
	core.AllInstrs(ut, func(in ssa.Instruction) {
		if st, ok := in.(*ssa.Store); ok {
			if p, ok := st.Addr.(*ssa.Parameter); ok && p == ut.Params[0] {
				stores = append(stores, st)
			}
		}
	})
	r.Check(len(stores) > 0, "C20.4-id-codec", fk(ut)+": stores the decoded id through the receiver", "-", "", "UnmarshalText no longer assigns the receiver")
	for _, st := range stores {
		gLen := core.EqGuard("len(src)==uidBase64Unpadded", isLenOf(func(v ssa.Value) bool { return v == ssa.Value(srcP) }), core.IsConstOf(uidLen), true)
		ok, cnt := core.GuardedBy(ut, st, gLen)
		r.Check(ok && cnt[0] > 0, "C20.4-id-codec", fk(ut)+": assignment behind the exact length test", c.pos(st), "", "text of the wrong length can decode to a non-zero id")
		gCount := core.Guard{Name: "decoded count >= 8", Match: func(a core.CondAtom) (bool, bool) {
			if a.Op != token.LSS {
				return false, false
			}
			if !isDecodeCount(a.X, 0) {
				return false, false
			}
			if n, ok := core.ConstIntValue(a.Y); !ok || n != 8 {
				return false, false
			}
			return true, false
		}}
		ok, cnt = core.GuardedBy(ut, st, gCount)
		r.Check(ok && cnt[0] > 0, "C20.4-id-codec", fk(ut)+": assignment behind decoded-byte-count >= 8", c.pos(st), "", "text that decodes to fewer than 8 bytes (e.g. with characters the decoder skips) yields a non-zero, foreign id instead of the zero id")
	}
	ub := c.ssaMethod("server/store/types", "Uid", "UnmarshalBinary")
	r.Func(fk(ub))
	core.AllInstrs(ub, func(in ssa.Instruction) {
		if st, ok := in.(*ssa.Store); ok {
			if p, ok := st.Addr.(*ssa.Parameter); ok && p == ub.Params[0] {
				g := core.LessGuard("len(b)>=8", isLenOf(func(v ssa.Value) bool { return v == ssa.Value(ub.Params[1]) }), core.IsConstInt(8), false)
				ok2, cnt := core.GuardedBy(ub, st, g)
				r.Check(ok2 && cnt[0] > 0, "C20.4-id-codec", fk(ub)+": assignment behind len(b) >= 8", c.pos(st), "", "a short binary id is decoded")
			}
		}
	})
	// P2PName: both orders, empty for equal/zero
	pn := c.ssaMethod("server/store/types", "Uid", "P2PName")
	r.Func(fk(pn))
	emptyRet, nonEmpty := 0, 0
	hasLess := false
	core.AllInstrs(pn, func(in ssa.Instruction) {
		if ret, ok := in.(*ssa.Return); ok {
			if core.IsConstString("")(ret.Results[0]) {
				emptyRet++
			} else {
				nonEmpty++
			}
		}
		if ifi, ok := in.(*ssa.If); ok {
			// the two ids themselves are compared (conversions aside): an order computed from their
			// difference wraps around for ids 2^63 or more apart
			if a := core.NormCond(ifi.Cond); a.Op == token.LSS && len(pn.Params) == 2 {
				x, y := core.Strip(a.X), core.Strip(a.Y)
				p0, p1 := ssa.Value(pn.Params[0]), ssa.Value(pn.Params[1])
				if (x == p0 && y == p1) || (x == p1 && y == p0) {
					hasLess = true
				}
			}
		}
		// or the three-way comparison of the two ids (`switch uid.Compare(u2)`), itself a direct comparison
		if call, ok := in.(*ssa.Call); ok && len(pn.Params) == 2 && len(call.Call.Args) == 2 {
			g := call.Call.StaticCallee()
			x, y := core.Strip(call.Call.Args[0]), core.Strip(call.Call.Args[1])
			p0, p1 := ssa.Value(pn.Params[0]), ssa.Value(pn.Params[1])
			if g != nil && core.InModule(g) && len(g.Params) == 2 && ((x == p0 && y == p1) || (x == p1 && y == p0)) {
				if b, isB := g.Signature.Results().At(0).Type().Underlying().(*types.Basic); g.Signature.Results().Len() == 1 && isB && b.Info()&types.IsInteger != 0 {
					core.AllInstrs(g, func(in2 ssa.Instruction) {
						if ifi, ok := in2.(*ssa.If); ok {
							if a := core.NormCond(ifi.Cond); a.Op == token.LSS {
								gx, gy := core.Strip(a.X), core.Strip(a.Y)
								q0, q1 := ssa.Value(g.Params[0]), ssa.Value(g.Params[1])
								if (gx == q0 && gy == q1) || (gx == q1 && gy == q0) {
									hasLess = true
								}
							}
						}
					})
				}
			}
		}
	})
	r.Check(hasLess && nonEmpty >= 1 && emptyRet >= 1, "C20.4-id-codec", fk(pn)+": orders the two ids and yields \"\" for equal/zero ids", c.P.Pos(pn.Pos()), "", "the two ids are not ordered by comparing them directly (an order derived from arithmetic on them wraps around), or a name is produced for equal/zero ids")
	// prefix tables
	g2c := c.ssaFn("server/store/types", "GrpToChn")
	c2g := c.ssaFn("server/store/types", "ChnToGrp")
	consts := func(fn *ssa.Function) map[string]bool {
		out := map[string]bool{}
		core.AllInstrs(fn, func(in ssa.Instruction) {
			for _, op := range in.Operands(nil) {
				if op == nil || *op == nil {
					continue
				}
				if k, ok := (*op).(*ssa.Const); ok && k.Value != nil && k.Value.Kind() == constant.String {
					out[constant.StringVal(k.Value)] = true
				}
			}
		})
		return out
	}
	a, b := consts(g2c), consts(c2g)
	r.Check(a["grp"] && a["chn"] && b["grp"] && b["chn"], "C20.4-id-codec", "GrpToChn/ChnToGrp use the same grp/chn prefix pair", c.P.Pos(g2c.Pos()), "", "the group/channel prefix tables disagree")
}

// isDecodeCount: v is the byte count returned by an encoding's Decode, directly or handed up by a
// helper that returns it unchanged (`dec, count, err := decodeUnpadded(src, n)`).
func isDecodeCount(v ssa.Value, d int) bool {
	ex, ok := core.Strip(v).(*ssa.Extract)
	if !ok || d > 2 {
		return false
	}
	if ex.Index == 0 && strings.HasSuffix(calleeFullName(ex.Tuple), ".Decode") {
		return true
	}
	call, ok := ex.Tuple.(*ssa.Call)
	if !ok {
		return false
	}
	g := call.Call.StaticCallee()
	if g == nil || !core.InModule(g) || len(g.Blocks) == 0 {
		return false
	}
	n, all := 0, true
	core.AllInstrs(g, func(in ssa.Instruction) {
		if ret, isRet := in.(*ssa.Return); isRet && ex.Index < len(ret.Results) {
			n++
			if !isDecodeCount(ret.Results[ex.Index], d+1) {
				all = false
			}
		}
	})
	return all && n > 0
}
