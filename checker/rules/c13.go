package rules

import (
	"fmt"
	"go/constant"
	"go/token"
	"go/types"
	"strings"

	"golang.org/x/tools/go/ssa"

	"verifchk/core"
)

func init() { register("C13", checkC13) }

var validTopicPrefixes = []string{"usr", "p2p", "grp", "chn", "fnd", "sys"}

func checkC13(c *Ctx) {
	r := c.R
	r.Explanation = "Structural defences against client-triggered crashes and silent requests: (1) every call site of the partial functions types.GetTopicCat / topicCat (they slice name[:3] and panic on unknown prefixes) receives an argument whose provenance is safe: a constant with a valid prefix, the name of an initialised topic, a topic name loaded from the store, or a value dominated by a prefix test or by a non-empty store lookup made with that very name; parameters are lifted to the callers (depth 3); (2) every nullable registry lookup (GetLogicalAuthHandler, GetAuthHandler, GetValidator, GetMediaHandler, the store's media handler global) is proven non-nil on every nil-feasible path before a method is invoked on it, except lookups by a constant name that configuration makes mandatory (exception rows); (3) reply obligation (F-REPLY): in each session-level request handler every path from entry to return, not passing through a store failure edge, passes a reply (queueOut*) or a hand-off of the request to a consumer that owes the reply (send on Hub.join/routeCli/meta/unreg, Subscription.broadcast/meta/done); (4) the id argument of reply constructors in those handlers derives from the request's id; (6) the pre-login token authenticator slices the supplied secret only under a length test on the very bound of the slice (shared with C12); (5) census of explicit panic / log.Panic / log.Fatal sites reachable in the call graph from network-facing goroutine roots, compared with the reviewed table; (7) a function that merges the errors of several validation steps does not let a later step overwrite an earlier error unseen; (8) rich-text previews: a span built from a client's style is kept only behind start >= -1, end <= grapheme length and end >= start, and the entity list is indexed by the style's key only behind both bounds."
	r.NotDecided = []string{"arbitrary nil dereferences, index and slice bounds and type assertions over all inputs (in the drafty/grapheme preview rendering only the span and entity bounds of toTree are decided)", "replies owed by consumers further down than one level", "store failures"}
	r.Trusted = []string{"go/types, go/ssa, VTA call graph", "the database only holds topic names that were validated when created", "package-level configuration (media handler, auth handlers) is set once at start-up"}

	c.checkPartialCalls()
	c.checkNullableLookups()
	// the token authenticator slices attacker-supplied bytes before login: its length guard is part
	// of the crash defence (shared rule family with C12)
	// (only the gates that stand between attacker-supplied bytes and a panic: the length test on the
	// slice bound and the per-call MAC state; whether an expired or foreign token is accepted is C12's
	// and C11's business, not a crash)
	c.R.Scoped(func(rule, construct string) bool {
		return strings.Contains(construct, "length covers the signature slice") || rule == "C12.1b-token-slice-bounded" || rule == "C12.1d-token-key"
	}, c.checkTokenAuth)
	c.checkReplyObligation()
	c.checkPanicCensus()
	c.checkValidatorInitialised()
	c.checkDerefOfNullableResult()
	c.checkCompletionChannelSignalled("C13.3d-completion-reported-on-every-path")
	c.checkTopicRepliesAnswer()
	c.checkReplyWrappersEchoId()
	c.checkReplyGoesToItsRequest()
	c.checkReportedErrorNotOverwritten()
	c.checkDraftySpanBounds()
	c.checkFailureReplyCarriesTheFailure()
	c.checkClientMapValuesAssertedSafely()
	// a request whose in-flight slot is never released blocks every later request of the session
	c.checkInflightPairing()
	// a call party that is not a subscriber of the p2p topic makes Topic.original panic (D16) on the next event
	c.checkCallRoles()
}

// ---------------------------------------------------------------------------------------------
// (1) partial calls

func hasValidPrefix(s string) bool {
	for _, p := range validTopicPrefixes {
		if strings.HasPrefix(s, p) {
			return true
		}
	}
	return false
}

// prefixGuardOn: strings.HasPrefix(x, "<valid prefix>") == true on the same value x.
func prefixGuardOn(x ssa.Value) core.Guard {
	return core.Guard{Name: "HasPrefix(name, validPrefix)", Match: func(a core.CondAtom) (bool, bool) {
		if a.Op != token.ILLEGAL {
			return false, false
		}
		call, ok := a.Val.(*ssa.Call)
		if !ok {
			return false, false
		}
		f := core.CalleeOf(&call.Call)
		if f == nil || f.FullName() != "strings.HasPrefix" {
			return false, false
		}
		if !sameValue(call.Call.Args[0], x, 0) {
			return false, false
		}
		k, ok := call.Call.Args[1].(*ssa.Const)
		if !ok || k.Value == nil || k.Value.Kind() != constant.String || !hasValidPrefix(constant.StringVal(k.Value)) {
			return false, false
		}
		return true, true
	}}
}

// storeFoundGuards: guards "a store read keyed by x returned something": result != nil, or
// len(result) != 0.
func (c *Ctx) storeFoundGuards(fn *ssa.Function, x ssa.Value) []core.Guard {
	var gs []core.Guard
	core.AllInstrs(fn, func(in ssa.Instruction) {
		call, ok := in.(*ssa.Call)
		if !ok {
			return
		}
		if _, isStore := c.isStoreCall(call); !isStore {
			return
		}
		uses := false
		for _, a := range call.Call.Args {
			// the lookup is keyed by this name, possibly merged (phi) with its channel spelling
			if sameValue(a, x, 0) || core.Derives(a, func(v ssa.Value) bool { return sameValue(v, x, 0) }, false) {
				uses = true
			}
		}
		if !uses {
			return
		}
		res0 := errResultOf(call, 0)
		gs = append(gs, core.NilGuard("store lookup by this name found a record", res0, false))
		gs = append(gs, core.Guard{Name: "len(store result)!=0", Match: func(a core.CondAtom) (bool, bool) {
			if a.Op != token.EQL {
				return false, false
			}
			var l ssa.Value
			if core.IsConstInt(0)(a.X) {
				l = a.Y
			} else if core.IsConstInt(0)(a.Y) {
				l = a.X
			}
			if l == nil || !isLenCall(l) {
				return false, false
			}
			arg := l.(*ssa.Call).Call.Args[0]
			if core.Derives(arg, res0, false) {
				return true, false
			}
			return false, false
		}})
	})
	return gs
}

type partialVerdict struct {
	ok  bool
	why string
}

func (c *Ctx) nameIsSafe(fn *ssa.Function, site ssa.Instruction, x ssa.Value, depth int, seen map[*ssa.Function]bool) partialVerdict {
	topicName := c.E().topicField("name")
	subTopic := c.field("server/store/types", "Subscription", "Topic")
	perSubs := c.E().topicField("perSubs")
	x0 := core.Strip(x)
	// constants
	if k, ok := x0.(*ssa.Const); ok && k.Value != nil && k.Value.Kind() == constant.String {
		if hasValidPrefix(constant.StringVal(k.Value)) {
			return partialVerdict{true, "constant with a valid prefix"}
		}
		return partialVerdict{false, "constant without a valid topic prefix"}
	}
	if core.IsFieldLoad(topicName)(x0) {
		return partialVerdict{true, "Topic.name of an initialised topic"}
	}
	if call, ok := x0.(*ssa.Call); ok {
		if f := core.CalleeOf(&call.Call); f != nil && f.Pkg() != nil && f.Pkg().Path() == core.ModPath+"/server/store/types" {
			switch f.Name() {
			case "UserId", "FndName", "P2PName", "GrpToChn", "ChnToGrp":
				return partialVerdict{true, "name built by types." + f.Name() + " (valid prefix for a non-zero id; trusted: ids at these sites are of existing users)"}
			}
		}
	}
	if core.IsFieldLoad(subTopic)(x0) {
		return partialVerdict{true, "types.Subscription.Topic loaded from the store"}
	}
	// key of a range over Topic.perSubs
	if ex, ok := x0.(*ssa.Extract); ok {
		if nx, ok := ex.Tuple.(*ssa.Next); ok && ex.Index == 1 {
			if rg, ok := nx.Iter.(*ssa.Range); ok && core.IsFieldLoad(perSubs)(rg.X) {
				return partialVerdict{true, "key of Topic.perSubs (subscription topics from the store / names of peer topics)"}
			}
		}
	}
	// guards in this function
	gs := append([]core.Guard{prefixGuardOn(x0), c.channelGuardOn(x0)}, c.storeFoundGuards(fn, x0)...)
	if ok, cnt := core.GuardedBy(fn, site, gs...); ok {
		tot := 0
		for _, n := range cnt {
			tot += n
		}
		if tot > 0 {
			return partialVerdict{true, "dominated by a prefix test or a non-empty store lookup made with the same name"}
		}
	}
	// phi: all edges safe
	if phi, ok := x0.(*ssa.Phi); ok {
		for i, e := range phi.Edges {
			pred := phi.Block().Preds[i]
			at := pred.Instrs[len(pred.Instrs)-1]
			if v := c.nameIsSafe(fn, at, e, depth, seen); !v.ok {
				return v
			}
		}
		return partialVerdict{true, "all incoming values safe"}
	}
	// parameter: lift to callers
	if p, ok := x0.(*ssa.Parameter); ok && depth < 3 {
		idx := -1
		for i, q := range fn.Params {
			if q == p {
				idx = i
			}
		}
		callers := c.callersOf(fn)
		if len(callers) == 0 || idx < 0 || seen[fn] {
			return partialVerdict{false, "parameter of a function without resolvable callers"}
		}
		seen[fn] = true
		for _, cs := range callers {
			args := cs.Site.Common().Args
			if cs.Site.Common().IsInvoke() {
				args = append([]ssa.Value{cs.Site.Common().Value}, args...)
			}
			if idx >= len(args) {
				return partialVerdict{false, "call site with unexpected arity in " + fk(cs.Caller)}
			}
			v := c.nameIsSafe(cs.Caller, cs.Site, args[idx], depth+1, seen)
			if !v.ok {
				return partialVerdict{false, "via caller " + fk(cs.Caller) + " (" + c.pos(cs.Site) + "): " + v.why}
			}
		}
		return partialVerdict{true, "safe at every caller"}
	}
	return partialVerdict{false, "argument " + describeName(c, x0) + " is not a validated topic name: no dominating prefix test or store lookup, not a loaded topic's name"}
}

func describeName(c *Ctx, v ssa.Value) string {
	if f, _ := core.LoadedField(v); f != nil {
		return "field " + f.Name()
	}
	return v.Name() + " (" + v.Type().String() + ")"
}

func (c *Ctx) checkPartialCalls() {
	r := c.R
	getCat := c.fn("server/store/types", "GetTopicCat")
	// partial-ness is established from the body: slices its parameter with a constant bound and
	// reaches an explicit panic.
	gc := c.P.SSAFunc(getCat)
	hasPanic, hasSlice := false, false
	core.AllInstrs(gc, func(in ssa.Instruction) {
		if _, ok := in.(*ssa.Panic); ok {
			hasPanic = true
		}
		if sl, ok := in.(*ssa.Slice); ok {
			if _, isP := sl.X.(*ssa.Parameter); isP {
				hasSlice = true
			}
		}
	})
	r.Info("C13.1-partial-call", "types.GetTopicCat is partial", c.P.Pos(gc.Pos()), fmt.Sprintf("explicit panic=%v unguarded slice of parameter=%v", hasPanic, hasSlice))
	partial := map[*ssa.Function]bool{gc: true}
	// wrappers that pass a parameter straight to a partial function are partial too
	for changed := true; changed; {
		changed = false
		for _, fn := range c.P.ModFuncs {
			if partial[fn] || fn.Parent() != nil {
				continue
			}
			core.AllInstrs(fn, func(in ssa.Instruction) {
				call, ok := in.(*ssa.Call)
				if !ok {
					return
				}
				cal := call.Call.StaticCallee()
				if cal == nil || !partial[cal] || len(call.Call.Args) == 0 {
					return
				}
				if _, isParam := core.Strip(call.Call.Args[0]).(*ssa.Parameter); isParam && len(fn.Blocks) == 1 {
					partial[fn] = true
					changed = true
				}
			})
		}
	}
	r.Floor("C13.1-partial-call", 5)
	for _, fn := range c.P.ModFuncs {
		if partial[fn] {
			continue
		}
		inScope := core.InPkg(fn, "server") || core.InPkg(fn, "server/store")
		core.AllInstrs(fn, func(in ssa.Instruction) {
			call, ok := in.(*ssa.Call)
			if !ok {
				return
			}
			cal := call.Call.StaticCallee()
			if cal == nil || !partial[cal] {
				return
			}
			if !inScope {
				// database adapters and push plug-ins receive names from the server layer, whose own
				// sites are decided here; their sites are listed, not decided
				r.Info("C13.1-partial-call", fk(fn)+": downstream call "+cal.Name(), c.pos(call), "not decided: argument comes from the server layer")
				return
			}
			r.CallSites++
			r.Func(fk(fn))
			construct := fk(fn) + ": call " + cal.Name() + "(" + describeName(c, core.Strip(call.Call.Args[0])) + ")"
			v := c.nameIsSafe(fn, call, call.Call.Args[0], 0, map[*ssa.Function]bool{})
			r.Check(v.ok, "C13.1-partial-call", construct, c.pos(call), v.why, "a client-controlled name can reach a function that panics on short/unknown names: "+v.why)
		})
	}
	// summaries of the guard wrappers used above
	isChanFn := c.ssaFn("server/store/types", "IsChannel")
	okIC := false
	core.AllInstrs(isChanFn, func(in ssa.Instruction) {
		if ret, ok := in.(*ssa.Return); ok && len(ret.Results) == 1 {
			if call, ok := ret.Results[0].(*ssa.Call); ok {
				if f := core.CalleeOf(&call.Call); f != nil && f.FullName() == "strings.HasPrefix" {
					if k, ok := call.Call.Args[1].(*ssa.Const); ok && k.Value != nil && hasValidPrefix(constant.StringVal(k.Value)) {
						okIC = true
					}
				}
			}
		}
	})
	r.Check(okIC, "C13.1c-guard-summary", "types.IsChannel returns HasPrefix(name, <valid prefix>)", c.P.Pos(isChanFn.Pos()), "", "IsChannel no longer implies a valid topic prefix")
	vca := c.ssaMethod("server", "Topic", "verifyChannelAccess")
	okV := true
	nTrue := 0
	isChanObj := c.fn("server/store/types", "IsChannel")
	core.AllInstrs(vca, func(in ssa.Instruction) {
		ret, ok := in.(*ssa.Return)
		if !ok {
			return
		}
		if k, ok := ret.Results[0].(*ssa.Const); ok && k.Value != nil && !constant.BoolVal(k.Value) {
			return
		}
		nTrue++
		g := core.BoolGuard("IsChannel(arg)", core.IsCallTo(isChanObj, func(v ssa.Value) bool { _, isP := v.(*ssa.Parameter); return isP }), true)
		if ok2, cnt := core.GuardedBy(vca, ret, g); !ok2 || cnt[0] == 0 {
			okV = false
		}
	})
	r.Check(okV && nTrue > 0, "C13.1c-guard-summary", "Topic.verifyChannelAccess returns true only behind IsChannel(arg)", c.P.Pos(vca.Pos()), "", "verifyChannelAccess can return true for a name that is not a channel name")
}

// ---------------------------------------------------------------------------------------------
// (2) nullable lookups

func (c *Ctx) checkNullableLookups() {
	r := c.R
	lookups := []*types.Func{
		c.method("server/store", "PersistentStorageInterface", "GetLogicalAuthHandler"),
		c.method("server/store", "PersistentStorageInterface", "GetAuthHandler"),
		c.method("server/store", "PersistentStorageInterface", "GetValidator"),
		c.method("server/store", "PersistentStorageInterface", "GetMediaHandler"),
	}
	mediaGlobal := c.global("server/store", "mediaHandler")
	isLookup := func(call *ssa.Call) *types.Func {
		f := core.CalleeOf(&call.Call)
		for _, l := range lookups {
			if f == l {
				return l
			}
		}
		// concrete storeObj methods called directly inside package store
		if f != nil && f.Pkg() != nil && f.Pkg().Path() == core.ModPath+"/server/store" {
			for _, l := range lookups {
				if f.Name() == l.Name() {
					if sig, ok := f.Type().(*types.Signature); ok && sig.Recv() != nil {
						return l
					}
				}
			}
		}
		return nil
	}
	r.Floor("C13.2-nullable-lookup", 15)
	getAuthNames := c.method("server/store", "PersistentStorageInterface", "GetAuthNames")
	validatorsF := c.globalStructField("server", "globals", "validators")
	normCreds := c.fn("server", "normalizeCredentials")
	ri := c.roots()
	for _, fn := range c.P.ModFuncs {
		if !(core.InPkg(fn, "server") || core.InPkg(fn, "server/store")) {
			continue
		}
		type source struct {
			val  ssa.Value
			name string
			arg  ssa.Value
		}
		var srcs []source
		core.AllInstrs(fn, func(in ssa.Instruction) {
			switch x := in.(type) {
			case *ssa.Call:
				if l := isLookup(x); l != nil {
					var arg ssa.Value
					as := core.CallArgs(&x.Call)
					if len(as) > 1 {
						arg = as[1]
					}
					srcs = append(srcs, source{x, l.Name(), arg})
				}
			case *ssa.UnOp:
				if g, ok := x.X.(*ssa.Global); ok && x.Op == token.MUL && g.Object() == mediaGlobal {
					srcs = append(srcs, source{x, "store.mediaHandler", nil})
				}
			}
		})
		if len(srcs) == 0 {
			continue
		}
		type use struct {
			src source
			u   ssa.CallInstruction
		}
		var uses []use
		for _, s := range srcs {
			for _, u := range invokeUsesOf(s.val) {
				uses = append(uses, use{s, u})
			}
		}
		if len(uses) == 0 {
			continue
		}
		r.Func(fk(fn))
		// one nil-sensitive walk from the entry; record for each use whether some path reaches it
		// with the receiver not known non-nil
		badUse := map[ssa.Instruction]bool{}
		res := core.NilWalk(fn, nil, nil, nil, func(in ssa.Instruction, f core.NilFacts) {
			for _, us := range uses {
				if in == us.u.(ssa.Instruction) {
					if k, n := core.Nilness(us.u.Common().Value, f); !(k && !n) {
						badUse[in] = true
					}
				}
			}
		})
		// goroutine roots: start-up only code and HTTP handlers are exceptions
		roots := ri.of(fn)
		onlyStartup, onlyHTTP := true, true
		for rt := range roots {
			if !(rt.Name() == "main" || rt.Name() == "init" || strings.HasPrefix(rt.Name(), "init#")) {
				onlyStartup = false
			}
			if !isHTTPHandlerSig(rt.Signature) {
				onlyHTTP = false
			}
		}
		for _, us := range uses {
			construct := fmt.Sprintf("%s: %s result used as receiver of %s", fk(fn), us.src.name, us.u.Common().Method.Name())
			pos := c.pos(us.u)
			if !badUse[us.u.(ssa.Instruction)] && !res.Overflow {
				r.OK("C13.2-nullable-lookup", construct, pos, "receiver proven non-nil on every nil-feasible path")
				continue
			}
			// exception rows, each keyed by one typed fact
			if us.src.arg != nil {
				if k, ok := core.Strip(us.src.arg).(*ssa.Const); ok && k.Value != nil && k.Value.Kind() == constant.String && constant.StringVal(k.Value) == "token" {
					r.OK("C13.2-nullable-lookup", construct+" [constant \"token\"]", pos, "exception: the token authenticator is mandatory (server refuses to start without it)")
					continue
				}
				if us.src.name == "GetLogicalAuthHandler" && rangesOverCallResult(us.src.arg, getAuthNames) {
					r.OK("C13.2-nullable-lookup", construct+" [name from GetAuthNames]", pos, "exception: GetAuthNames lists only names whose logical handler is non-nil (summary checked)")
					continue
				}
				if us.src.name == "GetValidator" && (rangesOverField(us.src.arg, validatorsF) || c.methodOfNormalizedCred(fn, us.src.arg, normCreds, 0)) {
					r.OK("C13.2-nullable-lookup", construct+" [configured validator name]", pos, "exception: name is a key of globals.validators / a credential method kept by normalizeCredentials (summary checked)")
					continue
				}
			}
			if us.src.arg == nil && us.src.name == "store.mediaHandler" {
				// the test sits in every caller (`if mediaHandler != nil { ids := attachmentFileIds(urls) }`);
				// the global is assigned once at start-up (trusted), so the caller's test covers the helper's load
				isMedia := func(v ssa.Value) bool {
					u, ok := core.Strip(v).(*ssa.UnOp)
					if !ok || u.Op != token.MUL {
						return false
					}
					g, ok := u.X.(*ssa.Global)
					return ok && g.Object() == mediaGlobal
				}
				callers := c.callersOf(fn)
				all := len(callers) > 0
				for _, cs := range callers {
					saved := core.NoLift
					core.NoLift = true
					okG, cnt := core.GuardedBy(cs.Caller, cs.Site.(ssa.Instruction), core.NilGuard("mediaHandler != nil", isMedia, false))
					core.NoLift = saved
					if !(okG && cnt[0] > 0) {
						all = false
					}
				}
				if all {
					r.OK("C13.2-nullable-lookup", construct+" [tested by every caller]", pos, "every call site of the helper is behind mediaHandler != nil")
					continue
				}
			}
			if onlyStartup {
				r.OK("C13.2-nullable-lookup", construct+" [start-up]", pos, "exception: runs only on the main goroutine before serving (configuration error, not client input)")
				continue
			}
			if onlyHTTP {
				r.OK("C13.2-nullable-lookup", construct+" [http handler]", pos, "exception: runs only inside net/http handlers, which are registered only when media is configured and whose panics net/http recovers per connection")
				continue
			}
			r.Fail("C13.2-nullable-lookup", construct, pos, "a nil handler (unknown or unconfigured name) can reach a method call: nil dereference in a network-facing goroutine")
		}
	}
	// summaries backing the exception rows
	c.checkRegistrySummaries(getAuthNames, validatorsF, normCreds)
}

func isHTTPHandlerSig(sig *types.Signature) bool {
	if sig.Params().Len() != 2 {
		return false
	}
	return sig.Params().At(0).Type().String() == "net/http.ResponseWriter" && sig.Params().At(1).Type().String() == "*net/http.Request"
}

// rangesOverCallResult: v is the element of a range over the slice returned by callee.
func rangesOverCallResult(v ssa.Value, callee *types.Func) bool {
	v = core.Strip(v)
	// for _, name := range slice  ==>  name = *(&slice[i])  (IndexAddr on the slice)
	if u, ok := v.(*ssa.UnOp); ok && u.Op == token.MUL {
		if ia, ok := u.X.(*ssa.IndexAddr); ok {
			return core.Derives(ia.X, core.IsCallTo(callee), true)
		}
	}
	return false
}

// rangesOverField: v is the key of a range over a map held in field f.
func rangesOverField(v ssa.Value, f *types.Var) bool {
	v = core.Strip(v)
	if ex, ok := v.(*ssa.Extract); ok && ex.Index == 1 {
		if nx, ok := ex.Tuple.(*ssa.Next); ok {
			if rg, ok := nx.Iter.(*ssa.Range); ok {
				return core.IsFieldLoad(f)(rg.X)
			}
		}
	}
	return false
}

// methodOfNormalizedCred: v is <elem>.Method where elem is an element of a slice that derives
// from normalizeCredentials(...) (possibly through a parameter: lifted to callers, depth 2).
func (c *Ctx) methodOfNormalizedCred(fn *ssa.Function, v ssa.Value, norm *types.Func, depth int) bool {
	v = core.Strip(v)
	u, ok := v.(*ssa.UnOp)
	if !ok || u.Op != token.MUL {
		return false
	}
	fa, ok := u.X.(*ssa.FieldAddr)
	if !ok {
		return false
	}
	if f, _ := core.FieldOfAddr(fa); f == nil || f.Name() != "Method" {
		return false
	}
	ia, ok := fa.X.(*ssa.IndexAddr)
	if !ok {
		return false
	}
	return c.sliceFromNormalize(fn, ia.X, norm, depth)
}

func (c *Ctx) sliceFromNormalize(fn *ssa.Function, sl ssa.Value, norm *types.Func, depth int) bool {
	if core.Derives(sl, core.IsCallTo(norm), true) {
		return true
	}
	p, ok := core.Strip(sl).(*ssa.Parameter)
	if !ok || depth >= 2 {
		return false
	}
	idx := -1
	for i, q := range fn.Params {
		if q == p {
			idx = i
		}
	}
	callers := c.callersOf(fn)
	if idx < 0 || len(callers) == 0 {
		return false
	}
	for _, cs := range callers {
		args := cs.Site.Common().Args
		if idx >= len(args) || !c.sliceFromNormalize(cs.Caller, args[idx], norm, depth+1) {
			return false
		}
	}
	return true
}

func (c *Ctx) checkRegistrySummaries(getAuthNames *types.Func, validatorsF *types.Var, normCreds *types.Func) {
	r := c.R
	// GetAuthNames: every append to the returned slice is behind GetLogicalAuthHandler(name) != nil
	impl := c.ssaMethod("server/store", "storeObj", "GetAuthNames")
	okA, nApp := true, 0
	core.AllInstrs(impl, func(in ssa.Instruction) {
		call, ok := in.(*ssa.Call)
		if !ok {
			return
		}
		b, ok := call.Call.Value.(*ssa.Builtin)
		if !ok || b.Name() != "append" {
			return
		}
		if _, isStr := call.Type().Underlying().(*types.Slice); !isStr {
			return
		}
		nApp++
		g := core.Guard{Name: "GetLogicalAuthHandler(name)!=nil", Match: func(a core.CondAtom) (bool, bool) {
			if a.Op != token.EQL {
				return false, false
			}
			var o ssa.Value
			if core.IsNil(a.X) {
				o = a.Y
			} else if core.IsNil(a.Y) {
				o = a.X
			}
			if o == nil {
				return false, false
			}
			if cl, ok := o.(*ssa.Call); ok {
				if f := core.CalleeOf(&cl.Call); f != nil && f.Name() == "GetLogicalAuthHandler" {
					return true, false
				}
			}
			return false, false
		}}
		if ok2, cnt := core.GuardedBy(impl, call, g); !ok2 || cnt[0] == 0 {
			okA = false
		}
	})
	r.Check(okA && nApp > 0, "C13.2b-registry-summary", "storeObj.GetAuthNames lists only names with a non-nil logical handler", c.P.Pos(impl.Pos()), "", "GetAuthNames can list a name whose logical handler is nil")
	// normalizeCredentials: entries are kept only when globals.validators has the method
	nc := c.ssaFn("server", "normalizeCredentials")
	okN, nUpd := true, 0
	core.AllInstrs(nc, func(in ssa.Instruction) {
		mu, ok := in.(*ssa.MapUpdate)
		if !ok {
			return
		}
		nUpd++
		g := core.Guard{Name: "_, ok := globals.validators[method]; ok", Match: func(a core.CondAtom) (bool, bool) {
			if a.Op != token.ILLEGAL {
				return false, false
			}
			ex, ok := a.Val.(*ssa.Extract)
			if !ok || ex.Index != 1 {
				return false, false
			}
			lk, ok := ex.Tuple.(*ssa.Lookup)
			if !ok || !core.IsFieldLoad(validatorsF)(lk.X) {
				return false, false
			}
			return true, true
		}}
		if ok2, cnt := core.GuardedBy(nc, mu, g); !ok2 || cnt[0] == 0 {
			okN = false
		}
	})
	r.Check(okN && nUpd > 0, "C13.2b-registry-summary", "normalizeCredentials keeps only methods present in globals.validators", c.P.Pos(nc.Pos()), "", "normalizeCredentials can keep a credential whose validator is not configured")
	// globals.validators is populated only in main after GetValidator(name) != nil
	nW := 0
	okW := true
	for _, a := range c.censusField(validatorsF) {
		if a.Kind != "mapupdate" {
			continue
		}
		nW++
		if core.TopFunc(a.Fn).Name() != "main" {
			okW = false
		}
	}
	r.Check(okW && nW > 0, "C13.2b-registry-summary", "globals.validators is filled only by main (after validator initialisation)", "-", "", "globals.validators is written outside start-up")
}

// invokeUsesOf lists interface method invocations whose receiver is v or a phi/change-interface of v.
func invokeUsesOf(v ssa.Value) []ssa.CallInstruction {
	var out []ssa.CallInstruction
	seen := map[ssa.Value]bool{}
	var walk func(x ssa.Value)
	walk = func(x ssa.Value) {
		if seen[x] || x.Referrers() == nil {
			return
		}
		seen[x] = true
		for _, ref := range *x.Referrers() {
			switch y := ref.(type) {
			case ssa.CallInstruction:
				if y.Common().IsInvoke() && y.Common().Value == x {
					out = append(out, y)
				}
			case *ssa.Phi:
				walk(y)
			case *ssa.ChangeInterface:
				walk(y)
			}
		}
	}
	walk(v)
	return out
}

// channelGuardOn: types.IsChannel(x)==true or (*Topic).verifyChannelAccess(x) #0 == true
// (the latter returns true only through types.IsChannel of its argument; summarised below).
func (c *Ctx) channelGuardOn(x ssa.Value) core.Guard {
	isChan := c.fn("server/store/types", "IsChannel")
	vca := c.method("server", "Topic", "verifyChannelAccess")
	return core.Guard{Name: "IsChannel(name)", Match: func(a core.CondAtom) (bool, bool) {
		if a.Op != token.ILLEGAL {
			return false, false
		}
		v := a.Val
		if ex, ok := v.(*ssa.Extract); ok && ex.Index == 0 {
			v = ex.Tuple
		}
		call, ok := v.(*ssa.Call)
		if !ok {
			return false, false
		}
		f := core.CalleeOf(&call.Call)
		if f != isChan && f != vca {
			return false, false
		}
		args := call.Call.Args
		if !sameValue(args[len(args)-1], x, 0) {
			return false, false
		}
		return true, true
	}}
}
