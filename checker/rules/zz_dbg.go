package rules

import (
	"fmt"

	"golang.org/x/tools/go/ssa"

	"verifchk/core"
)

func DebugClamp(p *core.Prog) {
	c := &Ctx{P: p}
	recvOut := p.Field("server", "MsgTopicDesc", "RecvSeqId")
	fmt.Println("field", recvOut)
	for _, fn := range p.ModFuncs {
		if fn.Name() != "replyGetDesc" {
			continue
		}
		core.AllInstrs(fn, func(in ssa.Instruction) {
			if st, ok := in.(*ssa.Store); ok {
				if g, _ := core.FieldOfAddr(st.Addr); g != nil && g.Name() == "RecvSeqId" {
					fmt.Println("store", g, g == recvOut, st.Val, c.P.Pos(st.Pos()))
				}
			}
		})
	}
}
